From CB Require Import Word Word_proofs PMem PMem_proofs HHeap HItems.
From Coq Require Import Lia ZArith ZifyBool ZifyN ZifyNat.
Local Open Scope N_scope.
Ltac Zify.zify_post_hook ::= Z.div_mod_to_equations.
Set Default Proof Using "Type".   (* section variables enter a lemma only through its statement *)

(* Model H, containers: per-operation specifications of arrays, maps and chunked strings.
   C12 (containers behave as bounded / unbounded sequences), the container part of C06 (an
   allocation failure is reported cleanly and atomically) and C20_growth end to end. *)

(* ------------------------------------------------------------------ *)
(* 0. vocabulary                                                        *)

(* only the logs and the request counter may differ *)
Definition same_heap (w w' : world) : Prop := heap w' = heap w /\ next w' = next w.
(* the heap agrees everywhere except at the listed addresses *)
Definition heap_but (l : list addr) (w w' : world) : Prop :=
  forall b, ~ In b l -> heap w' b = heap w b.
(* pointwise equal heaps *)
Definition heap_eq (w w' : world) : Prop := forall b, heap w' b = heap w b.
(* no write access is added to the access log *)
Definition no_new_write (w w' : world) : Prop := forall b, In (AccW b) (alog w') -> In (AccW b) (alog w).
(* nothing at or above the bump pointer is live: holds of [world0], preserved by every operation *)
Definition wf (w : world) : Prop := forall b, next w <= b -> heap w b = None.
Definition is_item (w : world) (a : addr) : Prop := exists rc n, heap w a = Some (CItem rc n).
Definition is_data (w : world) (a : addr) : Prop := exists sz, heap w a = Some (CData sz).

(* world transformers: the effect of each primitive, as a term *)
Definition w_log (x : access) (w : world) : world :=
  mkworld (heap w) (next w) (nreq w) (trace w) (x :: alog w).
Definition w_set (a : addr) (c : cell) (w : world) : world :=
  mkworld (upd (heap w) a (Some c)) (next w) (nreq w) (trace w) (AccW a :: alog w).
Definition w_refused (e : event) (w : world) : world :=
  mkworld (heap w) (next w) (nreq w + 1) (e :: trace w) (alog w).
Definition w_malloc (size : N) (c : cell) (w : world) : world :=
  mkworld (upd (heap w) (next w) (Some c)) (next w + 1) (nreq w + 1)
          (EvMalloc size (Some (next w)) :: trace w) (alog w).
Definition w_realloc (old : option addr) (size : N) (w : world) : world :=
  mkworld (upd (match old with Some o => upd (heap w) o None | None => heap w end)
               (next w) (Some (CData size)))
          (next w + 1) (nreq w + 1) (EvRealloc old size (Some (next w)) :: trace w) (alog w).
Definition w_free (a : addr) (w : world) : world :=
  mkworld (upd (heap w) a None) (next w) (nreq w) (EvFree (Some a) :: trace w) (alog w).
Definition w_incref (x : addr) (rc : N) (n : node) (w : world) : world :=
  w_set x (CItem (wrap64 (rc + 1)) n) (w_log (AccR x) w).

Ltac wsimpl := cbn [heap next nreq trace alog w_log w_set w_refused w_malloc w_realloc w_free w_incref].
Ltac wsimpl_in H := cbn [heap next nreq trace alog w_log w_set w_refused w_malloc w_realloc w_free w_incref] in H.

Lemma upd_same h a c : upd h a c a = c.
Proof. unfold upd. rewrite N.eqb_refl. reflexivity. Qed.
Lemma upd_other h a c b : b <> a -> upd h a c b = h b.
Proof. intros H. unfold upd. destruct (N.eqb_spec b a); [contradiction | reflexivity]. Qed.

Lemma wf_world0 : wf world0.
Proof. intros b _. reflexivity. Qed.

Lemma same_heap_refl w : same_heap w w.
Proof. split; reflexivity. Qed.

(* ------------------------------------------------------------------ *)
(* 1. the monad and the primitives: one equation each                   *)

Lemma bind_Ret {A B} (m : M A) (f : A -> M B) w a w' :
  m w = Ret a w' -> bind m f w = f a w'.
Proof. intros H. unfold bind. rewrite H. reflexivity. Qed.
Lemma bind_Fault {A B} (m : M A) (f : A -> M B) w k :
  m w = Fault k -> bind m f w = Fault k.
Proof. intros H. unfold bind. rewrite H. reflexivity. Qed.
Lemma ret_eq {A} (a : A) w : ret a w = Ret a w.
Proof. reflexivity. Qed.

Lemma rd_item_spec a w rc n :
  heap w a = Some (CItem rc n) -> rd_item a w = Ret (rc, n) (w_log (AccR a) w).
Proof. intros H. unfold rd_item. rewrite H. reflexivity. Qed.

Lemma wr_item_spec a rc n w rc0 n0 :
  heap w a = Some (CItem rc0 n0) -> wr_item a rc n w = Ret tt (w_set a (CItem rc n) w).
Proof. intros H. unfold wr_item. rewrite H. reflexivity. Qed.

Lemma touch_data_spec wr d w sz :
  heap w d = Some (CData sz) ->
  touch_data wr (Some d) w = Ret tt (w_log (if wr then AccW d else AccR d) w).
Proof. intros H. unfold touch_data. rewrite H. reflexivity. Qed.

Lemma touch_data_null wr w : touch_data wr None w = Fault FNull.
Proof. reflexivity. Qed.

Lemma incref_spec x w rc n :
  heap w x = Some (CItem rc n) -> incref x w = Ret x (w_incref x rc n w).
Proof.
  intros H. unfold incref.
  rewrite (bind_Ret _ _ _ _ _ (rd_item_spec x w rc n H)). cbn [fst snd].
  rewrite (bind_Ret _ _ _ tt (w_incref x rc n w)); [reflexivity|].
  apply wr_item_spec with (rc0 := rc) (n0 := n). exact H.
Qed.

Section Prims.
Variable refuse : N -> N -> bool.

Lemma malloc_refused size c w :
  refuse (nreq w) size = true ->
  malloc refuse size c w = Ret None (w_refused (EvMalloc size None) w).
Proof. intros H. unfold malloc. rewrite H. reflexivity. Qed.

Lemma malloc_granted size c w :
  refuse (nreq w) size = false ->
  malloc refuse size c w = Ret (Some (next w)) (w_malloc size c w).
Proof. intros H. unfold malloc. rewrite H. reflexivity. Qed.

Definition data_ok (w : world) (p : option addr) : Prop :=
  match p with Some d => is_data w d | None => True end.

Lemma realloc_bad_ok w old : data_ok w old -> realloc_bad old w = None.
Proof.
  destruct old as [o|]; [|reflexivity]. intros [sz H]. unfold realloc_bad. rewrite H. reflexivity.
Qed.

Lemma realloc_refused old size w :
  data_ok w old -> refuse (nreq w) size = true ->
  realloc refuse old size w = Ret None (w_refused (EvRealloc old size None) w).
Proof. intros Hd H. unfold realloc. rewrite (realloc_bad_ok w old Hd), H. reflexivity. Qed.

Lemma realloc_granted old size w :
  data_ok w old -> refuse (nreq w) size = false ->
  realloc refuse old size w = Ret (Some (next w)) (w_realloc old size w).
Proof. intros Hd H. unfold realloc. rewrite (realloc_bad_ok w old Hd), H. reflexivity. Qed.

Lemma free_spec a w c :
  heap w a = Some c -> free (Some a) w = Ret tt (w_free a w).
Proof. intros H. unfold free. rewrite H. reflexivity. Qed.

End Prims.

(* one step of symbolic execution: [mstep L] consumes the head action of a bind using the
   equation [L : m w = Ret a w'] *)
Ltac mstep L :=
  match goal with
  | |- bind ?m ?f ?w = _ => rewrite (bind_Ret m f w _ _ L); cbn [fst snd]
  end.

(* ------------------------------------------------------------------ *)
(* 2. arrays                                                            *)

Section Arrays.
Variable refuse : N -> N -> bool.

(* the world after a push that needs no growth *)
Definition w_push (a : addr) (rc : N) (nd : node) (d x rcx : addr) (nx : node) (w : world) : world :=
  w_incref x rcx nx (w_set a (CItem rc nd) (w_log (AccW d) (w_log (AccR a) w))).

Lemma cell_neq w a b ca cb : heap w a = Some ca -> heap w b = Some cb -> ca <> cb -> a <> b.
Proof. intros Ha Hb Hne E. subst b. rewrite Ha in Hb. injection Hb as E. contradiction. Qed.

Lemma item_data_neq w a d rc n sz :
  heap w a = Some (CItem rc n) -> heap w d = Some (CData sz) -> a <> d.
Proof. intros Ha Hd. eapply cell_neq; eauto. discriminate. Qed.

(* 2.1 definite arrays: a bounded sequence *)
Theorem push_definite_full a x w rc d allocated elems :
  heap w a = Some (CItem rc (NArr false d allocated elems)) ->
  allocated <= len elems ->
  array_push refuse a x w = Ret false (w_log (AccR a) w).
Proof.
  intros Ha Hfull. unfold array_push.
  mstep (rd_item_spec a w _ _ Ha).
  destruct (N.leb_spec allocated (len elems)) as [_|L]; [reflexivity | lia].
Qed.

Theorem push_definite_room a x w rc d sz allocated elems rcx nx :
  heap w a = Some (CItem rc (NArr false (Some d) allocated elems)) ->
  heap w d = Some (CData sz) ->
  heap w x = Some (CItem rcx nx) ->
  a <> x ->
  len elems < allocated ->
  array_push refuse a x w =
  Ret true (w_push a rc (NArr false (Some d) allocated (elems ++ [x])) d x rcx nx w).
Proof.
  intros Ha Hd Hx Hax Hroom. unfold array_push.
  mstep (rd_item_spec a w _ _ Ha).
  destruct (N.leb_spec allocated (len elems)) as [L|_]; [lia|].
  mstep (touch_data_spec true d (w_log (AccR a) w) sz Hd).
  match goal with |- bind (wr_item a rc ?n) _ ?w1 = _ =>
    mstep (wr_item_spec a rc n w1 _ _ Ha) end.
  match goal with |- bind (incref x) _ ?w1 = _ =>
    assert (Hx1 : heap w1 x = Some (CItem rcx nx)) by (wsimpl; rewrite upd_other by congruence; exact Hx);
    mstep (incref_spec x w1 rcx nx Hx1) end.
  reflexivity.
Qed.

(* what a push without growth does to the world *)
Lemma w_push_props a rc nd d x rcx nx w :
  a <> x ->
  let w' := w_push a rc nd d x rcx nx w in
  heap w' a = Some (CItem rc nd) /\
  heap w' x = Some (CItem (wrap64 (rcx + 1)) nx) /\
  heap_but [a; x] w w' /\
  next w' = next w /\ nreq w' = nreq w /\ trace w' = trace w.
Proof. clear refuse.
  intros Hax w'. subst w'. unfold w_push. wsimpl.
  split; [rewrite upd_other by exact Hax; apply upd_same|].
  split; [apply upd_same|].
  split; [|repeat split].
  intros b Hb. cbn [In] in Hb. wsimpl.
  rewrite !upd_other by (intros E; apply Hb; subst; tauto). reflexivity.
Qed.

(* the statement asked for, in one piece *)
Theorem push_definite a x w rc d sz allocated elems rcx nx :
  heap w a = Some (CItem rc (NArr false (Some d) allocated elems)) ->
  heap w d = Some (CData sz) ->
  heap w x = Some (CItem rcx nx) ->
  a <> x ->
  exists w',
    (allocated <= len elems ->
       array_push refuse a x w = Ret false w' /\ same_heap w w' /\
       no_new_write w w' /\ trace w' = trace w /\ nreq w' = nreq w) /\
    (len elems < allocated ->
       array_push refuse a x w = Ret true w' /\
       heap w' a = Some (CItem rc (NArr false (Some d) allocated (elems ++ [x]))) /\
       heap w' x = Some (CItem (wrap64 (rcx + 1)) nx) /\
       heap_but [a; x] w w' /\
       next w' = next w /\ nreq w' = nreq w /\ trace w' = trace w).
Proof.
  intros Ha Hd Hx Hax.
  destruct (N.le_gt_cases allocated (len elems)) as [L|L].
  - exists (w_log (AccR a) w). split; [intros _ | lia].
    split; [eapply push_definite_full; eauto|].
    split; [split; reflexivity|]. split; [|split; reflexivity].
    intros b Hb. wsimpl_in Hb. destruct Hb as [E|Hb]; [discriminate | exact Hb].
  - eexists. split; [lia | intros _].
    split; [eapply push_definite_room; eauto|].
    apply w_push_props. exact Hax.
Qed.

(* 2.2 container growth: guard, new capacity, one realloc request *)

(* the request a growth makes: (new capacity, bytes), or None when a guard refuses *)
Definition grow_req (item_size allocated : N) : option (N * N) :=
  match grow_capacity 64 allocated with
  | None => None
  | Some c => match alloc_multiple_req 64 item_size c with
              | None => None
              | Some bytes => Some (c, bytes)
              end
  end.

(* C20_growth: the request is never a wrapped size and the capacity strictly grows *)
Lemma grow_req_spec isz al c bytes :
  isz < 2 ^ 64 -> al < 2 ^ 64 -> grow_req isz al = Some (c, bytes) ->
  c = N.max 1 (2 * al) /\ al < c /\ bytes = isz * c /\ bytes < 2 ^ 64.
Proof. clear refuse.
  intros Hs Ha. unfold grow_req.
  destruct (grow_capacity 64 al) as [c0|] eqn:G; [|discriminate].
  destruct (alloc_multiple_req 64 isz c0) as [b0|] eqn:A; [|discriminate].
  intros E. injection E as -> ->.
  destruct (grow_spec 64 al c ltac:(lia) Ha G) as (Hc & Hlt & Hc64).
  destruct (alloc_multiple_exact 64 isz c bytes Hs Hc64 A) as (Hb & Hb64).
  repeat split; assumption.
Qed.

Lemma grow_guard data isz al w :
  grow_req isz al = None -> grow refuse data isz al w = Ret None w.
Proof.
  unfold grow_req, grow. destruct (grow_capacity 64 al) as [c|]; [|reflexivity].
  destruct (alloc_multiple_req 64 isz c) as [b|]; [discriminate | reflexivity].
Qed.

Lemma grow_refused data isz al w c bytes :
  grow_req isz al = Some (c, bytes) -> data_ok w data -> refuse (nreq w) bytes = true ->
  grow refuse data isz al w = Ret None (w_refused (EvRealloc data bytes None) w).
Proof.
  unfold grow_req, grow. destruct (grow_capacity 64 al) as [c0|]; [|discriminate].
  destruct (alloc_multiple_req 64 isz c0) as [b0|]; [|discriminate].
  intros E Hd Hr. injection E as -> ->.
  mstep (realloc_refused refuse data bytes w Hd Hr). reflexivity.
Qed.

Lemma grow_granted data isz al w c bytes :
  grow_req isz al = Some (c, bytes) -> data_ok w data -> refuse (nreq w) bytes = false ->
  grow refuse data isz al w = Ret (Some (c, next w)) (w_realloc data bytes w).
Proof.
  unfold grow_req, grow. destruct (grow_capacity 64 al) as [c0|]; [|discriminate].
  destruct (alloc_multiple_req 64 isz c0) as [b0|]; [|discriminate].
  intros E Hd Hr. injection E as -> ->.
  mstep (realloc_granted refuse data bytes w Hd Hr). reflexivity.
Qed.

Lemma wf_item_neq_next w a c : wf w -> heap w a = Some c -> a <> next w.
Proof. clear refuse. intros Hwf Ha E. rewrite (Hwf a) in Ha by lia. discriminate. Qed.

Definition opt_list (o : option addr) : list addr := match o with Some d => [d] | None => [] end.

(* 2.3 indefinite arrays: an unbounded sequence *)

Theorem push_indefinite_room a x w rc d sz allocated elems rcx nx :
  heap w a = Some (CItem rc (NArr true (Some d) allocated elems)) ->
  heap w d = Some (CData sz) ->
  heap w x = Some (CItem rcx nx) ->
  a <> x ->
  len elems < allocated ->
  array_push refuse a x w =
  Ret true (w_push a rc (NArr true (Some d) allocated (elems ++ [x])) d x rcx nx w).
Proof.
  intros Ha Hd Hx Hax Hroom. unfold array_push.
  mstep (rd_item_spec a w _ _ Ha).
  destruct (N.leb_spec allocated (len elems)) as [L|_]; [lia|].
  match goal with |- bind (ret ?v) ?f ?w1 = _ => rewrite (bind_Ret (ret v) f w1 v w1 eq_refl) end.
  mstep (touch_data_spec true d (w_log (AccR a) w) sz Hd).
  match goal with |- bind (wr_item a rc ?n) _ ?w1 = _ =>
    mstep (wr_item_spec a rc n w1 _ _ Ha) end.
  match goal with |- bind (incref x) _ ?w1 = _ =>
    assert (Hx1 : heap w1 x = Some (CItem rcx nx)) by (wsimpl; rewrite upd_other by congruence; exact Hx);
    mstep (incref_spec x w1 rcx nx Hx1) end.
  reflexivity.
Qed.

(* the guard refuses: no request at all *)
Theorem push_indefinite_guard a x w rc data allocated elems :
  heap w a = Some (CItem rc (NArr true data allocated elems)) ->
  allocated <= len elems ->
  grow_req SZ_PTR allocated = None ->
  array_push refuse a x w = Ret false (w_log (AccR a) w).
Proof.
  intros Ha Hfull Hg. unfold array_push.
  mstep (rd_item_spec a w _ _ Ha).
  destruct (N.leb_spec allocated (len elems)) as [_|L]; [|lia].
  match goal with |- bind (bind ?m ?f) ?g ?w1 = _ =>
    rewrite (bind_Ret (bind m f) g w1 None w1) end; [reflexivity|].
  mstep (grow_guard data SZ_PTR allocated (w_log (AccR a) w) Hg). reflexivity.
Qed.

(* the allocator refuses the one request: nothing changes *)
Theorem push_indefinite_refused a x w rc data allocated elems c bytes :
  heap w a = Some (CItem rc (NArr true data allocated elems)) ->
  data_ok w data ->
  allocated <= len elems ->
  grow_req SZ_PTR allocated = Some (c, bytes) ->
  refuse (nreq w) bytes = true ->
  array_push refuse a x w =
  Ret false (w_refused (EvRealloc data bytes None) (w_log (AccR a) w)).
Proof.
  intros Ha Hd Hfull Hg Hr. unfold array_push.
  mstep (rd_item_spec a w _ _ Ha).
  destruct (N.leb_spec allocated (len elems)) as [_|L]; [|lia].
  match goal with |- bind (bind ?m ?f) ?g ?w1 = _ =>
    rewrite (bind_Ret (bind m f) g w1 None (w_refused (EvRealloc data bytes None) w1)) end;
    [reflexivity|].
  mstep (grow_refused data SZ_PTR allocated (w_log (AccR a) w) c bytes Hg Hd Hr). reflexivity.
Qed.

(* the world after a push that moved the slot block *)
Definition w_push_grown (a : addr) (rc : N) (nd : node) (data : option addr) (bytes : N)
    (x rcx : addr) (nx : node) (w : world) : world :=
  w_incref x rcx nx
    (w_set a (CItem rc nd) (w_log (AccW (next w)) (w_realloc data bytes (w_log (AccR a) w)))).

Theorem push_indefinite_granted a x w rc data allocated elems c bytes rcx nx :
  wf w ->
  heap w a = Some (CItem rc (NArr true data allocated elems)) ->
  data_ok w data ->
  heap w x = Some (CItem rcx nx) ->
  a <> x ->
  allocated <= len elems ->
  grow_req SZ_PTR allocated = Some (c, bytes) ->
  refuse (nreq w) bytes = false ->
  array_push refuse a x w =
  Ret true (w_push_grown a rc (NArr true (Some (next w)) c (elems ++ [x])) data bytes x rcx nx w).
Proof.
  intros Hwf Ha Hd Hx Hax Hfull Hg Hr. unfold array_push.
  mstep (rd_item_spec a w _ _ Ha).
  destruct (N.leb_spec allocated (len elems)) as [_|L]; [|lia].
  pose proof (wf_item_neq_next w a _ Hwf Ha) as Han.
  pose proof (wf_item_neq_next w x _ Hwf Hx) as Hxn.
  assert (Hda : forall d, data = Some d -> a <> d /\ x <> d).
  { intros d ->. destruct Hd as [sz Hd]. split; eapply item_data_neq; eauto. }
  set (w1 := w_log (AccR a) w).
  set (w2 := w_realloc data bytes w1).
  assert (H2 : forall b, b <> next w -> (forall d, data = Some d -> b <> d) -> heap w2 b = heap w b).
  { intros b Hb Hbd. subst w2 w1. wsimpl. rewrite upd_other by exact Hb.
    destruct data as [d|]; [rewrite upd_other by (apply Hbd; reflexivity)|]; reflexivity. }
  match goal with |- bind (bind ?m ?f) ?g ?w0 = _ =>
    rewrite (bind_Ret (bind m f) g w0 (Some (Some (next w), c)) w2) end.
  2:{ mstep (grow_granted data SZ_PTR allocated w1 c bytes Hg Hd Hr). reflexivity. }
  assert (Hn2 : heap w2 (next w) = Some (CData bytes)) by (subst w2 w1; wsimpl; apply upd_same).
  mstep (touch_data_spec true (next w) w2 bytes Hn2).
  assert (Ha2 : heap w2 a = Some (CItem rc (NArr true data allocated elems))).
  { rewrite H2; [exact Ha | exact Han | intros d E; apply (Hda d E)]. }
  match goal with |- bind (wr_item a rc ?n) _ ?w3 = _ =>
    mstep (wr_item_spec a rc n w3 _ _ Ha2) end.
  match goal with |- bind (incref x) _ ?w4 = _ =>
    assert (Hx4 : heap w4 x = Some (CItem rcx nx)) end.
  { wsimpl. rewrite upd_other by congruence. fold w1. fold w2.
    rewrite H2; [exact Hx | exact Hxn | intros d E; apply (Hda d E)]. }
  match goal with |- bind (incref x) _ ?w4 = _ => mstep (incref_spec x w4 rcx nx Hx4) end.
  reflexivity.
Qed.

Lemma wf_lt w a c : wf w -> heap w a = Some c -> a < next w.
Proof.
  intros Hwf Ha. destruct (N.lt_ge_cases a (next w)) as [L|L]; [exact L|].
  rewrite (Hwf a L) in Ha. discriminate.
Qed.

(* what a push with growth does to the world *)
Lemma w_push_grown_props a rc nd data bytes x rcx nx w rc0 n0 :
  wf w -> heap w a = Some (CItem rc0 n0) -> heap w x = Some (CItem rcx nx) -> a <> x ->
  (forall d, data = Some d -> is_data w d) ->
  let w' := w_push_grown a rc nd data bytes x rcx nx w in
  heap w' a = Some (CItem rc nd) /\
  heap w' x = Some (CItem (wrap64 (rcx + 1)) nx) /\
  heap w' (next w) = Some (CData bytes) /\
  (forall d, data = Some d -> heap w' d = None) /\
  heap_but (a :: x :: next w :: opt_list data) w w' /\
  next w' = next w + 1 /\ nreq w' = nreq w + 1 /\
  trace w' = EvRealloc data bytes (Some (next w)) :: trace w /\
  wf w'.
Proof. clear refuse.
  intros Hwf Ha Hx Hax Hd w'. subst w'. unfold w_push_grown.
  pose proof (wf_lt w a _ Hwf Ha) as Han. pose proof (wf_lt w x _ Hwf Hx) as Hxn.
  assert (Hdd : forall d, data = Some d -> d <> a /\ d <> x /\ d < next w).
  { intros d E. destruct (Hd d E) as [sz Hsz]. split; [|split].
    - intros ->. congruence.
    - intros ->. congruence.
    - eapply wf_lt; eauto. }
  wsimpl.
  split; [rewrite upd_other by exact Hax; apply upd_same|].
  split; [apply upd_same|].
  split; [rewrite !upd_other by lia; apply upd_same|].
  split.
  { intros d E. destruct (Hdd d E) as (H1 & H2 & H3). subst data.
    rewrite !upd_other by lia. apply upd_same. }
  split.
  { intros b Hb. cbn [In] in Hb. wsimpl.
    rewrite !upd_other by (intros E; apply Hb; subst; tauto).
    destruct data as [d|]; [|reflexivity]. cbn [opt_list In] in Hb.
    rewrite upd_other by (intros E; apply Hb; subst; tauto). reflexivity. }
  split; [reflexivity|]. split; [reflexivity|]. split; [reflexivity|].
  unfold wf. wsimpl. intros b Hb. rewrite !upd_other by lia.
  destruct data as [d|]; [|apply Hwf; lia].
  destruct (N.eq_dec b d) as [->|Hbd]; [apply upd_same|].
  rewrite upd_other by exact Hbd. apply Hwf. lia.
Qed.

Lemma no_new_write_log_r w b : no_new_write w (w_log (AccR b) w).
Proof. intros c Hc. wsimpl_in Hc. destruct Hc as [E|Hc]; [discriminate | exact Hc]. Qed.

(* the slot block of an array / map: live when present, and absent only at capacity 0 *)
Definition block_inv (w : world) (data : option addr) (allocated : N) : Prop :=
  match data with Some d => is_data w d | None => allocated = 0 end.

Lemma block_inv_ok w data allocated : block_inv w data allocated -> data_ok w data.
Proof. destruct data; [intros H; exact H | intros _; exact I]. Qed.

(* the statement asked for, in one piece *)
Theorem push_indefinite a x w rc data allocated elems rcx nx :
  wf w ->
  heap w a = Some (CItem rc (NArr true data allocated elems)) ->
  block_inv w data allocated ->
  heap w x = Some (CItem rcx nx) ->
  a <> x ->
  allocated < 2 ^ 64 ->
  (len elems < allocated ->
     exists w',
       array_push refuse a x w = Ret true w' /\
       heap w' a = Some (CItem rc (NArr true data allocated (elems ++ [x]))) /\
       heap w' x = Some (CItem (wrap64 (rcx + 1)) nx) /\
       heap_but [a; x] w w' /\
       next w' = next w /\ nreq w' = nreq w /\ trace w' = trace w) /\
  (allocated <= len elems ->
     match grow_req SZ_PTR allocated with
     | None =>
         exists w',
           array_push refuse a x w = Ret false w' /\ same_heap w w' /\ no_new_write w w' /\
           trace w' = trace w /\ nreq w' = nreq w
     | Some (c, bytes) =>
         c = N.max 1 (2 * allocated) /\ allocated < c /\ bytes = 8 * c /\ bytes < 2 ^ 64 /\
         if refuse (nreq w) bytes
         then exists w',
           array_push refuse a x w = Ret false w' /\ same_heap w w' /\ no_new_write w w' /\
           trace w' = EvRealloc data bytes None :: trace w /\ nreq w' = nreq w + 1
         else exists w',
           array_push refuse a x w = Ret true w' /\
           heap w' a = Some (CItem rc (NArr true (Some (next w)) c (elems ++ [x]))) /\
           heap w' x = Some (CItem (wrap64 (rcx + 1)) nx) /\
           heap w' (next w) = Some (CData bytes) /\
           (forall d, data = Some d -> heap w' d = None) /\
           heap_but (a :: x :: next w :: opt_list data) w w' /\
           next w' = next w + 1 /\ nreq w' = nreq w + 1 /\
           trace w' = EvRealloc data bytes (Some (next w)) :: trace w /\
           wf w'
     end).
Proof.
  intros Hwf Ha Hb Hx Hax H64. split.
  - intros Hroom. destruct data as [d|]; [|cbn [block_inv] in Hb; lia].
    destruct Hb as [sz Hd]. eexists. split; [eapply push_indefinite_room; eauto|].
    apply w_push_props. exact Hax.
  - intros Hfull. pose proof (block_inv_ok _ _ _ Hb) as Hd.
    destruct (grow_req SZ_PTR allocated) as [[c bytes]|] eqn:G.
    + destruct (grow_req_spec SZ_PTR allocated c bytes ltac:(unfold SZ_PTR; lia) H64 G)
        as (Hc & Hlt & Hbytes & Hb64).
      split; [exact Hc|]. split; [exact Hlt|]. split; [exact Hbytes|]. split; [exact Hb64|].
      destruct (refuse (nreq w) bytes) eqn:R.
      * eexists. split; [eapply push_indefinite_refused; eauto|].
        split; [split; reflexivity|]. split; [apply no_new_write_log_r|]. split; reflexivity.
      * eexists. split; [eapply push_indefinite_granted; eauto|].
        eapply w_push_grown_props; eauto.
        intros d E. subst data. exact Hd.
    + eexists. split; [eapply push_indefinite_guard; eauto|].
      split; [split; reflexivity|]. split; [apply no_new_write_log_r|]. split; reflexivity.
Qed.

(* 2.4 cbor_array_get *)

Theorem get_out_of_range a i w rc indef data allocated elems :
  heap w a = Some (CItem rc (NArr indef data allocated elems)) ->
  len elems <= i ->
  array_get a i w = Ret None (w_log (AccR a) w).
Proof. clear refuse.
  intros Ha Hi. unfold array_get. mstep (rd_item_spec a w _ _ Ha).
  destruct (N.leb_spec (len elems) i) as [_|L]; [reflexivity | lia].
Qed.

Lemma nth_error_len {A} (l : list A) i e : nth_error l (N.to_nat i) = Some e -> i < len l.
Proof. clear refuse.
  intros H. assert (N.to_nat i < length l)%nat by (apply nth_error_Some; congruence).
  unfold len. lia.
Qed.
Lemma nth_error_in_range {A} (l : list A) i : i < len l -> exists e, nth_error l (N.to_nat i) = Some e.
Proof. clear refuse.
  intros H. destruct (nth_error l (N.to_nat i)) as [e|] eqn:E; [exists e; reflexivity|].
  apply nth_error_None in E. unfold len in H. lia.
Qed.

Theorem get_in_range a i w rc indef d sz allocated elems e rce ne :
  heap w a = Some (CItem rc (NArr indef (Some d) allocated elems)) ->
  heap w d = Some (CData sz) ->
  nth_error elems (N.to_nat i) = Some e ->
  heap w e = Some (CItem rce ne) ->
  array_get a i w = Ret (Some e) (w_incref e rce ne (w_log (AccR d) (w_log (AccR a) w))).
Proof. clear refuse.
  intros Ha Hd He Hce. unfold array_get. mstep (rd_item_spec a w _ _ Ha).
  pose proof (nth_error_len _ _ _ He) as Hi.
  destruct (N.leb_spec (len elems) i) as [L|_]; [lia|].
  mstep (touch_data_spec false d (w_log (AccR a) w) sz Hd).
  rewrite He.
  match goal with |- bind (incref e) _ ?w1 = _ => mstep (incref_spec e w1 rce ne Hce) end.
  reflexivity.
Qed.

Lemma w_incref_props x rcx nx w :
  let w' := w_incref x rcx nx w in
  heap w' x = Some (CItem (wrap64 (rcx + 1)) nx) /\ heap_but [x] w w' /\
  next w' = next w /\ nreq w' = nreq w /\ trace w' = trace w.
Proof. clear refuse.
  intros w'. subst w'. wsimpl. split; [apply upd_same|]. split; [|repeat split].
  intros b Hb. cbn [In] in Hb. wsimpl. apply upd_other. intros E. apply Hb. subst. tauto.
Qed.

Theorem get_spec a i w rc indef d sz allocated elems :
  heap w a = Some (CItem rc (NArr indef (Some d) allocated elems)) ->
  heap w d = Some (CData sz) ->
  (forall e, In e elems -> is_item w e) ->
  (len elems <= i ->
     exists w', array_get a i w = Ret None w' /\ same_heap w w' /\ no_new_write w w' /\
                trace w' = trace w /\ nreq w' = nreq w) /\
  (i < len elems ->
     exists e rce ne w',
       nth_error elems (N.to_nat i) = Some e /\ heap w e = Some (CItem rce ne) /\
       array_get a i w = Ret (Some e) w' /\
       heap w' e = Some (CItem (wrap64 (rce + 1)) ne) /\ heap_but [e] w w' /\
       next w' = next w /\ nreq w' = nreq w /\ trace w' = trace w).
Proof.
  intros Ha Hd Hall. split.
  - intros Hi. eexists. split; [eapply get_out_of_range; eauto|].
    split; [split; reflexivity|]. split; [apply no_new_write_log_r|]. split; reflexivity.
  - intros Hi. destruct (nth_error_in_range elems i Hi) as [e He].
    destruct (Hall e (nth_error_In _ _ He)) as (rce & ne & Hce).
    exists e, rce, ne. eexists. split; [exact He|]. split; [exact Hce|].
    split; [eapply get_in_range; eauto|].
    match goal with |- heap (w_incref _ _ _ ?w1) _ = _ /\ _ =>
      destruct (w_incref_props e rce ne w1) as (P1 & P2 & P3 & P4 & P5) end.
    split; [exact P1|]. split; [exact P2|]. split; [exact P3|]. split; [exact P4 | exact P5].
Qed.

End Arrays.

(* ------------------------------------------------------------------ *)
(* 3. constructors under refusal (C06 base cases)                       *)

Section Constructors.
Variable refuse : N -> N -> bool.

(* the four possible outcomes of a two-block constructor, as worlds *)
Definition w_fail1 (sz : N) (w : world) : world := w_refused (EvMalloc sz None) w.
Definition w_fail_guard (sz : N) (c : cell) (w : world) : world := w_free (next w) (w_malloc sz c w).
Definition w_fail2 (sz : N) (c : cell) (bytes : N) (w : world) : world :=
  w_free (next w) (w_refused (EvMalloc bytes None) (w_malloc sz c w)).
Definition w_built (sz : N) (c : cell) (bytes : N) (c' : cell) (w : world) : world :=
  w_set (next w) c' (w_malloc bytes (CData bytes) (w_malloc sz c w)).

(* the failure worlds: nothing leaks, nothing else is touched *)
Lemma w_fail1_props sz w :
  let w' := w_fail1 sz w in
  heap w' = heap w /\ next w' = next w /\ nreq w' = nreq w + 1 /\
  trace w' = EvMalloc sz None :: trace w /\ alog w' = alog w.
Proof. repeat split. Qed.

Lemma w_fail_guard_props sz c w :
  wf w ->
  let w' := w_fail_guard sz c w in
  heap_eq w w' /\ wf w' /\ next w' = next w + 1 /\ nreq w' = nreq w + 1 /\
  trace w' = EvFree (Some (next w)) :: EvMalloc sz (Some (next w)) :: trace w /\ alog w' = alog w.
Proof. clear refuse.
  intros Hwf w'. subst w'. unfold w_fail_guard.
  assert (E : heap_eq w (w_free (next w) (w_malloc sz c w))).
  { intros b. wsimpl. destruct (N.eq_dec b (next w)) as [->|Hb].
    - rewrite upd_same. symmetry. apply Hwf. lia.
    - rewrite !upd_other by exact Hb. reflexivity. }
  split; [exact E|]. split; [|repeat split].
  intros b Hb. rewrite E. apply Hwf. wsimpl_in Hb. lia.
Qed.

Lemma w_fail2_props sz c bytes w :
  wf w ->
  let w' := w_fail2 sz c bytes w in
  heap_eq w w' /\ wf w' /\ next w' = next w + 1 /\ nreq w' = nreq w + 2 /\
  trace w' = EvFree (Some (next w)) :: EvMalloc bytes None :: EvMalloc sz (Some (next w)) :: trace w /\
  alog w' = alog w.
Proof. clear refuse.
  intros Hwf w'. subst w'. unfold w_fail2.
  assert (E : heap_eq w (w_free (next w) (w_refused (EvMalloc bytes None) (w_malloc sz c w)))).
  { intros b. wsimpl. destruct (N.eq_dec b (next w)) as [->|Hb].
    - rewrite upd_same. symmetry. apply Hwf. lia.
    - rewrite !upd_other by exact Hb. reflexivity. }
  split; [exact E|]. split; [|wsimpl; repeat split; lia].
  intros b Hb. rewrite E. apply Hwf. wsimpl_in Hb. lia.
Qed.

Lemma w_built_props sz c bytes c' w :
  wf w ->
  let w' := w_built sz c bytes c' w in
  heap w' (next w) = Some c' /\ heap w' (next w + 1) = Some (CData bytes) /\
  heap_but [next w; next w + 1] w w' /\ wf w' /\ next w' = next w + 2 /\ nreq w' = nreq w + 2 /\
  trace w' = EvMalloc bytes (Some (next w + 1)) :: EvMalloc sz (Some (next w)) :: trace w.
Proof. clear refuse.
  intros Hwf w'. subst w'. unfold w_built. wsimpl.
  split; [apply upd_same|].
  split; [rewrite upd_other by lia; apply upd_same|].
  split.
  { intros b Hb. cbn [In] in Hb. wsimpl.
    rewrite !upd_other by (intros E; apply Hb; subst; tauto). reflexivity. }
  split; [|repeat split; lia].
  unfold wf. wsimpl. intros b Hb. rewrite !upd_other by lia. apply Hwf. lia.
Qed.

Theorem new_definite_array_cases n w :
  let c0 := CItem 1 (NArr false None n []) in
  new_definite_array refuse n w =
  if refuse (nreq w) SZ_ITEM then Ret None (w_fail1 SZ_ITEM w)
  else match alloc_multiple_req 64 SZ_PTR n with
       | None => Ret None (w_fail_guard SZ_ITEM c0 w)
       | Some bytes =>
           if refuse (nreq w + 1) bytes then Ret None (w_fail2 SZ_ITEM c0 bytes w)
           else Ret (Some (next w))
                    (w_built SZ_ITEM c0 bytes (CItem 1 (NArr false (Some (next w + 1)) n [])) w)
       end.
Proof.
  intros c0. unfold new_definite_array. fold c0.
  destruct (refuse (nreq w) SZ_ITEM) eqn:R1.
  { mstep (malloc_refused refuse SZ_ITEM c0 w R1). reflexivity. }
  mstep (malloc_granted refuse SZ_ITEM c0 w R1).
  set (w1 := w_malloc SZ_ITEM c0 w).
  assert (H1 : heap w1 (next w) = Some c0) by (subst w1; wsimpl; apply upd_same).
  destruct (alloc_multiple_req 64 SZ_PTR n) as [bytes|].
  2:{ mstep (free_spec (next w) w1 c0 H1). reflexivity. }
  change (nreq w + 1) with (nreq w1).
  destruct (refuse (nreq w1) bytes) eqn:R2.
  { mstep (malloc_refused refuse bytes (CData bytes) w1 R2).
    match goal with |- bind (free _) _ ?w2 = _ => mstep (free_spec (next w) w2 c0 H1) end.
    reflexivity. }
  mstep (malloc_granted refuse bytes (CData bytes) w1 R2).
  match goal with |- bind (wr_item ?a ?rc ?nd) _ ?w2 = _ =>
    assert (H2 : heap w2 a = Some c0) by (subst w1; wsimpl; rewrite upd_other by lia; apply upd_same);
    mstep (wr_item_spec a rc nd w2 _ _ H2) end.
  reflexivity.
Qed.

Theorem new_definite_map_cases n w :
  let c0 := CItem 1 (NMap false None n []) in
  new_definite_map refuse n w =
  if refuse (nreq w) SZ_ITEM then Ret None (w_fail1 SZ_ITEM w)
  else match alloc_multiple_req 64 SZ_PAIR n with
       | None => Ret None (w_fail_guard SZ_ITEM c0 w)
       | Some bytes =>
           if refuse (nreq w + 1) bytes then Ret None (w_fail2 SZ_ITEM c0 bytes w)
           else Ret (Some (next w))
                    (w_built SZ_ITEM c0 bytes (CItem 1 (NMap false (Some (next w + 1)) n [])) w)
       end.
Proof.
  intros c0. unfold new_definite_map. fold c0.
  destruct (refuse (nreq w) SZ_ITEM) eqn:R1.
  { mstep (malloc_refused refuse SZ_ITEM c0 w R1). reflexivity. }
  mstep (malloc_granted refuse SZ_ITEM c0 w R1).
  set (w1 := w_malloc SZ_ITEM c0 w).
  assert (H1 : heap w1 (next w) = Some c0) by (subst w1; wsimpl; apply upd_same).
  destruct (alloc_multiple_req 64 SZ_PAIR n) as [bytes|].
  2:{ mstep (free_spec (next w) w1 c0 H1). reflexivity. }
  change (nreq w + 1) with (nreq w1).
  destruct (refuse (nreq w1) bytes) eqn:R2.
  { mstep (malloc_refused refuse bytes (CData bytes) w1 R2).
    match goal with |- bind (free _) _ ?w2 = _ => mstep (free_spec (next w) w2 c0 H1) end.
    reflexivity. }
  mstep (malloc_granted refuse bytes (CData bytes) w1 R2).
  match goal with |- bind (wr_item ?a ?rc ?nd) _ ?w2 = _ =>
    assert (H2 : heap w2 a = Some c0) by (subst w1; wsimpl; rewrite upd_other by lia; apply upd_same);
    mstep (wr_item_spec a rc nd w2 _ _ H2) end.
  reflexivity.
Qed.

Theorem new_indefinite_string_cases text w :
  let c0 := CItem 1 (NStr text None []) in
  new_indefinite_string refuse text w =
  if refuse (nreq w) SZ_ITEM then Ret None (w_fail1 SZ_ITEM w)
  else if refuse (nreq w + 1) SZ_ISD then Ret None (w_fail2 SZ_ITEM c0 SZ_ISD w)
  else Ret (Some (next w))
           (w_built SZ_ITEM c0 SZ_ISD (CItem 1 (NChunked text (next w + 1) None 0 [])) w).
Proof.
  intros c0. unfold new_indefinite_string. fold c0.
  destruct (refuse (nreq w) SZ_ITEM) eqn:R1.
  { mstep (malloc_refused refuse SZ_ITEM c0 w R1). reflexivity. }
  mstep (malloc_granted refuse SZ_ITEM c0 w R1).
  set (w1 := w_malloc SZ_ITEM c0 w).
  assert (H1 : heap w1 (next w) = Some c0) by (subst w1; wsimpl; apply upd_same).
  change (nreq w + 1) with (nreq w1).
  destruct (refuse (nreq w1) SZ_ISD) eqn:R2.
  { mstep (malloc_refused refuse SZ_ISD (CData SZ_ISD) w1 R2).
    match goal with |- bind (free _) _ ?w2 = _ => mstep (free_spec (next w) w2 c0 H1) end.
    reflexivity. }
  mstep (malloc_granted refuse SZ_ISD (CData SZ_ISD) w1 R2).
  match goal with |- bind (wr_item ?a ?rc ?nd) _ ?w2 = _ =>
    assert (H2 : heap w2 a = Some c0) by (subst w1; wsimpl; rewrite upd_other by lia; apply upd_same);
    mstep (wr_item_spec a rc nd w2 _ _ H2) end.
  reflexivity.
Qed.

Theorem build_string_cases text bytes w :
  let c0 := CItem 1 (NStr text None []) in
  build_string refuse text bytes w =
  if refuse (nreq w) SZ_ITEM then Ret None (w_fail1 SZ_ITEM w)
  else if refuse (nreq w + 1) (len bytes) then Ret None (w_fail2 SZ_ITEM c0 (len bytes) w)
  else Ret (Some (next w))
           (w_built SZ_ITEM c0 (len bytes) (CItem 1 (NStr text (Some (next w + 1)) bytes)) w).
Proof.
  intros c0. unfold build_string, new_definite_string. fold c0.
  destruct (refuse (nreq w) SZ_ITEM) eqn:R1.
  { mstep (malloc_refused refuse SZ_ITEM c0 w R1). reflexivity. }
  mstep (malloc_granted refuse SZ_ITEM c0 w R1).
  set (w1 := w_malloc SZ_ITEM c0 w).
  assert (H1 : heap w1 (next w) = Some c0) by (subst w1; wsimpl; apply upd_same).
  change (nreq w + 1) with (nreq w1).
  destruct (refuse (nreq w1) (len bytes)) eqn:R2.
  { mstep (malloc_refused refuse (len bytes) (CData (len bytes)) w1 R2).
    match goal with |- bind (free _) _ ?w2 = _ => mstep (free_spec (next w) w2 c0 H1) end.
    reflexivity. }
  mstep (malloc_granted refuse (len bytes) (CData (len bytes)) w1 R2).
  match goal with |- bind (wr_item ?a ?rc ?nd) _ ?w2 = _ =>
    assert (H2 : heap w2 a = Some c0) by (subst w1; wsimpl; rewrite upd_other by lia; apply upd_same);
    mstep (wr_item_spec a rc nd w2 _ _ H2) end.
  reflexivity.
Qed.

(* a failed constructor: pointwise the same heap (so nothing that was live changed and every
   address the call allocated is dead again), the bump-pointer invariant still holds, no access
   to any pre-existing cell was made, and the trace is one of the three refusal shapes *)
Definition clean_failure (guarded : bool) (sz : N) (w w' : world) : Prop :=
  heap_eq w w' /\ wf w' /\ alog w' = alog w /\
  ((refuse (nreq w) sz = true /\ next w' = next w /\ nreq w' = nreq w + 1 /\
    trace w' = EvMalloc sz None :: trace w) \/
   (guarded = true /\ refuse (nreq w) sz = false /\ next w' = next w + 1 /\ nreq w' = nreq w + 1 /\
    trace w' = EvFree (Some (next w)) :: EvMalloc sz (Some (next w)) :: trace w) \/
   (exists bytes, refuse (nreq w) sz = false /\ refuse (nreq w + 1) bytes = true /\
    next w' = next w + 1 /\ nreq w' = nreq w + 2 /\
    trace w' = EvFree (Some (next w)) :: EvMalloc bytes None :: EvMalloc sz (Some (next w)) :: trace w)).

(* the requested reading of [heap_eq] *)
Lemma heap_eq_no_leak w w' :
  heap_eq w w' ->
  (forall b c, heap w b = Some c -> heap w' b = Some c) /\ (forall b, heap w b = None -> heap w' b = None).
Proof. intros E. split; intros; rewrite E; assumption. Qed.

Lemma clean_fail1 g sz w : wf w -> refuse (nreq w) sz = true -> clean_failure g sz w (w_fail1 sz w).
Proof.
  intros Hwf R. split; [intros b; reflexivity|]. split; [exact Hwf|]. split; [reflexivity|].
  left. repeat split. exact R.
Qed.
Lemma clean_fail_guard sz c w :
  wf w -> refuse (nreq w) sz = false -> clean_failure true sz w (w_fail_guard sz c w).
Proof.
  intros Hwf R. destruct (w_fail_guard_props sz c w Hwf) as (P1 & P2 & P3 & P4 & P5 & P6).
  split; [exact P1|]. split; [exact P2|]. split; [exact P6|]. right. left. repeat split; assumption.
Qed.
Lemma clean_fail2 g sz c bytes w :
  wf w -> refuse (nreq w) sz = false -> refuse (nreq w + 1) bytes = true ->
  clean_failure g sz w (w_fail2 sz c bytes w).
Proof.
  intros Hwf R R2. destruct (w_fail2_props sz c bytes w Hwf) as (P1 & P2 & P3 & P4 & P5 & P6).
  split; [exact P1|]. split; [exact P2|]. split; [exact P6|]. right. right. exists bytes.
  repeat split; assumption.
Qed.

Theorem new_definite_array_refusal n w w' :
  wf w -> new_definite_array refuse n w = Ret None w' -> clean_failure true SZ_ITEM w w'.
Proof.
  intros Hwf. rewrite new_definite_array_cases.
  destruct (refuse (nreq w) SZ_ITEM) eqn:R1.
  { intros E. injection E as <-. apply clean_fail1; assumption. }
  destruct (alloc_multiple_req 64 SZ_PTR n) as [bytes|].
  2:{ intros E. injection E as <-. apply clean_fail_guard; assumption. }
  destruct (refuse (nreq w + 1) bytes) eqn:R2; [|discriminate].
  intros E. injection E as <-. apply clean_fail2; assumption.
Qed.

Theorem new_definite_map_refusal n w w' :
  wf w -> new_definite_map refuse n w = Ret None w' -> clean_failure true SZ_ITEM w w'.
Proof.
  intros Hwf. rewrite new_definite_map_cases.
  destruct (refuse (nreq w) SZ_ITEM) eqn:R1.
  { intros E. injection E as <-. apply clean_fail1; assumption. }
  destruct (alloc_multiple_req 64 SZ_PAIR n) as [bytes|].
  2:{ intros E. injection E as <-. apply clean_fail_guard; assumption. }
  destruct (refuse (nreq w + 1) bytes) eqn:R2; [|discriminate].
  intros E. injection E as <-. apply clean_fail2; assumption.
Qed.

Theorem new_indefinite_string_refusal text w w' :
  wf w -> new_indefinite_string refuse text w = Ret None w' -> clean_failure false SZ_ITEM w w'.
Proof.
  intros Hwf. rewrite new_indefinite_string_cases.
  destruct (refuse (nreq w) SZ_ITEM) eqn:R1.
  { intros E. injection E as <-. apply clean_fail1; assumption. }
  destruct (refuse (nreq w + 1) SZ_ISD) eqn:R2; [|discriminate].
  intros E. injection E as <-. apply clean_fail2; assumption.
Qed.

Theorem build_string_refusal text bytes w w' :
  wf w -> build_string refuse text bytes w = Ret None w' -> clean_failure false SZ_ITEM w w'.
Proof.
  intros Hwf. rewrite build_string_cases.
  destruct (refuse (nreq w) SZ_ITEM) eqn:R1.
  { intros E. injection E as <-. apply clean_fail1; assumption. }
  destruct (refuse (nreq w + 1) (len bytes)) eqn:R2; [|discriminate].
  intros E. injection E as <-. apply clean_fail2; assumption.
Qed.

(* the constructors never fault, whatever the allocator does *)
Theorem constructors_total n text bytes w :
  (exists r w', new_definite_array refuse n w = Ret r w') /\
  (exists r w', new_definite_map refuse n w = Ret r w') /\
  (exists r w', new_indefinite_string refuse text w = Ret r w') /\
  (exists r w', build_string refuse text bytes w = Ret r w').
Proof.
  rewrite new_definite_array_cases, new_definite_map_cases, new_indefinite_string_cases,
    build_string_cases.
  repeat split.
  - destruct (refuse (nreq w) SZ_ITEM); [eauto|].
    destruct (alloc_multiple_req 64 SZ_PTR n) as [b|]; [|eauto].
    destruct (refuse (nreq w + 1) b); eauto.
  - destruct (refuse (nreq w) SZ_ITEM); [eauto|].
    destruct (alloc_multiple_req 64 SZ_PAIR n) as [b|]; [|eauto].
    destruct (refuse (nreq w + 1) b); eauto.
  - destruct (refuse (nreq w) SZ_ITEM); [eauto|]. destruct (refuse (nreq w + 1) SZ_ISD); eauto.
  - destruct (refuse (nreq w) SZ_ITEM); [eauto|]. destruct (refuse (nreq w + 1) (len bytes)); eauto.
Qed.

(* the size guard of cbor_new_definite_array: one request (the item), which is freed *)
Lemma array_guard_refuses n : 2 ^ 61 <= n < 2 ^ 64 -> alloc_multiple_req 64 SZ_PTR n = None.
Proof. clear refuse.
  intros Hn. destruct (alloc_multiple_req 64 SZ_PTR n) as [r|] eqn:E; [|reflexivity].
  destruct (alloc_multiple_exact 64 SZ_PTR n r ltac:(unfold SZ_PTR; lia) ltac:(lia) E) as [H1 H2].
  unfold SZ_PTR in H1. lia.
Qed.

Theorem new_definite_array_guard n w :
  wf w -> alloc_multiple_req 64 SZ_PTR n = None -> refuse (nreq w) SZ_ITEM = false ->
  exists w', new_definite_array refuse n w = Ret None w' /\
    heap_eq w w' /\ wf w' /\ next w' = next w + 1 /\ nreq w' = nreq w + 1 /\
    trace w' = EvFree (Some (next w)) :: EvMalloc SZ_ITEM (Some (next w)) :: trace w /\
    alog w' = alog w.
Proof.
  intros Hwf G R. rewrite new_definite_array_cases, R, G. eexists. split; [reflexivity|].
  apply w_fail_guard_props. exact Hwf.
Qed.

(* success: the new array and its slot block *)
Theorem new_definite_array_success n w a w' :
  wf w -> new_definite_array refuse n w = Ret (Some a) w' ->
  exists bytes, alloc_multiple_req 64 SZ_PTR n = Some bytes /\
    a = next w /\
    heap w' a = Some (CItem 1 (NArr false (Some (a + 1)) n [])) /\
    heap w' (a + 1) = Some (CData bytes) /\
    heap_but [a; a + 1] w w' /\ wf w' /\ next w' = next w + 2 /\ nreq w' = nreq w + 2 /\
    trace w' = EvMalloc bytes (Some (a + 1)) :: EvMalloc SZ_ITEM (Some a) :: trace w.
Proof.
  intros Hwf. rewrite new_definite_array_cases.
  destruct (refuse (nreq w) SZ_ITEM); [discriminate|].
  destruct (alloc_multiple_req 64 SZ_PTR n) as [bytes|]; [|discriminate].
  destruct (refuse (nreq w + 1) bytes); [discriminate|].
  intros E. injection E as <- <-. exists bytes. split; [reflexivity|]. split; [reflexivity|].
  apply w_built_props. exact Hwf.
Qed.

End Constructors.

(* ------------------------------------------------------------------ *)
(* 4. sequences of pushes                                               *)

Section Sequences.
Variable refuse : N -> N -> bool.

Fixpoint push_many (a : addr) (xs : list addr) : M (list bool) :=
  match xs with
  | [] => ret []
  | x :: r => b <- array_push refuse a x ;; bs <- push_many a r ;; ret (b :: bs)
  end.

Lemma w_push_is_item a rc nd d x rcx nx w b :
  a <> x -> is_item w b -> is_item (w_push a rc nd d x rcx nx w) b.
Proof.
  intros Hax Hb. destruct (w_push_props a rc nd d x rcx nx w Hax) as (P1 & P2 & P3 & _).
  destruct (N.eq_dec b a) as [->|Hba]; [eexists; eexists; exact P1|].
  destruct (N.eq_dec b x) as [->|Hbx]; [eexists; eexists; exact P2|].
  destruct Hb as (r & n & Hb). exists r, n. rewrite P3; [exact Hb|].
  cbn [In]. intros [E|[E|[]]]; congruence.
Qed.

(* a definite array with [room] free slots accepts exactly [room] more pushes *)
Lemma definite_pushes a : forall xs room w rc d sz n elems,
  heap w a = Some (CItem rc (NArr false (Some d) n elems)) ->
  heap w d = Some (CData sz) ->
  (forall x, In x xs -> is_item w x /\ x <> a) ->
  len elems + N.of_nat room = n ->
  exists w',
    push_many a xs w =
      Ret (repeat true (Nat.min room (length xs)) ++ repeat false (length xs - room)) w' /\
    heap w' a = Some (CItem rc (NArr false (Some d) n (elems ++ firstn room xs))) /\
    heap w' d = Some (CData sz) /\
    (forall b, is_item w b -> is_item w' b) /\
    next w' = next w /\ nreq w' = nreq w /\ trace w' = trace w.
Proof.
  induction xs as [|x r IH]; intros room w rc d sz n elems Ha Hd Hxs Hroom.
  - exists w. cbn [push_many length Nat.min repeat Nat.sub app]. rewrite Nat.min_0_r.
    rewrite firstn_nil, !app_nil_r. cbn [repeat app]. repeat split; auto.
  - destruct (Hxs x (or_introl eq_refl)) as [(rcx & nx & Hx) Hxa].
    assert (Hr : forall y, In y r -> forall w1, (forall b, is_item w b -> is_item w1 b) ->
                 is_item w1 y /\ y <> a).
    { intros y Hy w1 Hw1. destruct (Hxs y (or_intror Hy)) as [H1 H2]. split; auto. }
    cbn [push_many]. destruct room as [|room'].
    + (* full *)
      assert (Hfull : n <= len elems) by lia.
      destruct (IH 0%nat (w_log (AccR a) w) rc d sz n elems Ha Hd
                  (fun y Hy => Hr y Hy _ (fun b H => H)) Hroom)
        as (w' & E & P1 & P2 & P3 & P4 & P5 & P6).
      exists w'. split.
      { mstep (push_definite_full refuse a x w rc (Some d) n elems Ha Hfull). mstep E.
        cbn [length Nat.min repeat app Nat.sub]. rewrite Nat.sub_0_r. reflexivity. }
      rewrite firstn_O in *. repeat split; assumption.
    + assert (Hlt : len elems < n) by lia.
      assert (Hax : a <> x) by congruence.
      set (w1 := w_push a rc (NArr false (Some d) n (elems ++ [x])) d x rcx nx w).
      destruct (w_push_props a rc (NArr false (Some d) n (elems ++ [x])) d x rcx nx w Hax)
        as (Q1 & Q2 & Q3 & Q4 & Q5 & Q6). fold w1 in Q1, Q2, Q3, Q4, Q5, Q6.
      assert (Hd1 : heap w1 d = Some (CData sz)).
      { rewrite Q3; [exact Hd|]. cbn [In]. intros [E|[E|[]]]; subst d; congruence. }
      assert (Hi1 : forall b, is_item w b -> is_item w1 b)
        by (intros b Hb; apply w_push_is_item; assumption).
      destruct (IH room' w1 rc d sz n (elems ++ [x]) Q1 Hd1 (fun y Hy => Hr y Hy _ Hi1))
        as (w' & E & P1 & P2 & P3 & P4 & P5 & P6).
      { rewrite len_app. change (len [x]) with 1. lia. }
      exists w'. split.
      { mstep (push_definite_room refuse a x w rc d sz n elems rcx nx Ha Hd Hx Hax Hlt).
        fold w1. mstep E. reflexivity. }
      cbn [firstn]. rewrite <- app_assoc in P1. cbn [app] in P1.
      split; [exact P1|]. split; [exact P2|].
      split; [intros b Hb; apply P3, Hi1, Hb|].
      repeat split; congruence.
Qed.

(* C12, bounded sequences: starting from [new_definite_array n], exactly [n] pushes succeed and
   every further push is refused; no allocator request is made by any of them *)
Theorem definite_accepts_exactly n w a w1 xs :
  wf w -> new_definite_array refuse n w = Ret (Some a) w1 ->
  (forall x, In x xs -> is_item w1 x /\ x <> a) ->
  exists w',
    push_many a xs w1 =
      Ret (repeat true (Nat.min (N.to_nat n) (length xs)) ++ repeat false (length xs - N.to_nat n)) w' /\
    heap w' a = Some (CItem 1 (NArr false (Some (a + 1)) n (firstn (N.to_nat n) xs))) /\
    next w' = next w1 /\ nreq w' = nreq w1 /\ trace w' = trace w1.
Proof.
  intros Hwf Hnew Hxs.
  destruct (new_definite_array_success refuse n w a w1 Hwf Hnew)
    as (bytes & _ & _ & Ha & Hd & _).
  destruct (definite_pushes a xs (N.to_nat n) w1 1 (a + 1) bytes n [] Ha Hd Hxs)
    as (w' & E & P1 & _ & _ & P4 & P5 & P6).
  { change (len (@nil addr)) with 0. lia. }
  exists w'. cbn [app] in P1. repeat split; assumption.
Qed.

End Sequences.

(* ------------------------------------------------------------------ *)
(* 5. maps                                                              *)

Section Maps.
Variable refuse : N -> N -> bool.

Ltac upd_tac := repeat first [rewrite upd_same | rewrite upd_other by (congruence || lia)].

(* 5.1 _cbor_map_add_key: the same shape as array_push, with pairs of 16 bytes *)

Theorem add_key_definite_full a k w rc d allocated pairs :
  heap w a = Some (CItem rc (NMap false d allocated pairs)) ->
  allocated <= len pairs ->
  map_add_key refuse a k w = Ret false (w_log (AccR a) w).
Proof.
  intros Ha Hfull. unfold map_add_key.
  mstep (rd_item_spec a w _ _ Ha).
  destruct (N.leb_spec allocated (len pairs)) as [_|L]; [reflexivity | lia].
Qed.

Theorem add_key_room indef a k w rc d sz allocated pairs rck nk :
  heap w a = Some (CItem rc (NMap indef (Some d) allocated pairs)) ->
  heap w d = Some (CData sz) ->
  heap w k = Some (CItem rck nk) ->
  a <> k ->
  len pairs < allocated ->
  map_add_key refuse a k w =
  Ret true (w_push a rc (NMap indef (Some d) allocated (pairs ++ [(k, None)])) d k rck nk w).
Proof.
  intros Ha Hd Hk Hak Hroom. unfold map_add_key.
  mstep (rd_item_spec a w _ _ Ha).
  destruct indef.
  - destruct (N.leb_spec allocated (len pairs)) as [L|_]; [lia|].
    match goal with |- bind (ret ?v) ?f ?w1 = _ => rewrite (bind_Ret (ret v) f w1 v w1 eq_refl) end.
    mstep (touch_data_spec true d (w_log (AccR a) w) sz Hd).
    match goal with |- bind (wr_item a rc ?n) _ ?w1 = _ =>
      mstep (wr_item_spec a rc n w1 _ _ Ha) end.
    match goal with |- bind (incref k) _ ?w1 = _ =>
      assert (Hk1 : heap w1 k = Some (CItem rck nk)) by (wsimpl; rewrite upd_other by congruence; exact Hk);
      mstep (incref_spec k w1 rck nk Hk1) end.
    reflexivity.
  - destruct (N.leb_spec allocated (len pairs)) as [L|_]; [lia|].
    mstep (touch_data_spec true d (w_log (AccR a) w) sz Hd).
    match goal with |- bind (wr_item a rc ?n) _ ?w1 = _ =>
      mstep (wr_item_spec a rc n w1 _ _ Ha) end.
    match goal with |- bind (incref k) _ ?w1 = _ =>
      assert (Hk1 : heap w1 k = Some (CItem rck nk)) by (wsimpl; rewrite upd_other by congruence; exact Hk);
      mstep (incref_spec k w1 rck nk Hk1) end.
    reflexivity.
Qed.

Theorem add_key_guard a k w rc data allocated pairs :
  heap w a = Some (CItem rc (NMap true data allocated pairs)) ->
  allocated <= len pairs ->
  grow_req SZ_PAIR allocated = None ->
  map_add_key refuse a k w = Ret false (w_log (AccR a) w).
Proof.
  intros Ha Hfull Hg. unfold map_add_key.
  mstep (rd_item_spec a w _ _ Ha).
  destruct (N.leb_spec allocated (len pairs)) as [_|L]; [|lia].
  match goal with |- bind (bind ?m ?f) ?g ?w1 = _ =>
    rewrite (bind_Ret (bind m f) g w1 None w1) end; [reflexivity|].
  mstep (grow_guard refuse data SZ_PAIR allocated (w_log (AccR a) w) Hg). reflexivity.
Qed.

Theorem add_key_refused a k w rc data allocated pairs c bytes :
  heap w a = Some (CItem rc (NMap true data allocated pairs)) ->
  data_ok w data ->
  allocated <= len pairs ->
  grow_req SZ_PAIR allocated = Some (c, bytes) ->
  refuse (nreq w) bytes = true ->
  map_add_key refuse a k w =
  Ret false (w_refused (EvRealloc data bytes None) (w_log (AccR a) w)).
Proof.
  intros Ha Hd Hfull Hg Hr. unfold map_add_key.
  mstep (rd_item_spec a w _ _ Ha).
  destruct (N.leb_spec allocated (len pairs)) as [_|L]; [|lia].
  match goal with |- bind (bind ?m ?f) ?g ?w1 = _ =>
    rewrite (bind_Ret (bind m f) g w1 None (w_refused (EvRealloc data bytes None) w1)) end;
    [reflexivity|].
  mstep (grow_refused refuse data SZ_PAIR allocated (w_log (AccR a) w) c bytes Hg Hd Hr). reflexivity.
Qed.

Theorem add_key_granted a k w rc data allocated pairs c bytes rck nk :
  wf w ->
  heap w a = Some (CItem rc (NMap true data allocated pairs)) ->
  data_ok w data ->
  heap w k = Some (CItem rck nk) ->
  a <> k ->
  allocated <= len pairs ->
  grow_req SZ_PAIR allocated = Some (c, bytes) ->
  refuse (nreq w) bytes = false ->
  map_add_key refuse a k w =
  Ret true (w_push_grown a rc (NMap true (Some (next w)) c (pairs ++ [(k, None)])) data bytes k rck nk w).
Proof.
  intros Hwf Ha Hd Hx Hax Hfull Hg Hr. unfold map_add_key.
  mstep (rd_item_spec a w _ _ Ha).
  destruct (N.leb_spec allocated (len pairs)) as [_|L]; [|lia].
  pose proof (wf_item_neq_next w a _ Hwf Ha) as Han.
  pose proof (wf_item_neq_next w k _ Hwf Hx) as Hxn.
  assert (Hda : forall d, data = Some d -> a <> d /\ k <> d).
  { intros d ->. destruct Hd as [sz Hd]. split; eapply item_data_neq; eauto. }
  set (w1 := w_log (AccR a) w).
  set (w2 := w_realloc data bytes w1).
  assert (H2 : forall b, b <> next w -> (forall d, data = Some d -> b <> d) -> heap w2 b = heap w b).
  { intros b Hb Hbd. subst w2 w1. wsimpl. rewrite upd_other by exact Hb.
    destruct data as [d|]; [rewrite upd_other by (apply Hbd; reflexivity)|]; reflexivity. }
  match goal with |- bind (bind ?m ?f) ?g ?w0 = _ =>
    rewrite (bind_Ret (bind m f) g w0 (Some (Some (next w), c)) w2) end.
  2:{ mstep (grow_granted refuse data SZ_PAIR allocated w1 c bytes Hg Hd Hr). reflexivity. }
  assert (Hn2 : heap w2 (next w) = Some (CData bytes)) by (subst w2 w1; wsimpl; apply upd_same).
  mstep (touch_data_spec true (next w) w2 bytes Hn2).
  assert (Ha2 : heap w2 a = Some (CItem rc (NMap true data allocated pairs))).
  { rewrite H2; [exact Ha | exact Han | intros d E; apply (Hda d E)]. }
  match goal with |- bind (wr_item a rc ?n) _ ?w3 = _ =>
    mstep (wr_item_spec a rc n w3 _ _ Ha2) end.
  match goal with |- bind (incref k) _ ?w4 = _ =>
    assert (Hx4 : heap w4 k = Some (CItem rck nk)) end.
  { wsimpl. rewrite upd_other by congruence. fold w1. fold w2.
    rewrite H2; [exact Hx | exact Hxn | intros d E; apply (Hda d E)]. }
  match goal with |- bind (incref k) _ ?w4 = _ => mstep (incref_spec k w4 rck nk Hx4) end.
  reflexivity.
Qed.

(* 5.2 _cbor_map_add_value: fills the value of the last pair *)
Definition w_addval (a : addr) (rc : N) (nd : node) (d v : addr) (rcv : N) (nv : node) (w : world) : world :=
  w_set a (CItem rc nd) (w_log (AccW d) (w_log (AccR a) (w_incref v rcv nv w))).

Theorem add_value_spec a v w rc indef d sz allocated ps k o rcv nv :
  heap w a = Some (CItem rc (NMap indef (Some d) allocated (ps ++ [(k, o)]))) ->
  heap w d = Some (CData sz) ->
  heap w v = Some (CItem rcv nv) ->
  a <> v ->
  map_add_value a v w =
  Ret true (w_addval a rc (NMap indef (Some d) allocated (ps ++ [(k, Some v)])) d v rcv nv w).
Proof.
  intros Ha Hd Hv Hav. unfold map_add_value.
  mstep (incref_spec v w rcv nv Hv).
  set (w1 := w_incref v rcv nv w).
  assert (Ha1 : heap w1 a = Some (CItem rc (NMap indef (Some d) allocated (ps ++ [(k, o)]))))
    by (subst w1; wsimpl; rewrite upd_other by exact Hav; exact Ha).
  assert (Hd1 : heap w1 d = Some (CData sz)).
  { subst w1; wsimpl. rewrite upd_other; [exact Hd|]. intros ->. congruence. }
  mstep (rd_item_spec a w1 _ _ Ha1).
  rewrite rev_app_distr. cbn [rev app]. rewrite rev_involutive.
  mstep (touch_data_spec true d (w_log (AccR a) w1) sz Hd1).
  match goal with |- bind (wr_item a rc ?n) _ ?w3 = _ =>
    mstep (wr_item_spec a rc n w3 _ _ Ha1) end.
  reflexivity.
Qed.

Lemma w_addval_props a rc nd d v rcv nv w :
  a <> v ->
  let w' := w_addval a rc nd d v rcv nv w in
  heap w' a = Some (CItem rc nd) /\
  heap w' v = Some (CItem (wrap64 (rcv + 1)) nv) /\
  heap_but [a; v] w w' /\
  next w' = next w /\ nreq w' = nreq w /\ trace w' = trace w.
Proof.
  clear refuse. intros Hav w'. subst w'. unfold w_addval. wsimpl.
  split; [apply upd_same|].
  split; [rewrite upd_other by congruence; apply upd_same|].
  split; [|repeat split].
  intros b Hb. cbn [In] in Hb. wsimpl.
  rewrite !upd_other by (intros E; apply Hb; subst; tauto). reflexivity.
Qed.

(* 5.3 cbor_map_add = add_key, then add_value *)

Lemma heap_but_trans l1 l2 w w1 w2 :
  heap_but l1 w w1 -> heap_but l2 w1 w2 -> heap_but (l1 ++ l2) w w2.
Proof.
  clear refuse. intros H1 H2 b Hb. rewrite H2, H1; [reflexivity| |]; intros Hin; apply Hb, in_or_app; tauto.
Qed.

Lemma heap_but_weaken l l' w w' :
  (forall b, In b l -> In b l') -> heap_but l w w' -> heap_but l' w w'.
Proof. clear refuse. intros Hl H b Hb. apply H. intros Hin. apply Hb, Hl, Hin. Qed.

Theorem map_add_definite_full a k v w rc d allocated pairs :
  heap w a = Some (CItem rc (NMap false d allocated pairs)) ->
  allocated <= len pairs ->
  map_add refuse a k v w = Ret false (w_log (AccR a) w).
Proof.
  intros Ha Hfull. unfold map_add.
  mstep (add_key_definite_full a k w rc d allocated pairs Ha Hfull). reflexivity.
Qed.

Theorem map_add_room indef a k v w rc d sz allocated pairs rck nk rcv nv :
  heap w a = Some (CItem rc (NMap indef (Some d) allocated pairs)) ->
  heap w d = Some (CData sz) ->
  heap w k = Some (CItem rck nk) ->
  heap w v = Some (CItem rcv nv) ->
  a <> k -> a <> v -> k <> v ->
  len pairs < allocated ->
  map_add refuse a k v w =
  Ret true (w_addval a rc (NMap indef (Some d) allocated (pairs ++ [(k, Some v)])) d v rcv nv
             (w_push a rc (NMap indef (Some d) allocated (pairs ++ [(k, None)])) d k rck nk w)).
Proof.
  intros Ha Hd Hk Hv Hak Hav Hkv Hroom. unfold map_add.
  mstep (add_key_room indef a k w rc d sz allocated pairs rck nk Ha Hd Hk Hak Hroom).
  set (nd1 := NMap indef (Some d) allocated (pairs ++ [(k, None)])).
  destruct (w_push_props a rc nd1 d k rck nk w Hak) as (P1 & P2 & P3 & _).
  eapply add_value_spec with (sz := sz); [exact P1 | | | exact Hav].
  - rewrite P3; [exact Hd|]. cbn [In]. intros [E|[E|[]]]; subst d; congruence.
  - rewrite P3; [exact Hv|]. cbn [In]. intros [E|[E|[]]]; congruence.
Qed.

Theorem map_add_guard a k v w rc data allocated pairs :
  heap w a = Some (CItem rc (NMap true data allocated pairs)) ->
  allocated <= len pairs ->
  grow_req SZ_PAIR allocated = None ->
  map_add refuse a k v w = Ret false (w_log (AccR a) w).
Proof.
  intros Ha Hfull Hg. unfold map_add.
  mstep (add_key_guard a k w rc data allocated pairs Ha Hfull Hg). reflexivity.
Qed.

Theorem map_add_refused a k v w rc data allocated pairs c bytes :
  heap w a = Some (CItem rc (NMap true data allocated pairs)) ->
  data_ok w data ->
  allocated <= len pairs ->
  grow_req SZ_PAIR allocated = Some (c, bytes) ->
  refuse (nreq w) bytes = true ->
  map_add refuse a k v w =
  Ret false (w_refused (EvRealloc data bytes None) (w_log (AccR a) w)).
Proof.
  intros Ha Hd Hfull Hg Hr. unfold map_add.
  mstep (add_key_refused a k w rc data allocated pairs c bytes Ha Hd Hfull Hg Hr). reflexivity.
Qed.

Theorem map_add_granted a k v w rc data allocated pairs c bytes rck nk rcv nv :
  wf w ->
  heap w a = Some (CItem rc (NMap true data allocated pairs)) ->
  data_ok w data ->
  heap w k = Some (CItem rck nk) ->
  heap w v = Some (CItem rcv nv) ->
  a <> k -> a <> v -> k <> v ->
  allocated <= len pairs ->
  grow_req SZ_PAIR allocated = Some (c, bytes) ->
  refuse (nreq w) bytes = false ->
  map_add refuse a k v w =
  Ret true (w_addval a rc (NMap true (Some (next w)) c (pairs ++ [(k, Some v)])) (next w) v rcv nv
             (w_push_grown a rc (NMap true (Some (next w)) c (pairs ++ [(k, None)])) data bytes k rck nk w)).
Proof.
  intros Hwf Ha Hd Hk Hv Hak Hav Hkv Hfull Hg Hr. unfold map_add.
  mstep (add_key_granted a k w rc data allocated pairs c bytes rck nk Hwf Ha Hd Hk Hak Hfull Hg Hr).
  set (nd1 := NMap true (Some (next w)) c (pairs ++ [(k, None)])).
  assert (Hdd : forall d, data = Some d -> is_data w d) by (intros d ->; exact Hd).
  destruct (w_push_grown_props a rc nd1 data bytes k rck nk w _ _ Hwf Ha Hk Hak Hdd)
    as (P1 & P2 & P3 & P4 & P5 & _).
  eapply add_value_spec with (sz := bytes); [exact P1 | exact P3 | | exact Hav].
  rewrite P5; [exact Hv|]. cbn [In].
  pose proof (wf_item_neq_next w v _ Hwf Hv) as Hvn.
  intros [E|[E|[E|Hin]]]; try congruence.
  destruct data as [d|]; [|exact Hin]. cbn [opt_list In] in Hin. destruct Hin as [E|[]].
  subst d. destruct Hd as [s Hs]. congruence.
Qed.

(* the packaged statements *)
Theorem map_add_definite a k v w rc d sz allocated pairs rck nk rcv nv :
  heap w a = Some (CItem rc (NMap false (Some d) allocated pairs)) ->
  heap w d = Some (CData sz) ->
  heap w k = Some (CItem rck nk) ->
  heap w v = Some (CItem rcv nv) ->
  a <> k -> a <> v -> k <> v ->
  exists w',
    (allocated <= len pairs ->
       map_add refuse a k v w = Ret false w' /\ same_heap w w' /\
       no_new_write w w' /\ trace w' = trace w /\ nreq w' = nreq w) /\
    (len pairs < allocated ->
       map_add refuse a k v w = Ret true w' /\
       heap w' a = Some (CItem rc (NMap false (Some d) allocated (pairs ++ [(k, Some v)]))) /\
       heap w' k = Some (CItem (wrap64 (rck + 1)) nk) /\
       heap w' v = Some (CItem (wrap64 (rcv + 1)) nv) /\
       heap_but [a; k; v] w w' /\
       next w' = next w /\ nreq w' = nreq w /\ trace w' = trace w).
Proof.
  intros Ha Hd Hk Hv Hak Hav Hkv.
  destruct (N.le_gt_cases allocated (len pairs)) as [L|L].
  - exists (w_log (AccR a) w). split; [intros _ | lia].
    split; [eapply map_add_definite_full; eauto|].
    split; [split; reflexivity|]. split; [apply no_new_write_log_r|]. split; reflexivity.
  - eexists. split; [lia | intros _].
    split; [eapply map_add_room; eauto|].
    set (nd1 := NMap false (Some d) allocated (pairs ++ [(k, None)])).
    set (nd2 := NMap false (Some d) allocated (pairs ++ [(k, Some v)])).
    destruct (w_push_props a rc nd1 d k rck nk w Hak) as (P1 & P2 & P3 & P4 & P5 & P6).
    destruct (w_addval_props a rc nd2 d v rcv nv (w_push a rc nd1 d k rck nk w) Hav)
      as (Q1 & Q2 & Q3 & Q4 & Q5 & Q6).
    split; [exact Q1|].
    split; [rewrite Q3; [exact P2|]; cbn [In]; intros [E|[E|[]]]; congruence|].
    split; [exact Q2|].
    split; [|repeat split; congruence].
    eapply heap_but_weaken; [|eapply heap_but_trans; [exact P3 | exact Q3]].
    cbn [In app]. tauto.
Qed.

Theorem map_add_indefinite a k v w rc data allocated pairs rck nk rcv nv :
  wf w ->
  heap w a = Some (CItem rc (NMap true data allocated pairs)) ->
  block_inv w data allocated ->
  heap w k = Some (CItem rck nk) ->
  heap w v = Some (CItem rcv nv) ->
  a <> k -> a <> v -> k <> v ->
  allocated < 2 ^ 64 ->
  (len pairs < allocated ->
     exists w',
       map_add refuse a k v w = Ret true w' /\
       heap w' a = Some (CItem rc (NMap true data allocated (pairs ++ [(k, Some v)]))) /\
       heap w' k = Some (CItem (wrap64 (rck + 1)) nk) /\
       heap w' v = Some (CItem (wrap64 (rcv + 1)) nv) /\
       heap_but [a; k; v] w w' /\
       next w' = next w /\ nreq w' = nreq w /\ trace w' = trace w) /\
  (allocated <= len pairs ->
     match grow_req SZ_PAIR allocated with
     | None =>
         exists w',
           map_add refuse a k v w = Ret false w' /\ same_heap w w' /\ no_new_write w w' /\
           trace w' = trace w /\ nreq w' = nreq w
     | Some (c, bytes) =>
         c = N.max 1 (2 * allocated) /\ allocated < c /\ bytes = 16 * c /\ bytes < 2 ^ 64 /\
         if refuse (nreq w) bytes
         then exists w',
           map_add refuse a k v w = Ret false w' /\ same_heap w w' /\ no_new_write w w' /\
           trace w' = EvRealloc data bytes None :: trace w /\ nreq w' = nreq w + 1
         else exists w',
           map_add refuse a k v w = Ret true w' /\
           heap w' a = Some (CItem rc (NMap true (Some (next w)) c (pairs ++ [(k, Some v)]))) /\
           heap w' k = Some (CItem (wrap64 (rck + 1)) nk) /\
           heap w' v = Some (CItem (wrap64 (rcv + 1)) nv) /\
           heap w' (next w) = Some (CData bytes) /\
           (forall d, data = Some d -> heap w' d = None) /\
           heap_but (a :: k :: v :: next w :: opt_list data) w w' /\
           next w' = next w + 1 /\ nreq w' = nreq w + 1 /\
           trace w' = EvRealloc data bytes (Some (next w)) :: trace w /\
           wf w'
     end).
Proof.
  intros Hwf Ha Hb Hk Hv Hak Hav Hkv H64. split.
  - intros Hroom. destruct data as [d|]; [|cbn [block_inv] in Hb; lia].
    destruct Hb as [sz Hd]. eexists. split; [eapply map_add_room; eauto|].
    set (nd1 := NMap true (Some d) allocated (pairs ++ [(k, None)])).
    set (nd2 := NMap true (Some d) allocated (pairs ++ [(k, Some v)])).
    destruct (w_push_props a rc nd1 d k rck nk w Hak) as (P1 & P2 & P3 & P4 & P5 & P6).
    destruct (w_addval_props a rc nd2 d v rcv nv (w_push a rc nd1 d k rck nk w) Hav)
      as (Q1 & Q2 & Q3 & Q4 & Q5 & Q6).
    split; [exact Q1|].
    split; [rewrite Q3; [exact P2|]; cbn [In]; intros [E|[E|[]]]; congruence|].
    split; [exact Q2|].
    split; [|repeat split; congruence].
    eapply heap_but_weaken; [|eapply heap_but_trans; [exact P3 | exact Q3]].
    cbn [In app]. tauto.
  - intros Hfull. pose proof (block_inv_ok _ _ _ Hb) as Hd.
    destruct (grow_req SZ_PAIR allocated) as [[c bytes]|] eqn:G.
    + destruct (grow_req_spec SZ_PAIR allocated c bytes ltac:(unfold SZ_PAIR; lia) H64 G)
        as (Hc & Hlt & Hbytes & Hb64).
      split; [exact Hc|]. split; [exact Hlt|]. split; [exact Hbytes|]. split; [exact Hb64|].
      destruct (refuse (nreq w) bytes) eqn:R.
      * eexists. split; [eapply map_add_refused; eauto|].
        split; [split; reflexivity|]. split; [apply no_new_write_log_r|]. split; reflexivity.
      * eexists. split; [eapply map_add_granted; eauto|].
        set (nd1 := NMap true (Some (next w)) c (pairs ++ [(k, None)])).
        set (nd2 := NMap true (Some (next w)) c (pairs ++ [(k, Some v)])).
        assert (Hdd : forall d, data = Some d -> is_data w d) by (intros d ->; exact Hd).
        destruct (w_push_grown_props a rc nd1 data bytes k rck nk w _ _ Hwf Ha Hk Hak Hdd)
          as (P1 & P2 & P3 & P4 & P5 & P6 & P7 & P8 & P9).
        set (w1 := w_push_grown a rc nd1 data bytes k rck nk w) in *.
        destruct (w_addval_props a rc nd2 (next w) v rcv nv w1 Hav)
          as (Q1 & Q2 & Q3 & Q4 & Q5 & Q6).
        pose proof (wf_item_neq_next w a _ Hwf Ha) as Han.
        pose proof (wf_item_neq_next w v _ Hwf Hv) as Hvn.
        split; [exact Q1|].
        split; [rewrite Q3; [exact P2|]; cbn [In]; intros [E|[E|[]]]; congruence|].
        split; [exact Q2|].
        split; [rewrite Q3; [exact P3|]; cbn [In]; intros [E|[E|[]]]; congruence|].
        split.
        { intros d E. rewrite Q3; [apply P4, E|]. cbn [In]. subst data.
          destruct Hd as [s Hs]. intros [E|[E|[]]]; subst d; congruence. }
        split.
        { eapply heap_but_weaken; [|eapply heap_but_trans; [exact P5 | exact Q3]].
          intros b Hin. cbn [In app] in Hin. cbn [In].
          destruct Hin as [E|[E|[E|Hin]]]; [tauto | tauto | tauto |].
          apply in_app_or in Hin. cbn [In] in Hin. tauto. }
        split; [congruence|]. split; [congruence|]. split; [congruence|].
        intros b Hb'. rewrite Q4 in Hb'. rewrite Q3; [apply P9; exact Hb'|].
        cbn [In]. pose proof (wf_lt w a _ Hwf Ha). pose proof (wf_lt w v _ Hwf Hv).
        intros [E|[E|[]]]; lia.
    + eexists. split; [eapply map_add_guard; eauto|].
      split; [split; reflexivity|]. split; [apply no_new_write_log_r|]. split; reflexivity.
Qed.

End Maps.

(* ------------------------------------------------------------------ *)
(* 6. cbor_array_replace / cbor_array_set                               *)

Section ReplaceSet.
Variable refuse : N -> N -> bool.

Theorem replace_out_of_range a i v w rc indef data allocated elems :
  heap w a = Some (CItem rc (NArr indef data allocated elems)) ->
  len elems <= i ->
  array_replace a i v w = Ret false (w_log (AccR a) w).
Proof. clear refuse.
  intros Ha Hi. unfold array_replace. mstep (rd_item_spec a w _ _ Ha).
  destruct (N.leb_spec (len elems) i) as [_|L]; [reflexivity | lia].
Qed.

Theorem set_out_of_range a i v w rc indef data allocated elems :
  heap w a = Some (CItem rc (NArr indef data allocated elems)) ->
  len elems < i ->
  array_set refuse a i v w = Ret false (w_log (AccR a) w).
Proof.
  intros Ha Hi. unfold array_set. mstep (rd_item_spec a w _ _ Ha).
  destruct (N.eqb_spec i (len elems)) as [E|_]; [lia|].
  destruct (N.ltb_spec i (len elems)) as [L|_]; [lia | reflexivity].
Qed.

(* set at the end is a push (on a world that differs only by one logged read) *)
Theorem set_at_end a v w rc indef data allocated elems :
  heap w a = Some (CItem rc (NArr indef data allocated elems)) ->
  array_set refuse a (len elems) v w = array_push refuse a v (w_log (AccR a) w).
Proof.
  intros Ha. unfold array_set. mstep (rd_item_spec a w _ _ Ha).
  rewrite N.eqb_refl. reflexivity.
Qed.

Theorem set_in_range a i v w rc indef data allocated elems :
  heap w a = Some (CItem rc (NArr indef data allocated elems)) ->
  i < len elems ->
  array_set refuse a i v w = array_replace a i v (w_log (AccR a) w).
Proof.
  intros Ha Hi. unfold array_set. mstep (rd_item_spec a w _ _ Ha).
  destruct (N.eqb_spec i (len elems)) as [E|_]; [lia|].
  destruct (N.ltb_spec i (len elems)) as [_|L]; [reflexivity | lia].
Qed.

Theorem replace_spec_out a i v w rc indef data allocated elems :
  heap w a = Some (CItem rc (NArr indef data allocated elems)) ->
  len elems <= i ->
  exists w', array_replace a i v w = Ret false w' /\ same_heap w w' /\ no_new_write w w' /\
             trace w' = trace w /\ nreq w' = nreq w.
Proof.
  intros Ha Hi. eexists. split; [eapply replace_out_of_range; eauto|].
  split; [split; reflexivity|]. split; [apply no_new_write_log_r|]. split; reflexivity.
Qed.

Theorem set_spec_out a i v w rc indef data allocated elems :
  heap w a = Some (CItem rc (NArr indef data allocated elems)) ->
  len elems < i ->
  exists w', array_set refuse a i v w = Ret false w' /\ same_heap w w' /\ no_new_write w w' /\
             trace w' = trace w /\ nreq w' = nreq w.
Proof.
  intros Ha Hi. eexists. split; [eapply set_out_of_range; eauto|].
  split; [split; reflexivity|]. split; [apply no_new_write_log_r|]. split; reflexivity.
Qed.

(* decref of an item that is still shared just decrements *)
Lemma recursion_ge (F : N -> N -> N) :
  (forall i acc, acc <= F i acc) -> forall n, 2 <= N.recursion 2 F n.
Proof.
  intros HF n. induction n as [|n IH] using N.peano_ind.
  - unfold N.recursion. rewrite N.peano_rect_base. lia.
  - unfold N.recursion in *. rewrite N.peano_rect_succ.
    eapply N.le_trans; [exact IH | apply HF].
Qed.

Lemma drain_fuel_pos w : exists f, drain_fuel w = S f.
Proof. clear refuse.
  unfold drain_fuel.
  match goal with |- context [N.recursion 2 ?F ?n] =>
    assert (H : 2 <= N.recursion 2 F n) by (apply recursion_ge; intros i acc; lia);
    generalize dependent (N.recursion 2 F n) end.
  intros r Hr. exists (pred (N.to_nat r)). lia.
Qed.

Lemma drain_nil f w : drain f [] w = Ret tt w.
Proof. destruct f; reflexivity. Qed.

Theorem decref_shared o w rc n :
  heap w o = Some (CItem rc n) -> 1 < rc ->
  decref o w = Ret tt (w_set o (CItem (rc - 1) n) (w_log (AccR o) w)).
Proof. clear refuse.
  intros Ho Hrc. unfold decref. destruct (drain_fuel_pos w) as [f ->]. cbn [drain].
  mstep (rd_item_spec o w _ _ Ho).
  destruct (N.ltb_spec 0 rc) as [_|L]; [|lia]. cbn [assert_].
  match goal with |- bind (ret tt) ?f ?w1 = _ => rewrite (bind_Ret (ret tt) f w1 tt w1 eq_refl) end.
  destruct (N.eqb_spec rc 1) as [E|_]; [lia|].
  match goal with |- bind (wr_item o ?r n) _ ?w1 = _ =>
    mstep (wr_item_spec o r n w1 _ _ Ho) end.
  rewrite drain_nil, sub64_le by lia. reflexivity.
Qed.

(* the in-range case of replace, for an old element that is still shared (refcount > 1), so
   that cbor_intermediate_decref only decrements; the case where the old element is released
   (refcount 1: a recursive decref) is not covered here *)
Definition w_replace (a : addr) (rc : N) (nd : node) (d old : addr) (rco : N) (no : node)
    (v : addr) (rcv : N) (nv : node) (w : world) : world :=
  w_set a (CItem rc nd) (w_log (AccW d) (w_log (AccR a)
    (w_incref v rcv nv
       (w_set old (CItem (rco - 1) no) (w_log (AccR old) (w_log (AccR d) (w_log (AccR a) w))))))).

Theorem replace_in_range_shared a i v w rc indef d sz allocated elems old rco no rcv nv :
  heap w a = Some (CItem rc (NArr indef (Some d) allocated elems)) ->
  heap w d = Some (CData sz) ->
  nth_error elems (N.to_nat i) = Some old ->
  heap w old = Some (CItem rco no) -> 1 < rco ->
  heap w v = Some (CItem rcv nv) ->
  a <> old -> a <> v -> old <> v ->
  array_replace a i v w =
  Ret true (w_replace a rc (NArr indef (Some d) allocated (set_nth elems (N.to_nat i) v))
              d old rco no v rcv nv w).
Proof. clear refuse.
  intros Ha Hd Hnth Ho Hrco Hv Hao Hav Hov. unfold array_replace.
  mstep (rd_item_spec a w _ _ Ha).
  pose proof (nth_error_len _ _ _ Hnth) as Hi.
  destruct (N.leb_spec (len elems) i) as [L|_]; [lia|].
  mstep (touch_data_spec false d (w_log (AccR a) w) sz Hd).
  rewrite Hnth.
  match goal with |- bind (decref old) _ ?w1 = _ => mstep (decref_shared old w1 rco no Ho Hrco) end.
  match goal with |- bind (incref v) _ ?w1 = _ =>
    assert (Hv1 : heap w1 v = Some (CItem rcv nv)) by (wsimpl; rewrite upd_other by congruence; exact Hv);
    mstep (incref_spec v w1 rcv nv Hv1) end.
  match goal with |- bind (rd_item a) _ ?w1 = _ =>
    assert (Ha1 : heap w1 a = Some (CItem rc (NArr indef (Some d) allocated elems)))
      by (wsimpl; rewrite !upd_other by congruence; exact Ha);
    assert (Hd1 : heap w1 d = Some (CData sz))
      by (wsimpl; rewrite !upd_other by (intros E; subst d; congruence); exact Hd);
    mstep (rd_item_spec a w1 _ _ Ha1) end.
  match goal with |- bind (touch_data true (Some d)) _ ?w1 = _ =>
    mstep (touch_data_spec true d w1 sz Hd1) end.
  match goal with |- bind (wr_item a rc ?nd) _ ?w1 = _ =>
    mstep (wr_item_spec a rc nd w1 _ _ Ha1) end.
  reflexivity.
Qed.

Lemma w_replace_props a rc nd d old rco no v rcv nv w :
  a <> old -> a <> v -> old <> v ->
  let w' := w_replace a rc nd d old rco no v rcv nv w in
  heap w' a = Some (CItem rc nd) /\
  heap w' old = Some (CItem (rco - 1) no) /\
  heap w' v = Some (CItem (wrap64 (rcv + 1)) nv) /\
  heap_but [a; old; v] w w' /\
  next w' = next w /\ nreq w' = nreq w /\ trace w' = trace w.
Proof.
  clear refuse. intros Hao Hav Hov w'. subst w'. unfold w_replace. wsimpl.
  split; [apply upd_same|].
  split; [rewrite !upd_other by congruence; apply upd_same|].
  split; [rewrite upd_other by congruence; apply upd_same|].
  split; [|repeat split].
  intros b Hb. cbn [In] in Hb. wsimpl.
  rewrite !upd_other by (intros E; apply Hb; subst; tauto). reflexivity.
Qed.

End ReplaceSet.

(* ------------------------------------------------------------------ *)
(* 7. chunked strings: cbor_bytestring_add_chunk / cbor_string_add_chunk *)

Section Chunks.
Variable refuse : N -> N -> bool.

(* the rule of the two add_chunk functions about their second argument: a chunk of a byte string is a
   definite byte string (asserted by cbor_bytestring_add_chunk); cbor_string_add_chunk checks nothing *)
Definition chunk_ok (text : bool) (nx : node) : Prop :=
  if text then True else exists data bs, nx = NStr false data bs.
(* the world after the assertion: the byte-string function has read the chunk's type *)
Definition w_chk (text : bool) (x : addr) (w : world) : world := if text then w else w_log (AccR x) w.

Lemma w_chk_heap text x w : heap (w_chk text x w) = heap w.
Proof. destruct text; reflexivity. Qed.
Lemma w_chk_next text x w : next (w_chk text x w) = next w.
Proof. destruct text; reflexivity. Qed.
Lemma w_chk_nreq text x w : nreq (w_chk text x w) = nreq w.
Proof. destruct text; reflexivity. Qed.
Lemma w_chk_trace text x w : trace (w_chk text x w) = trace w.
Proof. destruct text; reflexivity. Qed.
Lemma w_chk_writes text x w b : In (AccW b) (alog (w_chk text x w)) -> In (AccW b) (alog w).
Proof. destruct text; cbn; [auto|]. intros [E|H]; [discriminate E|exact H]. Qed.

Lemma chunk_assert_spec text x w rcx nx :
  heap w x = Some (CItem rcx nx) -> chunk_ok text nx -> chunk_assert text x w = Ret tt (w_chk text x w).
Proof.
  clear refuse. intros Hx Hk. unfold chunk_assert, w_chk. destruct text; [reflexivity|].
  destruct Hk as (data & bs & ->). mstep (rd_item_spec x w _ _ Hx). reflexivity.
Qed.

Definition w_chunk (text : bool) (a : addr) (rc : N) (nd : node) (hdr ar x : addr) (rcx : N) (nx : node)
    (w : world) : world :=
  w_set a (CItem rc nd) (w_log (AccW hdr) (w_log (AccW ar)
    (w_incref x rcx nx (w_log (AccR hdr) (w_chk text x (w_log (AccR a) w)))))).

Definition w_chunk_grown (text : bool) (a : addr) (rc : N) (nd : node) (hdr : addr) (arr : option addr)
    (bytes : N) (x : addr) (rcx : N) (nx : node) (w : world) : world :=
  w_set a (CItem rc nd) (w_log (AccW hdr) (w_log (AccW (next w))
    (w_incref x rcx nx (w_log (AccW hdr)
       (w_realloc arr bytes (w_log (AccR hdr) (w_chk text x (w_log (AccR a) w)))))))).

(* the world after the reads that every call makes first *)
Definition w_pre (text : bool) (a x hdr : addr) (w : world) : world :=
  w_log (AccR hdr) (w_chk text x (w_log (AccR a) w)).
Lemma w_pre_heap text a x hdr w : heap (w_pre text a x hdr w) = heap w.
Proof. unfold w_pre. cbn [heap w_log]. rewrite w_chk_heap. reflexivity. Qed.
Lemma w_pre_next text a x hdr w : next (w_pre text a x hdr w) = next w.
Proof. unfold w_pre. cbn [next w_log]. rewrite w_chk_next. reflexivity. Qed.
Lemma w_pre_nreq text a x hdr w : nreq (w_pre text a x hdr w) = nreq w.
Proof. unfold w_pre. cbn [nreq w_log]. rewrite w_chk_nreq. reflexivity. Qed.
Lemma w_pre_trace text a x hdr w : trace (w_pre text a x hdr w) = trace w.
Proof. unfold w_pre. cbn [trace w_log]. rewrite w_chk_trace. reflexivity. Qed.

(* the common prefix: read the item, check the chunk, read the header *)
Lemma add_chunk_prefix a x w rc text hdr hsz arr cap chunks rcx nx :
  heap w a = Some (CItem rc (NChunked text hdr arr cap chunks)) ->
  heap w hdr = Some (CData hsz) ->
  heap w x = Some (CItem rcx nx) -> chunk_ok text nx ->
  add_chunk refuse a x w =
  ((if len chunks =? cap then
      g <- grow refuse arr SZ_PTR cap ;;
      match g with
      | None => ret None
      | Some (cap', arr') => touch_data true (Some hdr) ;;; ret (Some (Some arr', cap'))
      end
    else ret (Some (arr, cap))) >>= fun st =>
   match st with
   | None => ret false
   | Some (arr', cap') =>
       incref x ;;;
       touch_data true arr' ;;; touch_data true (Some hdr) ;;;
       wr_item a rc (NChunked text hdr arr' cap' (chunks ++ [x])) ;;; ret true
   end) (w_pre text a x hdr w).
Proof.
  intros Ha Hh Hx Hk. unfold add_chunk.
  mstep (rd_item_spec a w _ _ Ha).
  mstep (chunk_assert_spec text x (w_log (AccR a) w) rcx nx Hx Hk).
  assert (Hh1 : heap (w_chk text x (w_log (AccR a) w)) hdr = Some (CData hsz)) by (rewrite w_chk_heap; exact Hh).
  mstep (touch_data_spec false hdr _ hsz Hh1). reflexivity.
Qed.

Theorem add_chunk_room a x w rc text hdr hsz ar asz cap chunks rcx nx :
  heap w a = Some (CItem rc (NChunked text hdr (Some ar) cap chunks)) ->
  heap w hdr = Some (CData hsz) ->
  heap w ar = Some (CData asz) ->
  heap w x = Some (CItem rcx nx) -> chunk_ok text nx ->
  a <> x ->
  len chunks <> cap ->
  add_chunk refuse a x w =
  Ret true (w_chunk text a rc (NChunked text hdr (Some ar) cap (chunks ++ [x])) hdr ar x rcx nx w).
Proof.
  intros Ha Hh Har Hx Hk Hax Hroom. rewrite (add_chunk_prefix a x w rc text hdr hsz _ cap chunks rcx nx Ha Hh Hx Hk).
  unfold w_chunk. fold (w_pre text a x hdr w). set (w0 := w_pre text a x hdr w).
  assert (H0 : heap w0 = heap w) by apply w_pre_heap. clearbody w0.
  destruct (N.eqb_spec (len chunks) cap) as [E|_]; [contradiction|].
  match goal with |- bind (ret ?v) ?f ?w1 = _ => rewrite (bind_Ret (ret v) f w1 v w1 eq_refl) end.
  assert (Hx0 : heap w0 x = Some (CItem rcx nx)) by (rewrite H0; exact Hx).
  mstep (incref_spec x w0 rcx nx Hx0).
  assert (Hxh : x <> hdr) by (intros ->; congruence).
  assert (Hxa : x <> ar) by (intros ->; congruence).
  match goal with |- bind (touch_data true (Some ar)) _ ?w1 = _ =>
    assert (Har1 : heap w1 ar = Some (CData asz)) by (wsimpl; rewrite upd_other by congruence; rewrite H0; exact Har);
    assert (Hh1 : heap w1 hdr = Some (CData hsz)) by (wsimpl; rewrite upd_other by congruence; rewrite H0; exact Hh);
    assert (Ha1 : heap w1 a = Some (CItem rc (NChunked text hdr (Some ar) cap chunks)))
      by (wsimpl; rewrite upd_other by congruence; rewrite H0; exact Ha);
    mstep (touch_data_spec true ar w1 asz Har1) end.
  match goal with |- bind (touch_data true (Some hdr)) _ ?w1 = _ =>
    mstep (touch_data_spec true hdr w1 hsz Hh1) end.
  match goal with |- bind (wr_item a rc ?nd) _ ?w1 = _ =>
    mstep (wr_item_spec a rc nd w1 _ _ Ha1) end.
  reflexivity.
Qed.

Theorem add_chunk_guard a x w rc text hdr hsz arr cap chunks rcx nx :
  heap w a = Some (CItem rc (NChunked text hdr arr cap chunks)) ->
  heap w hdr = Some (CData hsz) ->
  heap w x = Some (CItem rcx nx) -> chunk_ok text nx ->
  len chunks = cap ->
  grow_req SZ_PTR cap = None ->
  add_chunk refuse a x w = Ret false (w_pre text a x hdr w).
Proof.
  intros Ha Hh Hx Hk Hfull Hg. rewrite (add_chunk_prefix a x w rc text hdr hsz _ cap chunks rcx nx Ha Hh Hx Hk).
  set (w0 := w_pre text a x hdr w). clearbody w0.
  destruct (N.eqb_spec (len chunks) cap) as [_|E]; [|contradiction].
  match goal with |- bind (bind ?m ?f) ?g ?w1 = _ =>
    rewrite (bind_Ret (bind m f) g w1 None w1) end; [reflexivity|].
  mstep (grow_guard refuse arr SZ_PTR cap w0 Hg).
  reflexivity.
Qed.

Theorem add_chunk_refused a x w rc text hdr hsz arr cap chunks c bytes rcx nx :
  heap w a = Some (CItem rc (NChunked text hdr arr cap chunks)) ->
  heap w hdr = Some (CData hsz) ->
  heap w x = Some (CItem rcx nx) -> chunk_ok text nx ->
  data_ok w arr ->
  len chunks = cap ->
  grow_req SZ_PTR cap = Some (c, bytes) ->
  refuse (nreq w) bytes = true ->
  add_chunk refuse a x w =
  Ret false (w_refused (EvRealloc arr bytes None) (w_pre text a x hdr w)).
Proof.
  intros Ha Hh Hx Hk Hd Hfull Hg Hr. rewrite (add_chunk_prefix a x w rc text hdr hsz _ cap chunks rcx nx Ha Hh Hx Hk).
  set (w0 := w_pre text a x hdr w).
  assert (H0 : heap w0 = heap w) by apply w_pre_heap. assert (N0 : nreq w0 = nreq w) by apply w_pre_nreq. clearbody w0.
  assert (Hd0 : data_ok w0 arr) by (destruct arr as [d|]; [destruct Hd as [sz Hd]; exists sz; rewrite H0; exact Hd|exact I]).
  assert (Hr0 : refuse (nreq w0) bytes = true) by (rewrite N0; exact Hr).
  destruct (N.eqb_spec (len chunks) cap) as [_|E]; [|contradiction].
  match goal with |- bind (bind ?m ?f) ?g ?w1 = _ =>
    rewrite (bind_Ret (bind m f) g w1 None (w_refused (EvRealloc arr bytes None) w1)) end;
    [reflexivity|].
  mstep (grow_refused refuse arr SZ_PTR cap w0 c bytes Hg Hd0 Hr0).
  reflexivity.
Qed.

Theorem add_chunk_granted a x w rc text hdr hsz arr cap chunks c bytes rcx nx :
  wf w ->
  heap w a = Some (CItem rc (NChunked text hdr arr cap chunks)) ->
  heap w hdr = Some (CData hsz) ->
  data_ok w arr ->
  arr <> Some hdr ->
  heap w x = Some (CItem rcx nx) -> chunk_ok text nx ->
  a <> x ->
  len chunks = cap ->
  grow_req SZ_PTR cap = Some (c, bytes) ->
  refuse (nreq w) bytes = false ->
  add_chunk refuse a x w =
  Ret true (w_chunk_grown text a rc (NChunked text hdr (Some (next w)) c (chunks ++ [x]))
              hdr arr bytes x rcx nx w).
Proof.
  intros Hwf Ha Hh Hd Hah Hx Hk Hax Hfull Hg Hr.
  rewrite (add_chunk_prefix a x w rc text hdr hsz _ cap chunks rcx nx Ha Hh Hx Hk).
  unfold w_chunk_grown. fold (w_pre text a x hdr w). set (w1 := w_pre text a x hdr w).
  assert (H0 : heap w1 = heap w) by apply w_pre_heap. assert (N0 : nreq w1 = nreq w) by apply w_pre_nreq.
  assert (X0 : next w1 = next w) by apply w_pre_next. clearbody w1.
  assert (Hd0 : data_ok w1 arr) by (destruct arr as [d|]; [destruct Hd as [sz Hd]; exists sz; rewrite H0; exact Hd|exact I]).
  assert (Hr0 : refuse (nreq w1) bytes = false) by (rewrite N0; exact Hr).
  destruct (N.eqb_spec (len chunks) cap) as [_|E]; [|contradiction].
  pose proof (wf_item_neq_next w a _ Hwf Ha) as Han.
  pose proof (wf_item_neq_next w x _ Hwf Hx) as Hxn.
  pose proof (wf_item_neq_next w hdr _ Hwf Hh) as Hhn.
  assert (Hda : forall d, arr = Some d -> a <> d /\ x <> d /\ hdr <> d).
  { intros d ->. destruct Hd as [sz Hd]. split; [|split].
    - eapply item_data_neq; eauto.
    - eapply item_data_neq; eauto.
    - intros ->. apply Hah. reflexivity. }
  rewrite <- X0.
  set (w2 := w_realloc arr bytes w1).
  assert (H2 : forall b, b <> next w -> (forall d, arr = Some d -> b <> d) -> heap w2 b = heap w b).
  { intros b Hb Hbd. subst w2. wsimpl. rewrite X0. rewrite upd_other by exact Hb.
    destruct arr as [d|]; [rewrite upd_other by (apply Hbd; reflexivity)|]; rewrite H0; reflexivity. }
  assert (Hh2 : heap w2 hdr = Some (CData hsz)).
  { rewrite H2; [exact Hh | exact Hhn | intros d E; apply (Hda d E)]. }
  assert (Ha2 : heap w2 a = Some (CItem rc (NChunked text hdr arr cap chunks))).
  { rewrite H2; [exact Ha | exact Han | intros d E; apply (Hda d E)]. }
  assert (Hx2 : heap w2 x = Some (CItem rcx nx)).
  { rewrite H2; [exact Hx | exact Hxn | intros d E; apply (Hda d E)]. }
  assert (Hn2 : heap w2 (next w1) = Some (CData bytes)) by (subst w2; wsimpl; apply upd_same).
  match goal with |- bind (bind ?m ?f) ?g ?w0 = _ =>
    rewrite (bind_Ret (bind m f) g w0 (Some (Some (next w1), c)) (w_log (AccW hdr) w2)) end.
  2:{ mstep (grow_granted refuse arr SZ_PTR cap w1 c bytes Hg Hd0 Hr0). fold w2.
      mstep (touch_data_spec true hdr w2 hsz Hh2). reflexivity. }
  match goal with |- bind (incref x) _ ?w3 = _ => mstep (incref_spec x w3 rcx nx Hx2) end.
  assert (Hxh : x <> hdr) by (intros ->; congruence).
  assert (Hxn1 : x <> next w1) by (rewrite X0; exact Hxn).
  assert (Han1 : a <> next w1) by (rewrite X0; exact Han).
  assert (Hhn1 : hdr <> next w1) by (rewrite X0; exact Hhn).
  match goal with |- bind (touch_data true (Some (next w1))) _ ?w4 = _ =>
    assert (Hn4 : heap w4 (next w1) = Some (CData bytes)) by (wsimpl; rewrite upd_other by congruence; exact Hn2);
    assert (Hh4 : heap w4 hdr = Some (CData hsz)) by (wsimpl; rewrite upd_other by congruence; exact Hh2);
    assert (Ha4 : heap w4 a = Some (CItem rc (NChunked text hdr arr cap chunks)))
      by (wsimpl; rewrite upd_other by congruence; exact Ha2);
    mstep (touch_data_spec true (next w1) w4 bytes Hn4) end.
  match goal with |- bind (touch_data true (Some hdr)) _ ?w5 = _ =>
    mstep (touch_data_spec true hdr w5 hsz Hh4) end.
  match goal with |- bind (wr_item a rc ?nd) _ ?w6 = _ =>
    mstep (wr_item_spec a rc nd w6 _ _ Ha4) end.
  reflexivity.
Qed.

Lemma w_chunk_props text a rc nd hdr ar x rcx nx w :
  a <> x ->
  let w' := w_chunk text a rc nd hdr ar x rcx nx w in
  heap w' a = Some (CItem rc nd) /\
  heap w' x = Some (CItem (wrap64 (rcx + 1)) nx) /\
  heap_but [a; x] w w' /\
  next w' = next w /\ nreq w' = nreq w /\ trace w' = trace w.
Proof.
  clear refuse. intros Hax w'. subst w'. unfold w_chunk. wsimpl.
  rewrite ?w_chk_next, ?w_chk_nreq, ?w_chk_trace. wsimpl.
  split; [apply upd_same|].
  split; [rewrite upd_other by congruence; apply upd_same|].
  split; [|repeat split].
  intros b Hb. cbn [In] in Hb. wsimpl.
  rewrite !upd_other by (intros E; apply Hb; subst; tauto). rewrite w_chk_heap. reflexivity.
Qed.

Lemma w_chunk_grown_props text a rc nd hdr arr bytes x rcx nx w rc0 n0 :
  wf w -> heap w a = Some (CItem rc0 n0) -> heap w x = Some (CItem rcx nx) -> a <> x ->
  (forall d, arr = Some d -> is_data w d) ->
  let w' := w_chunk_grown text a rc nd hdr arr bytes x rcx nx w in
  heap w' a = Some (CItem rc nd) /\
  heap w' x = Some (CItem (wrap64 (rcx + 1)) nx) /\
  heap w' (next w) = Some (CData bytes) /\
  (forall d, arr = Some d -> heap w' d = None) /\
  heap_but (a :: x :: next w :: opt_list arr) w w' /\
  next w' = next w + 1 /\ nreq w' = nreq w + 1 /\
  trace w' = EvRealloc arr bytes (Some (next w)) :: trace w /\
  wf w'.
Proof.
  clear refuse. intros Hwf Ha Hx Hax Hd w'. subst w'. unfold w_chunk_grown.
  pose proof (wf_lt w a _ Hwf Ha) as Han. pose proof (wf_lt w x _ Hwf Hx) as Hxn.
  assert (Hdd : forall d, arr = Some d -> d <> a /\ d <> x /\ d < next w).
  { intros d E. destruct (Hd d E) as [sz Hsz]. split; [|split].
    - intros ->. congruence.
    - intros ->. congruence.
    - eapply wf_lt; eauto. }
  wsimpl. rewrite ?w_chk_next, ?w_chk_nreq, ?w_chk_trace, ?w_chk_heap. wsimpl.
  split; [apply upd_same|].
  split; [rewrite upd_other by congruence; apply upd_same|].
  split; [rewrite !upd_other by lia; apply upd_same|].
  split.
  { intros d E. destruct (Hdd d E) as (H1 & H2 & H3). subst arr.
    rewrite !upd_other by lia. apply upd_same. }
  split.
  { intros b Hb. cbn [In] in Hb. wsimpl. rewrite ?w_chk_next, ?w_chk_heap. wsimpl.
    rewrite !upd_other by (intros E; apply Hb; subst; tauto).
    destruct arr as [d|]; [|reflexivity]. cbn [opt_list In] in Hb.
    rewrite upd_other by (intros E; apply Hb; subst; tauto). reflexivity. }
  split; [reflexivity|]. split; [reflexivity|]. split; [reflexivity|].
  unfold wf. wsimpl. rewrite ?w_chk_next, ?w_chk_heap. wsimpl. intros b Hb. rewrite !upd_other by lia.
  destruct arr as [d|]; [|apply Hwf; lia].
  destruct (N.eq_dec b d) as [->|Hbd]; [apply upd_same|].
  rewrite upd_other by exact Hbd. apply Hwf. lia.
Qed.

Lemma no_new_write_log_rr w b1 b2 : no_new_write w (w_log (AccR b1) (w_log (AccR b2) w)).
Proof.
  clear refuse. intros c Hc. wsimpl_in Hc. destruct Hc as [E|[E|Hc]]; [discriminate | discriminate | exact Hc].
Qed.

Lemma no_new_write_pre text a x hdr w : no_new_write w (w_pre text a x hdr w).
Proof.
  clear refuse. intros c Hc. unfold w_pre in Hc. cbn [alog w_log] in Hc. destruct Hc as [E|Hc]; [discriminate E|].
  apply w_chk_writes in Hc. cbn [alog w_log] in Hc. destruct Hc as [E|Hc]; [discriminate E|exact Hc].
Qed.

(* the packaged statement: an unbounded sequence of chunks, capacity doubling when full.  [chunk_ok]: the
   chunk of a byte string is a definite byte string (asserted by cbor_bytestring_add_chunk) *)
Theorem add_chunk_spec a x w rc text hdr hsz arr cap chunks rcx nx :
  wf w ->
  heap w a = Some (CItem rc (NChunked text hdr arr cap chunks)) ->
  heap w hdr = Some (CData hsz) ->
  block_inv w arr cap -> arr <> Some hdr ->
  heap w x = Some (CItem rcx nx) -> chunk_ok text nx ->
  a <> x ->
  cap < 2 ^ 64 ->
  (len chunks <> cap -> cap <> 0 ->
     exists w',
       add_chunk refuse a x w = Ret true w' /\
       heap w' a = Some (CItem rc (NChunked text hdr arr cap (chunks ++ [x]))) /\
       heap w' x = Some (CItem (wrap64 (rcx + 1)) nx) /\
       heap_but [a; x] w w' /\
       next w' = next w /\ nreq w' = nreq w /\ trace w' = trace w) /\
  (len chunks = cap ->
     match grow_req SZ_PTR cap with
     | None =>
         exists w',
           add_chunk refuse a x w = Ret false w' /\ same_heap w w' /\ no_new_write w w' /\
           trace w' = trace w /\ nreq w' = nreq w
     | Some (c, bytes) =>
         c = N.max 1 (2 * cap) /\ cap < c /\ bytes = 8 * c /\ bytes < 2 ^ 64 /\
         if refuse (nreq w) bytes
         then exists w',
           add_chunk refuse a x w = Ret false w' /\ same_heap w w' /\ no_new_write w w' /\
           trace w' = EvRealloc arr bytes None :: trace w /\ nreq w' = nreq w + 1
         else exists w',
           add_chunk refuse a x w = Ret true w' /\
           heap w' a = Some (CItem rc (NChunked text hdr (Some (next w)) c (chunks ++ [x]))) /\
           heap w' x = Some (CItem (wrap64 (rcx + 1)) nx) /\
           heap w' (next w) = Some (CData bytes) /\
           (forall d, arr = Some d -> heap w' d = None) /\
           heap_but (a :: x :: next w :: opt_list arr) w w' /\
           next w' = next w + 1 /\ nreq w' = nreq w + 1 /\
           trace w' = EvRealloc arr bytes (Some (next w)) :: trace w /\
           wf w'
     end).
Proof.
  intros Hwf Ha Hh Hb Hah Hx Hk Hax H64. split.
  - intros Hroom Hc0. destruct arr as [ar|]; [|cbn [block_inv] in Hb; lia].
    destruct Hb as [asz Har]. eexists. split; [eapply add_chunk_room; eauto|].
    apply w_chunk_props. exact Hax.
  - intros Hfull. pose proof (block_inv_ok _ _ _ Hb) as Hd.
    destruct (grow_req SZ_PTR cap) as [[c bytes]|] eqn:G.
    + destruct (grow_req_spec SZ_PTR cap c bytes ltac:(unfold SZ_PTR; lia) H64 G)
        as (Hc & Hlt & Hbytes & Hb64).
      split; [exact Hc|]. split; [exact Hlt|]. split; [exact Hbytes|]. split; [exact Hb64|].
      destruct (refuse (nreq w) bytes) eqn:R.
      * eexists. split; [eapply add_chunk_refused; eauto|].
        split; [split; [cbn [heap w_refused]; apply w_pre_heap|cbn [next w_refused]; apply w_pre_next]|].
        split; [intros c0 Hc0; cbn [alog w_refused] in Hc0; apply (no_new_write_pre text a x hdr w c0 Hc0)|].
        split; [cbn [trace w_refused]; rewrite w_pre_trace; reflexivity|cbn [nreq w_refused]; rewrite w_pre_nreq; reflexivity].
      * eexists. split; [eapply add_chunk_granted; eauto|].
        eapply w_chunk_grown_props; eauto.
        intros d E. subst arr. exact Hd.
    + eexists. split; [eapply add_chunk_guard; eauto|].
      split; [split; [apply w_pre_heap|apply w_pre_next]|]. split; [apply no_new_write_pre|].
      split; [apply w_pre_trace|apply w_pre_nreq].
Qed.

End Chunks.

(* ------------------------------------------------------------------ *)
(* 8. the capacity sequence of an indefinite array (C20_growth, end to end) *)

(* abstract state: (capacity, size, number of reallocations so far) *)
Definition cap_step (s : N * N * N) : N * N * N :=
  let '(cap, sz, r) := s in
  if cap <=? sz then (N.max 1 (2 * cap), sz + 1, r + 1) else (cap, sz + 1, r).
Fixpoint cap_run (k : nat) (s : N * N * N) : N * N * N :=
  match k with O => s | S k' => cap_run k' (cap_step s) end.
(* capacity after k pushes from empty: 0, 1, 2, 4, 4, 8, 8, 8, 8, 16, ... *)
Definition cap_after (k : nat) : N := fst (fst (cap_run k (0, 0, 0))).
Definition reallocs (k : nat) : N := snd (cap_run k (0, 0, 0)).

Lemma cap_after_values :
  map cap_after [0; 1; 2; 3; 4; 5; 8; 9]%nat = [0; 1; 2; 4; 4; 8; 8; 16] /\
  map reallocs [0; 1; 2; 3; 4; 5; 8; 9]%nat = [0; 1; 2; 3; 3; 4; 4; 5].
Proof. split; vm_compute; reflexivity. Qed.

Definition cap_inv (s : N * N * N) : Prop :=
  let '(cap, sz, r) := s in
  sz <= cap /\ ((cap = 0 /\ sz = 0 /\ r = 0) \/ (1 <= r /\ cap = 2 ^ (r - 1) /\ cap < 2 * sz)).

Lemma cap_step_inv s : cap_inv s -> cap_inv (cap_step s).
Proof.
  destruct s as [[cap sz] r]. unfold cap_inv, cap_step. intros [Hle H].
  destruct (N.leb_spec cap sz) as [L|L].
  - assert (sz = cap) by lia. subst sz. destruct H as [(-> & _ & ->)|(Hr & Hc & Hlt)].
    + split; [lia|]. right. change (2 ^ (0 + 1 - 1)) with 1. lia.
    + assert (Hp : 2 ^ (r + 1 - 1) = 2 * cap).
      { replace (r + 1 - 1) with (N.succ (r - 1)) by lia. rewrite N.pow_succ_r', Hc. reflexivity. }
      assert (1 <= cap) by (rewrite Hc; pose proof (pow2_pos (r - 1)); lia).
      split; [lia|]. right. rewrite Hp. lia.
  - split; [lia|]. right. destruct H as [H|H]; lia.
Qed.

Lemma cap_run_inv k : forall s, cap_inv s -> cap_inv (cap_run k s).
Proof. induction k as [|k IH]; intros s H; [exact H|]. cbn [cap_run]. apply IH, cap_step_inv, H. Qed.

Lemma cap_run_size k : forall s, snd (fst (cap_run k s)) = snd (fst s) + N.of_nat k.
Proof.
  induction k as [|k IH]; intros s; [cbn [cap_run]; lia|].
  cbn [cap_run]. rewrite IH. destruct s as [[cap sz] r]. unfold cap_step.
  destruct (cap <=? sz); cbn [fst snd]; lia.
Qed.

(* the arithmetic content of the growth clause: capacities are powers of two, at least the
   size and less than twice the size, so the number of reallocations is logarithmic *)
Theorem cap_after_spec n : (1 <= n)%nat ->
  let c := cap_after n in let r := reallocs n in
  1 <= r /\ c = 2 ^ (r - 1) /\ N.of_nat n <= c /\ c < 2 * N.of_nat n.
Proof.
  intros Hn c r. subst c r. unfold cap_after, reallocs.
  assert (I0 : cap_inv (0, 0, 0)) by (unfold cap_inv; lia).
  pose proof (cap_run_inv n _ I0) as I. pose proof (cap_run_size n (0, 0, 0)) as S.
  destruct (cap_run n (0, 0, 0)) as [[cap sz] r]. cbn [fst snd] in *. unfold cap_inv in I.
  assert (Esz : sz = N.of_nat n) by lia. subst sz. destruct I as [Hle [H|H]]; lia.
Qed.

Theorem reallocs_pow n : (1 <= n)%nat -> 2 ^ (reallocs n - 1) < 2 * N.of_nat n.
Proof. intros Hn. destruct (cap_after_spec n Hn) as (_ & <- & _ & H). exact H. Qed.

Theorem reallocs_log n : reallocs n <= N.log2 (N.of_nat n) + 2.
Proof.
  destruct n as [|n]; [vm_compute; discriminate|].
  assert (Hn : (1 <= S n)%nat) by lia.
  destruct (cap_after_spec (S n) Hn) as (Hr & Hc & _ & Hlt). rewrite Hc in Hlt.
  set (m := N.of_nat (S n)) in *. assert (Hm : 0 < m) by (subst m; lia).
  assert (H : reallocs (S n) - 1 <= N.log2 (2 * m)).
  { apply N.log2_le_pow2; lia. }
  rewrite N.log2_double in H by exact Hm. lia.
Qed.

(* the guards never refuse a growth below 2^59 slots *)
Lemma hb_le w a k : a < 2 ^ w -> a < 2 ^ k -> highest_bit w a <= k.
Proof.
  intros Hw Hk. destruct (N.eq_dec a 0) as [->|Hz]; [rewrite hb_zero; lia|].
  destruct (hb_spec w a Hw) as (_ & Hge & _). specialize (Hge ltac:(lia)).
  assert (Hlt : 2 ^ (highest_bit w a - 1) < 2 ^ k) by lia.
  apply N.pow_lt_mono_r_iff in Hlt; lia.
Qed.

Lemma grow_passes al : al < 2 ^ 59 ->
  grow_req SZ_PTR al = Some (N.max 1 (2 * al), 8 * N.max 1 (2 * al)).
Proof.
  intros Hal.
  assert (H2 : highest_bit 64 2 = 2) by (vm_compute; reflexivity).
  assert (H8 : highest_bit 64 8 = 4) by (vm_compute; reflexivity).
  assert (P59 : 2 ^ 59 < 2 ^ 64) by (apply N.pow_lt_mono_r; lia).
  assert (P60 : 2 ^ 60 = 2 * 2 ^ 59) by (change 60 with (N.succ 59); apply N.pow_succ_r').
  assert (P6064 : 2 ^ 60 < 2 ^ 64) by (apply N.pow_lt_mono_r; lia).
  assert (G : exists c, grow_capacity 64 al = Some c).
  { unfold grow_capacity, CBOR_BUFFER_GROWTH.
    assert (S : safe_to_multiply 64 2 al = true).
    { unfold safe_to_multiply. destruct (N.leb_spec 2 1) as [L|_]; [lia|].
      destruct (N.leb_spec al 1) as [_|_]; [reflexivity|]. cbn [orb].
      apply N.leb_le. rewrite H2. pose proof (hb_le 64 al 59 ltac:(lia) Hal). lia. }
    rewrite S. eexists. reflexivity. }
  destruct G as [c G].
  destruct (grow_spec 64 al c ltac:(lia) ltac:(lia) G) as (Hc & Hlt & Hc64).
  assert (Hc60 : c < 2 ^ 60) by lia.
  assert (A : exists b, alloc_multiple_req 64 SZ_PTR c = Some b).
  { unfold alloc_multiple_req, SZ_PTR.
    assert (S : safe_to_multiply 64 8 c = true).
    { unfold safe_to_multiply. destruct (N.leb_spec 8 1) as [L|_]; [lia|].
      destruct (N.leb_spec c 1) as [_|_]; [reflexivity|]. cbn [orb].
      apply N.leb_le. rewrite H8. pose proof (hb_le 64 c 60 Hc64 Hc60). lia. }
    rewrite S. eexists. reflexivity. }
  destruct A as [b A].
  destruct (alloc_multiple_exact 64 SZ_PTR c b ltac:(unfold SZ_PTR; lia) Hc64 A) as [Hb _].
  unfold grow_req. rewrite G, A. subst b c. reflexivity.
Qed.

Section Growth.
Variable refuse : N -> N -> bool.

Definition is_realloc (e : event) : Prop :=
  match e with EvRealloc _ _ (Some _) => True | _ => False end.

Lemma w_push_grown_is_item a rc nd data bytes x rcx nx w rc0 n0 b :
  wf w -> heap w a = Some (CItem rc0 n0) -> heap w x = Some (CItem rcx nx) -> a <> x ->
  (forall d, data = Some d -> is_data w d) ->
  is_item w b -> is_item (w_push_grown a rc nd data bytes x rcx nx w) b.
Proof.
  clear refuse. intros Hwf Ha Hx Hax Hd Hb.
  destruct (w_push_grown_props a rc nd data bytes x rcx nx w rc0 n0 Hwf Ha Hx Hax Hd)
    as (P1 & P2 & P3 & P4 & P5 & _).
  destruct (N.eq_dec b a) as [->|Hba]; [eexists; eexists; exact P1|].
  destruct (N.eq_dec b x) as [->|Hbx]; [eexists; eexists; exact P2|].
  destruct Hb as (r & n & Hb). exists r, n. rewrite P5; [exact Hb|].
  cbn [In]. intros [E|[E|[E|Hin]]]; try congruence.
  - subst b. rewrite (Hwf (next w)) in Hb by lia. discriminate.
  - destruct data as [d|]; [|exact Hin]. cbn [opt_list In] in Hin. destruct Hin as [E|[]].
    subst b. destruct (Hd d eq_refl) as [s Hs]. congruence.
Qed.

(* the per-step lemma: with an allocator that grants the request, a push succeeds; it
   reallocates iff the array is full ([allocated <= len elems], i.e. [len elems = allocated]
   under the invariant), and the abstract state advances by [cap_step] *)
Theorem push_step a x w rc data allocated elems rcx nx r :
  wf w ->
  heap w a = Some (CItem rc (NArr true data allocated elems)) ->
  block_inv w data allocated ->
  heap w x = Some (CItem rcx nx) -> a <> x ->
  len elems <= allocated -> allocated < 2 ^ 59 ->
  (forall i s, refuse i s = false) ->
  exists w' data' cap' r' evs,
    array_push refuse a x w = Ret true w' /\
    cap_step (allocated, len elems, r) = (cap', len (elems ++ [x]), r') /\
    heap w' a = Some (CItem rc (NArr true data' cap' (elems ++ [x]))) /\
    block_inv w' data' cap' /\ wf w' /\
    len (elems ++ [x]) <= cap' /\
    (allocated <= 2 * len elems -> cap' <= 2 * len (elems ++ [x])) /\
    (forall b, is_item w b -> is_item w' b) /\
    trace w' = evs ++ trace w /\ len evs + r = r' /\ Forall is_realloc evs /\
    (evs <> [] <-> len elems = allocated).
Proof.
  intros Hwf Ha Hb Hx Hax Hinv H59 Hnr.
  assert (Hlen : len (elems ++ [x]) = len elems + 1) by (rewrite len_app; reflexivity).
  unfold cap_step. destruct (N.leb_spec allocated (len elems)) as [L|L].
  - (* full: one reallocation *)
    pose proof (grow_passes allocated H59) as G.
    set (c := N.max 1 (2 * allocated)) in *.
    pose proof (block_inv_ok _ _ _ Hb) as Hd.
    assert (Hdd : forall d, data = Some d -> is_data w d) by (intros d ->; exact Hd).
    pose proof (push_indefinite_granted refuse a x w rc data allocated elems c (8 * c) rcx nx
                  Hwf Ha Hd Hx Hax L G (Hnr _ _)) as E.
    destruct (w_push_grown_props a rc (NArr true (Some (next w)) c (elems ++ [x])) data (8 * c)
                x rcx nx w _ _ Hwf Ha Hx Hax Hdd) as (P1 & P2 & P3 & P4 & P5 & P6 & P7 & P8 & P9).
    eexists. exists (Some (next w)), c, (r + 1), [EvRealloc data (8 * c) (Some (next w))].
    split; [exact E|]. split; [rewrite Hlen; reflexivity|]. split; [exact P1|].
    split; [exists (8 * c); exact P3|]. split; [exact P9|].
    split; [subst c; lia|]. split; [subst c; lia|].
    split; [intros b Hbi; eapply w_push_grown_is_item; eauto|].
    split; [exact P8|]. split; [change (len [EvRealloc data (8 * c) (Some (next w))]) with 1; lia|].
    split; [constructor; [exact I | constructor]|].
    split; [intros _; lia | intros _; discriminate].
  - (* room: no allocator event *)
    destruct data as [d|]; [|cbn [block_inv] in Hb; lia]. destruct Hb as [sz Hd].
    pose proof (push_indefinite_room refuse a x w rc d sz allocated elems rcx nx Ha Hd Hx Hax L) as E.
    destruct (w_push_props a rc (NArr true (Some d) allocated (elems ++ [x])) d x rcx nx w Hax)
      as (P1 & P2 & P3 & P4 & P5 & P6).
    eexists. exists (Some d), allocated, r, [].
    split; [exact E|]. split; [rewrite Hlen; reflexivity|]. split; [exact P1|].
    split.
    { exists sz. rewrite P3; [exact Hd|]. cbn [In]. intros [E1|[E1|[]]]; subst d; congruence. }
    split.
    { intros b Hbn. rewrite P4 in Hbn.
      pose proof (wf_lt w a _ Hwf Ha). pose proof (wf_lt w x _ Hwf Hx).
      rewrite P3; [apply Hwf; exact Hbn|]. cbn [In]. intros [E1|[E1|[]]]; lia. }
    split; [lia|]. split; [lia|].
    split; [intros b Hbi; apply w_push_is_item; assumption|].
    split; [exact P6|]. split; [change (len (@nil event)) with 0; lia|].
    split; [constructor|]. split; [intros H; contradiction | lia].
Qed.

(* n pushes: the abstract state follows [cap_run]; one EvRealloc per abstract reallocation *)
Lemma indefinite_pushes a : forall xs w rc data allocated elems r,
  wf w ->
  heap w a = Some (CItem rc (NArr true data allocated elems)) ->
  block_inv w data allocated ->
  (forall x, In x xs -> is_item w x /\ x <> a) ->
  len elems <= allocated -> allocated <= 2 * len elems ->
  len elems + len xs < 2 ^ 58 ->
  (forall i s, refuse i s = false) ->
  exists w' data' cap' r' evs,
    push_many refuse a xs w = Ret (repeat true (length xs)) w' /\
    cap_run (length xs) (allocated, len elems, r) = (cap', len (elems ++ xs), r') /\
    heap w' a = Some (CItem rc (NArr true data' cap' (elems ++ xs))) /\
    block_inv w' data' cap' /\ wf w' /\
    trace w' = evs ++ trace w /\ len evs + r = r' /\ Forall is_realloc evs.
Proof.
  induction xs as [|x xs IH]; intros w rc data allocated elems r Hwf Ha Hb Hxs Hle Hle2 Hbound Hnr.
  - exists w, data, allocated, r, []. rewrite app_nil_r. cbn [push_many length repeat cap_run].
    repeat split; try assumption. constructor.
  - destruct (Hxs x (or_introl eq_refl)) as [(rcx & nx & Hx) Hxa].
    assert (Hax : a <> x) by congruence.
    assert (Hlx : len (x :: xs) = len xs + 1) by apply len_cons.
    assert (H59 : allocated < 2 ^ 59).
    { assert (P : 2 ^ 59 = 2 * 2 ^ 58) by (change 59 with (N.succ 58); apply N.pow_succ_r'). lia. }
    destruct (push_step a x w rc data allocated elems rcx nx r Hwf Ha Hb Hx Hax Hle H59 Hnr)
      as (w1 & data1 & cap1 & r1 & evs1 & E1 & S1 & Ha1 & Hb1 & Hwf1 & Hle1 & Hle21 & Hit1 & T1 & R1 & F1 & _).
    assert (Hlen1 : len (elems ++ [x]) = len elems + 1) by (rewrite len_app; reflexivity).
    destruct (IH w1 rc data1 cap1 (elems ++ [x]) r1 Hwf1 Ha1 Hb1)
      as (w' & data' & cap' & r' & evs & E & S & Ha' & Hb' & Hwf' & T & R & F); try assumption.
    { intros y Hy. destruct (Hxs y (or_intror Hy)) as [Hy1 Hy2]. split; [apply Hit1, Hy1 | exact Hy2]. }
    { apply Hle21, Hle2. }
    { lia. }
    exists w', data', cap', r', (evs ++ evs1).
    rewrite <- app_assoc in S, Ha'. cbn [app] in S, Ha'.
    split.
    { cbn [push_many]. mstep E1. mstep E. reflexivity. }
    split; [cbn [cap_run length]; rewrite S1; exact S|].
    split; [exact Ha'|]. split; [exact Hb'|]. split; [exact Hwf'|].
    split; [rewrite T, T1, app_assoc; reflexivity|].
    split; [rewrite len_app; lia|].
    apply Forall_app. split; assumption.
Qed.

Lemma wf_malloc sz c w : wf w -> wf (w_malloc sz c w).
Proof.
  clear refuse. intros Hwf b Hb. wsimpl_in Hb. wsimpl. rewrite upd_other by lia. apply Hwf. lia.
Qed.

(* C20_growth, end to end: n pushes onto a fresh indefinite array all succeed, leave capacity
   [cap_after n] (the least power of two >= n), and perform exactly [reallocs n] reallocations,
   which is at most log2 n + 2 *)
Theorem capacity_sequence xs w a w1 :
  wf w -> new_indefinite_array refuse w = Ret (Some a) w1 ->
  (forall x, In x xs -> is_item w1 x /\ x <> a) ->
  len xs < 2 ^ 58 ->
  (forall i s, refuse i s = false) ->
  exists w' data' evs,
    push_many refuse a xs w1 = Ret (repeat true (length xs)) w' /\
    heap w' a = Some (CItem 1 (NArr true data' (cap_after (length xs)) xs)) /\
    block_inv w' data' (cap_after (length xs)) /\ wf w' /\
    trace w' = evs ++ trace w1 /\ len evs = reallocs (length xs) /\ Forall is_realloc evs /\
    reallocs (length xs) <= N.log2 (len xs) + 2.
Proof.
  intros Hwf Hnew Hxs Hbound Hnr. unfold new_indefinite_array in Hnew.
  rewrite (malloc_granted refuse _ _ w (Hnr _ _)) in Hnew. injection Hnew as <- <-.
  set (c0 := CItem 1 (NArr true None 0 [])) in *. set (w1 := w_malloc SZ_ITEM c0 w) in *.
  assert (Ha : heap w1 (next w) = Some (CItem 1 (NArr true None 0 []))) by (subst w1; wsimpl; apply upd_same).
  destruct (indefinite_pushes (next w) xs w1 1 None 0 [] 0 (wf_malloc _ _ _ Hwf) Ha eq_refl Hxs)
    as (w' & data' & cap' & r' & evs & E & S & Ha' & Hb' & Hwf' & T & R & F); try assumption.
  { change (len (@nil addr)) with 0. lia. }
  { change (len (@nil addr)) with 0. lia. }
  change (len (@nil addr)) with 0 in S. cbn [app] in S, Ha'.
  assert (Hc : cap_after (length xs) = cap') by (unfold cap_after; rewrite S; reflexivity).
  assert (Hr : reallocs (length xs) = r') by (unfold reallocs; rewrite S; reflexivity).
  exists w', data', evs. rewrite Hc, Hr.
  split; [exact E|]. split; [exact Ha'|]. split; [exact Hb'|]. split; [exact Hwf'|].
  split; [exact T|]. split; [lia|]. split; [exact F|].
  rewrite <- Hr. apply reallocs_log.
Qed.

End Growth.

(* ------------------------------------------------------------------ *)
(* 9. two observations about the modelled code (concrete witnesses)     *)

(* cbor_array_replace releases the old element before it retains the new one: replacing an
   element by itself while the array holds its only reference touches a freed item *)
Lemma replace_same_sole_ref_faults :
  let nr := fun _ _ : N => false in
  (a <- new_definite_array nr 2 ;; x <- build_int nr false I8 7 ;;
   match a, x with
   | Some a, Some x => array_push nr a x ;;; decref x ;;; array_replace a 0 x
   | _, _ => fail FNull
   end) world0 = Fault (FUseAfterFree 3).
Proof. vm_compute. reflexivity. Qed.

(* the multiplication guard is conservative: 2^60 slots of 8 bytes fit size_t, yet are refused *)
Lemma array_guard_conservative :
  alloc_multiple_req 64 SZ_PTR (2 ^ 60) = None /\ SZ_PTR * 2 ^ 60 < 2 ^ 64.
Proof. split; vm_compute; reflexivity. Qed.

(* ------------------------------------------------------------------ *)
Print Assumptions push_definite.
Print Assumptions definite_accepts_exactly.
Print Assumptions push_indefinite.
Print Assumptions push_step.
Print Assumptions capacity_sequence.
Print Assumptions reallocs_pow.
Print Assumptions reallocs_log.
Print Assumptions get_spec.
Print Assumptions replace_spec_out.
Print Assumptions set_spec_out.
Print Assumptions set_at_end.
Print Assumptions set_in_range.
Print Assumptions replace_in_range_shared.
Print Assumptions w_replace_props.
Print Assumptions map_add_definite.
Print Assumptions map_add_indefinite.
Print Assumptions add_chunk_spec.
Print Assumptions new_definite_array_refusal.
Print Assumptions new_definite_map_refusal.
Print Assumptions new_indefinite_string_refusal.
Print Assumptions build_string_refusal.
Print Assumptions new_definite_array_guard.
Print Assumptions new_definite_array_success.
Print Assumptions constructors_total.

(* the refused-growth branch of push_indefinite, as a standalone statement (C06) *)
Lemma push_refused_atomic :
  forall (refuse : N -> N -> bool) (a x : addr) (w : world) (rc : N) (data : option addr) (allocated : N)
         (elems : list addr) (rcx : N) (nx : node) c bytes,
  wf w -> heap w a = Some (CItem rc (NArr true data allocated elems)) -> block_inv w data allocated ->
  heap w x = Some (CItem rcx nx) -> a <> x -> (allocated < 2 ^ 64)%N -> (allocated <= len elems)%N ->
  grow_req SZ_PTR allocated = Some (c, bytes) -> refuse (nreq w) bytes = true ->
  exists w', array_push refuse a x w = Ret false w' /\ same_heap w w' /\ no_new_write w w'.
Proof.
  intros refuse a x w rc data allocated elems rcx nx c bytes Hwf Ha Hb Hx Hne Hal Hfull Hg Hr.
  destruct (push_indefinite refuse a x w rc data allocated elems rcx nx Hwf Ha Hb Hx Hne Hal) as [_ H].
  specialize (H Hfull). rewrite Hg in H. destruct H as (_ & _ & _ & _ & H). rewrite Hr in H.
  destruct H as (w' & E & Hs & Hn & _). exists w'. auto.
Qed.
