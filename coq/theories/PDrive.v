(* Model P, the fragment-fed client of the streaming decoder (the client described by the
   statement of C09; cf. examples/streaming_parser.c).  Definitions only. *)
From CB Require Export PStream.
Local Open Scope N_scope.

Inductive dstate :=
| DWait (buffer : list N) (wanted : N)   (* waiting until [wanted] bytes are buffered *)
| DStop                                  (* decoder reported ERROR *)
| DFault.                                (* decoder fault, or the client made no progress *)

(* call the decoder while enough bytes are buffered *)
Fixpoint pump (fuel : nat) (buffer : list N) (wanted : N) (acc : list tok) : list tok * dstate :=
  match fuel with
  | O => (acc, DFault)
  | S f =>
      if len buffer <? wanted then (acc, DWait buffer wanted) else
      match stream_decode buffer with
      | SFault => (acc, DFault)
      | SRes r e =>
          match st r with
          | Finished =>
              match e with
              | Some t => pump f (skipnN (rd r) buffer) 0 (acc ++ [t])
              | None => (acc, DFault)
              end
          | Nedata => if req r <=? len buffer then (acc, DFault) else (acc, DWait buffer (req r))
          | DError => (acc, DStop)
          end
      end
  end.

Fixpoint drive (frags : list (list N)) (buffer : list N) (wanted : N) (acc : list tok)
  : list tok * dstate :=
  match frags with
  | [] => pump (S (S (length buffer))) buffer wanted acc
  | fr :: rest =>
      let b := buffer ++ fr in
      match pump (S (S (length b))) b wanted acc with
      | (acc', DWait b' w') => drive rest b' w' acc'
      | other => other
      end
  end.

Definition run_client (frags : list (list N)) : list tok * dstate := drive frags [] 0 [].
