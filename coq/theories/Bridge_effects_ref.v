(* generated plans of cbor_decref (translator/effects.py, this run's clang AST of common.c) = the
   hand-written plans of HPlansRef.v.  Automation only (BridgeEffTac).  HPlansRef_proofs.v ties the
   hand-written plans to HItems.v ([drain], [release_tasks]). *)
From Coq Require Import ZArith NArith List Bool String Lia ZifyBool ZifyN ZifyNat.
Import ListNotations.
From CB Require Import Word Word_proofs GenLeafTypes BridgeTac BridgeEffTac HHeap HItems HCont_proofs HPlans HPlansRef HPlans_proofs HPlansRef_proofs.
From CBGen Require Import Gen_effects_ref.
Ltac Zify.zify_post_hook ::= Z.div_mod_to_equations.
Local Open Scope Z_scope.

Ltac ref_unfold :=
  cbv beta zeta delta
    [Gcbor_decref Gcbor_decref_loop0 Gcbor_decref_loop1 Gcbor_decref_loop2 Gcbor_decref_loop3
     fbplan_cbor_decref fbplan_cbor_decref_loop0 fbplan_cbor_decref_loop1 fbplan_cbor_decref_loop2 fbplan_cbor_decref_loop3
     decref_plan decref_chunks_round_plan decref_array_round_plan decref_map_round_plan next_round gone release
     the_item its_data its_chunks zN dst_z dst_b sub64 pnew TY_ARRAY TY_MAP TY_TAG].
Ltac small_mods :=
  repeat match goal with
  | |- context [?x mod ?m] =>
      lazymatch type of x with Z => rewrite (Z.mod_small x m) by lia end
  end.
Ltac ref_bridge :=
  ref_unfold; rewrite ?N2Z.id; cbn [app];
  norm; pows; small_mods; rewrite ?N2Z.id; rewrite ?Z.add_0_l; psplits; peq.

Lemma bridge_plan_decref cc definite e rc ty k nn_child nn_elem nn_value :
  (rc < 2^64)%N -> 0 <= ty < 2^32 ->
  Gcbor_decref cc (dst_z definite) e (Z.of_N rc) ty k nn_child nn_elem nn_value = decref_plan rc ty definite nn_child.
Proof. intros Hr Ht. destruct definite, nn_child; ref_bridge. Qed.

(* the round lemmas assume the loop invariant k <= count, as in Bridge_effects_ser.v *)
Lemma bridge_plan_decref_rounds cc dst e rc ty k nn_child nn_elem nn_value :
  (cc < 2^64)%N -> (e < 2^64)%N -> (k <= cc)%N -> (k <= e)%N ->
  Gcbor_decref_loop0 (Z.of_N cc) dst (Z.of_N e) rc ty (Z.of_N k) nn_child nn_elem nn_value = decref_chunks_round_plan 0 cc k /\
  Gcbor_decref_loop1 (Z.of_N cc) dst (Z.of_N e) rc ty (Z.of_N k) nn_child nn_elem nn_value = decref_chunks_round_plan 1 cc k /\
  Gcbor_decref_loop2 (Z.of_N cc) dst (Z.of_N e) rc ty (Z.of_N k) nn_child nn_elem nn_value = decref_array_round_plan e k nn_elem /\
  Gcbor_decref_loop3 (Z.of_N cc) dst (Z.of_N e) rc ty (Z.of_N k) nn_child nn_elem nn_value = decref_map_round_plan e k nn_value.
Proof. intros H1 H2 H3 H4. destruct nn_elem, nn_value; repeat split; ref_bridge. Qed.

(* ---- composition: the release path of H follows the plans GENERATED from the C source of this run ---- *)
Local Open Scope string_scope.
Local Open Scope list_scope.
Local Open Scope N_scope.

(* the count goes down by one and the item is released iff it was 1 (what [drain] does at TDecref) *)
Theorem code_decref_test_followed cc definite e rc ty k nn_child nn_elem nn_value :
  0 < rc < 2 ^ 64 -> (0 <= ty < 2 ^ 32)%Z ->
  let p := Gcbor_decref cc (dst_z definite) e (Z.of_N rc) ty k nn_child nn_elem nn_value in
  fieldN "refcount" p = sub64 rc 1 /\ (releases p = (rc =? 1)).
Proof.
  intros Hr Ht. cbv zeta. rewrite bridge_plan_decref by (try assumption; lia).
  apply decref_test_follows_plan. exact Hr.
Qed.

(* an array: round k releases element k, then the slot block and the item, in [release_tasks]' order *)
Theorem code_release_array_followed a (indef : bool) data allocated (elems : list addr) cc dst rc ty nn_child nn_value :
  len elems < 2 ^ 64 -> cc < 2 ^ 64 -> len elems <= cc ->
  let tok := tokens a data None None (fun k _ => nth_error elems (Z.to_nat k)) in
  let tasks := release_tasks a (NArr indef data allocated elems) in
  let G k := Gcbor_decref_loop2 (Z.of_N cc) dst (Z.of_N (len elems)) rc ty (Z.of_N k) nn_child true nn_value in
  (forall k, k < len elems -> plan_tasks tok (G k) = [nth (N.to_nat k) tasks (TFreeItem a)]) /\
  plan_tasks tok (G (len elems)) = [TFreeData data; TFreeItem a] /\
  skipn (List.length elems) tasks = [TFreeData data; TFreeItem a].
Proof.
  intros Hl Hc Hle. cbv zeta.
  destruct (release_array_follows_plan a indef data allocated elems) as (Hround & Hexit & Htail).
  split; [|split].
  - intros k Hk.
    destruct (bridge_plan_decref_rounds cc dst (len elems) rc ty k nn_child true nn_value) as (_ & _ & E & _); try assumption; try lia.
    rewrite E. apply Hround. exact Hk.
  - destruct (bridge_plan_decref_rounds cc dst (len elems) rc ty (len elems) nn_child true nn_value) as (_ & _ & E & _); try assumption; try lia.
    rewrite E, Hexit. exact Htail.
  - exact Htail.
Qed.
