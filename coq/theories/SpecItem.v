(* Specification: the RFC 8949 encoding an item tree determines (section 3), and the trees
   obtainable from the decoder or the construction API. *)
From CB Require Export PItem.
Local Open Scope N_scope.

(* head with the argument in the shortest form (RFC 8949 section 3, 4.2.1 "preferred") *)
Definition head (mt arg : N) : list N :=
  if arg <? 24 then [mt * 32 + arg]
  else if arg <? 2 ^ 8 then [mt * 32 + 24; arg]
  else if arg <? 2 ^ 16 then (mt * 32 + 25) :: be_bytes 2 arg
  else if arg <? 2 ^ 32 then (mt * 32 + 26) :: be_bytes 4 arg
  else (mt * 32 + 27) :: be_bytes 8 arg.

(* head at the item's stored width (8-bit items use the immediate form up to 23) *)
Definition head_w (mt : N) (w : iwidth) (v : N) : list N :=
  match w with
  | I8 => if v <? 24 then [mt * 32 + v] else [mt * 32 + 24; v]
  | I16 => (mt * 32 + 25) :: be_bytes 2 v
  | I32 => (mt * 32 + 26) :: be_bytes 4 v
  | I64 => (mt * 32 + 27) :: be_bytes 8 v
  end.

(* the half-precision pattern denoting the value held by a half item (None: not representable
   without an out-of-range shift; excluded by wf_item) *)
Definition half_bits (b : N) : N := match encode_half_bits b with Some h => h | None => 0 end.

Fixpoint encode_rfc (t : item) : list N :=
  match t with
  | IUint w v => head_w 0 w v
  | INegint w v => head_w 1 w v
  | IBytes d => head 2 (len d) ++ d
  | IBytesI cs => [0x5F] ++ concat (map (fun d => head 2 (len d) ++ d) cs) ++ [0xFF]
  | IText d => head 3 (len d) ++ d
  | ITextI cs => [0x7F] ++ concat (map (fun d => head 3 (len d) ++ d) cs) ++ [0xFF]
  | IArray false xs => head 4 (len xs) ++ concat (map encode_rfc xs)
  | IArray true xs => [0x9F] ++ concat (map encode_rfc xs) ++ [0xFF]
  | IMap false kvs => head 5 (len kvs) ++ concat (map (fun kv => encode_rfc (fst kv) ++ encode_rfc (snd kv)) kvs)
  | IMap true kvs => [0xBF] ++ concat (map (fun kv => encode_rfc (fst kv) ++ encode_rfc (snd kv)) kvs) ++ [0xFF]
  | ITag v x => head 6 v ++ encode_rfc x
  | ICtrl v => if v <? 24 then [0xE0 + v] else [0xF8; v]
  | IFloat F16 b => 0xF9 :: be_bytes 2 (half_bits b)
  | IFloat F32 b => 0xFA :: be_bytes 4 (canon32 b)
  | IFloat F64 b => 0xFB :: be_bytes 8 (canon64 b)
  end.

Definition iw_bound (w : iwidth) : N :=
  match w with I8 => 2 ^ 8 | I16 => 2 ^ 16 | I32 => 2 ^ 32 | I64 => 2 ^ 64 end.

(* trees the API can hold: values fit their width, bytes are bytes, counts fit size_t *)
Fixpoint wf_item (t : item) : Prop :=
  match t with
  | IUint w v | INegint w v => v < iw_bound w
  | IBytes d | IText d => bytes_ok d /\ len d < 2 ^ 64
  | IBytesI cs | ITextI cs => Forall (fun d => bytes_ok d /\ len d < 2 ^ 64) cs /\ len cs < 2 ^ 64
  | IArray _ xs => (fix all (l : list item) : Prop := match l with [] => True | x :: r => wf_item x /\ all r end) xs
                   /\ len xs < 2 ^ 64
  | IMap _ kvs => (fix all (l : list (item * item)) : Prop :=
                     match l with [] => True | kv :: r => wf_item (fst kv) /\ wf_item (snd kv) /\ all r end) kvs
                  /\ len kvs < 2 ^ 64
  | ITag v x => v < 2 ^ 64 /\ wf_item x
  | ICtrl v => v < 256
  | IFloat F16 b | IFloat F32 b => b < 2 ^ 32
  | IFloat F64 b => b < 2 ^ 64
  end.

(* nesting depth as the decoder's stack sees it: containers, tags and chunked strings open a
   level; empty definite containers do not *)
Fixpoint depth (t : item) : N :=
  match t with
  | IArray false [] | IMap false [] => 0
  | IArray _ xs => 1 + fold_right (fun x m => N.max (depth x) m) 0 xs
  | IMap _ kvs => 1 + fold_right (fun kv m => N.max (N.max (depth (fst kv)) (depth (snd kv))) m) 0 kvs
  | ITag _ x => 1 + depth x
  | IBytesI _ | ITextI _ => 1
  | _ => 0
  end.
