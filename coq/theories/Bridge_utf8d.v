(* generated utf8d table (from src/cbor/internal/unicode.c, this run) = the model's table *)
From CB Require Import Word PUtf8.
From CBGen Require Import Gen_utf8d.
Lemma bridge_utf8d : gen_utf8d = utf8d.
Proof. vm_compute. reflexivity. Qed.
Lemma bridge_utf8d_const : gen_utf8d_const = true.
Proof. reflexivity. Qed.
