(* Model H: cbor_copy ([copy] of HOps.v), for an ARBITRARY allocator oracle [refuse].

   C11 - cbor_copy yields an equal, fully independent tree and leaves the source intact;
   C06 (cbor_copy case) - an allocation failure at any request is reported cleanly (NULL), atomically
         (the heap is pointwise what it was, reference counts included) and without leaks (every
         address allocated by the call is dead again).

   Main statements (section 12 onwards):
     copy_spec_wp / copy_spec   the specification, by induction on the fuel, threaded through the member
                                loops of chunked strings, arrays (one generic loop lemma, gloop_spec) and
                                maps (map_loop_spec), and tags;
     copy_never_faults          no Fault whatsoever (no use after free, double free, NULL, assertion);
     C06_copy_clean_failure     result NULL -> same heap, invariant kept;
     C11_release_copy           decref of the copy gives back exactly the original heap;
     C11_release_source         decref of the source leaves every cell of the copy alone;
     decref_footprint           cbor_decref modifies only cells reachable from its argument;
     abs_shaped, abs_mono, C11_copy_readable
                                any source that [abs] can read is accepted, and the copy reads the same.
   Precondition [shaped fuel (heap w) a]: what the C code dereferences without checking - every tag has
   its item, every map pair its value, non-empty strings/arrays/maps have their data block, depth < fuel -
   plus "reference counts are size_t values" (see rc_bound_needed).
   The reference-count invariant [Inv own ownd [] w] of HRef_proofs (which contains [wf w]) is
   maintained throughout: it gives fault-freedom and termination of every cbor_decref on the way. *)
From CB Require Import Word Word_proofs PMem PMem_proofs HHeap HItems HOps HRef_proofs HCont_proofs HRead_proofs.
From Coq Require Import Lia ZArith ZifyBool ZifyN ZifyNat List.
Import ListNotations.
Local Open Scope N_scope.
Ltac Zify.zify_post_hook ::= Z.div_mod_to_equations.

(* ------------------------------------------------------------------------------------------ *)
(* 0. small facts                                                                              *)
(* ------------------------------------------------------------------------------------------ *)

Notation olist := HRef_proofs.opt_list.

Ltac eqb := repeat match goal with
  | |- context [N.eqb ?x ?y] => destruct (N.eqb_spec x y); subst
  | H : context [N.eqb ?x ?y] |- _ => destruct (N.eqb_spec x y); subst end.

Lemma sumN_extend n n' f : n <= n' -> (forall i, n <= i -> i < n' -> f i = 0) -> sumN n' f = sumN n f.
Proof.
  induction n' as [|k IH] using N.peano_ind; intros Hle H.
  - assert (n = 0) by lia. subst. reflexivity.
  - destruct (N.eq_dec n (N.succ k)) as [->|Hne]; [reflexivity|].
    rewrite sumN_succ, IH, H; [lia|lia|lia|lia|]. intros i H1 H2. apply H; lia.
Qed.

Lemma refs_heq sel h h' nx nx' x :
  (forall b, h' b = h b) -> nx <= nx' -> (forall b, nx <= b -> h b = None) ->
  refs sel h' nx' x = refs sel h nx x.
Proof.
  intros E L D. unfold refs. rewrite (sumN_extend nx nx'); [|assumption|].
  - apply sumN_ext. intros i _. rewrite E. reflexivity.
  - intros i Hi _. rewrite E, D by assumption. reflexivity.
Qed.

(* the invariant only looks at the heap pointwise; the bump pointer may be further on *)
Lemma Inv_heq own ownd ts w w' :
  Inv own ownd ts w -> (forall b, heap w' b = heap w b) -> next w <= next w' -> Inv own ownd ts w'.
Proof.
  intros [H1 H2] E L. split.
  - intros a Ha. rewrite E. apply H1. lia.
  - intros x. specialize (H2 x). unfold okcell, indeg, dindeg in *.
    rewrite !(refs_heq _ (heap w) (heap w') (next w) (next w')) by assumption.
    rewrite E. exact H2.
Qed.

Lemma Inv_own_ext own ownd own' ownd' ts w :
  Inv own ownd ts w -> (forall x, own' x = own x) -> (forall x, ownd' x = ownd x) -> Inv own' ownd' ts w.
Proof.
  intros [H1 H2] O OD. split; [exact H1|]. intros x. specialize (H2 x). unfold okcell in *.
  rewrite O, OD. exact H2.
Qed.

Lemma Inv_wf own ownd ts w : Inv own ownd ts w -> wf w.
Proof. intros [H _]. exact H. Qed.

Lemma Inv_dead_own own ownd ts w x : Inv own ownd ts w -> heap w x = None -> own x = 0 /\ ownd x = 0.
Proof. intros [_ H2] E. specialize (H2 x). unfold okcell in H2. rewrite E in H2. tauto. Qed.

Lemma Inv_owned_item own ownd w x : Inv own ownd [] w -> 0 < own x ->
  exists rc n, heap w x = Some (CItem rc n) /\ 0 < rc.
Proof.
  intros I O. pose proof I as [_ H2]. specialize (H2 x). unfold okcell in H2.
  destruct (heap w x) as [[rc n|sz]|] eqn:E; [|lia|lia].
  exists rc, n. split; [reflexivity|]. eapply Inv_nil_pos; eassumption.
Qed.

(* the kids and data blocks of a live item are live, hence below the bump pointer *)
Lemma Inv_kids_lt own ownd w b rc n : Inv own ownd [] w -> heap w b = Some (CItem rc n) ->
  (forall k, In k (kids n) -> k < next w) /\ (forall d, In d (dblocks n) -> d < next w).
Proof.
  intros I E. pose proof (Inv_nil_pos _ _ _ _ _ _ I E) as P. split.
  - intros k K. destruct (Inv_kid_live own ownd [] w b rc n k I E ltac:(lia) K) as (rck & nk & Ek & _).
    eapply live_lt; eassumption.
  - intros d K. destruct (Inv_dblock_live own ownd [] w b rc n d I E ltac:(lia) K) as ((sz & Ed) & _).
    eapply live_lt; eassumption.
Qed.

(* ------------------------------------------------------------------------------------------ *)
(* 1. weakest-precondition style reasoning on the monad                                        *)
(* ------------------------------------------------------------------------------------------ *)

Definition wp {A} (m : M A) (w : world) (Q : A -> world -> Prop) : Prop :=
  exists a w', m w = Ret a w' /\ Q a w'.

Lemma wp_ret {A} (a : A) w (Q : A -> world -> Prop) : Q a w -> wp (ret a) w Q.
Proof. intros H. exists a, w. split; [reflexivity|exact H]. Qed.

Lemma wp_bind {A B} (m : M A) (f : A -> M B) w (Q : B -> world -> Prop) :
  wp m w (fun a w1 => wp (f a) w1 Q) -> wp (bind m f) w Q.
Proof.
  intros (a & w1 & E & b & w2 & E2 & HQ). exists b, w2. split; [|exact HQ].
  unfold bind. rewrite E. exact E2.
Qed.

Lemma wp_mono {A} (m : M A) w (Q Q' : A -> world -> Prop) :
  wp m w Q -> (forall a w', Q a w' -> Q' a w') -> wp m w Q'.
Proof. intros (a & w' & E & H) HQ. exists a, w'. split; [exact E|apply HQ, H]. Qed.

Lemma wp_eq {A} (m : M A) w a w' (Q : A -> world -> Prop) : m w = Ret a w' -> Q a w' -> wp m w Q.
Proof. intros E H. exists a, w'. split; assumption. Qed.

Lemma wp_rd a w rc n (Q : N * node -> world -> Prop) :
  heap w a = Some (CItem rc n) ->
  (forall w', heap w' = heap w -> next w' = next w -> Q (rc, n) w') -> wp (rd_item a) w Q.
Proof. intros E H. eapply wp_eq; [apply rd_item_spec; exact E|]. apply H; reflexivity. Qed.

Lemma wp_touch wr d sz w (Q : unit -> world -> Prop) :
  heap w d = Some (CData sz) ->
  (forall w', heap w' = heap w -> next w' = next w -> Q tt w') -> wp (touch_data wr (Some d)) w Q.
Proof. intros E H. eapply wp_eq; [eapply touch_data_spec; exact E|]. apply H; reflexivity. Qed.

(* cbor_move (cbor_incref (e)): the two stores cancel *)
Lemma wp_incref_move e w rc n (Q : addr -> world -> Prop) :
  heap w e = Some (CItem rc n) -> rc < W64 ->
  (forall w', (forall b, heap w' b = heap w b) -> next w' = next w -> Q e w') ->
  wp (incref e ;;; move e) w Q.
Proof.
  intros E R H. apply wp_bind. eapply wp_eq; [apply incref_spec; exact E|].
  set (w1 := w_incref e rc n w).
  assert (E1 : heap w1 e = Some (CItem (wrap64 (rc + 1)) n)) by (subst w1; wsimpl; apply upd_same).
  unfold move. apply wp_bind. eapply wp_eq; [apply rd_item_spec; exact E1|]. cbn [fst snd].
  apply wp_bind. eapply wp_eq; [eapply wr_item_spec; wsimpl; exact E1|].
  apply wp_ret. apply H; [|reflexivity].
  intros b. subst w1. wsimpl. unfold upd. destruct (N.eqb_spec b e) as [->|_]; [|reflexivity].
  rewrite E. do 2 f_equal. unfold wrap64, sub64.
  destruct (N.eq_dec (rc + 1) W64) as [Hw|Hw].
  - rewrite Hw, N.mod_same by (unfold W64; lia). cbn [N.leb N.compare]. unfold W64 in *. lia.
  - rewrite N.mod_small by lia. destruct (N.leb_spec 1 (rc + 1)); lia.
Qed.

(* ------------------------------------------------------------------------------------------ *)
(* 2. accounting steps for the reference-count invariant                                       *)
(* ------------------------------------------------------------------------------------------ *)

Definition ghost (h : addr -> option cell) (nx : N) : world := mkworld h nx 0 [] [].

(* a fresh reference-free item, described pointwise *)
Lemma Inv_alloc_item_pw own ownd w w' n :
  Inv own ownd [] w -> kids n = [] -> dblocks n = [] ->
  (forall b, heap w' b = upd (heap w) (next w) (Some (CItem 1 n)) b) -> next w' = next w + 1 ->
  Inv (fun x => own x + (if x =? next w then 1 else 0)) ownd [] w'.
Proof.
  intros I K D Hh Hn.
  pose proof (Inv_dead_own _ _ _ _ (next w) I (Inv_wf _ _ _ _ I (next w) ltac:(lia))) as [O _].
  set (g := ghost (upd (heap w) (next w) (Some (CItem 1 n))) (next w + 1)).
  assert (Ig : Inv (fun x => if x =? next w then 1 else own x) ownd [] g)
    by (eapply Inv_alloc_item; [exact I|exact K|exact D|reflexivity|reflexivity]).
  eapply Inv_own_ext; [eapply Inv_heq; [exact Ig|exact Hh|cbn [next g ghost]; lia]| |reflexivity].
  intros x. cbn beta. destruct (N.eqb_spec x (next w)); subst; lia.
Qed.

Lemma Inv_alloc_data_pw own ownd w w' sz :
  Inv own ownd [] w ->
  (forall b, heap w' b = upd (heap w) (next w) (Some (CData sz)) b) -> next w' = next w + 1 ->
  Inv own (fun x => ownd x + (if x =? next w then 1 else 0)) [] w'.
Proof.
  intros I Hh Hn.
  pose proof (Inv_dead_own _ _ _ _ (next w) I (Inv_wf _ _ _ _ I (next w) ltac:(lia))) as [_ O].
  set (g := ghost (upd (heap w) (next w) (Some (CData sz))) (next w + 1)).
  assert (Ig : Inv own (fun x => if x =? next w then 1 else ownd x) [] g)
    by (eapply Inv_alloc_data; [exact I|reflexivity|reflexivity]).
  eapply Inv_own_ext; [eapply Inv_heq; [exact Ig|exact Hh|cbn [next g ghost]; lia]|reflexivity|].
  intros x. cbn beta. destruct (N.eqb_spec x (next w)); subst; lia.
Qed.

(* one live item changes its node: it takes over the references [xs] from the client, gives up the
   data blocks [drops] to the client and takes over the client's data blocks [takes] *)
Lemma Inv_relink own ownd own' ownd' w w' a rc n n' xs drops takes :
  Inv own ownd [] w -> heap w a = Some (CItem rc n) ->
  (forall b, heap w' b = upd (heap w) a (Some (CItem rc n')) b) -> next w' = next w ->
  (forall x, cnt x (kids n') = cnt x (kids n) + cnt x xs) ->
  (forall x, cnt x (dblocks n') + cnt x drops = cnt x (dblocks n) + cnt x takes) ->
  (forall x, own' x + cnt x xs = own x) ->
  (forall x, ownd' x + cnt x takes = ownd x + cnt x drops) ->
  Inv own' ownd' [] w'.
Proof.
  intros I E Hh Hn K D O OD.
  pose proof (live_lt _ _ _ _ _ _ I E) as Ha. pose proof (Inv_nil_pos _ _ _ _ _ _ I E) as Hrc.
  destruct I as [H1 H2].
  assert (ID : forall sel x, refs sel (heap w') (next w') x + cnt x (sel n) =
                             refs sel (heap w) (next w) x + cnt x (sel n')).
  { intros sel x. rewrite Hn.
    rewrite (refs_heq sel (upd (heap w) a (Some (CItem rc n'))) (heap w') (next w) (next w) x Hh (N.le_refl _)).
    2:{ intros b Hb. unfold upd. destruct (N.eqb_spec b a); [lia|]. apply H1. exact Hb. }
    pose proof (refs_upd sel (heap w) (next w) a (Some (CItem rc n')) x Ha) as P.
    rewrite E in P. cbn [selc] in P. destruct (N.eqb_spec rc 0); [lia|]. exact P. }
  split.
  - intros x Hx. rewrite Hh. rewrite Hn in Hx. unfold upd. destruct (N.eqb_spec x a); [lia|]. apply H1; assumption.
  - intros x. specialize (H2 x). pose proof (ID kids x) as IK. pose proof (ID dblocks x) as IDb.
    specialize (K x). specialize (D x). specialize (O x). specialize (OD x).
    unfold okcell, indeg, dindeg in *. cbn [pend tofree] in *.
    set (K' := refs kids (heap w') (next w') x) in *. set (D' := refs dblocks (heap w') (next w') x) in *.
    set (K0 := refs kids (heap w) (next w) x) in *. set (D0 := refs dblocks (heap w) (next w) x) in *.
    clearbody K' D' K0 D0. rewrite Hh. unfold upd. destruct (N.eqb_spec x a) as [->|Hne].
    + rewrite E in H2. lia.
    + destruct (heap w x) as [[rcx nx|sz]|]; lia.
Qed.

(* the client frees a data block it owns *)
Lemma Inv_free_data own ownd ownd' w w' d sz :
  Inv own ownd [] w -> heap w d = Some (CData sz) -> ownd d = 1 ->
  (forall b, heap w' b = upd (heap w) d None b) -> next w' = next w ->
  (forall x, ownd' x + (if x =? d then 1 else 0) = ownd x) ->
  Inv own ownd' [] w'.
Proof.
  intros I E OD1 Hh Hn OD. pose proof (live_lt _ _ _ _ _ _ I E) as Ha. destruct I as [H1 H2].
  assert (ID : forall sel x, refs sel (heap w') (next w') x = refs sel (heap w) (next w) x).
  { intros sel x. rewrite Hn.
    rewrite (refs_heq sel (upd (heap w) d None) (heap w') (next w) (next w) x Hh (N.le_refl _)).
    2:{ intros b Hb. unfold upd. destruct (N.eqb_spec b d); [reflexivity|]. apply H1. exact Hb. }
    pose proof (refs_upd sel (heap w) (next w) d None x Ha) as P.
    rewrite E in P. cbn [selc cnt] in P. lia. }
  split.
  - intros x Hx. rewrite Hh. rewrite Hn in Hx. unfold upd. destruct (N.eqb_spec x d); [reflexivity|]. apply H1; assumption.
  - intros x. pose proof (H2 x) as Z. pose proof (H2 d) as Zd. specialize (OD x).
    unfold okcell, indeg, dindeg in *. rewrite !ID. rewrite E in Zd. cbn [pend tofree] in *.
    rewrite Hh. unfold upd. destruct (N.eqb_spec x d) as [Heq|Hne].
    + subst x. lia.
    + rewrite N.add_0_r in OD. rewrite OD. exact Z.
Qed.

(* ------------------------------------------------------------------------------------------ *)
(* 3. releasing inside a closed region                                                         *)
(* ------------------------------------------------------------------------------------------ *)

(* every item at or above [m] refers only to cells in [m, next w) *)
Definition closed (m : N) (w : world) : Prop :=
  forall b rc n, m <= b -> heap w b = Some (CItem rc n) ->
    (forall k, In k (kids n) -> m <= k < next w) /\ (forall d, In d (dblocks n) -> m <= d < next w).
(* every item below [m] refers only to cells below [m] *)
Definition oldclosed (m : N) (h : addr -> option cell) : Prop :=
  forall b rc n, b < m -> h b = Some (CItem rc n) ->
    (forall k, In k (kids n) -> k < m) /\ (forall d, In d (dblocks n) -> d < m).
(* no cycle among the items at or above [m] *)
Definition ranked (m : N) (w : world) (rank : addr -> nat) : Prop :=
  forall b rc n k, m <= b -> heap w b = Some (CItem rc n) -> In k (kids n) -> (rank k < rank b)%nat.

Definition task_ge (m : N) (t : task) : Prop :=
  match t with
  | TDecref a => m <= a
  | TFreeData (Some p) => m <= p
  | TFreeData None => True
  | TFreeItem a => m <= a
  end.

Lemma Forall_map_decref m l : (forall k, In k l -> m <= k) -> Forall (task_ge m) (map TDecref l).
Proof. intros H. apply Forall_forall. intros t Ht. apply in_map_iff in Ht. destruct Ht as (k & <- & Hk). apply H, Hk. Qed.

Lemma release_tasks_ge m a n :
  m <= a -> (forall k, In k (kids n) -> m <= k) -> (forall d, In d (dblocks n) -> m <= d) ->
  Forall (task_ge m) (release_tasks a n).
Proof.
  intros Ha K D.
  destruct n as [neg iw v|fw bits|v|text data bytes|text hdr arr cap chunks|indef data al elems|indef data al pairs|v [c|]];
    cbn [release_tasks kids dblocks] in *.
  - repeat constructor; assumption.
  - repeat constructor; assumption.
  - repeat constructor; assumption.
  - constructor; [destruct data as [d|]; [apply D; left; reflexivity|exact I]|]. repeat constructor; assumption.
  - apply Forall_app. split; [apply Forall_map_decref; exact K|].
    constructor; [destruct arr as [d|]; [apply D; left; reflexivity|exact I]|].
    constructor; [apply D; apply in_or_app; right; left; reflexivity|]. repeat constructor; assumption.
  - apply Forall_app. split; [apply Forall_map_decref; exact K|].
    constructor; [destruct data as [d|]; [apply D; left; reflexivity|exact I]|]. repeat constructor; assumption.
  - apply Forall_app. split.
    + apply Forall_forall. intros t Ht. apply in_flat_map in Ht. destruct Ht as ([k ov] & Hkv & Ht).
      assert (Hk : forall y, In y (pair_kids (k, ov)) -> m <= y).
      { intros y Hy. apply K. apply in_flat_map. exists (k, ov). split; assumption. }
      cbn [fst snd In] in Ht. destruct Ht as [<-|Ht].
      * apply Hk. left. reflexivity.
      * destruct ov as [v|]; [|destruct Ht]. destruct Ht as [<-|[]]. apply Hk. right. left. reflexivity.
    + constructor; [destruct data as [d|]; [apply D; left; reflexivity|exact I]|]. repeat constructor; assumption.
  - constructor; [apply K; left; reflexivity|]. repeat constructor; assumption.
  - repeat constructor; assumption.
Qed.

Definition subgraph (w w' : world) : Prop :=
  forall b rc n, heap w' b = Some (CItem rc n) -> exists rc0, heap w b = Some (CItem rc0 n).

Lemma drain_region m : forall fuel ts w w',
  drain fuel ts w = Ret tt w' -> Forall (task_ge m) ts -> closed m w ->
  (forall b, b < m -> heap w' b = heap w b) /\ closed m w' /\ subgraph w w' /\ next w' = next w.
Proof.
  assert (Base : forall w, (forall b, b < m -> heap w b = heap w b) /\ subgraph w w /\ next w = next w).
  { intros w. split; [reflexivity|]. split; [|reflexivity]. intros b rc n E. eauto. }
  induction fuel as [|f IH]; intros ts w w' H T C.
  - destruct ts; cbn [drain] in H; [|discriminate]. unfold ret in H. inversion H; subst.
    destruct (Base w') as (B1 & B2 & B3). auto.
  - destruct ts as [|t r]; cbn [drain] in H.
    { unfold ret in H. inversion H; subst. destruct (Base w') as (B1 & B2 & B3). auto. }
    inversion T as [|t0 r0 Tt Tr]; subst t0 r0.
    (* a step that changes the heap at one address [a >= m] only, keeping the invariant facts *)
    assert (Step : forall w1 a, m <= a -> next w1 = next w ->
              (forall b, b <> a -> heap w1 b = heap w b) ->
              (forall rc n, heap w1 a = Some (CItem rc n) -> exists rc0, heap w a = Some (CItem rc0 n)) ->
              forall ts', Forall (task_ge m) ts' -> drain f ts' w1 = Ret tt w' ->
              (forall b, b < m -> heap w' b = heap w b) /\ closed m w' /\ subgraph w w' /\ next w' = next w).
    { intros w1 a Ha Hn Ho Hs ts' T' H'.
      assert (C1 : closed m w1).
      { intros b rc n Hb E. rewrite Hn. destruct (N.eq_dec b a) as [->|Hne].
        - destruct (Hs rc n E) as [rc0 E0]. eapply C; eassumption.
        - rewrite Ho in E by exact Hne. eapply C; eassumption. }
      destruct (IH ts' w1 w' H' T' C1) as (F1 & F2 & F3 & F4).
      split; [intros b Hb; rewrite F1 by exact Hb; apply Ho; lia|].
      split; [exact F2|]. split; [|congruence].
      intros b rc n E. destruct (F3 b rc n E) as [rc1 E1]. destruct (N.eq_dec b a) as [->|Hne].
      - apply (Hs rc1 n E1).
      - rewrite Ho in E1 by exact Hne. eauto. }
    destruct t as [a|[p|]|a]; cbn [task_ge] in Tt.
    + unfold bind at 1 in H. unfold rd_item in H. destruct (heap w a) as [[rc n|sz]|] eqn:E; try discriminate H.
      cbn [fst snd] in H. unfold bind at 1 in H. destruct (0 <? rc); cbn [assert_] in H; [|discriminate H].
      unfold ret at 1 in H. destruct (rc =? 1) eqn:R1.
      * unfold bind at 1 in H. unfold wr_item in H. cbn [heap next nreq trace alog] in H. rewrite E in H.
        eapply (Step _ a Tt); [| | | |exact H].
        -- reflexivity.
        -- intros b Hb. cbn [heap]. apply upd_other. exact Hb.
        -- intros rc' n' E'. cbn [heap] in E'. rewrite upd_same in E'. inversion E'; subst. eauto.
        -- apply Forall_app. split; [|exact Tr]. destruct (C a rc n Tt E) as [CK CD].
           apply release_tasks_ge; [exact Tt|intros k Hk; apply CK, Hk|intros d Hd; apply CD, Hd].
      * unfold bind at 1 in H. unfold wr_item in H. cbn [heap next nreq trace alog] in H. rewrite E in H.
        eapply (Step _ a Tt); [| | | |exact H].
        -- reflexivity.
        -- intros b Hb. cbn [heap]. apply upd_other. exact Hb.
        -- intros rc' n' E'. cbn [heap] in E'. rewrite upd_same in E'. inversion E'; subst. eauto.
        -- exact Tr.
    + unfold bind at 1 in H. unfold free in H. destruct (heap w p) as [c|] eqn:E; [|discriminate H].
      eapply (Step _ p Tt); [| | | |exact H].
      * reflexivity.
      * intros b Hb. cbn [heap]. apply upd_other. exact Hb.
      * intros rc' n' E'. cbn [heap] in E'. rewrite upd_same in E'. discriminate E'.
      * exact Tr.
    + unfold bind at 1 in H. unfold free in H.
      assert (C1 : closed m (mkworld (heap w) (next w) (nreq w) (EvFree None :: trace w) (alog w))) by exact C.
      destruct (IH r _ w' H Tr C1) as (F1 & F2 & F3 & F4). auto.
    + unfold bind at 1 in H. unfold free in H. destruct (heap w a) as [c|] eqn:E; [|discriminate H].
      eapply (Step _ a Tt); [| | | |exact H].
      * reflexivity.
      * intros b Hb. cbn [heap]. apply upd_other. exact Hb.
      * intros rc' n' E'. cbn [heap] in E'. rewrite upd_same in E'. discriminate E'.
      * exact Tr.
Qed.

(* a region in which reference counting can be run to the end *)
Definition Dying (m : N) (own ownd : addr -> N) (rank : addr -> nat) (w : world) : Prop :=
  Inv own ownd [] w /\ closed m w /\ ranked m w rank.

Lemma decref_dying m own own' ownd rank a w :
  (forall x, own' x = own x + (if x =? a then 1 else 0)) -> m <= a -> Dying m own' ownd rank w ->
  exists w', decref a w = Ret tt w' /\ Dying m own ownd rank w' /\
             (forall b, b < m -> heap w' b = heap w b) /\ next w' = next w.
Proof.
  intros O Ha (I & C & R). destruct (decref_ok own own' ownd a w O I) as (w' & H & I' & _).
  exists w'. split; [exact H|]. unfold decref in H.
  destruct (drain_region m _ _ _ _ H ltac:(repeat constructor; exact Ha) C) as (F1 & F2 & F3 & F4).
  split; [|split; assumption]. split; [exact I'|]. split; [exact F2|].
  intros b rc n k Hb E K. destruct (F3 b rc n E) as [rc0 E0]. eapply R; eassumption.
Qed.

(* with no owner left in the region, and no reference from outside, the region is empty *)
Lemma dying_dead m own ownd rank w :
  Dying m own ownd rank w -> (forall b, m <= b -> own b = 0 /\ ownd b = 0) -> oldclosed m (heap w) ->
  forall b, m <= b -> heap w b = None.
Proof.
  intros (I & C & R) O OC. pose proof I as [H1 H2].
  assert (P : forall a rc n, m <= a -> heap w a = Some (CItem rc n) ->
              exists b rcb nb, m <= b /\ heap w b = Some (CItem rcb nb) /\ (rank a < rank b)%nat).
  { intros a rc n Ha E. pose proof (H2 a) as Z. unfold okcell in Z. rewrite E in Z. cbn [pend tofree] in Z.
    destruct (O a Ha) as [Oa _]. rewrite Oa in Z. assert (G : 0 < indeg w a) by (intuition lia).
    apply refs_pos in G. destruct G as (b & rcb & nb & _ & Eb & Rb & Kb).
    assert (Hb : m <= b).
    { destruct (N.lt_ge_cases b m) as [L|L]; [|exact L]. destruct (OC b rcb nb L Eb) as [OK _].
      specialize (OK a Kb). lia. }
    exists b, rcb, nb. split; [exact Hb|]. split; [exact Eb|]. eapply R; eassumption. }
  assert (Q : forall k a rc n, m <= a -> heap w a = Some (CItem rc n) ->
              exists b rcb nb, m <= b /\ heap w b = Some (CItem rcb nb) /\ (rank a + k <= rank b)%nat).
  { induction k as [|k IHk]; intros a rc n Ha E.
    - exists a, rc, n. split; [exact Ha|]. split; [exact E|lia].
    - destruct (IHk a rc n Ha E) as (b & rcb & nb & Hb & Eb & Lb).
      destruct (P b rcb nb Hb Eb) as (c & rcc & nc & Hc & Ec & Lc). exists c, rcc, nc.
      split; [exact Hc|]. split; [exact Ec|lia]. }
  destruct (rank_bound rank (next w)) as [B HB].
  assert (NI : forall a rc n, m <= a -> heap w a <> Some (CItem rc n)).
  { intros a rc n Ha E. destruct (Q (S B) a rc n Ha E) as (b & rcb & nb & _ & Eb & Lb).
    pose proof (live_lt _ _ _ _ _ _ I Eb) as L. specialize (HB b L). lia. }
  intros a Ha. destruct (heap w a) as [[rc n|sz]|] eqn:E; [exfalso; eapply NI; eassumption| |reflexivity].
  exfalso. pose proof (H2 a) as Z. unfold okcell in Z. rewrite E in Z. cbn [pend tofree] in Z.
  destruct (O a Ha) as [_ Oa]. rewrite Oa in Z. assert (G : 0 < dindeg w a) by lia.
  apply refs_pos in G. destruct G as (b & rcb & nb & _ & Eb & _ & Kb).
  destruct (N.lt_ge_cases b m) as [L|L].
  - destruct (OC b rcb nb L Eb) as [_ OD]. specialize (OD a Kb). lia.
  - eapply NI; eassumption.
Qed.

Lemma Dying_heq m own ownd rank w w' :
  Dying m own ownd rank w -> (forall b, heap w' b = heap w b) -> next w <= next w' -> Dying m own ownd rank w'.
Proof.
  intros (I & C & R) E L. split; [eapply Inv_heq; eassumption|]. split.
  - intros b rc n Hb Eb. rewrite E in Eb. destruct (C b rc n Hb Eb) as [CK CD].
    split; intros k Hk; [specialize (CK k Hk)|specialize (CD k Hk)]; lia.
  - intros b rc n k Hb Eb. rewrite E in Eb. eapply R; eassumption.
Qed.

Lemma Dying_own_ext m own own' ownd rank w :
  Dying m own ownd rank w -> (forall x, own' x = own x) -> Dying m own' ownd rank w.
Proof. intros (I & C & R) O. split; [eapply Inv_own_ext; [exact I|exact O|reflexivity]|]. split; assumption. Qed.

Lemma Inv_oldclosed own ownd w : Inv own ownd [] w -> oldclosed (next w) (heap w).
Proof. intros I b rc n _ E. eapply Inv_kids_lt; eassumption. Qed.

Lemma oldclosed_frame m h h' : oldclosed m h -> (forall b, b < m -> h' b = h b) -> oldclosed m h'.
Proof. intros OC F b rc n Hb E. rewrite F in E by exact Hb. eapply OC; eassumption. Qed.

(* ------------------------------------------------------------------------------------------ *)
(* 4. two readers returning the same value on two heaps                                        *)
(* ------------------------------------------------------------------------------------------ *)

(* [m1] started on heap [h1] and returning [a] (it keeps the heap) implies [m2] started on heap [h2]
   returns [a] too (and keeps the heap); [frame h1 h2 m] of HRead_proofs is [sim h1 h2 m m] *)
Definition sim (h1 h2 : addr -> option cell) {A} (m1 m2 : M A) : Prop :=
  forall w1 a w1', heap w1 = h1 -> m1 w1 = Ret a w1' ->
    heap w1' = h1 /\ forall w2, heap w2 = h2 -> exists w2', m2 w2 = Ret a w2' /\ heap w2' = h2.

Lemma frame_sim h1 h2 {A} (m : M A) : frame h1 h2 m -> sim h1 h2 m m.
Proof. intros H. exact H. Qed.

Lemma sim_ret h1 h2 {A} (x : A) : sim h1 h2 (ret x) (ret x).
Proof. apply frame_sim, frame_ret. Qed.

Lemma sim_fail_l h1 h2 {A} k (m2 : M A) : sim h1 h2 (fail k) m2.
Proof. intros w1 a w1' _ E. discriminate E. Qed.

Lemma sim_bind h1 h2 {A B} (m1 m2 : M A) (f1 f2 : A -> M B) :
  sim h1 h2 m1 m2 -> (forall a, sim h1 h2 (f1 a) (f2 a)) -> sim h1 h2 (bind m1 f1) (bind m2 f2).
Proof.
  intros Hm Hf w1 b w1' H1 E. unfold bind in E.
  destruct (m1 w1) as [a w1a|k] eqn:E1; [|discriminate E].
  destruct (Hm _ _ _ H1 E1) as [H1a K1].
  destruct (Hf a _ _ _ H1a E) as [H1b K2].
  split; [exact H1b|]. intros w2 H2.
  destruct (K1 w2 H2) as (w2a & E2 & H2a).
  destruct (K2 w2a H2a) as (w2' & E2' & H2').
  exists w2'. split; [|exact H2']. unfold bind. rewrite E2. exact E2'.
Qed.

Lemma sim_rd_bind h1 h2 a1 a2 rc2 n2 {B} (f1 f2 : N * node -> M B) :
  h2 a2 = Some (CItem rc2 n2) ->
  (forall rc1 n1, h1 a1 = Some (CItem rc1 n1) -> sim h1 h2 (f1 (rc1, n1)) (f2 (rc2, n2))) ->
  sim h1 h2 (bind (rd_item a1) f1) (bind (rd_item a2) f2).
Proof.
  intros Ha2 Hf w1 b w1' H1 E. unfold bind, rd_item in E.
  destruct (heap w1 a1) as [[rc n|sz]|] eqn:Hc; try discriminate E.
  assert (Hc1 : h1 a1 = Some (CItem rc n)) by (rewrite <- H1; exact Hc).
  match type of E with f1 _ ?w = _ => destruct (Hf rc n Hc1 w b w1' H1 E) as [H1b K] end.
  split; [exact H1b|]. intros w2 H2.
  unfold bind, rd_item. rewrite H2, Ha2. apply K. reflexivity.
Qed.

(* unit-valued guards: the left one keeps the heap, the right one succeeds *)
Lemma sim_unit h1 h2 (m1 m2 : M unit) :
  (forall w u w', heap w = h1 -> m1 w = Ret u w' -> heap w' = h1) ->
  (forall w2, heap w2 = h2 -> exists w2', m2 w2 = Ret tt w2' /\ heap w2' = h2) ->
  sim h1 h2 m1 m2.
Proof. intros L R w1 u w1' H1 E. destruct u. split; [eapply L; eassumption|exact R]. Qed.

Lemma touch_keeps h p w u w' : heap w = h -> touch_data false p w = Ret u w' -> heap w' = h.
Proof.
  intros H E. unfold touch_data in E. destruct p as [d|]; [|discriminate E].
  destruct (heap w d) as [[rc n|sz]|]; try discriminate E. injection E as Eu Ew. subst w'. exact H.
Qed.

Lemma touch_total h d sz w : heap w = h -> h d = Some (CData sz) ->
  exists w', touch_data false (Some d) w = Ret tt w' /\ heap w' = h.
Proof. intros H E. unfold touch_data. rewrite H, E. eexists. split; reflexivity. Qed.

Lemma sim_mapM h1 h2 {A B} (f1 f2 : A -> M B) (l1 l2 : list A) :
  Forall2 (fun x y => sim h1 h2 (f1 x) (f2 y)) l1 l2 -> sim h1 h2 (mapM f1 l1) (mapM f2 l2).
Proof.
  induction 1 as [|x y l1 l2 Hxy _ IH]; cbn [mapM].
  - apply sim_ret.
  - apply sim_bind; [exact Hxy|]. intros z. apply sim_bind; [exact IH|]. intros zs. apply sim_ret.
Qed.

Lemma sim_frame_r h1 h2 h3 {A} (m1 m2 : M A) : sim h1 h2 m1 m2 -> frame h2 h3 m2 -> sim h1 h3 m1 m2.
Proof.
  intros S F w1 a w1' H1 E. destruct (S _ _ _ H1 E) as [K1 K2]. split; [exact K1|].
  intros w3 H3. destruct (K2 (ghost h2 0) eq_refl) as (w2' & E2 & _).
  destruct (F (ghost h2 0) a w2' eq_refl E2) as [_ K3]. apply K3, H3.
Qed.

Lemma sim_frame_l h0 h1 h2 {A} (m1 m2 : M A) : frame h0 h1 m1 -> sim h1 h2 m1 m2 -> sim h0 h2 m1 m2.
Proof.
  intros F S w0 a w0' H0 E. destruct (F _ _ _ H0 E) as [K0 K1]. split; [exact K0|].
  destruct (K1 (ghost h1 0) eq_refl) as (w1' & E1 & _).
  destruct (S (ghost h1 0) a w1' eq_refl E1) as [_ K2]. exact K2.
Qed.

(* --- reachability inside regions --- *)
Lemma node_kids_eq n : node_kids n = kids n.
Proof. destruct n as [| | | | | | |v [c|]]; reflexivity. Qed.

Lemma node_blocks_in n d : In d (node_blocks n) <-> In d (dblocks n).
Proof.
  destruct n as [neg iw v|fw bits|v|text data bytes|text hdr arr cap chunks|indef data al elems|indef data al pairs|v c];
    cbn [node_blocks dblocks]; try tauto.
  rewrite in_app_iff. cbn [In]. destruct arr; cbn [HRead_proofs.opt_list HRef_proofs.opt_list In]; tauto.
Qed.

Lemma reach_closed m w a b : closed m w -> m <= a -> reachh (heap w) a b -> m <= b /\ (b = a \/ b < next w).
Proof.
  intros C Ha R. induction R as [|x rc n c R IH Hx Hc|x rc n d R IH Hx Hd].
  - split; [exact Ha|left; reflexivity].
  - destruct IH as [Hm _]. destruct (C x rc n Hm Hx) as [CK _]. rewrite node_kids_eq in Hc.
    specialize (CK c Hc). split; [lia|right; lia].
  - destruct IH as [Hm _]. destruct (C x rc n Hm Hx) as [_ CD]. apply node_blocks_in in Hd.
    specialize (CD d Hd). split; [lia|right; lia].
Qed.

Lemma reach_old m h a b : oldclosed m h -> a < m -> reachh h a b -> b < m.
Proof.
  intros C Ha R. induction R as [|x rc n c R IH Hx Hc|x rc n d R IH Hx Hd].
  - exact Ha.
  - destruct (C x rc n IH Hx) as [CK _]. rewrite node_kids_eq in Hc. apply CK, Hc.
  - destruct (C x rc n IH Hx) as [_ CD]. apply node_blocks_in in Hd. apply CD, Hd.
Qed.

Lemma sumN_ge2 n f b1 b2 : b1 < n -> b2 < n -> b1 <> b2 -> f b1 + f b2 <= sumN n f.
Proof.
  induction n as [|k IH] using N.peano_ind; intros H1 H2 Hne; [lia|]. rewrite sumN_succ.
  destruct (N.eq_dec b1 k) as [->|N1]; destruct (N.eq_dec b2 k) as [->|N2].
  - congruence.
  - pose proof (sumN_ge k f b2 ltac:(lia)). lia.
  - pose proof (sumN_ge k f b1 ltac:(lia)). lia.
  - assert (f b1 + f b2 <= sumN k f) by (apply IH; lia). lia.
Qed.

(* an item [r] all of whose references are held by the client, and its data blocks, cannot be reached
   from another item *)
Lemma Inv_root_unreached own ownd w r rc n a :
  Inv own ownd [] w -> heap w r = Some (CItem rc n) -> own r = rc ->
  is_item w a -> a <> r ->
  forall b, reachh (heap w) a b -> b <> r /\ ~ In b (dblocks n).
Proof.
  intros I E O Ia Har b R. pose proof I as [_ H2]. pose proof (Inv_nil_pos _ _ _ _ _ _ I E) as Prc.
  assert (Ir : indeg w r = 0).
  { pose proof (H2 r) as Z. unfold okcell in Z. rewrite E in Z. cbn [pend tofree] in Z. lia. }
  assert (Dd : forall d, In d (dblocks n) -> exists sz, heap w d = Some (CData sz)).
  { intros d Hd. destruct (Inv_dblock_live own ownd [] w r rc n d I E ltac:(lia) Hd) as (S & _). exact S. }
  induction R as [|x rcx nx c R IH Hx Hc|x rcx nx d R IH Hx Hd].
  - split; [exact Har|]. intros Hd. destruct (Dd a Hd) as [sz Es]. destruct Ia as (ra & na & Ea). congruence.
  - rewrite node_kids_eq in Hc. pose proof (Inv_nil_pos _ _ _ _ _ _ I Hx) as Px.
    destruct (Inv_kid_live own ownd [] w x rcx nx c I Hx ltac:(lia) Hc) as (rck & nk & Ek & _).
    split.
    + intros ->. pose proof (live_lt _ _ _ _ _ _ I Hx) as Lx.
      pose proof (refs_ge kids (heap w) (next w) x r Lx) as G. rewrite Hx in G. cbn [selc] in G.
      destruct (N.eqb_spec rcx 0); [lia|]. apply cnt_pos_in in Hc. unfold indeg in Ir. lia.
    + intros Hd. destruct (Dd c Hd) as [sz Es]. congruence.
  - apply node_blocks_in in Hd. pose proof (Inv_nil_pos _ _ _ _ _ _ I Hx) as Px.
    destruct (Inv_dblock_live own ownd [] w x rcx nx d I Hx ltac:(lia) Hd) as ((sz & Es) & _ & D1 & _).
    split; [intros ->; congruence|]. intros Hdr. destruct IH as [Hxr _].
    pose proof (live_lt _ _ _ _ _ _ I Hx) as Lx. pose proof (live_lt _ _ _ _ _ _ I E) as Lr.
    pose proof (sumN_ge2 (next w) (fun b => cnt d (selc dblocks (heap w b))) x r Lx Lr Hxr) as G.
    cbn beta in G. rewrite Hx, E in G. cbn [selc] in G.
    destruct (N.eqb_spec rcx 0); [lia|]. destruct (N.eqb_spec rc 0); [lia|].
    apply cnt_pos_in in Hd. apply cnt_pos_in in Hdr. unfold dindeg, refs in D1. lia.
Qed.

(* ------------------------------------------------------------------------------------------ *)
(* 5. what cbor_copy needs of its argument, and what it promises                               *)
(* ------------------------------------------------------------------------------------------ *)

Definition data_live (h : addr -> option cell) (p : option addr) : Prop :=
  exists d sz, p = Some d /\ h d = Some (CData sz).

(* [shaped f h a]: the item [a] of heap [h] is complete down to depth < f: every tag has its item, every
   map pair its value, the data block of every non-empty string / array / map is there, and the reference
   counts fit a size_t *)
Fixpoint shaped (f : nat) (h : addr -> option cell) (a : addr) : Prop :=
  match f with
  | O => False
  | S f' =>
    exists rc n, h a = Some (CItem rc n) /\ rc < W64 /\
      match n with
      | NInt _ _ _ | NFloat _ _ | NCtrl _ => True
      | NStr _ data bytes => len bytes = 0 \/ data_live h data
      | NChunked text _ _ _ chunks =>
          (* every chunk is a definite string of the kind of the chunked string (the documented rule of
             cbor_bytestring_add_chunk / cbor_string_add_chunk; the former asserts it) *)
          Forall (fun c => shaped f' h c /\ exists rcc data bs, h c = Some (CItem rcc (NStr text data bs))) chunks
      | NArr _ data _ elems => (elems = [] \/ data_live h data) /\ Forall (shaped f' h) elems
      | NMap _ data _ pairs =>
          (pairs = [] \/ data_live h data) /\
          Forall (fun kv => shaped f' h (fst kv) /\ exists v, snd kv = Some v /\ shaped f' h v) pairs
      | NTag _ child => exists x, child = Some x /\ shaped f' h x
      end
  end.

Lemma shaped_live f h a : shaped f h a -> exists rc n, h a = Some (CItem rc n) /\ rc < W64.
Proof. destruct f; [intros []|]. intros (rc & n & E & R & _). eauto. Qed.

Lemma data_live_frame m h h' p :
  (forall b c, h b = Some c -> b < m) -> (forall b, b < m -> h' b = h b) -> data_live h p -> data_live h' p.
Proof. intros L F (d & sz & -> & E). exists d, sz. split; [reflexivity|]. rewrite F; [exact E|eapply L; exact E]. Qed.

Lemma shaped_frame m h h' : (forall b c, h b = Some c -> b < m) -> (forall b, b < m -> h' b = h b) ->
  forall f a, shaped f h a -> shaped f h' a.
Proof.
  intros L F. induction f as [|f IH]; intros a; [intros []|].
  intros (rc & n & E & R & S). exists rc, n. split; [rewrite F; [exact E|eapply L; exact E]|]. split; [exact R|].
  destruct n as [neg iw v|fw bits|v|text data bytes|text hdr arr cap chunks|indef data al elems|indef data al pairs|v c].
  - exact I. - exact I. - exact I.
  - destruct S as [S|S]; [left; exact S|right; eapply data_live_frame; eassumption].
  - eapply Forall_impl; [|exact S]. intros x [Sx (rcc & dc & bs & Ec)]. split; [apply IH, Sx|].
    exists rcc, dc, bs. rewrite F; [exact Ec|eapply L; exact Ec].
  - destruct S as [S1 S2]. split.
    + destruct S1 as [S1|S1]; [left; exact S1|right; eapply data_live_frame; eassumption].
    + eapply Forall_impl; [|exact S2]. intros x. apply IH.
  - destruct S as [S1 S2]. split.
    + destruct S1 as [S1|S1]; [left; exact S1|right; eapply data_live_frame; eassumption].
    + eapply Forall_impl; [|exact S2]. intros kv (Sk & v & Ev & Sv). split; [apply IH, Sk|].
      exists v. split; [exact Ev|apply IH, Sv].
  - destruct S as (x & Ex & Sx). exists x. split; [exact Ex|apply IH, Sx].
Qed.

(* the cells at or above [m] *)
Definition F1 (m : N) (w : world) : Prop :=
  forall b rc n, m <= b -> heap w b = Some (CItem rc n) -> rc = 1.
Definition FreshOK (m : N) (f : nat) (w : world) : Prop :=
  F1 m w /\ closed m w /\ exists rank, ranked m w rank /\ forall b, m <= b -> (rank b <= f)%nat.

Definition own1 (own : addr -> N) (a : addr) : addr -> N := fun x => own x + (if x =? a then 1 else 0).

(* the outcome of copying [a] in world [w] with [f] levels of fuel: [r], [w'] *)
Definition gpost {X} (rdr : addr -> M X) (f : nat) (own ownd : addr -> N) (a : addr) (w : world)
    (r : option addr) (w' : world) : Prop :=
  next w <= next w' /\ (forall b, b < next w -> heap w' b = heap w b) /\
  match r with
  | None => forall b, next w <= b -> heap w' b = None
  | Some a' => next w <= a' /\ Inv (own1 own a') ownd [] w' /\ FreshOK (next w) f w' /\
               sim (heap w) (heap w') (rdr a) (rdr a')
  end.

Definition strlike (w : world) (a : addr) (w' : world) (a' : addr) : Prop :=
  forall rc text data bytes, heap w a = Some (CItem rc (NStr text data bytes)) ->
    exists d' sz, heap w' a' = Some (CItem 1 (NStr text (Some d') bytes)) /\ heap w' d' = Some (CData sz).

Definition copy_post (f : nat) (own ownd : addr -> N) (a : addr) (w : world) (r : option addr) (w' : world) : Prop :=
  gpost (abs f) f own ownd a w r w' /\ forall a', r = Some a' -> strlike w a w' a'.

Lemma region_merge m w w' rank rank_c :
  F1 m w -> closed m w -> ranked m w rank -> m <= next w ->
  (forall b, b < next w -> heap w' b = heap w b) -> next w <= next w' ->
  F1 (next w) w' -> closed (next w) w' -> ranked (next w) w' rank_c ->
  F1 m w' /\ closed m w' /\ ranked m w' (fun b => if b <? next w then rank b else rank_c b).
Proof.
  intros A1 A2 A3 Hm Fr L B1 B2 B3. split; [|split].
  - intros b rc n Hb E. destruct (N.lt_ge_cases b (next w)) as [Lb|Lb].
    + rewrite Fr in E by exact Lb. eapply A1; eassumption.
    + eapply B1; eassumption.
  - intros b rc n Hb E. destruct (N.lt_ge_cases b (next w)) as [Lb|Lb].
    + rewrite Fr in E by exact Lb. destruct (A2 b rc n Hb E) as [CK CD].
      split; intros k Hk; [specialize (CK k Hk)|specialize (CD k Hk)]; lia.
    + destruct (B2 b rc n Lb E) as [CK CD].
      split; intros k Hk; [specialize (CK k Hk)|specialize (CD k Hk)]; lia.
  - intros b rc n k Hb E Hk. destruct (N.lt_ge_cases b (next w)) as [Lb|Lb].
    + rewrite Fr in E by exact Lb. destruct (A2 b rc n Hb E) as [CK _]. specialize (CK k Hk).
      destruct (N.ltb_spec b (next w)); [|lia]. destruct (N.ltb_spec k (next w)); [|lia]. eapply A3; eassumption.
    + destruct (B2 b rc n Lb E) as [CK _]. specialize (CK k Hk).
      destruct (N.ltb_spec b (next w)); [lia|]. destruct (N.ltb_spec k (next w)); [lia|]. eapply B3; eassumption.
Qed.

(* ------------------------------------------------------------------------------------------ *)
(* 6. constructors                                                                             *)
(* ------------------------------------------------------------------------------------------ *)

Section Ctors.
Variable refuse : N -> N -> bool.

(* one-block constructor *)
Definition ctor1_post (w : world) (n : node) (r : option addr) (w' : world) : Prop :=
  match r with
  | None => (forall b, heap w' b = heap w b) /\ next w' = next w
  | Some a' => a' = next w /\ next w' = next w + 1 /\
               forall b, heap w' b = upd (heap w) (next w) (Some (CItem 1 n)) b
  end.

Lemma wp_malloc_item sz n w : wp (malloc refuse sz (CItem 1 n)) w (ctor1_post w n).
Proof.
  destruct (refuse (nreq w) sz) eqn:R.
  - eapply wp_eq; [apply malloc_refused; exact R|]. split; reflexivity.
  - eapply wp_eq; [apply malloc_granted; exact R|]. split; [reflexivity|]. split; reflexivity.
Qed.

(* two-block constructor: the item, then its data block *)
Definition ctor2_post (w : world) (n1 : node) (r : option addr) (w' : world) : Prop :=
  next w <= next w' /\
  match r with
  | None => forall b, heap w' b = heap w b
  | Some a' => a' = next w /\ next w' = next w + 2 /\
               exists sz, forall b, heap w' b = upd (upd (heap w) (next w) (Some (CItem 1 n1))) (next w + 1) (Some (CData sz)) b
  end.

Lemma built_heap sz c bytes n1 w : wf w -> forall b,
  heap (w_built sz c bytes (CItem 1 n1) w) b =
  upd (upd (heap w) (next w) (Some (CItem 1 n1))) (next w + 1) (Some (CData bytes)) b.
Proof.
  intros Hwf b. unfold w_built. wsimpl. unfold upd.
  destruct (N.eqb_spec b (next w)); destruct (N.eqb_spec b (next w + 1)); try reflexivity; lia.
Qed.

Lemma ctor2_fail1 sz w n1 : ctor2_post w n1 None (w_fail1 sz w).
Proof. split; [cbn; lia|]. intros b. reflexivity. Qed.
Lemma ctor2_fail_guard sz c w n1 : wf w -> ctor2_post w n1 None (w_fail_guard sz c w).
Proof. intros Hwf. destruct (w_fail_guard_props sz c w Hwf) as (P1 & _ & P3 & _). split; [lia|exact P1]. Qed.
Lemma ctor2_fail2 sz c bytes w n1 : wf w -> ctor2_post w n1 None (w_fail2 sz c bytes w).
Proof. intros Hwf. destruct (w_fail2_props sz c bytes w Hwf) as (P1 & _ & P3 & _). split; [lia|exact P1]. Qed.
Lemma ctor2_built sz c bytes w n1 : wf w -> ctor2_post w n1 (Some (next w)) (w_built sz c bytes (CItem 1 n1) w).
Proof.
  intros Hwf. split; [unfold w_built; wsimpl; lia|]. split; [reflexivity|].
  split; [unfold w_built; wsimpl; lia|].
  exists bytes. apply built_heap. exact Hwf.
Qed.

Lemma wp_build_string text bytes w : wf w ->
  wp (build_string refuse text bytes) w
     (fun r w' => exists r0, ctor2_post w (NStr text (Some (next w + 1)) bytes) r w' /\ r0 = r).
Proof.
  intros Hwf. pose proof (build_string_cases refuse text bytes w) as E. cbv zeta in E.
  destruct (refuse (nreq w) SZ_ITEM).
  { eapply wp_eq; [exact E|]. eexists. split; [apply ctor2_fail1|reflexivity]. }
  destruct (refuse (nreq w + 1) (len bytes)).
  { eapply wp_eq; [exact E|]. eexists. split; [apply ctor2_fail2; exact Hwf|reflexivity]. }
  eapply wp_eq; [exact E|]. eexists. split; [apply ctor2_built; exact Hwf|reflexivity].
Qed.

Lemma wp_new_indefinite_string text w : wf w ->
  wp (new_indefinite_string refuse text) w (ctor2_post w (NChunked text (next w + 1) None 0 [])).
Proof.
  intros Hwf. pose proof (new_indefinite_string_cases refuse text w) as E. cbv zeta in E.
  destruct (refuse (nreq w) SZ_ITEM).
  { eapply wp_eq; [exact E|]. apply ctor2_fail1. }
  destruct (refuse (nreq w + 1) SZ_ISD).
  { eapply wp_eq; [exact E|]. apply ctor2_fail2; exact Hwf. }
  eapply wp_eq; [exact E|]. apply ctor2_built; exact Hwf.
Qed.

Lemma wp_new_definite_array n w : wf w ->
  wp (new_definite_array refuse n) w (ctor2_post w (NArr false (Some (next w + 1)) n [])).
Proof.
  intros Hwf. pose proof (new_definite_array_cases refuse n w) as E. cbv zeta in E.
  destruct (refuse (nreq w) SZ_ITEM).
  { eapply wp_eq; [exact E|]. apply ctor2_fail1. }
  destruct (alloc_multiple_req 64 SZ_PTR n) as [bytes|].
  2:{ eapply wp_eq; [exact E|]. apply ctor2_fail_guard; exact Hwf. }
  destruct (refuse (nreq w + 1) bytes).
  { eapply wp_eq; [exact E|]. apply ctor2_fail2; exact Hwf. }
  eapply wp_eq; [exact E|]. apply ctor2_built; exact Hwf.
Qed.

Lemma wp_new_definite_map n w : wf w ->
  wp (new_definite_map refuse n) w (ctor2_post w (NMap false (Some (next w + 1)) n [])).
Proof.
  intros Hwf. pose proof (new_definite_map_cases refuse n w) as E. cbv zeta in E.
  destruct (refuse (nreq w) SZ_ITEM).
  { eapply wp_eq; [exact E|]. apply ctor2_fail1. }
  destruct (alloc_multiple_req 64 SZ_PAIR n) as [bytes|].
  2:{ eapply wp_eq; [exact E|]. apply ctor2_fail_guard; exact Hwf. }
  destruct (refuse (nreq w + 1) bytes).
  { eapply wp_eq; [exact E|]. apply ctor2_fail2; exact Hwf. }
  eapply wp_eq; [exact E|]. apply ctor2_built; exact Hwf.
Qed.

End Ctors.

(* the invariant after a successful two-block constructor *)
Lemma Inv_built own ownd w w' n1 sz :
  Inv own ownd [] w -> kids n1 = [] -> dblocks n1 = [next w + 1] ->
  (forall b, heap w' b = upd (upd (heap w) (next w) (Some (CItem 1 n1))) (next w + 1) (Some (CData sz)) b) ->
  next w' = next w + 2 ->
  Inv (own1 own (next w)) ownd [] w'.
Proof.
  intros I K D Hh Hn.
  set (n0 := NCtrl 0).
  set (g1 := ghost (upd (heap w) (next w) (Some (CItem 1 n0))) (next w + 1)).
  assert (I1 : Inv (own1 own (next w)) ownd [] g1)
    by (eapply (Inv_alloc_item_pw own ownd w g1 n0 I); reflexivity).
  set (g2 := ghost (upd (heap g1) (next w + 1) (Some (CData sz))) (next w + 2)).
  assert (I2 : Inv (own1 own (next w)) (fun x => ownd x + (if x =? next w + 1 then 1 else 0)) [] g2).
  { eapply (Inv_alloc_data_pw _ ownd g1 g2 sz I1); [reflexivity|]. cbn [next g1 g2 ghost]. lia. }
  eapply (Inv_relink _ _ _ _ g2 w' (next w) 1 n0 n1 [] [] [next w + 1] I2).
  - cbn [heap g2 g1 ghost]. rewrite upd_other by lia. apply upd_same.
  - intros b. rewrite Hh. cbn [heap g2 g1 ghost]. unfold upd.
    destruct (N.eqb_spec b (next w)); destruct (N.eqb_spec b (next w + 1)); try reflexivity; lia.
  - rewrite Hn. reflexivity.
  - intros x. rewrite K. reflexivity.
  - intros x. rewrite D. cbn [dblocks n0 cnt]. lia.
  - intros x. cbn [cnt]. lia.
  - intros x. cbn [cnt]. eqb; lia.
Qed.

Lemma Inv_built_facts own ownd w w' n1 sz :
  Inv own ownd [] w ->
  (forall b, heap w' b = upd (upd (heap w) (next w) (Some (CItem 1 n1))) (next w + 1) (Some (CData sz)) b) ->
  heap w' (next w) = Some (CItem 1 n1) /\ heap w' (next w + 1) = Some (CData sz) /\
  (forall b, b < next w -> heap w' b = heap w b) /\
  (forall b, next w + 2 <= b -> heap w' b = None).
Proof.
  intros I Hh. pose proof (Inv_wf _ _ _ _ I) as Hwf.
  split; [rewrite Hh, upd_other by lia; apply upd_same|].
  split; [rewrite Hh; apply upd_same|].
  split; intros b Hb; rewrite Hh, !upd_other by lia; [reflexivity|apply Hwf; lia].
Qed.

(* ------------------------------------------------------------------------------------------ *)
(* 7. the postcondition under a change of the starting world that keeps the heap               *)
(* ------------------------------------------------------------------------------------------ *)

Lemma frame_heq h1 h2 {X} (rdr : addr -> M X) :
  (forall h1 h2 a, (forall b, reachh h1 a b -> h1 b = h2 b) -> frame h1 h2 (rdr a)) ->
  (forall b, h1 b = h2 b) -> forall a, frame h1 h2 (rdr a).
Proof. intros F E a. apply F. intros b _. apply E. Qed.

Lemma gpost_heq {X} (rdr : addr -> M X) f own ownd a w1 w r w' :
  (forall h1 h2 a, (forall b, reachh h1 a b -> h1 b = h2 b) -> frame h1 h2 (rdr a)) ->
  (forall b, heap w1 b = heap w b) -> next w1 = next w ->
  gpost rdr f own ownd a w1 r w' -> gpost rdr f own ownd a w r w'.
Proof.
  intros F E Hn (P1 & P2 & P3). unfold gpost. rewrite <- Hn. split; [exact P1|].
  split; [intros b Hb; rewrite P2 by exact Hb; apply E|].
  destruct r as [a'|]; [|exact P3]. destruct P3 as (Q1 & Q2 & Q3 & Q4).
  split; [exact Q1|]. split; [exact Q2|]. split; [exact Q3|].
  eapply sim_frame_l; [|exact Q4]. apply frame_heq; [exact F|]. intros b. symmetry. apply E.
Qed.

Lemma copy_post_heq f own ownd a w1 w r w' :
  (forall b, heap w1 b = heap w b) -> next w1 = next w ->
  copy_post f own ownd a w1 r w' -> copy_post f own ownd a w r w'.
Proof.
  intros E Hn [P S]. split.
  - eapply gpost_heq; [|exact E|exact Hn|exact P]. intros h1 h2 x. apply abs_frame.
  - intros a' Hr rc text data bytes Ea. rewrite <- E in Ea. eapply S; eassumption.
Qed.

(* ------------------------------------------------------------------------------------------ *)
(* 8. leaves and definite strings                                                              *)
(* ------------------------------------------------------------------------------------------ *)

Definition leaf (n : node) : Prop :=
  match n with NInt _ _ _ | NFloat _ _ | NCtrl _ => True | _ => False end.

Lemma leaf_no_refs n : leaf n -> kids n = [] /\ dblocks n = [].
Proof. destruct n; intros []; split; reflexivity. Qed.

(* the fresh region holds exactly one item without references *)
Lemma fresh_single w w' n :
  wf w -> kids n = [] -> dblocks n = [] ->
  (forall b, heap w' b = upd (heap w) (next w) (Some (CItem 1 n)) b) -> next w' = next w + 1 ->
  F1 (next w) w' /\ closed (next w) w' /\ forall rank, ranked (next w) w' rank.
Proof.
  intros Hwf K D Hh Hn.
  assert (C : forall b rc n', next w <= b -> heap w' b = Some (CItem rc n') -> rc = 1 /\ n' = n).
  { intros b rc n' Hb E. rewrite Hh in E. unfold upd in E. destruct (N.eqb_spec b (next w)).
    - inversion E. auto.
    - rewrite Hwf in E by exact Hb. discriminate. }
  split; [intros b rc n' Hb E; apply (C b rc n' Hb E)|]. split.
  - intros b rc n' Hb E. destruct (C b rc n' Hb E) as [_ ->]. rewrite K, D. split; intros k [].
  - intros rank b rc n' k Hb E Hk. destruct (C b rc n' Hb E) as [_ ->]. rewrite K in Hk. destruct Hk.
Qed.

Lemma FreshOK_intro m0 f w : F1 m0 w -> closed m0 w -> (forall rank, ranked m0 w rank) -> FreshOK m0 f w.
Proof. intros A B C. split; [exact A|]. split; [exact B|]. exists (fun _ => O). split; [apply C|intros; lia]. Qed.

(* the fresh region after a two-block constructor of an item without kids *)
Lemma fresh_built w w' n1 sz :
  wf w -> kids n1 = [] -> dblocks n1 = [next w + 1] ->
  (forall b, heap w' b = upd (upd (heap w) (next w) (Some (CItem 1 n1))) (next w + 1) (Some (CData sz)) b) ->
  next w' = next w + 2 ->
  F1 (next w) w' /\ closed (next w) w' /\ forall rank, ranked (next w) w' rank.
Proof.
  intros Hwf K D Hh Hn.
  assert (C : forall b rc n', next w <= b -> heap w' b = Some (CItem rc n') -> rc = 1 /\ n' = n1).
  { intros b rc n' Hb E. rewrite Hh in E. unfold upd in E.
    destruct (N.eqb_spec b (next w + 1)); [discriminate|]. destruct (N.eqb_spec b (next w)).
    - inversion E. auto.
    - rewrite Hwf in E by exact Hb. discriminate. }
  split; [intros b rc n' Hb E; apply (C b rc n' Hb E)|]. split.
  - intros b rc n' Hb E. destruct (C b rc n' Hb E) as [_ ->]. rewrite K, D. split; [intros k []|].
    intros d [<-|[]]. lia.
  - intros rank b rc n' k Hb E Hk. destruct (C b rc n' Hb E) as [_ ->]. rewrite K in Hk. destruct Hk.
Qed.

Section Copy1.
Variable refuse : N -> N -> bool.

Lemma copy_leaf_post f own ownd a w rc n sz :
  Inv own ownd [] w -> heap w a = Some (CItem rc n) -> leaf n ->
  wp (malloc refuse sz (CItem 1 n)) w (copy_post (S f) own ownd a w).
Proof.
  intros I E L. destruct (leaf_no_refs n L) as [K D]. pose proof (Inv_wf _ _ _ _ I) as Hwf.
  eapply wp_mono; [apply wp_malloc_item|]. intros r w' P. destruct r as [a'|]; cbn [ctor1_post] in P.
  - destruct P as (-> & Hn & Hh). split.
    + split; [lia|]. split; [intros b Hb; rewrite Hh, upd_other by lia; reflexivity|].
      split; [lia|]. split; [eapply Inv_alloc_item_pw; eassumption|].
      split; [destruct (fresh_single w w' n Hwf K D Hh Hn) as (G1 & G2 & G3); apply FreshOK_intro; assumption|].
      cbn [abs]. eapply sim_rd_bind; [rewrite Hh; apply upd_same|].
      intros rc1 n1 E1. rewrite E in E1. inversion E1; subst rc1 n1. cbn [snd].
      destruct n; try contradiction; apply sim_ret.
    + intros a' _ rc0 text data bytes Ea. rewrite E in Ea. inversion Ea; subst n. destruct L.
  - destruct P as [Hh Hn]. split.
    + split; [lia|]. split; [intros b _; apply Hh|]. intros b Hb. rewrite Hh. apply Hwf. exact Hb.
    + intros a' Ha'. discriminate Ha'.
Qed.

Lemma copy_str_post f own ownd a w rc text data bytes :
  Inv own ownd [] w -> heap w a = Some (CItem rc (NStr text data bytes)) ->
  wp (build_string refuse text bytes) w (copy_post (S f) own ownd a w).
Proof.
  intros I E. pose proof (Inv_wf _ _ _ _ I) as Hwf.
  eapply wp_mono; [apply wp_build_string; exact Hwf|]. intros r w' (r0 & P & _).
  destruct P as [Hle P]. destruct r as [a'|].
  - destruct P as (-> & Hn & sz & Hh).
    destruct (Inv_built_facts own ownd w w' _ sz I Hh) as (B1 & B2 & B3 & B4).
    destruct (fresh_built w w' (NStr text (Some (next w + 1)) bytes) sz Hwf eq_refl eq_refl Hh Hn) as (G1 & G2 & G3).
    split.
    + split; [lia|]. split; [exact B3|]. split; [lia|].
      split; [eapply (Inv_built own ownd w w' (NStr text (Some (next w + 1)) bytes) sz I); [reflexivity|reflexivity|exact Hh|exact Hn]|].
      split; [apply FreshOK_intro; assumption|].
      cbn [abs]. eapply sim_rd_bind; [exact B1|].
      intros rc1 n1 E1. rewrite E in E1. inversion E1; subst rc1 n1. cbn [snd].
      apply sim_bind; [|intros _; apply sim_ret]. apply sim_unit.
      * intros w1 u w1' H1 Hu. destruct (len bytes =? 0).
        -- unfold ret in Hu. injection Hu as _ Hw. subst w1'. exact H1.
        -- eapply touch_keeps; eassumption.
      * intros w2 H2. destruct (len bytes =? 0).
        -- exists w2. split; [reflexivity|exact H2].
        -- eapply touch_total; [exact H2|exact B2].
    + intros a' Ha' rc0 text0 data0 bytes0 Ea. inversion Ha'; subst a'. rewrite E in Ea. inversion Ea; subst.
      exists (next w + 1), sz. split; assumption.
  - split.
    + split; [exact Hle|]. split; [intros b _; apply P|]. intros b Hb. rewrite P. apply Hwf. exact Hb.
    + intros a' Ha'. discriminate Ha'.
Qed.

End Copy1.

(* ------------------------------------------------------------------------------------------ *)
(* 9. a container under construction                                                           *)
(* ------------------------------------------------------------------------------------------ *)

Lemma dying_chain m own ownd rank {A} (k : M A) (Q : A -> world -> Prop) : forall ds w ownS,
  Dying m ownS ownd rank w -> (forall y, ownS y = own y + cnt y ds) -> (forall a, In a ds -> m <= a) ->
  (forall w', Dying m own ownd rank w' -> (forall b, b < m -> heap w' b = heap w b) -> next w' = next w ->
              wp k w' Q) ->
  wp (fold_right (fun a k => decref a ;;; k) k ds) w Q.
Proof.
  induction ds as [|a ds IH]; intros w ownS D O G K; cbn [fold_right].
  - apply K; [|reflexivity|reflexivity]. eapply Dying_own_ext; [exact D|].
    intros x. rewrite O. cbn [cnt]. lia.
  - destruct (decref_dying m (fun y => own y + cnt y ds) ownS ownd rank a w) as (w1 & E & D1 & Fr1 & N1).
    + intros x. rewrite O. cbn [cnt]. eqb; lia.
    + apply G. left. reflexivity.
    + exact D.
    + apply wp_bind. eapply wp_eq; [exact E|]. apply (IH w1 _ D1); [reflexivity| |].
      * intros b Hb. apply G. right. exact Hb.
      * intros w' D' F' N'. apply K; [exact D'| |congruence].
        intros b Hb. rewrite F', Fr1 by exact Hb. reflexivity.
Qed.

Section Partial.
Variable f : nat.
Variable w0 : world.
Variables own0 ownd0 : addr -> N.
Hypothesis I0 : Inv own0 ownd0 [] w0.
Variable m : N.
Hypothesis Hm : m = next w0.

Definition ownP (pend : list addr) : addr -> N :=
  fun y => own0 y + (if y =? m then 1 else 0) + cnt y pend.

(* the result item lives at [m]; the client (cbor_copy) holds it and the items [pend] *)
Definition Partial (w : world) (rank : addr -> nat) (pend : list addr) : Prop :=
  m < next w /\ (forall b, b < m -> heap w b = heap w0 b) /\
  Inv (ownP pend) ownd0 [] w /\ F1 m w /\ closed m w /\ ranked m w rank /\
  rank m = S f /\ (forall b, m < b -> (rank b <= f)%nat) /\ Forall (fun x => m < x) pend.

Lemma own0_fresh b : m <= b -> own0 b = 0 /\ ownd0 b = 0.
Proof using All. intros Hb. eapply Inv_dead_own; [exact I0|]. apply (Inv_wf _ _ _ _ I0). lia. Qed.

Lemma cleanup {A} ds w rank pend :
  Partial w rank pend -> (forall y, cnt y ds = (if y =? m then 1 else 0) + cnt y pend) ->
  wp (fold_right (fun a k => decref a ;;; k) (ret (@None A)) ds) w
     (fun r w' => r = None /\ next w' = next w /\ (forall b, b < m -> heap w' b = heap w0 b) /\
                  forall b, m <= b -> heap w' b = None).
Proof using All.
  intros (P1 & P2 & P3 & P4 & P5 & P6 & P7 & P8 & P9) C.
  eapply (dying_chain m own0 ownd0 rank _ _ ds w (ownP pend)).
  - split; [exact P3|]. split; assumption.
  - intros y. unfold ownP. rewrite C. lia.
  - intros a Ha. apply cnt_pos_in in Ha. rewrite C in Ha. destruct (N.eqb_spec a m); [lia|].
    assert (Hp : In a pend) by (apply cnt_pos_in; lia).
    rewrite Forall_forall in P9. specialize (P9 a Hp). lia.
  - intros w' D' F' N'. apply wp_ret. split; [reflexivity|]. split; [exact N'|].
    assert (Fr : forall b, b < m -> heap w' b = heap w0 b) by (intros b Hb; rewrite F', P2 by exact Hb; reflexivity).
    split; [exact Fr|]. eapply dying_dead; [exact D'|apply own0_fresh|].
    eapply oldclosed_frame; [|exact Fr]. rewrite Hm. eapply Inv_oldclosed. exact I0.
Qed.

Lemma partial_heq w w' rank pend :
  Partial w rank pend -> (forall b, heap w' b = heap w b) -> next w <= next w' -> Partial w' rank pend.
Proof using All.
  intros (P1 & P2 & P3 & P4 & P5 & P6 & P7 & P8 & P9) E L.
  destruct (Dying_heq m _ _ rank w w' (conj P3 (conj P5 P6)) E L) as (D1 & D2 & D3).
  split; [lia|]. split; [intros b Hb; rewrite E; apply P2, Hb|]. split; [exact D1|].
  split; [intros b rc n Hb Eb; rewrite E in Eb; eapply P4; eassumption|].
  split; [exact D2|]. split; [exact D3|]. split; [exact P7|]. split; assumption.
Qed.

(* a child has been copied *)
Lemma partial_child w w2 rank pend x :
  Partial w rank pend -> next w <= next w2 -> (forall b, b < next w -> heap w2 b = heap w b) ->
  next w <= x -> Inv (own1 (ownP pend) x) ownd0 [] w2 -> FreshOK (next w) f w2 ->
  exists rank', Partial w2 rank' (x :: pend).
Proof using All.
  intros (P1 & P2 & P3 & P4 & P5 & P6 & P7 & P8 & P9) L Fr Hx I2 (G1 & G2 & rc & G3 & G4).
  destruct (region_merge m w w2 rank rc P4 P5 P6 ltac:(lia) Fr L G1 G2 G3) as (M1 & M2 & M3).
  exists (fun b => if b <? next w then rank b else rc b).
  split; [lia|]. split; [intros b Hb; rewrite Fr by lia; apply P2, Hb|].
  split.
  { eapply Inv_own_ext; [exact I2| |reflexivity]. intros y. unfold own1, ownP. cbn [cnt]. eqb; lia. }
  split; [exact M1|]. split; [exact M2|]. split; [exact M3|].
  split; [destruct (N.ltb_spec m (next w)); [exact P7|lia]|].
  split.
  { intros b Hb. destruct (N.ltb_spec b (next w)); [apply P8, Hb|apply G4; lia]. }
  constructor; [lia|exact P9].
Qed.

(* the empty container just built *)
Lemma partial_init w1 :
  Inv (own1 own0 m) ownd0 [] w1 -> m < next w1 -> (forall b, b < m -> heap w1 b = heap w0 b) ->
  F1 m w1 -> closed m w1 -> (forall rank, ranked m w1 rank) ->
  Partial w1 (fun b => if b =? m then S f else O) [].
Proof using All.
  intros I1 L Fr A B C. split; [exact L|]. split; [exact Fr|].
  split; [eapply Inv_own_ext; [exact I1| |reflexivity]; intros y; unfold own1, ownP; cbn [cnt]; lia|].
  split; [exact A|]. split; [exact B|]. split; [apply C|].
  split; [rewrite N.eqb_refl; reflexivity|]. split; [|constructor].
  intros b Hb. destruct (N.eqb_spec b m); lia.
Qed.

(* the heap after the items [pend] have been linked into the container at [m] (whose data block
   [d] moved to [nxt] when [g] is [Some size]) and released by the client *)
Definition link_heap (h : addr -> option cell) (g : option N) (d : option addr) (n' : node) (nxt : N)
    : addr -> option cell :=
  match g with
  | None => upd h m (Some (CItem 1 n'))
  | Some sz =>
      let h1 := upd (upd h nxt (Some (CData sz))) m (Some (CItem 1 n')) in
      match d with Some o => upd h1 o None | None => h1 end
  end.

Lemma partial_link extra w2 w4 rank pend n n' d d' g :
  Partial w2 rank pend -> heap w2 m = Some (CItem 1 n) ->
  dblocks n = olist d ++ extra -> dblocks n' = olist d' ++ extra ->
  (forall y, cnt y (kids n') = cnt y (kids n) + cnt y pend) ->
  match g with
  | None => d' = d /\ next w4 = next w2
  | Some _ => d' = Some (next w2) /\ next w4 = next w2 + 1
  end ->
  (forall b, heap w4 b = link_heap (heap w2) g d n' (next w2) b) ->
  Partial w4 rank [].
Proof using All.
  intros (P1 & P2 & P3 & P4 & P5 & P6 & P7 & P8 & P9) Em Db Db' Kc Hg Hh.
  pose proof (Inv_wf _ _ _ _ P3) as Hwf.
  destruct (P5 m 1 n (N.le_refl _) Em) as [CK CD].
  (* the old data block *)
  assert (Ho : forall o, d = Some o -> m <= o < next w2 /\ o <> m /\ exists sz, heap w2 o = Some (CData sz)).
  { intros o ->. assert (Hin : In o (dblocks n)) by (rewrite Db; left; reflexivity).
    destruct (Inv_dblock_live _ _ [] w2 m 1 n o P3 Em ltac:(lia) Hin) as ((sz & Es) & _).
    split; [apply CD, Hin|]. split; [intros ->; congruence|eauto]. }
  (* the linked items *)
  assert (Hp : forall x, In x pend -> m < x < next w2).
  { intros x Hx. rewrite Forall_forall in P9. split; [apply P9, Hx|].
    assert (O : 0 < ownP pend x) by (unfold ownP; apply cnt_pos_in in Hx; lia).
    destruct (Inv_owned_item _ _ _ _ P3 O) as (rcx & nx & Ex & _). eapply live_lt; eassumption. }
  assert (Hk : forall k, In k (kids n') -> In k (kids n) \/ In k pend).
  { intros k Hk. apply cnt_pos_in in Hk. rewrite Kc in Hk.
    destruct (N.eq_dec (cnt k (kids n)) 0) as [Z|Z]; [right|left]; apply cnt_pos_in; lia. }
  (* cells other than the container: unchanged, except the two data blocks *)
  assert (Hother : forall b, b <> m -> b <> next w2 -> d <> Some b -> heap w4 b = heap w2 b).
  { intros b B1 B2 B3. rewrite Hh. unfold link_heap; cbv zeta. destruct g as [sz|].
    - destruct d as [o|]; [rewrite upd_other by (intros ->; apply B3; reflexivity)|]; rewrite !upd_other by assumption; reflexivity.
    - apply upd_other. exact B1. }
  assert (Hm4 : heap w4 m = Some (CItem 1 n')).
  { rewrite Hh. unfold link_heap; cbv zeta. destruct g as [sz|]; [|apply upd_same].
    destruct d as [o|]; [destruct (Ho o eq_refl) as (_ & Hne & _); rewrite upd_other by congruence|]; apply upd_same. }
  assert (Hn4 : next w2 <= next w4) by (destruct g; lia).
  assert (Hitem : forall b rc nb, b <> m -> heap w4 b = Some (CItem rc nb) -> heap w2 b = Some (CItem rc nb)).
  { intros b rc nb B1 E. rewrite Hh in E. unfold link_heap in E; cbv zeta in E. destruct g as [sz|].
    - destruct d as [o|].
      + unfold upd in E. destruct (N.eqb_spec b o); [discriminate|]. destruct (N.eqb_spec b m); [contradiction|].
        destruct (N.eqb_spec b (next w2)); [discriminate|exact E].
      + unfold upd in E. destruct (N.eqb_spec b m); [contradiction|].
        destruct (N.eqb_spec b (next w2)); [discriminate|exact E].
    - rewrite upd_other in E by exact B1. exact E. }
  split; [lia|]. split.
  { intros b Hb. rewrite Hother; [apply P2, Hb|lia|lia|]. intros ->. destruct (Ho b eq_refl). lia. }
  split.
  { (* the invariant *)
    destruct g as [sz|]; destruct Hg as [-> Hn4'].
    - set (g1 := ghost (upd (heap w2) (next w2) (Some (CData sz))) (next w2 + 1)).
      assert (I1 : Inv (ownP pend) (fun x => ownd0 x + (if x =? next w2 then 1 else 0)) [] g1)
        by (eapply (Inv_alloc_data_pw _ ownd0 w2 g1 sz P3); reflexivity).
      set (g2 := ghost (upd (heap g1) m (Some (CItem 1 n'))) (next w2 + 1)).
      assert (I2 : Inv (ownP []) (fun x => ownd0 x + cnt x (olist d)) [] g2).
      { eapply (Inv_relink _ _ _ _ g1 g2 m 1 n n' pend (olist d) [next w2] I1).
        - cbn [heap g1 ghost]. rewrite upd_other by lia. exact Em.
        - reflexivity. - reflexivity. - exact Kc.
        - intros x. rewrite Db, Db', !cnt_app. cbn [HRef_proofs.opt_list cnt]. lia.
        - intros x. unfold ownP. cbn [cnt]. lia.
        - intros x. cbn [cnt]. eqb; lia. }
      destruct d as [o|].
      + destruct (Ho o eq_refl) as (Ho1 & Ho2 & szo & Ho3).
        eapply (Inv_free_data _ _ ownd0 g2 w4 o szo I2).
        * cbn [heap g2 g1 ghost]. rewrite !upd_other by lia. exact Ho3.
        * cbn [HRef_proofs.opt_list cnt]. rewrite N.eqb_refl.
          destruct (own0_fresh o ltac:(lia)) as [_ ->]. reflexivity.
        * intros b. rewrite Hh. reflexivity.
        * rewrite Hn4'. reflexivity.
        * intros x. cbn [HRef_proofs.opt_list cnt]. eqb; lia.
      + eapply Inv_own_ext; [eapply Inv_heq; [exact I2| |cbn [next g2 ghost]; lia]|reflexivity|].
        * intros b. rewrite Hh. reflexivity.
        * intros x. cbn [HRef_proofs.opt_list cnt]. lia.
    - eapply (Inv_relink _ _ _ _ w2 w4 m 1 n n' pend [] [] P3 Em).
      + intros b. rewrite Hh. reflexivity.
      + exact Hn4'.
      + exact Kc.
      + intros x. rewrite Db, Db'. lia.
      + intros x. unfold ownP. cbn [cnt]. lia.
      + intros x. cbn [cnt]. lia. }
  split.
  { intros b rc nb Hb E. destruct (N.eq_dec b m) as [->|Hne]; [congruence|].
    eapply P4; [exact Hb|]. eapply Hitem; eassumption. }
  split.
  { intros b rc nb Hb E. destruct (N.eq_dec b m) as [->|Hne].
    - rewrite Hm4 in E. inversion E; subst rc nb. split.
      + intros k Hk0. destruct (Hk k Hk0) as [K1|K1]; [specialize (CK k K1)|specialize (Hp k K1)]; lia.
      + intros x Hx. rewrite Db' in Hx. apply in_app_or in Hx. destruct Hx as [Hx|Hx].
        * destruct g as [sz|]; destruct Hg as [-> Hn4'].
          -- destruct Hx as [<-|[]]. lia.
          -- assert (Hin : In x (dblocks n)) by (rewrite Db; apply in_or_app; left; exact Hx).
             specialize (CD x Hin). lia.
        * assert (Hin : In x (dblocks n)) by (rewrite Db; apply in_or_app; right; exact Hx).
          specialize (CD x Hin). lia.
    - apply Hitem in E; [|exact Hne]. destruct (P5 b rc nb Hb E) as [K1 K2].
      split; intros k Hk0; [specialize (K1 k Hk0)|specialize (K2 k Hk0)]; lia. }
  split.
  { intros b rc nb k Hb E Hk0. destruct (N.eq_dec b m) as [->|Hne].
    - rewrite Hm4 in E. inversion E; subst rc nb. destruct (Hk k Hk0) as [K1|K1].
      + eapply P6; [|exact Em|exact K1]. lia.
      + specialize (Hp k K1). rewrite P7. specialize (P8 k ltac:(lia)). lia.
    - apply Hitem in E; [|exact Hne]. eapply P6; eassumption. }
  split; [exact P7|]. split; [exact P8|constructor].
Qed.

(* what is reachable from an item other than the container is not touched by the linking *)
Lemma link_unchanged extra w2 w4 rank pend n n' d g a b :
  Partial w2 rank pend -> heap w2 m = Some (CItem 1 n) -> dblocks n = olist d ++ extra ->
  (forall b, heap w4 b = link_heap (heap w2) g d n' (next w2) b) ->
  is_item w2 a -> m < a -> reachh (heap w2) a b -> heap w4 b = heap w2 b.
Proof using All.
  intros (P1 & P2 & P3 & P4 & P5 & P6 & P7 & P8 & P9) Em Db Hh Ia Ha R.
  destruct (reach_closed m w2 a b P5 ltac:(lia) R) as [Hb1 Hb2].
  assert (Hb : b < next w2).
  { destruct Hb2 as [->|L]; [|exact L]. destruct Ia as (ra & na & Ea). eapply live_lt; eassumption. }
  assert (Om : ownP pend m = 1).
  { unfold ownP. rewrite N.eqb_refl. destruct (own0_fresh m (N.le_refl _)) as [-> _].
    assert (cnt m pend = 0); [|lia]. apply cnt_notin. intros Hin. rewrite Forall_forall in P9.
    specialize (P9 m Hin). lia. }
  destruct (Inv_root_unreached _ _ w2 m 1 n a P3 Em Om Ia ltac:(lia) b R) as [U1 U2].
  rewrite Hh. unfold link_heap; cbv zeta. destruct g as [sz|]; [|apply upd_other; exact U1].
  destruct d as [o|].
  - rewrite upd_other; [rewrite !upd_other by lia; reflexivity|].
    intros ->. apply U2. rewrite Db. left. reflexivity.
  - rewrite !upd_other by lia. reflexivity.
Qed.

End Partial.

Lemma Forall2_impl_in_r {A B} (P Q : A -> B -> Prop) l l' :
  Forall2 P l l' -> (forall x y, In y l' -> P x y -> Q x y) -> Forall2 Q l l'.
Proof.
  induction 1 as [|x y l l' Hxy _ IH]; intros H; constructor.
  - apply H; [left; reflexivity|exact Hxy].
  - apply IH. intros a b Hb. apply H. right. exact Hb.
Qed.

(* ------------------------------------------------------------------------------------------ *)
(* 10. the loop over the members of a chunked string or an array                                *)
(* ------------------------------------------------------------------------------------------ *)

Section GLoop.
Context {X : Type}.
Variable rdr : addr -> M X.
Hypothesis rdr_frame : forall h1 h2 a, (forall b, reachh h1 a b -> h1 b = h2 b) -> frame h1 h2 (rdr a).
Variable f : nat.
Variable w0 : world.
Variables own0 ownd0 : addr -> N.
Hypothesis I0 : Inv own0 ownd0 [] w0.
Variable m : N.
Hypothesis Hm : m = next w0.
Variable cp : addr -> M (option addr).
Variable push : addr -> addr -> M bool.
Variable nodeof : option addr -> N -> list addr -> node.
Variable extra : list addr.
Hypothesis nodeof_kids : forall d c l, kids (nodeof d c l) = l.
Hypothesis nodeof_blocks : forall d c l, dblocks (nodeof d c l) = olist d ++ extra.
Variable capinv : option addr -> N -> list addr -> Prop.
(* what the push function requires of the node of the member it is given *)
Variable okx : node -> Prop.

Definition push_post (w : world) (x : addr) (d : option addr) (l : list addr) (rcx : N) (nx : node)
    (ok : bool) (w' : world) : Prop :=
  if ok then
    exists d' c', capinv d' c' (l ++ [x]) /\
      heap w' m = Some (CItem 1 (nodeof d' c' (l ++ [x]))) /\
      heap w' x = Some (CItem (wrap64 (rcx + 1)) nx) /\
      ((d' = d /\ next w' = next w /\ forall b, b <> m -> b <> x -> heap w' b = heap w b) \/
       (d' = Some (next w) /\ next w' = next w + 1 /\ (exists sz, heap w' (next w) = Some (CData sz)) /\
        (forall o, d = Some o -> heap w' o = None) /\
        forall b, b <> m -> b <> x -> b <> next w -> d <> Some b -> heap w' b = heap w b))
  else (forall b, heap w' b = heap w b) /\ next w' = next w.

Hypothesis Hpush : forall w x d c l rcx nx,
  wf w -> heap w m = Some (CItem 1 (nodeof d c l)) ->
  (forall b, In b (dblocks (nodeof d c l)) -> is_data w b /\ cnt b (dblocks (nodeof d c l)) = 1) ->
  capinv d c l -> heap w x = Some (CItem rcx nx) -> okx nx -> m <> x ->
  wp (push m x) w (push_post w x d l rcx nx).

Definition child_ok (e : addr) : Prop :=
  e < m /\
  forall w own ownd, Inv own ownd [] w -> m <= next w -> (forall b, b < m -> heap w b = heap w0 b) ->
    wp (cp e) w (fun r w' => gpost rdr f own ownd e w r w' /\
                            forall x rc n, r = Some x -> heap w' x = Some (CItem rc n) -> okx n).

Notation PartialL := (Partial f w0 own0 ownd0 m).

Definition LI (w : world) (done done' : list addr) : Prop :=
  (exists rank, PartialL w rank []) /\
  (exists d c, heap w m = Some (CItem 1 (nodeof d c done')) /\ capinv d c done') /\
  Forall2 (fun e e' => m < e' /\ sim (heap w0) (heap w) (rdr e) (rdr e')) done done'.

Fixpoint gloop (es : list addr) : M (option addr) :=
  match es with
  | [] => ret (Some m)
  | e :: rest =>
      cc <- cp e ;;
      match cc with
      | None => decref m ;;; ret None
      | Some x =>
          ok <- push m x ;;
          if ok then decref x ;;; gloop rest else decref x ;;; decref m ;;; ret None
      end
  end.

Definition loop_post (w : world) (all : list addr) (r : option addr) (w' : world) : Prop :=
  next w <= next w' /\ (forall b, b < m -> heap w' b = heap w0 b) /\
  match r with
  | None => forall b, m <= b -> heap w' b = None
  | Some a' => a' = m /\ exists done', LI w' all done'
  end.

Lemma gloop_spec : forall es done done' w,
  LI w done done' -> (forall e, In e es -> child_ok e) ->
  wp (gloop es) w (loop_post w (done ++ es)).
Proof using All.
  induction es as [|e rest IH]; intros done done' w L C; cbn [gloop].
  - apply wp_ret. split; [lia|]. pose proof L as ((rank & P) & _). destruct P as (_ & P2 & _).
    split; [exact P2|]. split; [reflexivity|]. exists done'. rewrite app_nil_r. exact L.
  - destruct L as ((rank & P) & (d & c & Em & Cap) & Sims).
    destruct (C e (or_introl eq_refl)) as [He Hc].
    pose proof P as (P1 & P2 & P3 & P4 & P5 & P6 & P7 & P8 & P9).
    pose proof (Inv_wf _ _ _ _ P3) as Hwf.
    apply wp_bind. eapply wp_mono; [apply (Hc w _ ownd0 P3 ltac:(lia) P2)|].
    intros r1 w2 [(Q1 & Q2 & Q3) Qok]. destruct r1 as [x|].
    + (* the member has been copied *)
      destruct Q3 as (Hx & I2 & FO & Sx).
      destruct (partial_child f w0 own0 ownd0 I0 m Hm w w2 rank [] x P Q1 Q2 Hx I2 FO) as (rank' & P').
      pose proof P' as (R1 & R2 & R3 & R4 & R5 & R6 & R7 & R8 & R9).
      assert (Em2 : heap w2 m = Some (CItem 1 (nodeof d c done'))) by (rewrite Q2 by lia; exact Em).
      assert (Ox : 0 < ownP own0 m [x] x) by (unfold ownP; cbn [cnt]; rewrite N.eqb_refl; lia).
      destruct (Inv_owned_item _ _ _ _ R3 Ox) as (rcx & nx & Ex & _).
      assert (rcx = 1) by (eapply R4; [|exact Ex]; lia). subst rcx.
      apply wp_bind. eapply wp_mono.
      { apply (Hpush w2 x d c done' 1 nx (Inv_wf _ _ _ _ R3) Em2); [|exact Cap|exact Ex|exact (Qok x 1 nx eq_refl Ex)|lia].
        intros b Hb. destruct (Inv_dblock_live _ _ [] w2 m 1 _ b R3 Em2 ltac:(lia) Hb) as (S1 & S2 & _).
        split; [exact S1|exact S2]. }
      intros ok w3 PP. destruct ok; unfold push_post in PP.
      * (* linked *)
        destruct PP as (d' & c' & Cap' & Em3 & Ex3 & Hcase).
        change (wrap64 (1 + 1)) with 2 in Ex3.
        apply wp_bind. eapply wp_eq; [apply (decref_shared x w3 2 nx Ex3); lia|].
        set (w4 := w_set x (CItem (2 - 1) nx) (w_log (AccR x) w3)).
        assert (Hx2 : x < next w2) by (eapply live_lt; [exact R3|exact Ex]).
        assert (Hxm : x <> m) by lia.
        assert (D4 : exists g,
                  match g with
                  | None => d' = d /\ next w4 = next w2
                  | Some _ => d' = Some (next w2) /\ next w4 = next w2 + 1
                  end /\
                  forall b, heap w4 b = link_heap m (heap w2) g d (nodeof d' c' (done' ++ [x])) (next w2) b).
        { destruct Hcase as [(-> & N3 & H3)|(-> & N3 & (sz & S3) & O3 & H3)].
          - exists None. split; [split; [reflexivity|exact N3]|]. intros b. subst w4. wsimpl.
            unfold link_heap, upd. destruct (N.eqb_spec b x) as [->|Nx].
            + destruct (N.eqb_spec x m); [contradiction|]. rewrite Ex. reflexivity.
            + destruct (N.eqb_spec b m) as [->|Nm]; [exact Em3|]. apply H3; assumption.
          - exists (Some sz). split; [split; [reflexivity|exact N3]|]. intros b. subst w4. wsimpl.
            assert (Hd : forall o, d = Some o -> o <> x /\ o <> m /\ o <> next w2).
            { intros o ->. assert (Hin : In o (dblocks (nodeof (Some o) c done'))) by (rewrite nodeof_blocks; left; reflexivity).
              destruct (Inv_dblock_live _ _ [] w2 m 1 _ o R3 Em2 ltac:(lia) Hin) as ((so & Es) & _).
              pose proof (live_lt _ _ _ _ _ _ R3 Es). repeat split; [intros ->; congruence|intros ->; congruence|lia]. }
            unfold link_heap; cbv zeta. destruct d as [o|].
            + destruct (Hd o eq_refl) as (D1 & D2 & D3). unfold upd.
              destruct (N.eqb_spec b x) as [->|Nx].
              * destruct (N.eqb_spec x o); [congruence|]. destruct (N.eqb_spec x m); [contradiction|].
                destruct (N.eqb_spec x (next w2)); [lia|]. rewrite Ex. reflexivity.
              * destruct (N.eqb_spec b o) as [->|No]; [apply O3; reflexivity|].
                destruct (N.eqb_spec b m) as [->|Nm]; [exact Em3|].
                destruct (N.eqb_spec b (next w2)) as [->|Nn]; [exact S3|].
                apply H3; try assumption. intros E0. inversion E0. congruence.
            + unfold upd. destruct (N.eqb_spec b x) as [->|Nx].
              * destruct (N.eqb_spec x m); [contradiction|].
                destruct (N.eqb_spec x (next w2)); [lia|]. rewrite Ex. reflexivity.
              * destruct (N.eqb_spec b m) as [->|Nm]; [exact Em3|].
                destruct (N.eqb_spec b (next w2)) as [->|Nn]; [exact S3|].
                apply H3; try assumption. discriminate. }
        destruct D4 as (g & Hg & Hh4).
        assert (P4' : PartialL w4 rank' []).
        { eapply (partial_link f w0 own0 ownd0 I0 m Hm extra w2 w4 rank' [x] _ _ d d' g P' Em2);
            [apply nodeof_blocks|apply nodeof_blocks| |exact Hg|exact Hh4].
          intros y. rewrite !nodeof_kids, cnt_app. reflexivity. }
        assert (Em4 : heap w4 m = Some (CItem 1 (nodeof d' c' (done' ++ [x])))).
        { subst w4. wsimpl. rewrite upd_other by lia. exact Em3. }
        assert (L4 : LI w4 (done ++ [e]) (done' ++ [x])).
        { split; [exists rank'; exact P4'|]. split; [exists d', c'; split; assumption|].
          apply Forall2_app.
          - eapply Forall2_impl_in_r; [exact Sims|]. intros e0 e0' Hin (Hlt & S0). split; [exact Hlt|].
            assert (K0 : In e0' (kids (nodeof d c done'))) by (rewrite nodeof_kids; exact Hin).
            destruct (Inv_kid_live _ _ [] w m 1 _ e0' P3 Em ltac:(lia) K0) as (rk & nk & Ek & _).
            destruct (Inv_kid_live _ _ [] w2 m 1 _ e0' R3 Em2 ltac:(lia) K0) as (rk2 & nk2 & Ek2 & _).
            eapply sim_frame_r; [eapply sim_frame_r; [exact S0|]|].
            + apply rdr_frame. intros b Rb.
              destruct (reach_closed m w e0' b P5 ltac:(lia) Rb) as [_ [->|Lb]]; symmetry; apply Q2; [|exact Lb].
              eapply live_lt; [exact P3|exact Ek].
            + apply rdr_frame. intros b Rb. symmetry.
              eapply (link_unchanged f w0 own0 ownd0 I0 m Hm extra w2 w4 rank' [x] _ _ d g e0' b P' Em2);
                [apply nodeof_blocks|exact Hh4|eexists; eexists; exact Ek2|exact Hlt|exact Rb].
          - constructor; [|constructor]. split; [lia|].
            eapply sim_frame_l; [|eapply sim_frame_r; [exact Sx|]].
            + apply rdr_frame. intros b Rb. symmetry. apply P2.
              eapply reach_old; [|exact He|exact Rb]. rewrite Hm. eapply Inv_oldclosed. exact I0.
            + apply rdr_frame. intros b Rb. symmetry.
              eapply (link_unchanged f w0 own0 ownd0 I0 m Hm extra w2 w4 rank' [x] _ _ d g x b P' Em2);
                [apply nodeof_blocks|exact Hh4|eexists; eexists; exact Ex|lia|exact Rb]. }
        eapply wp_mono; [apply (IH (done ++ [e]) (done' ++ [x]) w4 L4)|].
        { intros e1 H1. apply C. right. exact H1. }
        intros r w' (T1 & T2 & T3). rewrite <- app_assoc in T3. cbn [app] in T3.
        assert (N4 : next w2 <= next w4) by (destruct g; lia).
        split; [lia|]. split; [exact T2|exact T3].
      * (* the container could not grow *)
        destruct PP as [H3 N3].
        assert (P3' : PartialL w3 rank' [x]) by (apply (partial_heq f w0 own0 ownd0 I0 m Hm w2 w3 rank' [x] P' H3); lia).
        eapply wp_mono; [apply (cleanup f w0 own0 ownd0 I0 m Hm [x; m] w3 rank' [x] P3')|].
        { intros y. cbn [cnt]. eqb; lia. }
        intros r w' (-> & N' & F' & D'). split; [lia|]. split; assumption.
    + (* the member could not be copied *)
      assert (H2 : forall b, heap w2 b = heap w b).
      { intros b. destruct (N.lt_ge_cases b (next w)) as [Lb|Lb]; [apply Q2, Lb|].
        rewrite Q3, Hwf by exact Lb. reflexivity. }
      assert (P2' : PartialL w2 rank []) by (apply (partial_heq f w0 own0 ownd0 I0 m Hm w w2 rank [] P H2 Q1)).
      eapply wp_mono; [apply (cleanup f w0 own0 ownd0 I0 m Hm [m] w2 rank [] P2')|].
      { intros y. cbn [cnt]. eqb; lia. }
      intros r w' (-> & N' & F' & D'). split; [lia|]. split; assumption.
Qed.

End GLoop.

(* ------------------------------------------------------------------------------------------ *)
(* 11. monad laws (pointwise) and small steps used by the instances                             *)
(* ------------------------------------------------------------------------------------------ *)

Lemma bind_assoc {A B C} (m : M A) (f : A -> M B) (g : B -> M C) w :
  bind (bind m f) g w = bind m (fun x => bind (f x) g) w.
Proof. unfold bind. destruct (m w); reflexivity. Qed.

Lemma bind_ext {A B} (m : M A) (f g : A -> M B) w :
  (forall a w', f a w' = g a w') -> bind m f w = bind m g w.
Proof. intros H. unfold bind. destruct (m w); [apply H|reflexivity]. Qed.

Lemma wp_incref_move_k {A} e w rc n (k : M A) (Q : A -> world -> Prop) :
  heap w e = Some (CItem rc n) -> rc < W64 ->
  (forall w', (forall b, heap w' b = heap w b) -> next w' = next w -> wp k w' Q) ->
  wp (incref e ;;; move e ;;; k) w Q.
Proof.
  intros E R H.
  assert (G : wp (bind (incref e ;;; move e) (fun _ => k)) w Q).
  { apply wp_bind. eapply (wp_incref_move e w rc n); [exact E|exact R|]. intros w' H1 H2. apply H; assumption. }
  destruct G as (a & w' & G1 & G2). exists a, w'. split; [|exact G2].
  rewrite <- G1. symmetry. apply bind_assoc.
Qed.

Section Copy2.
Variable refuse : N -> N -> bool.
Variable f : nat.
Hypothesis IHf : forall a w own ownd, Inv own ownd [] w -> shaped f (heap w) a ->
  wp (copy refuse f a) w (copy_post f own ownd a w).

(* a child is copied in a later world that agrees with [w0] below [next w0] *)
Lemma child_copy w0 own0 ownd0 e w own ownd :
  Inv own0 ownd0 [] w0 -> shaped f (heap w0) e ->
  Inv own ownd [] w -> (forall b, b < next w0 -> heap w b = heap w0 b) ->
  wp (copy refuse f e) w (copy_post f own ownd e w).
Proof.
  intros I0 S I Fr. apply IHf; [exact I|].
  eapply (shaped_frame (next w0)); [|exact Fr|exact S].
  intros b c Eb. eapply live_lt; eassumption.
Qed.

Lemma shaped_lt w0 own0 ownd0 e : Inv own0 ownd0 [] w0 -> shaped f (heap w0) e -> e < next w0.
Proof. intros I0 S. destruct (shaped_live _ _ _ S) as (rc & n & E & _). eapply live_lt; eassumption. Qed.

(* cbor_move (cbor_array_get (item, i)) / cbor_move (cbor_tag_item (item)), then the recursive call *)
Lemma child_copy_moved w0 own0 ownd0 e w own ownd :
  Inv own0 ownd0 [] w0 -> shaped f (heap w0) e ->
  Inv own ownd [] w -> (forall b, b < next w0 -> heap w b = heap w0 b) ->
  wp (incref e ;;; move e ;;; copy refuse f e) w (copy_post f own ownd e w).
Proof.
  intros I0 S I Fr. destruct (shaped_live _ _ _ S) as (rc & n & E & R).
  pose proof (shaped_lt _ _ _ _ I0 S) as Le.
  eapply wp_incref_move_k; [rewrite Fr by exact Le; exact E|exact R|].
  intros w' H1 H2. eapply wp_mono.
  - eapply (child_copy w0 own0 ownd0 e w' own ownd I0 S).
    + eapply Inv_heq; [exact I|exact H1|lia].
    + intros b Hb. rewrite H1. apply Fr, Hb.
  - intros r w'' P. eapply copy_post_heq; [exact H1|exact H2|exact P].
Qed.

(* --------------------------- arrays --------------------------- *)

Definition arr_loop (res : addr) (data : option addr) : list addr -> M (option addr) :=
  fix loop (es : list addr) : M (option addr) :=
    match es with
    | [] => ret (Some res)
    | e :: rest =>
        touch_data false data ;;;
        incref e ;;; move e ;;;
        ec <- copy refuse f e ;;
        match ec with
        | None => decref res ;;; ret None
        | Some entry_copy =>
            ok <- array_push refuse res entry_copy ;;
            if ok then decref entry_copy ;;; loop rest
            else decref entry_copy ;;; decref res ;;; ret None
        end
    end.

Definition arr_cp (data : option addr) (e : addr) : M (option addr) :=
  touch_data false data ;;; incref e ;;; move e ;;; copy refuse f e.

Lemma arr_loop_eq res data : forall es w,
  arr_loop res data es w = gloop res (arr_cp data) (array_push refuse) es w.
Proof.
  induction es as [|e rest IH]; intros w; [reflexivity|].
  cbn [arr_loop gloop]. unfold arr_cp. rewrite !bind_assoc.
  apply bind_ext. intros _ w1. rewrite !bind_assoc. apply bind_ext. intros _ w2.
  rewrite !bind_assoc. apply bind_ext. intros _ w3. apply bind_ext. intros [x|] w4; [|reflexivity].
  apply bind_ext. intros [|] w5; [|reflexivity]. apply bind_ext. intros _ w6. apply IH.
Qed.

Definition capinvA (indef : bool) (d : option addr) (c : N) (l : list addr) : Prop :=
  if indef then (d = None -> c = 0) /\ c < 2 ^ 64 /\ len l <= c else exists o, d = Some o.

Lemma array_push_spec indef m w x d c l rcx nx :
  wf w -> heap w m = Some (CItem 1 (NArr indef d c l)) ->
  (forall b, In b (dblocks (NArr indef d c l)) -> is_data w b /\ cnt b (dblocks (NArr indef d c l)) = 1) ->
  capinvA indef d c l -> heap w x = Some (CItem rcx nx) -> m <> x ->
  wp (array_push refuse m x) w (push_post m (NArr indef) (capinvA indef) w x d l rcx nx).
Proof.
  intros Hwf Em Hb Cap Ex Hmx. destruct indef; cbn [capinvA] in Cap.
  - destruct Cap as (C1 & C2 & C3).
    assert (BI : block_inv w d c).
    { destruct d as [o|]; [|apply C1; reflexivity]. apply Hb. left. reflexivity. }
    destruct (push_indefinite refuse m x w 1 d c l rcx nx Hwf Em BI Ex Hmx C2) as [Room Full].
    destruct (N.lt_ge_cases (len l) c) as [L|L].
    + destruct (Room L) as (w' & E & A1 & A2 & A3 & A4 & _). eapply wp_eq; [exact E|].
      exists d, c. split; [|split; [exact A1|split; [exact A2|]]].
      * cbn [capinvA]. rewrite len_app. change (len [x]) with 1. split; [exact C1|]. split; [exact C2|lia].
      * left. split; [reflexivity|]. split; [exact A4|]. intros b B1 B2. apply A3. cbn [In]. intros [H|[H|[]]]; congruence.
    + specialize (Full L). destruct (grow_req SZ_PTR c) as [[c' bytes]|].
      * destruct Full as (G1 & G2 & G3 & G4 & Full). destruct (refuse (nreq w) bytes).
        -- destruct Full as (w' & E & [S1 S2] & _). eapply wp_eq; [exact E|]. split; [intros b; rewrite S1; reflexivity|exact S2].
        -- destruct Full as (w' & E & A1 & A2 & A3 & A4 & A5 & A6 & _). eapply wp_eq; [exact E|].
           exists (Some (next w)), c'. split; [|split; [exact A1|split; [exact A2|]]].
           ++ cbn [capinvA]. rewrite len_app. change (len [x]) with 1. split; [discriminate|]. split; lia.
           ++ right. split; [reflexivity|]. split; [exact A6|]. split; [eauto|]. split; [exact A4|].
              intros b B1 B2 B3 B4. apply A5. cbn [In]. intros [H|[H|[H|H]]]; try congruence.
              destruct d as [o|]; cbn [HCont_proofs.opt_list In] in H; [|exact H].
              destruct H as [H|[]]. apply B4. rewrite H. reflexivity.
      * destruct Full as (w' & E & [S1 S2] & _). eapply wp_eq; [exact E|]. split; [intros b; rewrite S1; reflexivity|exact S2].
  - destruct Cap as [o ->].
    destruct (Hb o ltac:(left; reflexivity)) as [(sz & Eo) _].
    destruct (push_definite refuse m x w 1 o sz c l rcx nx Em Eo Ex Hmx) as (w' & Full & Room).
    destruct (N.le_gt_cases c (len l)) as [L|L].
    + destruct (Full L) as (E & [S1 S2] & _). eapply wp_eq; [exact E|]. split; [intros b; rewrite S1; reflexivity|exact S2].
    + destruct (Room L) as (E & A1 & A2 & A3 & A4 & _). eapply wp_eq; [exact E|].
      exists (Some o), c. split; [eexists; reflexivity|]. split; [exact A1|]. split; [exact A2|].
      left. split; [reflexivity|]. split; [exact A4|]. intros b B1 B2. apply A3. cbn [In]. intros [H|[H|[]]]; congruence.
Qed.

Lemma wp_ext {A} (m m' : M A) w (Q : A -> world -> Prop) : m w = m' w -> wp m' w Q -> wp m w Q.
Proof. intros E (a & w' & H & HQ). exists a, w'. split; [rewrite E; exact H|exact HQ]. Qed.

(* from the finished container to the postcondition of cbor_copy, except for the abstraction *)
Lemma finish_post {X} (rdr : addr -> M X) w0 own0 ownd0 a nodeof capinv w1 all r w'
    (Q : node -> Prop) :
  next w0 <= next w1 ->
  loop_post rdr f w0 own0 ownd0 (next w0) nodeof capinv w1 all r w' ->
  (forall rc text data bytes, heap w0 a <> Some (CItem rc (NStr text data bytes))) ->
  (forall done' d c rank,
      Partial f w0 own0 ownd0 (next w0) w' rank [] ->
      heap w' (next w0) = Some (CItem 1 (nodeof d c done')) -> capinv d c done' ->
      Forall2 (fun e e' => next w0 < e' /\ sim (heap w0) (heap w') (rdr e) (rdr e')) all done' ->
      sim (heap w0) (heap w') (abs (S f) a) (abs (S f) (next w0))) ->
  copy_post (S f) own0 ownd0 a w0 r w'.
Proof.
  intros L1 (T1 & T2 & T3) NS HS. split.
  - split; [lia|]. split; [exact T2|]. destruct r as [a'|]; [|exact T3].
    destruct T3 as (-> & done' & (rank & P) & (d & c & Em & Cap) & Sims).
    pose proof P as (P1 & P2 & P3 & P4 & P5 & P6 & P7 & P8 & P9).
    split; [lia|]. split.
    { eapply Inv_own_ext; [exact P3| |reflexivity]. intros y. unfold own1, ownP. cbn [cnt]. lia. }
    split.
    { split; [exact P4|]. split; [exact P5|]. exists rank. split; [exact P6|].
      intros b Hb. destruct (N.eq_dec b (next w0)) as [->|Hne]; [lia|]. specialize (P8 b ltac:(lia)). lia. }
    eapply HS; eassumption.
  - intros a' _ rc text data bytes Ea. exfalso. eapply NS. exact Ea.
Qed.

Lemma guard_keeps {A} h (l : list A) p w u w' :
  heap w = h -> (match l with [] => ret tt | _ => touch_data false p end) w = Ret u w' -> heap w' = h.
Proof.
  intros H E. destruct l; [|eapply touch_keeps; eassumption].
  unfold ret in E. injection E as _ Ew. subst w'. exact H.
Qed.

Lemma guard_total {A} h (l : list A) p w :
  heap w = h -> (l <> [] -> exists d sz, p = Some d /\ h d = Some (CData sz)) ->
  exists w', (match l with [] => ret tt | _ => touch_data false p end) w = Ret tt w' /\ heap w' = h.
Proof.
  intros H D. destruct l as [|x l]; [exists w; split; [reflexivity|exact H]|].
  destruct (D ltac:(discriminate)) as (d & sz & -> & Ed). eapply touch_total; eassumption.
Qed.

Lemma arr_finish w0 own0 ownd0 a rc indef data al elems w1 :
  Inv own0 ownd0 [] w0 -> heap w0 a = Some (CItem rc (NArr indef data al elems)) ->
  (elems = [] \/ data_live (heap w0) data) -> Forall (shaped f (heap w0)) elems ->
  LI (abs f) f w0 own0 ownd0 (next w0) (NArr indef) (capinvA indef) w1 [] [] -> next w0 <= next w1 ->
  wp (arr_loop (next w0) data elems) w1 (copy_post (S f) own0 ownd0 a w0).
Proof.
  intros I0 Ea Dl Sh L1 Le. eapply wp_ext; [apply arr_loop_eq|].
  eapply wp_mono.
  - apply (gloop_spec (abs f) (fun h1 h2 x => abs_frame h1 h2 f x) f w0 own0 ownd0 I0 (next w0) eq_refl
             (arr_cp data) (array_push refuse) (NArr indef) []
             (fun d c l => eq_refl) (fun d c l => eq_sym (app_nil_r _)) (capinvA indef) (fun _ => True)
             (fun w x d c l rcx nx H1 H2 H3 H4 H5 _ H6 => array_push_spec indef (next w0) w x d c l rcx nx H1 H2 H3 H4 H5 H6)
             elems [] [] w1 L1).
    intros e He. rewrite Forall_forall in Sh. specialize (Sh e He). split; [eapply shaped_lt; eassumption|].
    intros w own ownd I Hle Fr. unfold arr_cp.
    destruct Dl as [->|(d & sz & -> & Ed)]; [destruct He|].
    pose proof (live_lt _ _ _ _ _ _ I0 Ed) as Ld.
    apply wp_bind. eapply wp_touch; [rewrite Fr by exact Ld; exact Ed|]. intros w' H1 H2.
    eapply wp_mono.
    + eapply (child_copy_moved w0 own0 ownd0 e w' own ownd I0 Sh).
      * eapply Inv_heq; [exact I|intros b; rewrite H1; reflexivity|lia].
      * intros b Hb. rewrite H1. apply Fr, Hb.
    + intros r w'' [P _]. split; [|intros; exact Logic.I]. eapply gpost_heq; [|intros b; rewrite H1; reflexivity|exact H2|exact P].
      intros h1 h2 x. apply abs_frame.
  - intros r w' LP. cbn [app] in LP.
    eapply (finish_post (abs f) w0 own0 ownd0 a (NArr indef) (capinvA indef) w1 elems r w' (fun _ => True) Le LP).
    + intros rc0 text d0 bytes E0. rewrite Ea in E0. discriminate E0.
    + intros done' d c rank P Em Cap Sims. pose proof P as (P1 & P2 & P3 & P4 & P5 & P6 & P7 & P8 & P9).
      cbn [abs]. eapply sim_rd_bind; [exact Em|]. intros rc1 n1 E1. rewrite Ea in E1. inversion E1; subst rc1 n1.
      cbn [snd]. apply sim_bind.
      * apply sim_unit; [intros w u w2 H1 H2; eapply guard_keeps; eassumption|].
        intros w2 H2. eapply guard_total; [exact H2|]. intros Hne.
        assert (Hd : exists o, d = Some o).
        { destruct indef; cbn [capinvA] in Cap; [|exact Cap]. destruct Cap as (C1 & C2 & C3).
          destruct d as [o|]; [eauto|]. specialize (C1 eq_refl). destruct done'; [contradiction|].
          rewrite len_cons in C3. lia. }
        destruct Hd as [o ->].
        destruct (Inv_dblock_live _ _ [] w' (next w0) 1 _ o P3 Em ltac:(lia) ltac:(left; reflexivity)) as ((sz & Es) & _).
        eauto.
      * intros _. apply sim_bind; [|intros xs; apply sim_ret]. apply sim_mapM.
        eapply Forall2_impl_in_r; [exact Sims|]. intros x y _ [_ S]. exact S.
Qed.

Lemma fail_post F own ownd a w w' :
  wf w -> (forall b, heap w' b = heap w b) -> next w <= next w' -> copy_post F own ownd a w None w'.
Proof.
  intros Hwf E L. split; [|intros a' H; discriminate H].
  split; [exact L|]. split; [intros b _; apply E|]. intros b Hb. rewrite E. apply Hwf, Hb.
Qed.

Lemma partial_init1 w0 own0 ownd0 w1 n :
  Inv own0 ownd0 [] w0 -> kids n = [] -> dblocks n = [] ->
  (forall b, heap w1 b = upd (heap w0) (next w0) (Some (CItem 1 n)) b) -> next w1 = next w0 + 1 ->
  Partial f w0 own0 ownd0 (next w0) w1 (fun b => if b =? next w0 then S f else O) [].
Proof.
  intros I0 K D Hh Hn. pose proof (Inv_wf _ _ _ _ I0) as Hwf.
  destruct (fresh_single w0 w1 n Hwf K D Hh Hn) as (G1 & G2 & G3).
  apply (partial_init f w0 own0 ownd0 I0 (next w0) eq_refl w1); try assumption; [|lia|].
  - eapply Inv_alloc_item_pw; eassumption.
  - intros b Hb. rewrite Hh, upd_other by lia. reflexivity.
Qed.

Lemma partial_init2 w0 own0 ownd0 w1 n sz :
  Inv own0 ownd0 [] w0 -> kids n = [] -> dblocks n = [next w0 + 1] ->
  (forall b, heap w1 b = upd (upd (heap w0) (next w0) (Some (CItem 1 n))) (next w0 + 1) (Some (CData sz)) b) ->
  next w1 = next w0 + 2 ->
  Partial f w0 own0 ownd0 (next w0) w1 (fun b => if b =? next w0 then S f else O) [].
Proof.
  intros I0 K D Hh Hn. pose proof (Inv_wf _ _ _ _ I0) as Hwf.
  destruct (fresh_built w0 w1 n sz Hwf K D Hh Hn) as (G1 & G2 & G3).
  destruct (Inv_built_facts own0 ownd0 w0 w1 n sz I0 Hh) as (_ & _ & B3 & _).
  apply (partial_init f w0 own0 ownd0 I0 (next w0) eq_refl w1); try assumption; [|lia].
  eapply Inv_built; eassumption.
Qed.

Lemma copy_arr_post own ownd a w rc indef data al elems :
  Inv own ownd [] w -> heap w a = Some (CItem rc (NArr indef data al elems)) ->
  (elems = [] \/ data_live (heap w) data) -> Forall (shaped f (heap w)) elems ->
  wp (r <- (if indef then new_indefinite_array refuse else new_definite_array refuse (len elems)) ;;
      match r with None => ret None | Some res => arr_loop res data elems end) w
     (copy_post (S f) own ownd a w).
Proof.
  intros I Ea Dl Sh. pose proof (Inv_wf _ _ _ _ I) as Hwf. apply wp_bind. destruct indef.
  - eapply wp_mono; [apply wp_malloc_item|]. intros r w1 P. destruct r as [res|]; cbn [ctor1_post] in P.
    + destruct P as (-> & Hn & Hh).
      pose proof (partial_init1 w own ownd w1 (NArr true None 0 []) I eq_refl eq_refl Hh Hn) as P1.
      eapply (arr_finish w own ownd a rc true data al elems w1 I Ea Dl Sh); [|lia].
      split; [eexists; exact P1|]. split; [|constructor].
      exists None, 0. split; [rewrite (Hh (next w)); apply upd_same|]. cbn [capinvA]. change (len (@nil addr)) with 0.
      split; [reflexivity|]. split; [|lia]. vm_compute. reflexivity.
    + destruct P as [Hh Hn]. apply wp_ret. apply fail_post; [exact Hwf|exact Hh|lia].
  - eapply wp_mono; [apply wp_new_definite_array; exact Hwf|]. intros r w1 [Hle P]. destruct r as [res|].
    + destruct P as (-> & Hn & sz & Hh).
      pose proof (partial_init2 w own ownd w1 (NArr false (Some (next w + 1)) (len elems) []) sz I eq_refl eq_refl Hh Hn) as P1.
      destruct (Inv_built_facts own ownd w w1 _ sz I Hh) as (B1 & _).
      eapply (arr_finish w own ownd a rc false data al elems w1 I Ea Dl Sh); [|lia].
      split; [eexists; exact P1|]. split; [|constructor].
      exists (Some (next w + 1)), (len elems). split; [exact B1|]. cbn [capinvA]. eexists; reflexivity.
    + apply wp_ret. apply fail_post; assumption.
Qed.

(* --------------------------- chunked strings --------------------------- *)

Definition chk_loop (res : addr) : list addr -> M (option addr) :=
  fix loop (cs : list addr) : M (option addr) :=
    match cs with
    | [] => ret (Some res)
    | ch :: rest =>
        cc <- copy refuse f ch ;;
        match cc with
        | None => decref res ;;; ret None
        | Some chunk_copy =>
            ok <- add_chunk refuse res chunk_copy ;;
            if ok then decref chunk_copy ;;; loop rest
            else decref chunk_copy ;;; decref res ;;; ret None
        end
    end.

Lemma chk_loop_eq res : forall cs w,
  chk_loop res cs w = gloop res (copy refuse f) (add_chunk refuse) cs w.
Proof.
  induction cs as [|e rest IH]; intros w; [reflexivity|].
  cbn [chk_loop gloop]. apply bind_ext. intros [x|] w4; [|reflexivity].
  apply bind_ext. intros [|] w5; [|reflexivity]. apply bind_ext. intros _ w6. apply IH.
Qed.

Definition capinvC (d : option addr) (c : N) (l : list addr) : Prop :=
  (d = None -> c = 0) /\ c < 2 ^ 64 /\ len l <= c.

Lemma add_chunk_push_spec text hdr m w x d c l rcx nx :
  wf w -> heap w m = Some (CItem 1 (NChunked text hdr d c l)) ->
  (forall b, In b (dblocks (NChunked text hdr d c l)) ->
             is_data w b /\ cnt b (dblocks (NChunked text hdr d c l)) = 1) ->
  capinvC d c l -> heap w x = Some (CItem rcx nx) -> chunk_ok text nx -> m <> x ->
  wp (add_chunk refuse m x) w (push_post m (NChunked text hdr) capinvC w x d l rcx nx).
Proof.
  intros Hwf Em Hb (C1 & C2 & C3) Ex Hk Hmx. cbn [dblocks] in Hb.
  destruct (Hb hdr ltac:(apply in_or_app; right; left; reflexivity)) as [(hsz & Eh) Ch].
  assert (BI : block_inv w d c).
  { destruct d as [o|]; [|apply C1; reflexivity]. apply Hb. left. reflexivity. }
  assert (Hdh : d <> Some hdr).
  { intros ->. cbn [HRef_proofs.opt_list app cnt] in Ch. rewrite N.eqb_refl in Ch. lia. }
  destruct (add_chunk_spec refuse m x w 1 text hdr hsz d c l rcx nx Hwf Em Eh BI Hdh Ex Hk Hmx C2) as [Room Full].
  destruct (N.eq_dec (len l) c) as [L|L].
  - specialize (Full L). destruct (grow_req SZ_PTR c) as [[c' bytes]|].
    + destruct Full as (G1 & G2 & G3 & G4 & Full). destruct (refuse (nreq w) bytes).
      * destruct Full as (w' & E & [S1 S2] & _). eapply wp_eq; [exact E|]. split; [intros b; rewrite S1; reflexivity|exact S2].
      * destruct Full as (w' & E & A1 & A2 & A3 & A4 & A5 & A6 & _). eapply wp_eq; [exact E|].
        exists (Some (next w)), c'. split; [|split; [exact A1|split; [exact A2|]]].
        -- unfold capinvC. rewrite len_app. change (len [x]) with 1. split; [discriminate|]. split; lia.
        -- right. split; [reflexivity|]. split; [exact A6|]. split; [eauto|]. split; [exact A4|].
           intros b B1 B2 B3 B4. apply A5. cbn [In]. intros [H|[H|[H|H]]]; try congruence.
           destruct d as [o|]; cbn [HCont_proofs.opt_list In] in H; [|exact H].
           destruct H as [H|[]]. apply B4. rewrite H. reflexivity.
    + destruct Full as (w' & E & [S1 S2] & _). eapply wp_eq; [exact E|]. split; [intros b; rewrite S1; reflexivity|exact S2].
  - destruct (Room L ltac:(lia)) as (w' & E & A1 & A2 & A3 & A4 & _). eapply wp_eq; [exact E|].
    exists d, c. split; [|split; [exact A1|split; [exact A2|]]].
    + unfold capinvC. rewrite len_app. change (len [x]) with 1. split; [exact C1|]. split; [exact C2|lia].
    + left. split; [reflexivity|]. split; [exact A4|]. intros b B1 B2. apply A3. cbn [In]. intros [H|[H|[]]]; congruence.
Qed.

(* the copy of a definite chunk yields the same bytes *)
Lemma chunk_gpost tx own ownd e w rc n r w' :
  heap w e = Some (CItem rc n) ->
  copy_post f own ownd e w r w' -> gpost (chunk_bytes tx) f own ownd e w r w'.
Proof.
  intros E [(P1 & P2 & P3) S]. split; [exact P1|]. split; [exact P2|]. destruct r as [x|]; [|exact P3].
  destruct P3 as (Q1 & Q2 & Q3 & _). split; [exact Q1|]. split; [exact Q2|]. split; [exact Q3|].
  specialize (S x eq_refl). unfold chunk_bytes.
  destruct n as [neg iw v|fw bits|v|text data bytes|text hdr arr cap chunks|indef data al elems|indef data al pairs|v c].
  4:{ destruct (S rc text data bytes E) as (d' & sz & Ex & Ed).
      eapply sim_rd_bind; [exact Ex|]. intros rc1 n1 E1. rewrite E in E1. inversion E1; subst rc1 n1. cbn [snd].
      destruct (Bool.eqb text tx); [|intros w1 t w1' H1 E2; discriminate E2].
      apply sim_bind; [|intros _; apply sim_ret]. apply sim_unit.
      - intros w1 u w1' H1 Hu. destruct (len bytes =? 0).
        + unfold ret in Hu. injection Hu as _ Hw. subst w1'. exact H1.
        + eapply touch_keeps; eassumption.
      - intros w2 H2. destruct (len bytes =? 0).
        + exists w2. split; [reflexivity|exact H2].
        + eapply touch_total; [exact H2|exact Ed]. }
  all: intros w1 t w1' H1 E1; exfalso; unfold bind, rd_item in E1; rewrite H1, E in E1; cbn [snd] in E1;
    try discriminate E1; destruct (Bool.eqb text tx); discriminate E1.
Qed.

Lemma chk_finish w0 own0 ownd0 a rc text hdr arr cap chunks w1 :
  Inv own0 ownd0 [] w0 -> heap w0 a = Some (CItem rc (NChunked text hdr arr cap chunks)) ->
  Forall (fun c => shaped f (heap w0) c /\ exists rcc data bs, heap w0 c = Some (CItem rcc (NStr text data bs))) chunks ->
  LI (chunk_bytes text) f w0 own0 ownd0 (next w0) (NChunked text (next w0 + 1)) capinvC w1 [] [] ->
  next w0 <= next w1 ->
  wp (chk_loop (next w0) chunks) w1 (copy_post (S f) own0 ownd0 a w0).
Proof.
  intros I0 Ea Sh L1 Le. eapply wp_ext; [apply chk_loop_eq|].
  eapply wp_mono.
  - apply (gloop_spec (chunk_bytes text) (fun h1 h2 x => chunk_bytes_frame h1 h2 text x) f w0 own0 ownd0 I0 (next w0) eq_refl
             (copy refuse f) (add_chunk refuse) (NChunked text (next w0 + 1)) [next w0 + 1]
             (fun d c l => eq_refl) (fun d c l => eq_refl) capinvC (chunk_ok text)
             (add_chunk_push_spec text (next w0 + 1) (next w0)) chunks [] [] w1 L1).
    intros e He. rewrite Forall_forall in Sh. destruct (Sh e He) as [She (rce & de & bse & Ee)].
    split; [eapply shaped_lt; eassumption|].
    intros w own ownd I Hle Fr.
    pose proof (live_lt _ _ _ _ _ _ I0 Ee) as Lte.
    assert (Eew : heap w e = Some (CItem rce (NStr text de bse))) by (rewrite Fr by exact Lte; exact Ee).
    eapply wp_mono; [apply (child_copy w0 own0 ownd0 e w own ownd I0 She I Fr)|].
    intros r w'' P. split; [eapply chunk_gpost; [exact Eew|exact P]|].
    intros x rcx nx -> Ex. destruct P as [_ Sl]. destruct (Sl x eq_refl rce text de bse Eew) as (d' & sz & Ex' & _).
    rewrite Ex in Ex'. injection Ex' as _ ->. unfold chunk_ok. destruct text; [exact Logic.I|eauto].
  - intros r w' LP. cbn [app] in LP.
    eapply (finish_post (chunk_bytes text) w0 own0 ownd0 a (NChunked text (next w0 + 1)) capinvC w1 chunks r w' (fun _ => True) Le LP).
    + intros rc0 text0 d0 bytes E0. rewrite Ea in E0. discriminate E0.
    + intros done' d c rank P Em (C1 & C2 & C3) Sims. pose proof P as (P1 & P2 & P3 & P4 & P5 & P6 & P7 & P8 & P9).
      destruct (Inv_dblock_live _ _ [] w' (next w0) 1 _ (next w0 + 1) P3 Em ltac:(lia)
                  ltac:(cbn [dblocks]; apply in_or_app; right; left; reflexivity)) as ((hsz & Eh) & _).
      cbn [abs]. eapply sim_rd_bind; [exact Em|]. intros rc1 n1 E1. rewrite Ea in E1. inversion E1; subst rc1 n1.
      cbn [snd]. apply sim_bind.
      { apply sim_unit; [intros w u w2 H1 H2; eapply touch_keeps; eassumption|].
        intros w2 H2. eapply touch_total; eassumption. }
      intros _. apply sim_bind.
      * apply sim_unit; [intros w u w2 H1 H2; eapply guard_keeps; eassumption|].
        intros w2 H2. eapply guard_total; [exact H2|]. intros Hne.
        assert (Hd : exists o, d = Some o).
        { destruct d as [o|]; [eauto|]. specialize (C1 eq_refl). destruct done'; [contradiction|].
          rewrite len_cons in C3. lia. }
        destruct Hd as [o ->].
        destruct (Inv_dblock_live _ _ [] w' (next w0) 1 _ o P3 Em ltac:(lia) ltac:(left; reflexivity)) as ((sz & Es) & _).
        eauto.
      * intros _. apply sim_bind; [|intros xs; apply sim_ret]. apply sim_mapM.
        eapply Forall2_impl_in_r; [exact Sims|]. intros x y _ [_ S]. exact S.
Qed.

Lemma copy_chk_post own ownd a w rc text hdr arr cap chunks :
  Inv own ownd [] w -> heap w a = Some (CItem rc (NChunked text hdr arr cap chunks)) ->
  Forall (fun c => shaped f (heap w) c /\ exists rcc data bs, heap w c = Some (CItem rcc (NStr text data bs))) chunks ->
  wp (r <- new_indefinite_string refuse text ;;
      match r with None => ret None | Some res => chk_loop res chunks end) w
     (copy_post (S f) own ownd a w).
Proof.
  intros I Ea Sh. pose proof (Inv_wf _ _ _ _ I) as Hwf. apply wp_bind.
  eapply wp_mono; [apply wp_new_indefinite_string; exact Hwf|]. intros r w1 [Hle P]. destruct r as [res|].
  - destruct P as (-> & Hn & sz & Hh).
    pose proof (partial_init2 w own ownd w1 (NChunked text (next w + 1) None 0 []) sz I eq_refl eq_refl Hh Hn) as P1.
    destruct (Inv_built_facts own ownd w w1 _ sz I Hh) as (B1 & _).
    eapply (chk_finish w own ownd a rc text hdr arr cap chunks w1 I Ea Sh); [|lia].
    split; [eexists; exact P1|]. split; [|constructor].
    exists None, 0. split; [exact B1|]. unfold capinvC. change (len (@nil addr)) with 0.
    split; [reflexivity|]. split; [|lia]. vm_compute. reflexivity.
  - apply wp_ret. apply fail_post; assumption.
Qed.

(* --------------------------- tags --------------------------- *)

(* one root held by the client in an otherwise unowned fresh region: releasing it empties the region *)
Lemma release_single {A} own ownd w w2 x rank :
  Inv own ownd [] w -> next w <= next w2 -> (forall b, b < next w -> heap w2 b = heap w b) ->
  next w <= x -> Inv (own1 own x) ownd [] w2 -> closed (next w) w2 -> ranked (next w) w2 rank ->
  wp (decref x ;;; ret (@None A)) w2
     (fun r w' => r = None /\ next w' = next w2 /\ (forall b, b < next w -> heap w' b = heap w b) /\
                  forall b, next w <= b -> heap w' b = None).
Proof.
  intros I L Fr Hx I2 C R.
  apply (dying_chain (next w) own ownd rank (ret None) _ [x] w2 (own1 own x)).
  - split; [exact I2|]. split; assumption.
  - intros y. unfold own1. cbn [cnt]. eqb; lia.
  - intros a0 [<-|[]]. exact Hx.
  - intros w' D' F' N'. apply wp_ret. split; [reflexivity|]. split; [exact N'|].
    assert (Fr' : forall b, b < next w -> heap w' b = heap w b) by (intros b Hb; rewrite F', Fr by exact Hb; reflexivity).
    split; [exact Fr'|]. eapply dying_dead; [exact D'| |].
    + intros b Hb. eapply Inv_dead_own; [exact I|]. apply (Inv_wf _ _ _ _ I). exact Hb.
    + eapply oldclosed_frame; [|exact Fr']. eapply Inv_oldclosed. exact I.
Qed.

Lemma copy_tag_post own ownd a w rc v x :
  Inv own ownd [] w -> heap w a = Some (CItem rc (NTag v (Some x))) -> shaped f (heap w) x ->
  wp (incref x ;;; move x ;;;
      ic <- copy refuse f x ;;
      match ic with
      | None => ret None
      | Some item_copy => t <- build_tag refuse v item_copy ;; decref item_copy ;;; ret t
      end) w (copy_post (S f) own ownd a w).
Proof.
  intros I Ea Sx. pose proof (Inv_wf _ _ _ _ I) as Hwf.
  assert (G : wp (bind (incref x ;;; move x ;;; copy refuse f x)
                   (fun ic => match ic with
                              | None => ret None
                              | Some item_copy => t <- build_tag refuse v item_copy ;; decref item_copy ;;; ret t
                              end)) w (copy_post (S f) own ownd a w)).
  2:{ destruct G as (r & w' & G1 & G2). exists r, w'. split; [|exact G2]. rewrite <- G1.
      rewrite !bind_assoc. apply bind_ext. intros _ w1. rewrite !bind_assoc. reflexivity. }
  apply wp_bind. eapply wp_mono; [apply (child_copy_moved w own ownd x w own ownd I Sx I); reflexivity|].
  intros r1 w2 [(Q1 & Q2 & Q3) _]. destruct r1 as [x'|].
  2:{ apply wp_ret. apply fail_post; [exact Hwf| |exact Q1].
      intros b. destruct (N.lt_ge_cases b (next w)) as [Lb|Lb]; [apply Q2, Lb|].
      rewrite Q3, Hwf by exact Lb. reflexivity. }
  destruct Q3 as (Hx & I2 & (G1 & G2 & rk & G3 & G4) & Sx').
  assert (Ox : 0 < own1 own x' x') by (unfold own1; rewrite N.eqb_refl; lia).
  destruct (Inv_owned_item _ _ _ _ I2 Ox) as (rcx & nx & Ex & _).
  assert (rcx = 1) by (eapply G1; [|exact Ex]; lia). subst rcx.
  pose proof (live_lt _ _ _ _ _ _ I2 Ex) as Lx.
  pose proof (Inv_wf _ _ _ _ I2) as Hwf2.
  apply wp_bind. unfold build_tag, new_tag. apply wp_bind.
  eapply wp_mono; [apply wp_malloc_item|]. intros r w3 P. destruct r as [t|]; cbn [ctor1_post] in P.
  - destruct P as (-> & Hn3 & Hh3). unfold tag_set_item.
    assert (Ex3 : heap w3 x' = Some (CItem 1 nx)) by (rewrite Hh3, upd_other by lia; exact Ex).
    assert (Et3 : heap w3 (next w2) = Some (CItem 1 (NTag v None))) by (rewrite Hh3; apply upd_same).
    apply wp_bind. apply wp_bind. eapply wp_eq; [apply incref_spec; exact Ex3|].
    set (w4 := w_incref x' 1 nx w3).
    assert (Et4 : heap w4 (next w2) = Some (CItem 1 (NTag v None))).
    { subst w4. wsimpl. rewrite upd_other by lia. exact Et3. }
    apply wp_bind. eapply wp_eq; [apply rd_item_spec; exact Et4|]. cbn [fst snd].
    eapply wp_eq; [eapply wr_item_spec; wsimpl; exact Et4|].
    apply wp_ret.
    set (w6 := w_set (next w2) (CItem 1 (NTag v (Some x'))) (w_log (AccR (next w2)) w4)).
    assert (Ex6 : heap w6 x' = Some (CItem 2 nx)).
    { subst w6 w4. wsimpl. rewrite upd_other by lia. rewrite upd_same. reflexivity. }
    apply wp_bind. eapply wp_eq; [apply (decref_shared x' w6 2 nx Ex6); lia|].
    apply wp_ret.
    set (w7 := w_set x' (CItem (2 - 1) nx) (w_log (AccR x') w6)).
    assert (Hh7 : forall b, heap w7 b = upd (heap w2) (next w2) (Some (CItem 1 (NTag v (Some x')))) b).
    { intros b. subst w7 w6 w4. wsimpl. unfold upd. destruct (N.eqb_spec b x') as [->|Nx].
      - destruct (N.eqb_spec x' (next w2)); [lia|]. rewrite Ex. reflexivity.
      - destruct (N.eqb_spec b (next w2)) as [->|Nt]; [reflexivity|].
        rewrite Hh3. apply upd_other. exact Nt. }
    assert (Hn7 : next w7 = next w2 + 1) by (subst w7 w6 w4; wsimpl; exact Hn3).
    assert (Hit : forall b rcb nb, b <> next w2 -> heap w7 b = Some (CItem rcb nb) -> heap w2 b = Some (CItem rcb nb)).
    { intros b rcb nb Nb E. rewrite Hh7, upd_other in E by exact Nb. exact E. }
    assert (Et7 : heap w7 (next w2) = Some (CItem 1 (NTag v (Some x')))) by (rewrite Hh7; apply upd_same).
    split.
    + split; [lia|]. split; [intros b Hb; rewrite Hh7, upd_other by lia; apply Q2, Hb|].
      split; [lia|]. split.
      { (* the invariant *)
        set (g1 := ghost (upd (heap w2) (next w2) (Some (CItem 1 (NTag v None)))) (next w2 + 1)).
        assert (I3 : Inv (own1 (own1 own x') (next w2)) ownd [] g1)
          by (eapply (Inv_alloc_item_pw _ ownd w2 g1 (NTag v None) I2); reflexivity).
        eapply (Inv_relink _ _ _ _ g1 w7 (next w2) 1 (NTag v None) (NTag v (Some x')) [x'] [] [] I3).
        - cbn [heap g1 ghost]. apply upd_same.
        - intros b. rewrite Hh7. cbn [heap g1 ghost]. unfold upd. destruct (b =? next w2); reflexivity.
        - rewrite Hn7. reflexivity.
        - intros y. reflexivity.
        - intros y. reflexivity.
        - intros y. unfold own1. cbn [cnt]. eqb; lia.
        - intros y. cbn [cnt]. lia. }
      split.
      { split.
        { intros b rcb nb Hb E. destruct (N.eq_dec b (next w2)) as [->|Nb]; [congruence|].
          eapply G1; [exact Hb|]. eapply Hit; eassumption. }
        split.
        { intros b rcb nb Hb E. destruct (N.eq_dec b (next w2)) as [->|Nb].
          - rewrite Et7 in E. inversion E; subst rcb nb. cbn [kids dblocks]. split; [|intros d []].
            intros k [<-|[]]. lia.
          - apply Hit in E; [|exact Nb]. destruct (G2 b rcb nb Hb E) as [K1 K2].
            split; intros k Hk0; [specialize (K1 k Hk0)|specialize (K2 k Hk0)]; lia. }
        exists (fun b => if b =? next w2 then S f else rk b). split.
        - intros b rcb nb k Hb E Hk0. destruct (N.eq_dec b (next w2)) as [->|Nb].
          + rewrite Et7 in E. inversion E; subst rcb nb. destruct Hk0 as [<-|[]].
            rewrite N.eqb_refl. destruct (N.eqb_spec x' (next w2)); [lia|]. specialize (G4 x' Hx). lia.
          + apply Hit in E; [|exact Nb]. destruct (G2 b rcb nb Hb E) as [K1 _]. specialize (K1 k Hk0).
            destruct (N.eqb_spec b (next w2)); [contradiction|]. destruct (N.eqb_spec k (next w2)); [lia|].
            eapply G3; eassumption.
        - intros b Hb. destruct (b =? next w2); [lia|]. specialize (G4 b Hb). lia. }
      cbn [abs]. eapply sim_rd_bind; [exact Et7|]. intros rc1 n1 E1. rewrite Ea in E1. inversion E1; subst rc1 n1.
      cbn [snd]. apply sim_bind; [|intros t; apply sim_ret].
      eapply sim_frame_r; [exact Sx'|]. apply abs_frame. intros b Rb.
      destruct (reach_closed (next w) w2 x' b G2 Hx Rb) as [_ Hb]. symmetry. rewrite Hh7. apply upd_other.
      destruct Hb as [->|Hb]; lia.
    + intros a' _ rc0 text data bytes E0. rewrite Ea in E0. discriminate E0.
  - (* the tag item could not be allocated *)
    destruct P as [Hh3 Hn3]. apply wp_ret.
    assert (I3 : Inv (own1 own x') ownd [] w3) by (eapply Inv_heq; [exact I2|exact Hh3|lia]).
    eapply wp_mono.
    + apply (release_single own ownd w w3 x' rk I); [lia| |exact Hx|exact I3| |].
      * intros b Hb. rewrite Hh3. apply Q2, Hb.
      * intros b rcb nb Hb E. rewrite Hh3 in E. rewrite Hn3. eapply G2; eassumption.
      * intros b rcb nb k Hb E. rewrite Hh3 in E. eapply G3; eassumption.
    + intros r w' (-> & N' & F' & D'). split; [|intros a' H; discriminate H].
      split; [lia|]. split; assumption.
Qed.

(* --------------------------- maps --------------------------- *)

Definition capinvM (indef : bool) (d : option addr) (c : N) (l : list (addr * option addr)) : Prop :=
  if indef then (d = None -> c = 0) /\ c < 2 ^ 64 /\ len l <= c else exists o, d = Some o.

Definition map_push_post (indef : bool) (m : addr) (w : world) (k v : addr) (d : option addr)
    (l : list (addr * option addr)) (rck : N) (nk : node) (rcv : N) (nv : node) (ok : bool) (w' : world) : Prop :=
  if ok then
    exists d' c', capinvM indef d' c' (l ++ [(k, Some v)]) /\
      heap w' m = Some (CItem 1 (NMap indef d' c' (l ++ [(k, Some v)]))) /\
      heap w' k = Some (CItem (wrap64 (rck + 1)) nk) /\
      heap w' v = Some (CItem (wrap64 (rcv + 1)) nv) /\
      ((d' = d /\ next w' = next w /\ forall b, b <> m -> b <> k -> b <> v -> heap w' b = heap w b) \/
       (d' = Some (next w) /\ next w' = next w + 1 /\ (exists sz, heap w' (next w) = Some (CData sz)) /\
        (forall o, d = Some o -> heap w' o = None) /\
        forall b, b <> m -> b <> k -> b <> v -> b <> next w -> d <> Some b -> heap w' b = heap w b))
  else (forall b, heap w' b = heap w b) /\ next w' = next w.

Lemma map_add_spec indef m w k v d c l rck nk rcv nv :
  wf w -> heap w m = Some (CItem 1 (NMap indef d c l)) ->
  (forall b, In b (dblocks (NMap indef d c l)) -> is_data w b) ->
  capinvM indef d c l -> heap w k = Some (CItem rck nk) -> heap w v = Some (CItem rcv nv) ->
  m <> k -> m <> v -> k <> v ->
  wp (map_add refuse m k v) w (map_push_post indef m w k v d l rck nk rcv nv).
Proof.
  intros Hwf Em Hb Cap Ek Ev Hmk Hmv Hkv. destruct indef; cbn [capinvM] in Cap.
  - destruct Cap as (C1 & C2 & C3).
    assert (BI : block_inv w d c).
    { destruct d as [o|]; [|apply C1; reflexivity]. apply Hb. left. reflexivity. }
    destruct (map_add_indefinite refuse m k v w 1 d c l rck nk rcv nv Hwf Em BI Ek Ev Hmk Hmv Hkv C2) as [Room Full].
    destruct (N.lt_ge_cases (len l) c) as [L|L].
    + destruct (Room L) as (w' & E & A1 & A2 & A2' & A3 & A4 & _). eapply wp_eq; [exact E|].
      exists d, c. split; [|split; [exact A1|split; [exact A2|split; [exact A2'|]]]].
      * cbn [capinvM]. rewrite len_app. change (len [(k, Some v)]) with 1. split; [exact C1|]. split; [exact C2|lia].
      * left. split; [reflexivity|]. split; [exact A4|]. intros b B1 B2 B3. apply A3. cbn [In].
        intros [H|[H|[H|[]]]]; congruence.
    + specialize (Full L). destruct (grow_req SZ_PAIR c) as [[c' bytes]|].
      * destruct Full as (G1 & G2 & G3 & G4 & Full). destruct (refuse (nreq w) bytes).
        -- destruct Full as (w' & E & [S1 S2] & _). eapply wp_eq; [exact E|]. split; [intros b; rewrite S1; reflexivity|exact S2].
        -- destruct Full as (w' & E & A1 & A2 & A2' & A3 & A4 & A5 & A6 & _). eapply wp_eq; [exact E|].
           exists (Some (next w)), c'. split; [|split; [exact A1|split; [exact A2|split; [exact A2'|]]]].
           ++ cbn [capinvM]. rewrite len_app. change (len [(k, Some v)]) with 1. split; [discriminate|]. split; lia.
           ++ right. split; [reflexivity|]. split; [exact A6|]. split; [eauto|]. split; [exact A4|].
              intros b B1 B2 B3 B4 B5. apply A5. cbn [In]. intros [H|[H|[H|[H|H]]]]; try congruence.
              destruct d as [o|]; cbn [HCont_proofs.opt_list In] in H; [|exact H].
              destruct H as [H|[]]. apply B5. rewrite H. reflexivity.
      * destruct Full as (w' & E & [S1 S2] & _). eapply wp_eq; [exact E|]. split; [intros b; rewrite S1; reflexivity|exact S2].
  - destruct Cap as [o ->].
    destruct (Hb o ltac:(left; reflexivity)) as (sz & Eo).
    destruct (map_add_definite refuse m k v w 1 o sz c l rck nk rcv nv Em Eo Ek Ev Hmk Hmv Hkv) as (w' & Full & Room).
    destruct (N.le_gt_cases c (len l)) as [L|L].
    + destruct (Full L) as (E & [S1 S2] & _). eapply wp_eq; [exact E|]. split; [intros b; rewrite S1; reflexivity|exact S2].
    + destruct (Room L) as (E & A1 & A2 & A2' & A3 & A4 & _). eapply wp_eq; [exact E|].
      exists (Some o), c. split; [eexists; reflexivity|]. split; [exact A1|]. split; [exact A2|]. split; [exact A2'|].
      left. split; [reflexivity|]. split; [exact A4|]. intros b B1 B2 B3. apply A3. cbn [In].
      intros [H|[H|[H|[]]]]; congruence.
Qed.

Definition map_loop (res : addr) (data : option addr) : list (addr * option addr) -> M (option addr) :=
  fix loop (ps : list (addr * option addr)) : M (option addr) :=
    match ps with
    | [] => ret (Some res)
    | (k, ov) :: rest =>
        touch_data false data ;;;
        kc <- copy refuse f k ;;
        match kc with
        | None => decref res ;;; ret None
        | Some key_copy =>
            match ov with
            | None => fail FNull
            | Some v =>
                vc <- copy refuse f v ;;
                match vc with
                | None => decref res ;;; decref key_copy ;;; ret None
                | Some value_copy =>
                    ok <- map_add refuse res key_copy value_copy ;;
                    if ok then decref key_copy ;;; decref value_copy ;;; loop rest
                    else decref res ;;; decref key_copy ;;; decref value_copy ;;; ret None
                end
            end
        end
    end.

Section MapLoop.
Variable w0 : world.
Variables own0 ownd0 : addr -> N.
Hypothesis I0 : Inv own0 ownd0 [] w0.
Variable indef : bool.
Variable data : option addr.

Notation m := (next w0).
Notation PartialL := (Partial f w0 own0 ownd0 (next w0)).

Definition pair_sim (w : world) (p p' : addr * option addr) : Prop :=
  exists k v k' v', p = (k, Some v) /\ p' = (k', Some v') /\ m < k' /\ m < v' /\
    sim (heap w0) (heap w) (abs f k) (abs f k') /\ sim (heap w0) (heap w) (abs f v) (abs f v').

Definition LIm (w : world) (done done' : list (addr * option addr)) : Prop :=
  (exists rank, PartialL w rank []) /\
  (exists d c, heap w m = Some (CItem 1 (NMap indef d c done')) /\ capinvM indef d c done') /\
  Forall2 (pair_sim w) done done'.

Definition loop_postM (w : world) (all : list (addr * option addr)) (r : option addr) (w' : world) : Prop :=
  next w <= next w' /\ (forall b, b < m -> heap w' b = heap w0 b) /\
  match r with
  | None => forall b, m <= b -> heap w' b = None
  | Some a' => a' = m /\ exists done', LIm w' all done'
  end.

Definition pair_ok (kv : addr * option addr) : Prop :=
  shaped f (heap w0) (fst kv) /\ exists v, snd kv = Some v /\ shaped f (heap w0) v.

Lemma map_loop_spec : forall ps done done' w,
  LIm w done done' -> (ps = [] \/ data_live (heap w0) data) -> Forall pair_ok ps ->
  wp (map_loop m data ps) w (loop_postM w (done ++ ps)).
Proof using All.
  induction ps as [|[k ov] rest IH]; intros done done' w L Dl Sh; cbn [map_loop].
  - apply wp_ret. split; [lia|]. pose proof L as ((rank & P) & _). destruct P as (_ & P2 & _).
    split; [exact P2|]. split; [reflexivity|]. exists done'. rewrite app_nil_r. exact L.
  - destruct L as ((rank & P) & (d & c & Em & Cap) & Sims).
    inversion Sh as [|kv0 rest0 [Sk (v & Ev & Sv)] Sh']; subst kv0 rest0. cbn [fst snd] in Sk, Ev. subst ov.
    destruct Dl as [Dl|(d0 & sz0 & -> & Ed0)]; [discriminate Dl|].
    pose proof (live_lt _ _ _ _ _ _ I0 Ed0) as Ld0.
    pose proof P as (P1 & P2 & P3 & P4 & P5 & P6 & P7 & P8 & P9).
    pose proof (Inv_wf _ _ _ _ P3) as Hwf.
    apply wp_bind. eapply wp_touch; [rewrite P2 by exact Ld0; exact Ed0|]. intros w1 H1 N1.
    assert (Pw1 : PartialL w1 rank []).
    { apply (partial_heq f w0 own0 ownd0 I0 (next w0) eq_refl w w1 rank [] P); [intros b; rewrite H1; reflexivity|lia]. }
    pose proof Pw1 as (A1 & A2 & A3 & A4 & A5 & A6 & A7 & A8 & A9).
    assert (Em1 : heap w1 m = Some (CItem 1 (NMap indef d c done'))) by (rewrite H1; exact Em).
    (* the key *)
    apply wp_bind. eapply wp_mono; [apply (child_copy w0 own0 ownd0 k w1 _ ownd0 I0 Sk A3 A2)|].
    intros r1 w2 [(Q1 & Q2 & Q3) _]. destruct r1 as [k'|].
    2:{ assert (H2 : forall b, heap w2 b = heap w1 b).
        { intros b. destruct (N.lt_ge_cases b (next w1)) as [Lb|Lb]; [apply Q2, Lb|].
          rewrite Q3, (Inv_wf _ _ _ _ A3) by exact Lb. reflexivity. }
        assert (P2' : PartialL w2 rank [])
          by (apply (partial_heq f w0 own0 ownd0 I0 (next w0) eq_refl w1 w2 rank [] Pw1 H2 Q1)).
        eapply wp_mono; [apply (cleanup f w0 own0 ownd0 I0 (next w0) eq_refl [m] w2 rank [] P2')|].
        { intros y. cbn [cnt]. eqb; lia. }
        intros r w' (-> & N' & F' & D'). split; [lia|]. split; assumption. }
    destruct Q3 as (Hk' & I2 & FO2 & Sk').
    destruct (partial_child f w0 own0 ownd0 I0 (next w0) eq_refl w1 w2 rank [] k' Pw1 Q1 Q2 Hk' I2 FO2) as (rank2 & Pw2).
    pose proof Pw2 as (B1 & B2 & B3 & B4 & B5 & B6 & B7 & B8 & B9).
    (* the value *)
    apply wp_bind. eapply wp_mono; [apply (child_copy w0 own0 ownd0 v w2 _ ownd0 I0 Sv B3 B2)|].
    intros r2 w3 [(T1 & T2 & T3) _]. destruct r2 as [v'|].
    2:{ assert (H3 : forall b, heap w3 b = heap w2 b).
        { intros b. destruct (N.lt_ge_cases b (next w2)) as [Lb|Lb]; [apply T2, Lb|].
          rewrite T3, (Inv_wf _ _ _ _ B3) by exact Lb. reflexivity. }
        assert (P3' : PartialL w3 rank2 [k'])
          by (apply (partial_heq f w0 own0 ownd0 I0 (next w0) eq_refl w2 w3 rank2 [k'] Pw2 H3 T1)).
        eapply wp_mono; [apply (cleanup f w0 own0 ownd0 I0 (next w0) eq_refl [m; k'] w3 rank2 [k'] P3')|].
        { intros y. cbn [cnt]. eqb; lia. }
        intros r w' (-> & N' & F' & D'). split; [lia|]. split; assumption. }
    destruct T3 as (Hv' & I3 & FO3 & Sv').
    destruct (partial_child f w0 own0 ownd0 I0 (next w0) eq_refl w2 w3 rank2 [k'] v' Pw2 T1 T2 Hv' I3 FO3) as (rank3 & Pw3).
    pose proof Pw3 as (C1 & C2 & C3 & C4 & C5 & C6 & C7 & C8 & C9).
    assert (Em3 : heap w3 m = Some (CItem 1 (NMap indef d c done'))).
    { rewrite T2 by lia. rewrite Q2 by lia. exact Em1. }
    assert (Ok : 0 < ownP own0 m [v'; k'] k') by (unfold ownP; cbn [cnt]; rewrite N.eqb_refl; lia).
    assert (Ov : 0 < ownP own0 m [v'; k'] v') by (unfold ownP; cbn [cnt]; rewrite N.eqb_refl; lia).
    destruct (Inv_owned_item _ _ _ _ C3 Ok) as (rck & nk & Ek3 & _).
    destruct (Inv_owned_item _ _ _ _ C3 Ov) as (rcv & nv & Ev3 & _).
    assert (rck = 1) by (eapply C4; [|exact Ek3]; lia). subst rck.
    assert (rcv = 1) by (eapply C4; [|exact Ev3]; lia). subst rcv.
    pose proof (live_lt _ _ _ _ _ _ C3 Ek3) as Lk3. pose proof (live_lt _ _ _ _ _ _ C3 Ev3) as Lv3.
    assert (Lk2 : k' < next w2).
    { assert (O2 : 0 < ownP own0 m [k'] k') by (unfold ownP; cbn [cnt]; rewrite N.eqb_refl; lia).
      destruct (Inv_owned_item _ _ _ _ B3 O2) as (r0 & n0 & E0 & _). eapply live_lt; eassumption. }
    assert (Hkv : k' <> v') by lia.
    apply wp_bind. eapply wp_mono.
    { apply (map_add_spec indef m w3 k' v' d c done' 1 nk 1 nv (Inv_wf _ _ _ _ C3) Em3); [|exact Cap|exact Ek3|exact Ev3|lia|lia|exact Hkv].
      intros b Hb. destruct (Inv_dblock_live _ _ [] w3 m 1 _ b C3 Em3 ltac:(lia) Hb) as (S1 & _). exact S1. }
    intros ok w4 PP. destruct ok; unfold map_push_post in PP.
    + destruct PP as (d' & c' & Cap' & Em4 & Ek4 & Ev4 & Hcase).
      change (wrap64 (1 + 1)) with 2 in Ek4, Ev4.
      apply wp_bind. eapply wp_eq; [apply (decref_shared k' w4 2 nk Ek4); lia|].
      set (w5 := w_set k' (CItem (2 - 1) nk) (w_log (AccR k') w4)).
      assert (Ev5 : heap w5 v' = Some (CItem 2 nv)).
      { subst w5. wsimpl. rewrite upd_other by (intros E0; apply Hkv; symmetry; exact E0). exact Ev4. }
      apply wp_bind. eapply wp_eq; [apply (decref_shared v' w5 2 nv Ev5); lia|].
      set (w6 := w_set v' (CItem (2 - 1) nv) (w_log (AccR v') w5)).
      set (n' := NMap indef d' c' (done' ++ [(k', Some v')])).
      assert (D6 : exists g,
                match g with
                | None => d' = d /\ next w6 = next w3
                | Some _ => d' = Some (next w3) /\ next w6 = next w3 + 1
                end /\
                forall b, heap w6 b = link_heap m (heap w3) g d n' (next w3) b).
      { assert (Hd : forall o, d = Some o -> o <> k' /\ o <> v' /\ o <> m /\ o <> next w3).
        { intros o ->. assert (Hin : In o (dblocks (NMap indef (Some o) c done'))) by (left; reflexivity).
          destruct (Inv_dblock_live _ _ [] w3 m 1 _ o C3 Em3 ltac:(lia) Hin) as ((so & Es) & _).
          pose proof (live_lt _ _ _ _ _ _ C3 Es). repeat split; [intros ->; congruence|intros ->; congruence|intros ->; congruence|lia]. }
        destruct Hcase as [(-> & N4 & H4)|(-> & N4 & (sz & S4) & O4 & H4)].
        - exists None. split; [split; [reflexivity|exact N4]|]. intros b. subst w6 w5. wsimpl.
          unfold link_heap, upd. destruct (N.eqb_spec b v') as [->|Nv].
          + destruct (N.eqb_spec v' m); [lia|]. rewrite Ev3. reflexivity.
          + destruct (N.eqb_spec b k') as [->|Nk].
            * destruct (N.eqb_spec k' m); [lia|]. rewrite Ek3. reflexivity.
            * destruct (N.eqb_spec b m) as [->|Nm]; [exact Em4|]. apply H4; assumption.
        - exists (Some sz). split; [split; [reflexivity|exact N4]|]. intros b. subst w6 w5. wsimpl.
          unfold link_heap; cbv zeta. destruct d as [o|].
          + destruct (Hd o eq_refl) as (D1 & D2 & D3 & D4). unfold upd.
            destruct (N.eqb_spec b v') as [->|Nv].
            * destruct (N.eqb_spec v' o); [congruence|]. destruct (N.eqb_spec v' m); [lia|].
              destruct (N.eqb_spec v' (next w3)); [lia|]. rewrite Ev3. reflexivity.
            * destruct (N.eqb_spec b k') as [->|Nk].
              -- destruct (N.eqb_spec k' o); [congruence|]. destruct (N.eqb_spec k' m); [lia|].
                 destruct (N.eqb_spec k' (next w3)); [lia|]. rewrite Ek3. reflexivity.
              -- destruct (N.eqb_spec b o) as [->|No]; [apply O4; reflexivity|].
                 destruct (N.eqb_spec b m) as [->|Nm]; [exact Em4|].
                 destruct (N.eqb_spec b (next w3)) as [->|Nn]; [exact S4|].
                 apply H4; try assumption. intros E0. inversion E0. congruence.
          + unfold upd. destruct (N.eqb_spec b v') as [->|Nv].
            * destruct (N.eqb_spec v' m); [lia|].
              destruct (N.eqb_spec v' (next w3)); [lia|]. rewrite Ev3. reflexivity.
            * destruct (N.eqb_spec b k') as [->|Nk].
              -- destruct (N.eqb_spec k' m); [lia|].
                 destruct (N.eqb_spec k' (next w3)); [lia|]. rewrite Ek3. reflexivity.
              -- destruct (N.eqb_spec b m) as [->|Nm]; [exact Em4|].
                 destruct (N.eqb_spec b (next w3)) as [->|Nn]; [exact S4|].
                 apply H4; try assumption. discriminate. }
      destruct D6 as (g & Hg & Hh6).
      assert (Pw6 : PartialL w6 rank3 []).
      { eapply (partial_link f w0 own0 ownd0 I0 (next w0) eq_refl [] w3 w6 rank3 [v'; k'] _ n' d d' g Pw3 Em3);
          [cbn [dblocks]; symmetry; apply app_nil_r|subst n'; cbn [dblocks]; symmetry; apply app_nil_r| |exact Hg|exact Hh6].
        intros y. subst n'. cbn [kids]. rewrite flat_map_app, cnt_app. cbn [flat_map pair_kids fst snd app cnt]. lia. }
      assert (Em6 : heap w6 m = Some (CItem 1 n')).
      { subst w6 w5. wsimpl. rewrite !upd_other by lia. exact Em4. }
      (* readers of items linked earlier or now see the same in [w6] as in [w3] *)
      assert (Tr3 : forall e e', m < e' -> is_item w3 e' ->
                sim (heap w0) (heap w3) (abs f e) (abs f e') -> sim (heap w0) (heap w6) (abs f e) (abs f e')).
      { intros e e' He' Ie' S0. eapply sim_frame_r; [exact S0|]. apply abs_frame. intros b Rb. symmetry.
        eapply (link_unchanged f w0 own0 ownd0 I0 (next w0) eq_refl [] w3 w6 rank3 [v'; k'] _ n' d g e' b Pw3 Em3);
          [cbn [dblocks]; symmetry; apply app_nil_r|exact Hh6|exact Ie'|exact He'|exact Rb]. }
      assert (F13 : forall b, b < next w1 -> heap w3 b = heap w1 b).
      { intros b Hb. rewrite T2 by lia. apply Q2, Hb. }
      assert (L6 : LIm w6 (done ++ [(k, Some v)]) (done' ++ [(k', Some v')])).
      { split; [exists rank3; exact Pw6|]. split; [exists d', c'; split; assumption|].
        apply Forall2_app.
        - eapply Forall2_impl_in_r; [exact Sims|].
          intros p p' Hin (k0 & v0 & k0' & v0' & -> & -> & Lk0 & Lv0 & S1 & S2).
          assert (Tr : forall e e', In e' (kids (NMap indef d c done')) -> m < e' ->
                    sim (heap w0) (heap w) (abs f e) (abs f e') -> sim (heap w0) (heap w6) (abs f e) (abs f e')).
          { intros e e' K0 He' S0.
            destruct (Inv_kid_live _ _ [] w m 1 _ e' P3 Em ltac:(lia) K0) as (rk & nk0 & Ek0 & _).
            pose proof (live_lt _ _ _ _ _ _ P3 Ek0) as Le'.
            apply Tr3; [exact He'|exists rk, nk0; rewrite F13 by lia; rewrite H1; exact Ek0|].
            eapply sim_frame_r; [exact S0|]. apply abs_frame. intros b Rb.
            destruct (reach_closed m w e' b P5 ltac:(lia) Rb) as [_ Hb].
            symmetry. rewrite F13, H1; [reflexivity|]. destruct Hb as [->|Hb]; lia. }
          exists k0, v0, k0', v0'. split; [reflexivity|]. split; [reflexivity|]. split; [exact Lk0|]. split; [exact Lv0|].
          split; apply Tr; try assumption; cbn [kids]; apply in_flat_map; exists (k0', Some v0');
            (split; [exact Hin|]); cbn [pair_kids fst snd In]; tauto.
        - constructor; [|constructor]. exists k, v, k', v'. split; [reflexivity|]. split; [reflexivity|].
          split; [lia|]. split; [lia|]. split.
          + apply Tr3; [lia|exists 1, nk; exact Ek3|].
            eapply sim_frame_l; [|eapply sim_frame_r; [exact Sk'|]].
            * apply abs_frame. intros b Rb. symmetry. apply A2.
              eapply reach_old; [|exact (shaped_lt w0 own0 ownd0 k I0 Sk)|exact Rb]. eapply Inv_oldclosed. exact I0.
            * apply abs_frame. intros b Rb. destruct FO2 as (_ & G2 & _).
              destruct (reach_closed (next w1) w2 k' b G2 Hk' Rb) as [_ Hb]. symmetry. apply T2.
              destruct Hb as [->|Hb]; lia.
          + apply Tr3; [lia|exists 1, nv; exact Ev3|].
            eapply sim_frame_l; [|exact Sv'].
            apply abs_frame. intros b Rb. symmetry. apply B2.
            eapply reach_old; [|exact (shaped_lt w0 own0 ownd0 v I0 Sv)|exact Rb]. eapply Inv_oldclosed. exact I0. }
      eapply wp_mono; [apply (IH (done ++ [(k, Some v)]) (done' ++ [(k', Some v')]) w6 L6)|].
      { right. exists d0, sz0. split; [reflexivity|exact Ed0]. }
      { exact Sh'. }
      intros r w' (U1 & U2 & U3). rewrite <- app_assoc in U3. cbn [app] in U3.
      assert (N6 : next w3 <= next w6) by (destruct g; lia).
      split; [lia|]. split; [exact U2|exact U3].
    + destruct PP as [H4 N4].
      assert (P4' : PartialL w4 rank3 [v'; k']).
      { apply (partial_heq f w0 own0 ownd0 I0 (next w0) eq_refl w3 w4 rank3 [v'; k'] Pw3 H4). lia. }
      eapply wp_mono; [apply (cleanup f w0 own0 ownd0 I0 (next w0) eq_refl [m; k'; v'] w4 rank3 [v'; k'] P4')|].
      { intros y. cbn [cnt]. eqb; lia. }
      intros r w' (-> & N' & F' & D'). split; [lia|]. split; assumption.
Qed.

End MapLoop.

Lemma map_finish w0 own0 ownd0 a rc indef data al pairs w1 :
  Inv own0 ownd0 [] w0 -> heap w0 a = Some (CItem rc (NMap indef data al pairs)) ->
  (pairs = [] \/ data_live (heap w0) data) -> Forall (pair_ok w0) pairs ->
  LIm w0 own0 ownd0 indef w1 [] [] -> next w0 <= next w1 ->
  wp (map_loop (next w0) data pairs) w1 (copy_post (S f) own0 ownd0 a w0).
Proof.
  intros I0 Ea Dl Sh L1 Le. eapply wp_mono; [apply (map_loop_spec w0 own0 ownd0 I0 indef data pairs [] [] w1 L1 Dl Sh)|].
  intros r w' (T1 & T2 & T3). cbn [app] in T3. split.
  - split; [lia|]. split; [exact T2|]. destruct r as [a'|]; [|exact T3].
    destruct T3 as (-> & done' & (rank & P) & (d & c & Em & Cap) & Sims).
    pose proof P as (P1 & P2 & P3 & P4 & P5 & P6 & P7 & P8 & P9).
    split; [lia|]. split.
    { eapply Inv_own_ext; [exact P3| |reflexivity]. intros y. unfold own1, ownP. cbn [cnt]. lia. }
    split.
    { split; [exact P4|]. split; [exact P5|]. exists rank. split; [exact P6|].
      intros b Hb. destruct (N.eq_dec b (next w0)) as [->|Hne]; [lia|]. specialize (P8 b ltac:(lia)). lia. }
    cbn [abs]. eapply sim_rd_bind; [exact Em|]. intros rc1 n1 E1. rewrite Ea in E1. inversion E1; subst rc1 n1.
    cbn [snd]. apply sim_bind.
    + apply sim_unit; [intros w u w2 H1 H2; eapply guard_keeps; eassumption|].
      intros w2 H2. eapply guard_total; [exact H2|]. intros Hne.
      assert (Hd : exists o, d = Some o).
      { destruct indef; cbn [capinvM] in Cap; [|exact Cap]. destruct Cap as (C1 & C2 & C3).
        destruct d as [o|]; [eauto|]. specialize (C1 eq_refl). destruct done'; [contradiction|].
        rewrite len_cons in C3. lia. }
      destruct Hd as [o ->].
      destruct (Inv_dblock_live _ _ [] w' (next w0) 1 _ o P3 Em ltac:(lia) ltac:(left; reflexivity)) as ((sz & Es) & _).
      eauto.
    + intros _. apply sim_bind; [|intros xs; apply sim_ret]. apply sim_mapM.
      eapply Forall2_impl_in_r; [exact Sims|].
      intros p p' _ (k0 & v0 & k0' & v0' & -> & -> & _ & _ & S1 & S2). cbn [fst snd].
      apply sim_bind; [exact S1|]. intros kt. apply sim_bind; [exact S2|]. intros vt. apply sim_ret.
  - intros a' _ rc0 text d0 bytes E0. rewrite Ea in E0. discriminate E0.
Qed.

Lemma copy_map_post own ownd a w rc indef data al pairs :
  Inv own ownd [] w -> heap w a = Some (CItem rc (NMap indef data al pairs)) ->
  (pairs = [] \/ data_live (heap w) data) -> Forall (pair_ok w) pairs ->
  wp (r <- (if indef then new_indefinite_map refuse else new_definite_map refuse (len pairs)) ;;
      match r with None => ret None | Some res => map_loop res data pairs end) w
     (copy_post (S f) own ownd a w).
Proof.
  intros I Ea Dl Sh. pose proof (Inv_wf _ _ _ _ I) as Hwf. apply wp_bind. destruct indef.
  - eapply wp_mono; [apply wp_malloc_item|]. intros r w1 P. destruct r as [res|]; cbn [ctor1_post] in P.
    + destruct P as (-> & Hn & Hh).
      pose proof (partial_init1 w own ownd w1 (NMap true None 0 []) I eq_refl eq_refl Hh Hn) as P1.
      eapply (map_finish w own ownd a rc true data al pairs w1 I Ea Dl Sh); [|lia].
      split; [eexists; exact P1|]. split; [|constructor].
      exists None, 0. split; [rewrite (Hh (next w)); apply upd_same|]. cbn [capinvM].
      change (len (@nil (addr * option addr))) with 0.
      split; [reflexivity|]. split; [|lia]. vm_compute. reflexivity.
    + destruct P as [Hh Hn]. apply wp_ret. apply fail_post; [exact Hwf|exact Hh|lia].
  - eapply wp_mono; [apply wp_new_definite_map; exact Hwf|]. intros r w1 [Hle P]. destruct r as [res|].
    + destruct P as (-> & Hn & sz & Hh).
      pose proof (partial_init2 w own ownd w1 (NMap false (Some (next w + 1)) (len pairs) []) sz I eq_refl eq_refl Hh Hn) as P1.
      destruct (Inv_built_facts own ownd w w1 _ sz I Hh) as (B1 & _).
      eapply (map_finish w own ownd a rc false data al pairs w1 I Ea Dl Sh); [|lia].
      split; [eexists; exact P1|]. split; [|constructor].
      exists (Some (next w + 1)), (len pairs). split; [exact B1|]. cbn [capinvM]. eexists; reflexivity.
    + apply wp_ret. apply fail_post; assumption.
Qed.

End Copy2.

(* ------------------------------------------------------------------------------------------ *)
(* 12. the theorem                                                                             *)
(* ------------------------------------------------------------------------------------------ *)

Section Main.
Variable refuse : N -> N -> bool.

Theorem copy_spec_wp : forall f a w own ownd,
  Inv own ownd [] w -> shaped f (heap w) a ->
  wp (copy refuse f a) w (copy_post f own ownd a w).
Proof.
  induction f as [|f IH]; intros a w own ownd I Sh; [destruct Sh|].
  destruct Sh as (rc & n & E & R & Sh). cbn [copy].
  apply wp_bind. eapply wp_rd; [exact E|]. intros w1 H1 N1. cbn [snd].
  assert (I1 : Inv own ownd [] w1) by (eapply Inv_heq; [exact I|intros b; rewrite H1; reflexivity|lia]).
  assert (E1 : heap w1 a = Some (CItem rc n)) by (rewrite H1; exact E).
  assert (Back : forall r w', copy_post (S f) own ownd a w1 r w' -> copy_post (S f) own ownd a w r w').
  { intros r w' P. eapply copy_post_heq; [|exact N1|exact P]. intros b. rewrite H1. reflexivity. }
  destruct n as [neg iw v|fw bits|v|text data bytes|text hdr arr cap chunks|indef data al elems|indef data al pairs|v c].
  - eapply wp_mono; [apply (copy_leaf_post refuse f own ownd a w1 rc _ _ I1 E1 Logic.I)|exact Back].
  - eapply wp_mono; [apply (copy_leaf_post refuse f own ownd a w1 rc _ _ I1 E1 Logic.I)|exact Back].
  - eapply wp_mono; [apply (copy_leaf_post refuse f own ownd a w1 rc _ _ I1 E1 Logic.I)|exact Back].
  - apply wp_bind.
    assert (G : wp (if len bytes =? 0 then ret tt else touch_data false data) w1
                  (fun _ w2 => heap w2 = heap w1 /\ next w2 = next w1)).
    { destruct (len bytes =? 0) eqn:Z; [apply wp_ret; split; reflexivity|].
      destruct Sh as [Sh|(d & sz & -> & Ed)]; [apply N.eqb_neq in Z; contradiction|].
      eapply wp_touch; [rewrite H1; exact Ed|]. intros w2 H2 N2. split; assumption. }
    eapply wp_mono; [exact G|]. intros _ w2 [H2 N2].
    assert (I2 : Inv own ownd [] w2) by (eapply Inv_heq; [exact I1|intros b; rewrite H2; reflexivity|lia]).
    eapply wp_mono; [apply (copy_str_post refuse f own ownd a w2 rc text data bytes I2); rewrite H2; exact E1|].
    intros r w' P. apply Back. eapply copy_post_heq; [|exact N2|exact P]. intros b. rewrite H2. reflexivity.
  - eapply wp_mono; [apply (copy_chk_post refuse f IH own ownd a w1 rc text hdr arr cap chunks I1 E1)|exact Back].
    rewrite H1. exact Sh.
  - destruct Sh as [S1 S2].
    eapply wp_mono; [apply (copy_arr_post refuse f IH own ownd a w1 rc indef data al elems I1 E1)|exact Back];
      rewrite H1; assumption.
  - destruct Sh as [S1 S2].
    eapply wp_mono; [apply (copy_map_post refuse f IH own ownd a w1 rc indef data al pairs I1 E1)|exact Back].
    + rewrite H1. exact S1.
    + unfold pair_ok. rewrite H1. exact S2.
  - destruct Sh as (x & -> & Sx).
    eapply wp_mono; [apply (copy_tag_post refuse f IH own ownd a w1 rc v x I1 E1)|exact Back].
    rewrite H1. exact Sx.
Qed.

End Main.

(* ------------------------------------------------------------------------------------------ *)
(* 13. consequences                                                                            *)
(* ------------------------------------------------------------------------------------------ *)

(* releasing an item touches nothing outside a region closed under references *)
Definition taskP (R : addr -> Prop) (t : task) : Prop :=
  match t with
  | TDecref a => R a
  | TFreeData (Some p) => R p
  | TFreeData None => True
  | TFreeItem a => R a
  end.
Definition closedP (R : addr -> Prop) (h : addr -> option cell) : Prop :=
  forall b rc n, R b -> h b = Some (CItem rc n) ->
    (forall k, In k (kids n) -> R k) /\ (forall d, In d (dblocks n) -> R d).

Lemma release_tasksP (R : addr -> Prop) a n :
  R a -> (forall k, In k (kids n) -> R k) -> (forall d, In d (dblocks n) -> R d) ->
  Forall (taskP R) (release_tasks a n).
Proof.
  intros Ha K D.
  destruct n as [neg iw v|fw bits|v|text data bytes|text hdr arr cap chunks|indef data al elems|indef data al pairs|v [c|]];
    cbn [release_tasks kids dblocks] in *.
  - repeat constructor; assumption.
  - repeat constructor; assumption.
  - repeat constructor; assumption.
  - constructor; [destruct data as [d|]; [apply D; left; reflexivity|exact I]|]. repeat constructor; assumption.
  - apply Forall_app. split.
    { apply Forall_forall. intros t Ht. apply in_map_iff in Ht. destruct Ht as (k & <- & Hk). apply K, Hk. }
    constructor; [destruct arr as [d|]; [apply D; left; reflexivity|exact I]|].
    constructor; [apply D; apply in_or_app; right; left; reflexivity|]. repeat constructor; assumption.
  - apply Forall_app. split.
    { apply Forall_forall. intros t Ht. apply in_map_iff in Ht. destruct Ht as (k & <- & Hk). apply K, Hk. }
    constructor; [destruct data as [d|]; [apply D; left; reflexivity|exact I]|]. repeat constructor; assumption.
  - apply Forall_app. split.
    + apply Forall_forall. intros t Ht. apply in_flat_map in Ht. destruct Ht as ([k ov] & Hkv & Ht).
      assert (Hk : forall y, In y (pair_kids (k, ov)) -> R y).
      { intros y Hy. apply K. apply in_flat_map. exists (k, ov). split; assumption. }
      cbn [fst snd In] in Ht. destruct Ht as [<-|Ht].
      * apply Hk. left. reflexivity.
      * destruct ov as [v|]; [|destruct Ht]. destruct Ht as [<-|[]]. apply Hk. right. left. reflexivity.
    + constructor; [destruct data as [d|]; [apply D; left; reflexivity|exact I]|]. repeat constructor; assumption.
  - constructor; [apply K; left; reflexivity|]. repeat constructor; assumption.
  - repeat constructor; assumption.
Qed.

Lemma drain_regionP (R : addr -> Prop) : forall fuel ts w w',
  drain fuel ts w = Ret tt w' -> Forall (taskP R) ts -> closedP R (heap w) ->
  (forall b, ~ R b -> heap w' b = heap w b) /\ next w' = next w.
Proof.
  induction fuel as [|f IH]; intros ts w w' H T C.
  - destruct ts; cbn [drain] in H; [|discriminate]. unfold ret in H. inversion H; subst. auto.
  - destruct ts as [|t r]; cbn [drain] in H.
    { unfold ret in H. inversion H; subst. auto. }
    inversion T as [|t0 r0 Tt Tr]; subst t0 r0.
    assert (Step : forall w1 a, R a -> next w1 = next w ->
              (forall b, b <> a -> heap w1 b = heap w b) ->
              (forall rc n, heap w1 a = Some (CItem rc n) -> exists rc0, heap w a = Some (CItem rc0 n)) ->
              forall ts', Forall (taskP R) ts' -> drain f ts' w1 = Ret tt w' ->
              (forall b, ~ R b -> heap w' b = heap w b) /\ next w' = next w).
    { intros w1 a Ha Hn Ho Hs ts' T' H'.
      assert (C1 : closedP R (heap w1)).
      { intros b rc n Hb E. destruct (N.eq_dec b a) as [->|Hne].
        - destruct (Hs rc n E) as [rc0 E0]. eapply C; eassumption.
        - rewrite Ho in E by exact Hne. eapply C; eassumption. }
      destruct (IH ts' w1 w' H' T' C1) as (F1' & F4).
      split; [|congruence]. intros b Hb. rewrite F1' by exact Hb. apply Ho. intros ->. contradiction. }
    destruct t as [a|[p|]|a]; cbn [taskP] in Tt.
    + unfold bind at 1 in H. unfold rd_item in H. destruct (heap w a) as [[rc n|sz]|] eqn:E; try discriminate H.
      cbn [fst snd] in H. unfold bind at 1 in H. destruct (0 <? rc); cbn [assert_] in H; [|discriminate H].
      unfold ret at 1 in H. destruct (rc =? 1) eqn:R1.
      * unfold bind at 1 in H. unfold wr_item in H. cbn [heap next nreq trace alog] in H. rewrite E in H.
        eapply (Step _ a Tt); [| | | |exact H].
        -- reflexivity.
        -- intros b Hb. cbn [heap]. apply upd_other. exact Hb.
        -- intros rc' n' E'. cbn [heap] in E'. rewrite upd_same in E'. inversion E'; subst. eauto.
        -- apply Forall_app. split; [|exact Tr]. destruct (C a rc n Tt E) as [CK CD].
           apply release_tasksP; assumption.
      * unfold bind at 1 in H. unfold wr_item in H. cbn [heap next nreq trace alog] in H. rewrite E in H.
        eapply (Step _ a Tt); [| | | |exact H].
        -- reflexivity.
        -- intros b Hb. cbn [heap]. apply upd_other. exact Hb.
        -- intros rc' n' E'. cbn [heap] in E'. rewrite upd_same in E'. inversion E'; subst. eauto.
        -- exact Tr.
    + unfold bind at 1 in H. unfold free in H. destruct (heap w p) as [c|] eqn:E; [|discriminate H].
      eapply (Step _ p Tt); [| | | |exact H].
      * reflexivity.
      * intros b Hb. cbn [heap]. apply upd_other. exact Hb.
      * intros rc' n' E'. cbn [heap] in E'. rewrite upd_same in E'. discriminate E'.
      * exact Tr.
    + unfold bind at 1 in H. unfold free in H.
      apply (IH r (mkworld (heap w) (next w) (nreq w) (EvFree None :: trace w) (alog w)) w' H Tr C).
    + unfold bind at 1 in H. unfold free in H. destruct (heap w a) as [c|] eqn:E; [|discriminate H].
      eapply (Step _ a Tt); [| | | |exact H].
      * reflexivity.
      * intros b Hb. cbn [heap]. apply upd_other. exact Hb.
      * intros rc' n' E'. cbn [heap] in E'. rewrite upd_same in E'. discriminate E'.
      * exact Tr.
Qed.

(* cbor_decref modifies only cells reachable from its argument *)
Theorem decref_footprint a w w' :
  decref a w = Ret tt w' -> (forall b, ~ reach w a b -> heap w' b = heap w b) /\ next w' = next w.
Proof.
  intros H. unfold decref in H.
  apply (drain_regionP (fun b => reach w a b) _ _ _ _ H).
  - constructor; [apply reach_self|constructor].
  - intros b rc n Rb E. split.
    + intros k Hk. eapply reach_kid; [exact Rb|exact E|rewrite node_kids_eq; exact Hk].
    + intros d Hd. eapply reach_block; [exact Rb|exact E|apply node_blocks_in; exact Hd].
Qed.

(* one root held by the client in an otherwise unowned fresh region: releasing it empties the region *)
Lemma release_root own ownd w w2 x rank :
  Inv own ownd [] w -> next w <= next w2 -> (forall b, b < next w -> heap w2 b = heap w b) ->
  next w <= x -> Inv (own1 own x) ownd [] w2 -> closed (next w) w2 -> ranked (next w) w2 rank ->
  exists w', decref x w2 = Ret tt w' /\ next w' = next w2 /\
             (forall b, b < next w -> heap w' b = heap w b) /\
             (forall b, next w <= b -> heap w' b = None) /\ Inv own ownd [] w'.
Proof.
  intros I L Fr Hx I2 C R.
  destruct (decref_dying (next w) own (own1 own x) ownd rank x w2) as (w' & E & D' & F' & N').
  - intros y. reflexivity.
  - exact Hx.
  - split; [exact I2|]. split; assumption.
  - exists w'. split; [exact E|]. split; [exact N'|].
    assert (Fr' : forall b, b < next w -> heap w' b = heap w b) by (intros b Hb; rewrite F', Fr by exact Hb; reflexivity).
    split; [exact Fr'|]. split; [|apply D'].
    eapply dying_dead; [exact D'| |].
    + intros b Hb. eapply Inv_dead_own; [exact I|]. apply (Inv_wf _ _ _ _ I). exact Hb.
    + eapply oldclosed_frame; [|exact Fr']. eapply Inv_oldclosed. exact I.
Qed.

(* every live cell of a fresh region with a single root held by the client is reachable from that root *)
Lemma fresh_reachable own ownd w w' a' rank F :
  Inv own ownd [] w -> (forall b, b < next w -> heap w' b = heap w b) ->
  Inv (own1 own a') ownd [] w' -> closed (next w) w' -> ranked (next w) w' rank ->
  (forall b, next w <= b -> (rank b <= F)%nat) -> next w <= a' ->
  forall b, next w <= b -> heap w' b <> None -> reach w' a' b.
Proof.
  intros I Fr I' C R B Ha.
  assert (O : forall b, next w <= b -> own b = 0 /\ ownd b = 0).
  { intros b Hb. eapply Inv_dead_own; [exact I|]. apply (Inv_wf _ _ _ _ I). exact Hb. }
  assert (OC : oldclosed (next w) (heap w')) by (eapply oldclosed_frame; [eapply Inv_oldclosed; exact I|exact Fr]).
  pose proof I' as [_ H2].
  assert (Items : forall k b rc n, (F - rank b <= k)%nat -> next w <= b -> heap w' b = Some (CItem rc n) -> reach w' a' b).
  { induction k as [|k IHk]; intros b rc n Hk Hb E.
    - destruct (N.eq_dec b a') as [->|Hne]; [apply reach_self|]. exfalso.
      pose proof (H2 b) as Z. unfold okcell in Z. rewrite E in Z. cbn [pend tofree] in Z.
      destruct (O b Hb) as [Ob _]. unfold own1 in Z. rewrite Ob in Z. destruct (N.eqb_spec b a'); [contradiction|].
      assert (G : 0 < indeg w' b) by (intuition lia). apply refs_pos in G.
      destruct G as (p & rcp & np & _ & Ep & Rp & Kp).
      assert (Hp : next w <= p).
      { destruct (N.lt_ge_cases p (next w)) as [L|L]; [|exact L]. destruct (OC p rcp np L Ep) as [OK _].
        specialize (OK b Kp). lia. }
      pose proof (R p rcp np b Hp Ep Kp). pose proof (B p Hp). pose proof (B b Hb). lia.
    - destruct (N.eq_dec b a') as [->|Hne]; [apply reach_self|].
      pose proof (H2 b) as Z. unfold okcell in Z. rewrite E in Z. cbn [pend tofree] in Z.
      destruct (O b Hb) as [Ob _]. unfold own1 in Z. rewrite Ob in Z. destruct (N.eqb_spec b a'); [contradiction|].
      assert (G : 0 < indeg w' b) by (intuition lia). apply refs_pos in G.
      destruct G as (p & rcp & np & _ & Ep & Rp & Kp).
      assert (Hp : next w <= p).
      { destruct (N.lt_ge_cases p (next w)) as [L|L]; [|exact L]. destruct (OC p rcp np L Ep) as [OK _].
        specialize (OK b Kp). lia. }
      pose proof (R p rcp np b Hp Ep Kp).
      eapply reach_kid; [apply (IHk p rcp np); [lia|exact Hp|exact Ep]|exact Ep|rewrite node_kids_eq; exact Kp]. }
  intros b Hb Hl. destruct (heap w' b) as [[rc n|sz]|] eqn:E; [|clear Hl|contradiction].
  - eapply (Items F); [lia|exact Hb|exact E].
  - pose proof (H2 b) as Z. unfold okcell in Z. rewrite E in Z. cbn [pend tofree] in Z.
    destruct (O b Hb) as [_ Ob]. rewrite Ob in Z. assert (G : 0 < dindeg w' b) by lia.
    apply refs_pos in G. destruct G as (p & rcp & np & _ & Ep & _ & Kp).
    assert (Hp : next w <= p).
    { destruct (N.lt_ge_cases p (next w)) as [L|L]; [|exact L]. destruct (OC p rcp np L Ep) as [_ OD].
      specialize (OD b Kp). lia. }
    eapply reach_block; [apply (Items F p rcp np); [lia|exact Hp|exact Ep]|exact Ep|apply node_blocks_in; exact Kp].
Qed.

Section Final.
Variable refuse : N -> N -> bool.

(* C11 and the cbor_copy case of C06.  [Inv own ownd [] w] contains [wf w]. *)
Theorem copy_spec : forall fuel a w own ownd,
  Inv own ownd [] w -> shaped fuel (heap w) a ->
  exists r w', copy refuse fuel a w = Ret r w' /\
    next w <= next w' /\
    (forall b, b < next w -> heap w' b = heap w b) /\
    match r with
    | None =>
        (forall b, next w <= b -> heap w' b = None) /\
        (forall b, heap w' b = heap w b) /\ Inv own ownd [] w'
    | Some a' =>
        next w <= a' /\ a' < next w' /\
        (forall b rc n, next w <= b -> heap w' b = Some (CItem rc n) -> rc = 1) /\
        (forall b, next w <= b -> heap w' b <> None -> reach w' a' b) /\
        (forall b, reach w' a' b -> next w <= b) /\
        (forall b, reach w' a b -> b < next w) /\
        (forall t w1, abs fuel a w = Ret t w1 -> exists w2, abs fuel a' w' = Ret t w2) /\
        Inv (fun x => if x =? a' then 1 else own x) ownd [] w' /\
        (exists w'', decref a' w' = Ret tt w'' /\ (forall b, heap w'' b = heap w b) /\ Inv own ownd [] w'')
    end.
Proof.
  intros fuel a w own ownd I Sh. pose proof (Inv_wf _ _ _ _ I) as Hwf.
  destruct (copy_spec_wp refuse fuel a w own ownd I Sh) as (r & w' & E & (P1 & P2 & P3) & _).
  exists r, w'. split; [exact E|]. split; [exact P1|]. split; [exact P2|]. destruct r as [a'|].
  - destruct P3 as (Ha' & I' & (G1 & G2 & rank & G3 & G4) & S).
    assert (O : 0 < own1 own a' a') by (unfold own1; rewrite N.eqb_refl; lia).
    destruct (Inv_owned_item _ _ _ _ I' O) as (rc' & n' & E' & _).
    split; [exact Ha'|]. split; [eapply live_lt; eassumption|]. split; [exact G1|].
    split; [eapply fresh_reachable; eassumption|].
    split; [intros b Rb; apply (reach_closed (next w) w' a' b G2 Ha' Rb)|].
    split.
    { intros b Rb. eapply reach_old; [|eapply shaped_lt; eassumption|exact Rb].
      eapply oldclosed_frame; [eapply Inv_oldclosed; exact I|exact P2]. }
    split.
    { intros t w1 Et. destruct (S w t w1 eq_refl Et) as [_ K]. destruct (K w' eq_refl) as (w2 & E2 & _). eauto. }
    split.
    { destruct (Inv_dead_own _ _ _ _ a' I (Hwf a' Ha')) as [Oa _].
      eapply Inv_own_ext; [exact I'| |reflexivity]. intros x. unfold own1.
      destruct (N.eqb_spec x a') as [->|]; lia. }
    destruct (release_root own ownd w w' a' rank I P1 P2 Ha' I' G2 G3) as (w'' & D1 & D2 & D3 & D4 & D5).
    exists w''. split; [exact D1|]. split; [|exact D5].
    intros b. destruct (N.lt_ge_cases b (next w)) as [L|L]; [apply D3, L|]. rewrite D4, Hwf by exact L. reflexivity.
  - assert (Hh : forall b, heap w' b = heap w b).
    { intros b. destruct (N.lt_ge_cases b (next w)) as [L|L]; [apply P2, L|]. rewrite P3, Hwf by exact L. reflexivity. }
    split; [exact P3|]. split; [exact Hh|]. eapply Inv_heq; eassumption.
Qed.

(* the model of cbor_copy never faults: in particular no use after free, no double free, no NULL
   dereference, no failed assertion *)
Corollary copy_never_faults fuel a w own ownd k :
  Inv own ownd [] w -> shaped fuel (heap w) a -> copy refuse fuel a w <> Fault k.
Proof.
  intros I Sh. destruct (copy_spec fuel a w own ownd I Sh) as (r & w' & E & _). rewrite E. discriminate.
Qed.

(* C06 for cbor_copy: a NULL result means that some request was refused and that everything allocated
   so far has been given back: the heap is pointwise what it was, reference counts included *)
Corollary C06_copy_clean_failure fuel a w own ownd w' :
  Inv own ownd [] w -> shaped fuel (heap w) a -> copy refuse fuel a w = Ret None w' ->
  (forall b, heap w' b = heap w b) /\ Inv own ownd [] w'.
Proof.
  intros I Sh E. destruct (copy_spec fuel a w own ownd I Sh) as (r & w1 & E1 & _ & _ & P).
  rewrite E in E1. injection E1 as <- <-. destruct P as (_ & P2 & P3). split; assumption.
Qed.

(* C11: releasing the copy leaves the source exactly as it was before the copy was made *)
Corollary C11_release_copy fuel a w own ownd a' w' :
  Inv own ownd [] w -> shaped fuel (heap w) a -> copy refuse fuel a w = Ret (Some a') w' ->
  exists w'', decref a' w' = Ret tt w'' /\ (forall b, heap w'' b = heap w b) /\ Inv own ownd [] w'' /\
    forall t w1, abs fuel a w = Ret t w1 -> exists w2, abs fuel a w'' = Ret t w2.
Proof.
  intros I Sh E. destruct (copy_spec fuel a w own ownd I Sh) as (r & w1 & E1 & _ & _ & P).
  rewrite E in E1. injection E1 as <- <-. destruct P as (_ & _ & _ & _ & _ & _ & _ & _ & w'' & D1 & D2 & D3).
  exists w''. split; [exact D1|]. split; [exact D2|]. split; [exact D3|].
  intros t w1 Et. eapply C17_frame; [|exact Et]. intros b _. symmetry. apply D2.
Qed.

(* C11: releasing the source (the client holds a reference to it) leaves the copy exactly as it is *)
Corollary C11_release_source fuel a w own ownd a' w' :
  Inv (own1 own a) ownd [] w -> shaped fuel (heap w) a -> copy refuse fuel a w = Ret (Some a') w' ->
  exists w'', decref a w' = Ret tt w'' /\
    (forall b, next w <= b -> heap w'' b = heap w' b) /\
    Inv (own1 own a') ownd [] w'' /\
    forall t w1, abs fuel a' w' = Ret t w1 -> exists w2, abs fuel a' w'' = Ret t w2.
Proof.
  intros I Sh E. destruct (copy_spec fuel a w (own1 own a) ownd I Sh) as (r & w1 & E1 & _ & _ & P).
  rewrite E in E1. injection E1 as <- <-.
  destruct P as (Ha' & _ & _ & _ & R1 & R2 & _ & I' & _).
  pose proof (shaped_lt fuel w _ _ a I Sh) as La.
  destruct (Inv_dead_own _ _ _ _ a' I (Inv_wf _ _ _ _ I a' Ha')) as [Oa _].
  destruct (decref_ok (own1 own a') (fun x => if x =? a' then 1 else own1 own a x) ownd a w') as (w'' & D & I'' & _).
  { intros x. unfold own1 in *. cbn beta. destruct (N.eqb_spec a' a) as [Eq|Ne]; [lia|].
    destruct (N.eqb_spec x a') as [Eq1|Ne1]; destruct (N.eqb_spec x a) as [Eq2|Ne2]; subst; try lia; try contradiction. }
  { exact I'. }
  destruct (decref_footprint a w' w'' D) as [F _].
  assert (Fr : forall b, next w <= b -> heap w'' b = heap w' b).
  { intros b Hb. apply F. intros Rb. specialize (R2 b Rb). lia. }
  exists w''. split; [exact D|]. split; [exact Fr|]. split; [exact I''|].
  intros t w1 Et. eapply C17_frame; [|exact Et]. intros b Rb. symmetry. apply Fr, R1, Rb.
Qed.

(* the entry point with its own fuel *)
Corollary copy_h_spec a w own ownd :
  Inv own ownd [] w -> shaped (abs_fuel w) (heap w) a ->
  exists r w', copy_h refuse a w = Ret r w' /\
    (forall b, b < next w -> heap w' b = heap w b) /\
    match r with
    | None => (forall b, heap w' b = heap w b) /\ Inv own ownd [] w'
    | Some a' =>
        next w <= a' /\
        (forall t w1, abs (abs_fuel w) a w = Ret t w1 -> exists w2, abs (abs_fuel w) a' w' = Ret t w2) /\
        Inv (fun x => if x =? a' then 1 else own x) ownd [] w'
    end.
Proof.
  intros I Sh. destruct (copy_spec (abs_fuel w) a w own ownd I Sh) as (r & w' & E & _ & P2 & P).
  exists r, w'. split; [exact E|]. split; [exact P2|]. destruct r as [a'|].
  - destruct P as (Q1 & _ & _ & _ & _ & _ & Q7 & Q8 & _). auto.
  - destruct P as (_ & Q2 & Q3). auto.
Qed.

End Final.

(* ------------------------------------------------------------------------------------------ *)
(* 14. the precondition: any item that [abs] can read is complete                               *)
(* ------------------------------------------------------------------------------------------ *)

Definition rc_bounded (h : addr -> option cell) : Prop :=
  forall b rc n, h b = Some (CItem rc n) -> rc < W64.

Lemma bind_inv {A B} (m : M A) (k : A -> M B) w b w' :
  bind m k w = Ret b w' -> exists a w1, m w = Ret a w1 /\ k a w1 = Ret b w'.
Proof. unfold bind. destruct (m w) as [a w1|e]; [eauto|discriminate]. Qed.

Lemma touch_inv p w u w' : touch_data false p w = Ret u w' -> heap w' = heap w /\ data_live (heap w) p.
Proof.
  unfold touch_data. destruct p as [d|]; [|discriminate]. destruct (heap w d) as [[rc n|sz]|] eqn:E; try discriminate.
  intros H. injection H as _ <-. split; [reflexivity|]. exists d, sz. auto.
Qed.

Lemma guard_inv {A} (l : list A) p w u w' :
  (match l with [] => ret tt | _ => touch_data false p end) w = Ret u w' ->
  heap w' = heap w /\ (l = [] \/ data_live (heap w) p).
Proof.
  destruct l as [|x l]; intros H.
  - unfold ret in H. injection H as _ <-. auto.
  - destruct (touch_inv _ _ _ _ H). auto.
Qed.

Lemma mapM_each {A B} (g : A -> M B) :
  (forall x w y w', g x w = Ret y w' -> heap w' = heap w) ->
  forall l w ys w', mapM g l w = Ret ys w' ->
  heap w' = heap w /\ Forall (fun x => exists w1 y w2, heap w1 = heap w /\ g x w1 = Ret y w2) l.
Proof.
  intros Hg. induction l as [|x l IH]; intros w ys w' H; cbn [mapM] in H.
  - unfold ret in H. injection H as _ <-. split; [reflexivity|constructor].
  - apply bind_inv in H. destruct H as (y & w1 & E1 & H). apply bind_inv in H. destruct H as (zs & w2 & E2 & H).
    unfold ret in H. injection H as _ <-. pose proof (Hg _ _ _ _ E1) as H1. destruct (IH _ _ _ E2) as [H2 F].
    split; [congruence|]. constructor; [exists w, y, w1; auto|].
    eapply Forall_impl; [|exact F]. intros z (wa & yz & wb & Ha & Eb). exists wa, yz, wb. split; [congruence|exact Eb].
Qed.

Lemma abs_keeps fuel a w t w' : abs fuel a w = Ret t w' -> heap w' = heap w.
Proof. intros H. apply (abs_readonly _ _ _ _ _ H). Qed.

Lemma chunk_bytes_keeps tx a w t w' : chunk_bytes tx a w = Ret t w' -> heap w' = heap w.
Proof. intros H. apply (chunk_bytes_readonly tx a w t w' H). Qed.

Lemma str_guard_inv (bytes : list N) data w u w' :
  (if len bytes =? 0 then ret tt else touch_data false data) w = Ret u w' ->
  heap w' = heap w /\ (len bytes = 0 \/ data_live (heap w) data).
Proof.
  destruct (N.eqb_spec (len bytes) 0) as [Z|Z]; intros H.
  - unfold ret in H. injection H as _ <-. auto.
  - destruct (touch_inv _ _ _ _ H). auto.
Qed.

(* a well-formed item (one that the abstraction function can read with [f] levels) whose reference
   counts are size_t values can be copied with [S f] levels *)
Theorem abs_shaped : forall f a w t w',
  rc_bounded (heap w) -> abs f a w = Ret t w' -> shaped (S f) (heap w) a.
Proof.
  induction f as [|f IH]; intros a w t w' B H; [discriminate H|].
  cbn [abs] in H. apply bind_inv in H. destruct H as ([rc n] & w1 & E1 & H).
  unfold rd_item in E1. destruct (heap w a) as [[rc0 n0|sz]|] eqn:Ea; try discriminate E1.
  injection E1 as -> -> <-. cbn [snd] in H.
  assert (IH' : forall x wa ta wb, heap wa = heap w -> abs f x wa = Ret ta wb -> shaped (S f) (heap w) x).
  { intros x wa ta wb Hh Hx. rewrite <- Hh. eapply IH; [rewrite Hh; exact B|exact Hx]. }
  exists rc, n. split; [exact Ea|]. split; [eapply B; exact Ea|].
  destruct n as [neg iw v|fw bits|v|text data bytes|text hdr arr cap chunks|indef data al elems|indef data al pairs|v [x|]].
  - exact I. - exact I. - exact I.
  - apply bind_inv in H. destruct H as (u & w2 & E2 & _). apply str_guard_inv in E2. apply E2.
  - apply bind_inv in H. destruct H as (u & w2 & E2 & H). apply touch_inv in E2. destruct E2 as [H2 _].
    apply bind_inv in H. destruct H as (u3 & w3 & E3 & H). apply guard_inv in E3. destruct E3 as [H3 _].
    apply bind_inv in H. destruct H as (cs & w4 & E4 & _).
    destruct (mapM_each (chunk_bytes text) (chunk_bytes_keeps text) _ _ _ _ E4) as [_ F].
    eapply Forall_impl; [|exact F]. intros c (wa & y & wb & Ha & Ec).
    assert (Hh : heap wa = heap w) by (rewrite Ha, H3, H2; reflexivity).
    unfold chunk_bytes in Ec. apply bind_inv in Ec. destruct Ec as ([rcc nc] & wc & Ec1 & Ec).
    unfold rd_item in Ec1. rewrite Hh in Ec1. destruct (heap w c) as [[rc1 n1|sz]|] eqn:Ecc; try discriminate Ec1.
    injection Ec1 as -> -> <-. cbn [snd] in Ec.
    destruct nc as [| | |text0 data bytes|text0 ? ? ? ?| | |]; try discriminate Ec;
      destruct (Bool.eqb_spec text0 text) as [->|Ne]; try discriminate Ec.
    apply bind_inv in Ec. destruct Ec as (u5 & w5 & E5 & _). apply str_guard_inv in E5. cbn [heap] in E5.
    split; [|eauto].
    exists rcc, (NStr text data bytes). split; [exact Ecc|]. split; [eapply B; exact Ecc|].
    apply E5.
  - apply bind_inv in H. destruct H as (u & w2 & E2 & H). apply guard_inv in E2. destruct E2 as [H2 G2].
    apply bind_inv in H. destruct H as (xs & w3 & E3 & _).
    destruct (mapM_each (abs f) (abs_keeps f) _ _ _ _ E3) as [_ F]. split; [exact G2|].
    eapply Forall_impl; [|exact F]. intros e (wa & y & wb & Ha & Ee).
    eapply IH'; [|exact Ee]. rewrite Ha, H2. reflexivity.
  - apply bind_inv in H. destruct H as (u & w2 & E2 & H). apply guard_inv in E2. destruct E2 as [H2 G2].
    apply bind_inv in H. destruct H as (xs & w3 & E3 & _).
    match type of E3 with mapM ?g _ _ = _ => assert (Hg : forall x wx y wy, g x wx = Ret y wy -> heap wy = heap wx) end.
    { intros [k0 ov] wx y wy Hx. cbn [fst snd] in Hx. apply bind_inv in Hx. destruct Hx as (kt & wk & Ek & Hx).
      pose proof (abs_keeps _ _ _ _ _ Ek) as Hk. destruct ov as [v0|]; [|discriminate Hx].
      apply bind_inv in Hx. destruct Hx as (vt & wv & Ev & Hx). pose proof (abs_keeps _ _ _ _ _ Ev) as Hv.
      unfold ret in Hx. injection Hx as _ <-. congruence. }
    destruct (mapM_each _ Hg _ _ _ _ E3) as [_ F]. split; [exact G2|].
    eapply Forall_impl; [|exact F]. intros [k0 ov] (wa & y & wb & Ha & Ee). cbn [fst snd] in *.
    assert (Hh : heap wa = heap w) by (rewrite Ha, H2; reflexivity).
    apply bind_inv in Ee. destruct Ee as (kt & wk & Ek & Ee). pose proof (abs_keeps _ _ _ _ _ Ek) as Hk.
    split; [eapply IH'; [exact Hh|exact Ek]|]. destruct ov as [v0|]; [|discriminate Ee].
    apply bind_inv in Ee. destruct Ee as (vt & wv & Ev & _).
    exists v0. split; [reflexivity|]. eapply IH'; [|exact Ev]. congruence.
  - apply bind_inv in H. destruct H as (xt & wx & Ex & _). exists x. split; [reflexivity|].
    eapply IH'; [|exact Ex]. reflexivity.
  - discriminate H.
Qed.

(* more fuel does not change what [abs] returns *)
Definition le_m {A} (m m' : M A) : Prop := forall w a w', m w = Ret a w' -> m' w = Ret a w'.

Lemma le_refl {A} (m : M A) : le_m m m.
Proof. intros w a w' H. exact H. Qed.

Lemma le_bind {A B} (m m' : M A) (k k' : A -> M B) :
  le_m m m' -> (forall a, le_m (k a) (k' a)) -> le_m (bind m k) (bind m' k').
Proof.
  intros Hm Hk w b w' H. apply bind_inv in H. destruct H as (a & w1 & E1 & E2).
  unfold bind. rewrite (Hm _ _ _ E1). apply Hk, E2.
Qed.

Lemma le_mapM {A B} (g g' : A -> M B) l : (forall x, le_m (g x) (g' x)) -> le_m (mapM g l) (mapM g' l).
Proof.
  intros H. induction l as [|x l IH]; cbn [mapM]; [apply le_refl|].
  apply le_bind; [apply H|]. intros y. apply le_bind; [exact IH|]. intros ys. apply le_refl.
Qed.

Lemma abs_unfold f a :
  abs (S f) a =
    (c <- rd_item a ;;
     match snd c with
     | NInt neg w v => ret (if neg then INegint w v else IUint w v)
     | NFloat w b => ret (IFloat w b)
     | NCtrl v => ret (ICtrl v)
     | NStr text data bytes =>
         (if len bytes =? 0 then ret tt else touch_data false data) ;;;
         ret (if text then IText bytes else IBytes bytes)
     | NChunked text hdr arr _ chunks =>
         touch_data false (Some hdr) ;;;
         (match chunks with [] => ret tt | _ => touch_data false arr end) ;;;
         cs <- mapM (chunk_bytes text) chunks ;;
         ret (if text then ITextI cs else IBytesI cs)
     | NArr indef data _ elems =>
         (match elems with [] => ret tt | _ => touch_data false data end) ;;;
         xs <- mapM (abs f) elems ;; ret (IArray indef xs)
     | NMap indef data _ pairs =>
         (match pairs with [] => ret tt | _ => touch_data false data end) ;;;
         kvs <- mapM (fun kv =>
                  k <- abs f (fst kv) ;;
                  match snd kv with
                  | Some v => v' <- abs f v ;; ret (k, v')
                  | None => fail FNull
                  end) pairs ;;
         ret (IMap indef kvs)
     | NTag v (Some x) => x' <- abs f x ;; ret (ITag v x')
     | NTag _ None => fail FNull
     end).
Proof. reflexivity. Qed.

Lemma abs_mono : forall f a, le_m (abs f a) (abs (S f) a).
Proof.
  induction f as [|f IH]; intros a; [intros w t w' H; discriminate H|].
  rewrite (abs_unfold (S f) a), (abs_unfold f a).
  apply le_bind; [apply le_refl|]. intros [rc n]. cbn [snd].
  destruct n as [neg iw v|fw bits|v|text data bytes|text hdr arr cap chunks|indef data al elems|indef data al pairs|v [x|]];
    try apply le_refl.
  - apply le_bind; [apply le_refl|]. intros _. apply le_bind; [|intros xs; apply le_refl].
    apply le_mapM. intros x. apply IH.
  - apply le_bind; [apply le_refl|]. intros _. apply le_bind; [|intros xs; apply le_refl].
    apply le_mapM. intros [k ov]. cbn [fst snd]. apply le_bind; [apply IH|]. intros kt.
    destruct ov as [v|]; [|apply le_refl]. apply le_bind; [apply IH|]. intros vt. apply le_refl.
  - apply le_bind; [apply IH|]. intros xt. apply le_refl.
Qed.

(* C11 for any readable source: if the source abstracts to the tree [t] then cbor_copy, unless the
   allocator refuses a request, yields a fresh item that abstracts to [t] as well *)
Theorem C11_copy_readable refuse fuel a w own ownd t w1 :
  Inv own ownd [] w -> rc_bounded (heap w) -> abs fuel a w = Ret t w1 ->
  exists r w', copy refuse (S fuel) a w = Ret r w' /\
    (forall b, b < next w -> heap w' b = heap w b) /\
    match r with
    | None => (forall b, heap w' b = heap w b) /\ Inv own ownd [] w'
    | Some a' =>
        next w <= a' /\
        (exists w2, abs (S fuel) a' w' = Ret t w2) /\
        (exists w2, abs (S fuel) a w' = Ret t w2) /\
        (forall b, reach w' a' b -> next w <= b) /\ (forall b, reach w' a b -> b < next w) /\
        (forall b rc n, next w <= b -> heap w' b = Some (CItem rc n) -> rc = 1) /\
        Inv (fun x => if x =? a' then 1 else own x) ownd [] w'
    end.
Proof.
  intros I B Ht. pose proof (abs_shaped fuel a w t w1 B Ht) as Sh.
  destruct (copy_spec refuse (S fuel) a w own ownd I Sh) as (r & w' & E & _ & P2 & P).
  exists r, w'. split; [exact E|]. split; [exact P2|]. destruct r as [a'|].
  - destruct P as (Q1 & _ & Q3 & _ & Q5 & Q6 & Q7 & Q8 & _).
    pose proof (abs_mono fuel a w t w1 Ht) as Ht'.
    split; [exact Q1|]. split; [apply (Q7 t w1 Ht')|]. split.
    { eapply C17_frame; [|exact Ht']. intros b Rb. symmetry. apply P2.
      eapply reach_old; [eapply Inv_oldclosed; exact I| |exact Rb].
      eapply shaped_lt; eassumption. }
    split; [exact Q5|]. split; [exact Q6|]. split; [exact Q3|exact Q8].
  - destruct P as (_ & Q2 & Q3). auto.
Qed.

(* ------------------------------------------------------------------------------------------ *)
(* 15. non-vacuity: concrete worlds, with and without refusals                                  *)
(* ------------------------------------------------------------------------------------------ *)

Definition data_liveb (h : addr -> option cell) (p : option addr) : bool :=
  match p with Some d => match h d with Some (CData _) => true | _ => false end | None => false end.

Fixpoint shapedb (f : nat) (h : addr -> option cell) (a : addr) : bool :=
  match f with
  | O => false
  | S f' =>
    match h a with
    | Some (CItem rc n) =>
        (rc <? W64) &&
        match n with
        | NInt _ _ _ | NFloat _ _ | NCtrl _ => true
        | NStr _ data bytes => (len bytes =? 0) || data_liveb h data
        | NChunked text _ _ _ chunks =>
            forallb (fun c => shapedb f' h c &&
                              match h c with Some (CItem _ (NStr t _ _)) => Bool.eqb t text | _ => false end) chunks
        | NArr _ data _ elems =>
            ((match elems with [] => true | _ => false end) || data_liveb h data) && forallb (shapedb f' h) elems
        | NMap _ data _ pairs =>
            ((match pairs with [] => true | _ => false end) || data_liveb h data) &&
            forallb (fun kv => shapedb f' h (fst kv) &&
                               match snd kv with Some v => shapedb f' h v | None => false end) pairs
        | NTag _ (Some x) => shapedb f' h x
        | NTag _ None => false
        end
    | _ => false
    end
  end.

Lemma data_liveb_ok h p : data_liveb h p = true -> data_live h p.
Proof.
  destruct p as [d|]; [|discriminate]. cbn [data_liveb]. destruct (h d) as [[rc n|sz]|] eqn:E; try discriminate.
  intros _. exists d, sz. auto.
Qed.

Lemma shapedb_ok : forall f h a, shapedb f h a = true -> shaped f h a.
Proof.
  induction f as [|f IH]; intros h a H; [discriminate H|]. cbn [shapedb] in H.
  destruct (h a) as [[rc n|sz]|] eqn:E; try discriminate H.
  apply andb_true_iff in H. destruct H as [R H]. apply N.ltb_lt in R.
  exists rc, n. split; [exact E|]. split; [exact R|].
  destruct n as [neg iw v|fw bits|v|text data bytes|text hdr arr cap chunks|indef data al elems|indef data al pairs|v [x|]].
  - exact I. - exact I. - exact I.
  - apply orb_true_iff in H. destruct H as [H|H]; [left; apply N.eqb_eq, H|right; apply data_liveb_ok, H].
  - apply Forall_forall. intros c Hc. rewrite forallb_forall in H. specialize (H c Hc).
    apply andb_true_iff in H. destruct H as [H1 H2]. split; [apply IH, H1|].
    destruct (h c) as [[rcc nc|szc]|]; try discriminate H2. destruct nc as [| | |t dc bs| | | |]; try discriminate H2.
    apply Bool.eqb_prop in H2. subst t. eauto.
  - apply andb_true_iff in H. destruct H as [H1 H2]. split.
    + apply orb_true_iff in H1. destruct H1 as [H1|H1]; [left; destruct elems; [reflexivity|discriminate]|right; apply data_liveb_ok, H1].
    + apply Forall_forall. intros c Hc. apply IH. rewrite forallb_forall in H2. apply H2, Hc.
  - apply andb_true_iff in H. destruct H as [H1 H2]. split.
    + apply orb_true_iff in H1. destruct H1 as [H1|H1]; [left; destruct pairs; [reflexivity|discriminate]|right; apply data_liveb_ok, H1].
    + apply Forall_forall. intros [k ov] Hc. rewrite forallb_forall in H2. specialize (H2 _ Hc). cbn [fst snd] in *.
      apply andb_true_iff in H2. destruct H2 as [K V]. split; [apply IH, K|].
      destruct ov as [v0|]; [|discriminate V]. exists v0. split; [reflexivity|apply IH, V].
  - exists x. split; [reflexivity|apply IH, H].
  - discriminate H.
Qed.

Definition nvr : N -> N -> bool := HRef_proofs.never.

(* (a) an indefinite array of two strings *)
Definition exA_prog : M addr :=
  s1 <- (build_string nvr true [104; 105] >>= must) ;;
  s2 <- (build_string nvr false [1; 2; 3] >>= must) ;;
  ar <- (new_indefinite_array nvr >>= must) ;;
  array_push nvr ar s1 ;;; array_push nvr ar s2 ;;;
  decref s1 ;;; decref s2 ;;; ret ar.
Definition exA : world := world_of exA_prog.

Example exA_shape :
  next exA = 8 /\ nreq exA = 7 /\
  map (heap exA) [1; 2; 3; 4; 5; 6; 7] =
    [Some (CItem 1 (NStr true (Some 2) [104; 105])); Some (CData 2);
     Some (CItem 1 (NStr false (Some 4) [1; 2; 3])); Some (CData 3);
     Some (CItem 1 (NArr true (Some 7) 2 [1; 3])); None; Some (CData 16)].
Proof. vm_compute. repeat split. Qed.

Example exA_inv : Inv (fun x => if x =? 5 then 1 else 0) (fun _ => 0) [] exA.
Proof. apply Inv_check.
  - heap_above.
  - intros a Ha. change (next exA) with 8 in Ha. cbn [pend tofree]. destruct (N.eqb_spec a 5); [lia|]. auto.
  - vm_compute. reflexivity.
  - vm_compute. reflexivity.
  - vm_compute. reflexivity.
Qed.

Example exA_shaped : shaped 2 (heap exA) 5.
Proof. apply shapedb_ok. vm_compute. reflexivity. Qed.

(* the copy makes requests 7 (array item), 8 9 (first string), 10 (slot block), 11 12 (second string),
   13 (slot block grows).  Refusing any one of them yields NULL, the heap as it was (cells 1-7, counts
   included), and nothing live above: *)
Definition exA_failed (k : N) : Prop :=
  match copy (fun idx _ => idx =? k) 2 5 exA with
  | Ret r w' =>
      r = None /\
      map (heap w') [1; 2; 3; 4; 5; 6; 7] = map (heap exA) [1; 2; 3; 4; 5; 6; 7] /\
      map (heap w') [8; 9; 10; 11; 12; 13; 14; 15; 16] = repeat None 9 /\
      live_count w' = live_count exA
  | Fault _ => False
  end.
Example exA_refusals :
  exA_failed 7 /\ exA_failed 8 /\ exA_failed 9 /\ exA_failed 10 /\ exA_failed 11 /\ exA_failed 12 /\ exA_failed 13.
Proof. vm_compute. repeat split. Qed.

(* e.g. request 11 (the item of the second string) refused: the partial result — array 8 with its slot
   block 11 holding the copy 9/10 of the first string — is released, children first *)
Example exA_refused_11_trace :
  match copy (fun idx _ => idx =? 11) 2 5 exA with
  | Ret r w' => r = None /\
      firstn 6 (trace w') = [EvFree (Some 8); EvFree (Some 11); EvFree (Some 9); EvFree (Some 10);
                             EvMalloc 48 None; EvRealloc None 8 (Some 11)]
  | Fault _ => False
  end.
Proof. vm_compute. repeat split. Qed.

(* without refusal: a fresh, equal tree; every count is 1; the source is untouched *)
Example exA_copied :
  match copy nvr 2 5 exA with
  | Ret r w' =>
      r = Some 8 /\
      map (heap w') [1; 2; 3; 4; 5; 6; 7] = map (heap exA) [1; 2; 3; 4; 5; 6; 7] /\
      map (heap w') [8; 9; 10; 11; 12; 13; 14] =
        [Some (CItem 1 (NArr true (Some 14) 2 [9; 12])); Some (CItem 1 (NStr true (Some 10) [104; 105]));
         Some (CData 2); None; Some (CItem 1 (NStr false (Some 13) [1; 2; 3])); Some (CData 3); Some (CData 16)] /\
      match abs 2 8 w', abs 2 5 exA with
      | Ret t _, Ret t0 _ => t = t0 /\ t = IArray true [IText [104; 105]; IBytes [1; 2; 3]]
      | _, _ => False
      end
  | Fault _ => False
  end.
Proof. vm_compute. repeat split. Qed.

(* the theorem applies to this world, for every oracle *)
Example exA_theorem refuse :
  exists r w', copy refuse 2 5 exA = Ret r w' /\
    match r with
    | None => forall b, heap w' b = heap exA b
    | Some a' => 8 <= a' /\ exists t w1 w2, abs 2 5 exA = Ret t w1 /\ abs 2 a' w' = Ret t w2
    end.
Proof.
  destruct (copy_spec refuse 2 5 exA _ _ exA_inv exA_shaped) as (r & w' & E & _ & _ & P).
  exists r, w'. split; [exact E|]. destruct r as [a'|].
  - destruct P as (Q1 & _ & _ & _ & _ & _ & Q7 & _). split; [exact Q1|].
    destruct (abs 2 5 exA) as [t w1|k] eqn:Ea; [|vm_compute in Ea; discriminate Ea].
    destruct (Q7 t w1 eq_refl) as [w2 E2]. eauto.
  - apply P.
Qed.

(* (b) every node kind, shared subtrees, a partially filled definite array *)
Definition exB_prog : M addr :=
  s1 <- (build_string nvr true [104; 105] >>= must) ;;
  cs <- (new_indefinite_string nvr false >>= must) ;;
  c1 <- (build_string nvr false [1; 2; 3] >>= must) ;;
  add_chunk nvr cs c1 ;;; decref c1 ;;;
  c2 <- (build_string nvr false [] >>= must) ;;
  add_chunk nvr cs c2 ;;; decref c2 ;;;
  m <- (new_definite_map nvr 2 >>= must) ;;
  k <- (build_int nvr false I8 1 >>= must) ;;
  map_add nvr m k s1 ;;; map_add nvr m s1 cs ;;;
  decref k ;;; decref s1 ;;; decref cs ;;;
  t <- (build_tag nvr 24 m >>= must) ;;
  decref m ;;;
  ar <- (new_indefinite_array nvr >>= must) ;;
  array_push nvr ar t ;;; array_push nvr ar t ;;;
  fl <- (build_float nvr F64 0 >>= must) ;;
  array_push nvr ar fl ;;; decref fl ;;;
  im <- (new_indefinite_map nvr >>= must) ;;
  array_push nvr ar im ;;; map_add nvr im t fl ;;; decref im ;;;
  da <- (new_definite_array nvr 3 >>= must) ;;
  array_push nvr ar da ;;; array_push nvr da fl ;;; decref da ;;;
  decref t ;;;
  ret ar.
Definition exB : world := world_of exB_prog.

Example exB_root : match exB_prog world0 with Ret r w => r = 15 /\ next w = 25 /\ nreq w = 24 | Fault _ => False end.
Proof. vm_compute. repeat split. Qed.

Example exB_inv : Inv (fun x => if x =? 15 then 1 else 0) (fun _ => 0) [] exB.
Proof. apply Inv_check.
  - heap_above.
  - intros a Ha. change (next exB) with 25 in Ha. cbn [pend tofree]. destruct (N.eqb_spec a 15); [lia|]. auto.
  - vm_compute. reflexivity.
  - vm_compute. reflexivity.
  - vm_compute. reflexivity.
Qed.

Example exB_shaped : shaped 6 (heap exB) 15.
Proof. apply shapedb_ok. vm_compute. reflexivity. Qed.

Definition rangeN (lo : N) (n : nat) : list N := map (fun i => lo + N.of_nat i) (seq 0 n).

(* the copy makes 60 requests (indices 24 .. 83); refusing any single one of them gives NULL, leaves the
   25 pre-existing addresses as they were and nothing live among the next 100 addresses *)
Definition exB_failed (k : N) : bool :=
  match copy (fun idx _ => idx =? k) 6 15 exB with
  | Ret None w' =>
      forallb (fun b => match heap w' b, heap exB b with
                        | Some (CItem r n), Some (CItem r0 n0) => r =? r0
                        | Some (CData s), Some (CData s0) => s =? s0
                        | None, None => true
                        | _, _ => false
                        end) (rangeN 0 25) &&
      forallb (fun b => match heap w' b with None => true | Some _ => false end) (rangeN 25 100) &&
      (live_count w' =? live_count exB)
  | _ => false
  end.
Example exB_refusals : forallb exB_failed (rangeN 24 60) = true.
Proof. vm_compute. reflexivity. Qed.

Example exB_copied :
  match copy nvr 6 15 exB with
  | Ret (Some a') w' =>
      a' = 25 /\ nreq w' = 84 /\
      forallb (fun b => match heap w' b with Some (CItem r _) => r =? 1 | _ => true end) (rangeN 25 100) = true /\
      match abs 6 a' w', abs 6 15 exB with
      | Ret t _, Ret t0 _ =>
          t = t0 /\
          t = IArray true
                [ITag 24 (IMap false [(IUint I8 1, IText [104; 105]); (IText [104; 105], IBytesI [[1; 2; 3]; []])]);
                 ITag 24 (IMap false [(IUint I8 1, IText [104; 105]); (IText [104; 105], IBytesI [[1; 2; 3]; []])]);
                 IFloat F64 0;
                 IMap true [(ITag 24 (IMap false [(IUint I8 1, IText [104; 105]);
                                                  (IText [104; 105], IBytesI [[1; 2; 3]; []])]), IFloat F64 0)];
                 IArray false [IFloat F64 0]]
      | _, _ => False
      end
  | _ => False
  end.
Proof. vm_compute. repeat split. Qed.

(* the copy of the partially filled definite array (capacity 3, one element) has capacity 1: [abs] does
   not see the capacity *)
Example exB_definite_capacity :
  match copy nvr 6 15 exB with
  | Ret (Some a') w' =>
      exists d d', heap exB 22 = Some (CItem 1 (NArr false (Some d) 3 [18])) /\
                   heap w' 81 = Some (CItem 1 (NArr false (Some d') 1 [83]))
  | _ => False
  end.
Proof. vm_compute. eexists. eexists. split; reflexivity. Qed.

(* the hypothesis "reference counts fit a size_t" is needed for the source to be left intact: the transient
   cbor_incref on an array element with count 2^64 (not a size_t) would wrap *)
Example rc_bound_needed :
  let w := mkworld (upd (upd (upd (fun _ => None) 1 (Some (CItem W64 (NCtrl 20))))
                                  2 (Some (CItem 1 (NArr true (Some 3) 1 [1]))))
                             3 (Some (CData 8))) 4 0 [] [] in
  match copy nvr 2 2 w with
  | Ret _ w' => heap w' 1 = Some (CItem 0 (NCtrl 20))
  | Fault _ => False
  end.
Proof. vm_compute. reflexivity. Qed.

(* ------------------------------------------------------------------------------------------ *)
Print Assumptions copy_spec_wp.
Print Assumptions copy_spec.
Print Assumptions copy_never_faults.
Print Assumptions C06_copy_clean_failure.
Print Assumptions C11_release_copy.
Print Assumptions C11_release_source.
Print Assumptions copy_h_spec.
Print Assumptions decref_footprint.
Print Assumptions abs_shaped.
Print Assumptions abs_mono.
Print Assumptions C11_copy_readable.
Print Assumptions exA_refusals.
Print Assumptions exA_theorem.
Print Assumptions exB_refusals.
Print Assumptions exB_copied.
