(* The heap model H (HItems.v, HOps.v) behaves according to the hand-written plans of HPlans.v.

   Hand proofs inside the model world; they do not mention generated text.  Together with
   Bridge_effects.v (generated plan = hand-written plan, by automation, re-proved on every run)
   this gives the guards and the size arithmetic of H a translator tie:
       C source --effects.py--> Gen_effects.G<fn> ==Bridge_effects== HPlans.<fn>_plan
                                                  ~~HPlans_proofs~~> HItems.<fn>.

   What "follows the plan" means, for an operation run in a world [w]:
     - the oracle of an allocator call is answered by the model's allocator ([multiple_ok],
       [malloc_ok]: the overflow guard of _cbor_(re)alloc_multiple lets the request through and
       [refuse] grants it);
     - the operation returns the plan's [p_ret];
     - afterwards the item's capacity / size are the plan's [p_fields];
     - the allocator trace grew by exactly the plan's [p_reqs] ([req_events]);
     - the new element's reference count went up by the number of [Incref (PArg 1)] in [p_effs];
     - when the plan refuses, the heap is unchanged. *)
From CB Require Import Word Word_proofs PMem PMem_proofs HHeap HItems HOps HCont_proofs GenLeafTypes HPlans.
From Coq Require Import Lia ZArith NArith List Bool String ZifyBool ZifyN ZifyNat.
Import ListNotations.
Local Open Scope string_scope.
Local Open Scope list_scope.
Local Open Scope N_scope.
Ltac Zify.zify_post_hook ::= Z.div_mod_to_equations.
Set Default Proof Using "Type".

(* ------------------------------------------------------------------ *)
(* 0. reading a plan                                                    *)

Definition ret_bool (p : plan) : bool := match p_ret p with RZ z => negb (z =? 0)%Z | _ => false end.
Definition ret_null (p : plan) : bool := match p_ret p with RP PNull => true | _ => false end.
Definition fieldN (name : string) (p : plan) : N :=
  match find (fun kv => String.eqb (fst kv) name) (p_fields p) with
  | Some kv => Z.to_N (snd kv)
  | None => 0
  end.
Definition is_incref_arg (i : nat) (e : eff) : bool :=
  match e with Incref (PArg j) => Nat.eqb i j | _ => false end.
Definition increfs_arg (i : nat) (p : plan) : N := len (filter (is_incref_arg i) (p_effs p)).
Definition is_decref (e : eff) : bool := match e with Decref _ => true | _ => false end.
Definition bump (k rc : N) : N := if k =? 0 then rc else wrap64 (rc + k).

(* the allocator events a plan's requests stand for, oldest first.  [old] is the entry value of
   the one pointer field the plan hands to realloc / free, [ress] the results of the allocator
   calls in order (PNew k = the k-th); a request refused by the overflow guard of
   _cbor_(re)alloc_multiple never reaches the allocator but still consumes its oracle *)
Definition ptr_val (old : option addr) (all : list (option addr)) (p : ptr) : option addr :=
  match p with PNew k => nth k all None | PNull => None | _ => old end.
Fixpoint plan_trace (old : option addr) (all ress : list (option addr)) (rs : list req) : list event :=
  match rs with
  | [] => []
  | r :: rs' =>
      let res := hd None ress in
      match r with
      | ReqMalloc b => EvMalloc (Z.to_N b) res :: plan_trace old all (tl ress) rs'
      | ReqRealloc p b => EvRealloc (ptr_val old all p) (Z.to_N b) res :: plan_trace old all (tl ress) rs'
      | ReqAllocMultiple isz cnt =>
          match alloc_multiple_req 64 (Z.to_N isz) (Z.to_N cnt) with Some b => [EvMalloc b res] | None => [] end
          ++ plan_trace old all (tl ress) rs'
      | ReqReallocMultiple p isz cnt =>
          match alloc_multiple_req 64 (Z.to_N isz) (Z.to_N cnt) with
          | Some b => [EvRealloc (ptr_val old all p) b res] | None => [] end
          ++ plan_trace old all (tl ress) rs'
      | ReqFree p => EvFree (ptr_val old all p) :: plan_trace old all ress rs'
      | ReqCall _ _ => plan_trace old all ress rs'
      end
  end.
(* traces are kept newest first *)
Definition req_events_seq (old : option addr) (ress : list (option addr)) (rs : list req) : list event :=
  rev (plan_trace old ress ress rs).
Definition req_events (old res : option addr) (rs : list req) : list event := req_events_seq old [res] rs.

Lemma fieldN_arr_allocated r al d e q f : fieldN "allocated" (mkplan r (arr_fields al d e) q f) = al.
Proof. unfold fieldN, arr_fields, zN. cbn. apply N2Z.id. Qed.
Lemma fieldN_arr_end_ptr r al d e q f : fieldN "end_ptr" (mkplan r (arr_fields al d e) q f) = e.
Proof. unfold fieldN, arr_fields, zN. cbn. apply N2Z.id. Qed.
Lemma fieldN_chk_capacity r c n q f : fieldN "chunk_capacity" (mkplan r (chk_fields c n) q f) = c.
Proof. unfold fieldN, chk_fields, zN. cbn. apply N2Z.id. Qed.
Lemma fieldN_chk_count r c n q f : fieldN "chunk_count" (mkplan r (chk_fields c n) q f) = n.
Proof. unfold fieldN, chk_fields, zN. cbn. apply N2Z.id. Qed.

(* ------------------------------------------------------------------ *)
(* 1. the shape of an append plan, case by case                          *)

Section AppendShape.
  Variable fields : N -> N -> list (string * Z).
  Variable owner : ptr.
  Variable fld : string.
  Variable isz : N.
  Variable stores : ptr -> Z -> list eff.
  Notation ap := (append_plan fields owner fld isz stores).

  Lemma append_room g cap cnt ok :
    ap g false cap cnt ok =
    mkplan (RZ 1) (fields cap (wrap64 (cnt + 1))) []
           (Incref (PArg 1) :: stores (PField owner fld) (zN cnt) ++ []).
  Proof. reflexivity. Qed.

  Lemma append_fixed cap cnt ok : ap false true cap cnt ok = mkplan (RZ 0) (fields cap cnt) [] [].
  Proof. reflexivity. Qed.

  Lemma append_guard cap cnt ok :
    grow_capacity 64 cap = None -> ap true true cap cnt ok = mkplan (RZ 0) (fields cap cnt) [] [].
  Proof. intros G. unfold append_plan. cbn [negb]. rewrite G. reflexivity. Qed.

  Lemma append_refused cap cnt c :
    grow_capacity 64 cap = Some c ->
    ap true true cap cnt false =
    mkplan (RZ 0) (fields cap cnt) [ReqReallocMultiple (PField owner fld) (zN isz) (zN c)] [].
  Proof. intros G. unfold append_plan. cbn [negb]. rewrite G. reflexivity. Qed.

  Lemma append_granted cap cnt c :
    grow_capacity 64 cap = Some c ->
    ap true true cap cnt true =
    mkplan (RZ 1) (fields c (wrap64 (cnt + 1))) [ReqReallocMultiple (PField owner fld) (zN isz) (zN c)]
           (Incref (PArg 1) :: stores (PNew 0) (zN cnt) ++ [SetPtr owner fld (PNew 0)]).
  Proof. intros G. unfold append_plan. cbn [negb]. rewrite G. reflexivity. Qed.
End AppendShape.

Lemma grow_req_cases isz al :
  grow_req isz al =
  match grow_capacity 64 al with
  | None => None
  | Some c => match alloc_multiple_req 64 isz c with Some b => Some (c, b) | None => None end
  end.
Proof. reflexivity. Qed.

Lemma req_events_multiple old res o f isz c :
  req_events old res [ReqReallocMultiple (PField o f) (zN isz) (zN c)] =
  match alloc_multiple_req 64 isz c with Some b => [EvRealloc old b res] | None => [] end.
Proof.
  unfold req_events, req_events_seq, zN. cbn [plan_trace ptr_val hd tl]. rewrite !N2Z.id, app_nil_r.
  destruct (alloc_multiple_req 64 isz c); reflexivity.
Qed.

(* C20 on plans: the only request an append ever makes is one _cbor_realloc_multiple of the slot
   size times max 1 (2 * capacity) slots, a capacity that strictly grew and did not wrap; and when
   the model's allocator is asked ([multiple_ok]) the byte count is the exact product *)
Theorem append_plan_requests fields owner fld isz stores g full cap cnt ok r :
  cap < 2 ^ 64 ->
  In r (p_reqs (append_plan fields owner fld isz stores g full cap cnt ok)) ->
  exists c, r = ReqReallocMultiple (PField owner fld) (zN isz) (zN c) /\
            p_reqs (append_plan fields owner fld isz stores g full cap cnt ok) = [r] /\
            c = N.max 1 (2 * cap) /\ cap < c /\ c < 2 ^ 64 /\ full = true /\ g = true.
Proof.
  intros H64. unfold append_plan.
  destruct full; cbn [negb]; [|intros []].
  destruct g; cbn [negb]; [|intros []].
  destruct (grow_capacity 64 cap) as [c|] eqn:G; [|intros []].
  destruct (grow_spec 64 cap c ltac:(lia) H64 G) as (Hc & Hlt & Hc64).
  destruct ok; cbn [p_reqs In]; (intros [<-|[]]; exists c; repeat split; assumption).
Qed.

Theorem multiple_request_exact isz c b :
  isz < 2 ^ 64 -> c < 2 ^ 64 -> alloc_multiple_req 64 isz c = Some b -> b = isz * c /\ b < 2 ^ 64.
Proof. apply alloc_multiple_exact. Qed.

Lemma set_nth_length {A} (l : list A) i x : List.length (set_nth l i x) = List.length l.
Proof. revert i; induction l as [|y r IH]; intros [|j]; cbn [set_nth List.length]; auto. Qed.

Section Follows.
Variable refuse : N -> N -> bool.

(* the answers of the model's allocator to the oracles of a plan, at request counter [nr] *)
Definition malloc_ok (nr bytes : N) : bool := negb (refuse nr bytes).
Definition multiple_ok (nr isz cnt : N) : bool :=
  match alloc_multiple_req 64 isz cnt with Some b => negb (refuse nr b) | None => false end.
(* the oracle of the one growth request of an append *)
Definition grow_ok (nr isz capacity : N) : bool :=
  match grow_capacity 64 capacity with Some c => multiple_ok nr isz c | None => false end.

(* ------------------------------------------------------------------ *)
(* 2. cbor_array_push                                                   *)

Theorem array_push_follows_plan a x w rc indef data allocated elems rcx nx :
  wf w ->
  heap w a = Some (CItem rc (NArr indef data allocated elems)) ->
  block_inv w data allocated ->
  heap w x = Some (CItem rcx nx) ->
  a <> x ->
  allocated < 2 ^ 64 -> len elems <= allocated ->
  let p := array_push_plan (negb indef) (len elems) allocated (grow_ok (nreq w) SZ_PTR allocated) in
  let elems' := if ret_bool p then elems ++ [x] else elems in
  exists w' data',
    array_push refuse a x w = Ret (ret_bool p) w' /\
    heap w' a = Some (CItem rc (NArr indef data' (fieldN "allocated" p) elems')) /\
    len elems' = fieldN "end_ptr" p /\
    heap w' x = Some (CItem (bump (increfs_arg 1 p) rcx) nx) /\
    trace w' = req_events data (if ret_bool p then Some (next w) else None) (p_reqs p) ++ trace w /\
    (ret_bool p = false -> same_heap w w').
Proof.
  intros Hwf Ha Hb Hx Hax H64 Hl64 p elems'. subst elems' p. unfold array_push_plan.
  destruct (N.leb_spec allocated (len elems)) as [Hfull|Hroom].
  2:{ (* room *)
    rewrite append_room. cbn [ret_bool p_ret Z.eqb negb p_reqs].
    rewrite fieldN_arr_allocated, fieldN_arr_end_ptr.
    assert (Hd : exists d sz, data = Some d /\ heap w d = Some (CData sz)).
    { destruct data as [d|]; [destruct Hb as [sz Hsz]; eauto | cbn [block_inv] in Hb; lia]. }
    destruct Hd as (d & sz & -> & Hd).
    eexists. exists (Some d). split.
    { destruct indef; [eapply push_indefinite_room | eapply push_definite_room]; eauto. }
    destruct (w_push_props a rc (NArr indef (Some d) allocated (elems ++ [x])) d x rcx nx w Hax)
      as (P1 & P2 & P3 & P4 & P5 & P6).
    split; [exact P1|]. split.
    { rewrite len_app. change (len [x]) with 1. rewrite wrap64_small; [reflexivity | rewrite W64_eq; lia]. }
    split; [exact P2|]. split; [exact P6|]. discriminate. }
  destruct indef; cbn [negb].
  2:{ (* definite and full: refused *)
    rewrite append_fixed. cbn [ret_bool p_ret Z.eqb negb p_reqs].
    rewrite fieldN_arr_allocated, fieldN_arr_end_ptr.
    eexists. exists data. split; [eapply push_definite_full; eauto|]. wsimpl.
    split; [exact Ha|]. split; [reflexivity|]. split; [exact Hx|]. split; [reflexivity|].
    intros _. split; reflexivity. }
  (* indefinite and full: growth *)
  pose proof (block_inv_ok _ _ _ Hb) as Hd.
  unfold grow_ok. destruct (grow_capacity 64 allocated) as [c|] eqn:G.
  2:{ rewrite append_guard by exact G. cbn [ret_bool p_ret Z.eqb negb p_reqs].
      rewrite fieldN_arr_allocated, fieldN_arr_end_ptr.
      eexists. exists data. split.
      { eapply push_indefinite_guard; eauto. rewrite grow_req_cases, G. reflexivity. }
      wsimpl. split; [exact Ha|]. split; [reflexivity|]. split; [exact Hx|]. split; [reflexivity|].
      intros _. split; reflexivity. }
  unfold multiple_ok. destruct (alloc_multiple_req 64 SZ_PTR c) as [bytes|] eqn:A.
  2:{ rewrite (append_refused _ _ _ _ _ _ _ c G). cbn [ret_bool p_ret Z.eqb negb p_reqs].
      rewrite fieldN_arr_allocated, fieldN_arr_end_ptr, req_events_multiple, A.
      eexists. exists data. split.
      { eapply push_indefinite_guard; eauto. rewrite grow_req_cases, G, A. reflexivity. }
      wsimpl. split; [exact Ha|]. split; [reflexivity|]. split; [exact Hx|]. split; [reflexivity|].
      intros _. split; reflexivity. }
  assert (GR : grow_req SZ_PTR allocated = Some (c, bytes)) by (rewrite grow_req_cases, G, A; reflexivity).
  destruct (refuse (nreq w) bytes) eqn:R; cbn [negb].
  - rewrite (append_refused _ _ _ _ _ _ _ c G). cbn [ret_bool p_ret Z.eqb negb p_reqs].
    rewrite fieldN_arr_allocated, fieldN_arr_end_ptr, req_events_multiple, A.
    eexists. exists data. split; [eapply push_indefinite_refused; eauto|]. wsimpl.
    split; [exact Ha|]. split; [reflexivity|]. split; [exact Hx|]. split; [reflexivity|].
    intros _. split; reflexivity.
  - rewrite (append_granted _ _ _ _ _ _ _ c G). cbn [ret_bool p_ret Z.eqb negb p_reqs].
    rewrite fieldN_arr_allocated, fieldN_arr_end_ptr, req_events_multiple, A.
    eexists. exists (Some (next w)). split; [eapply push_indefinite_granted; eauto|].
    destruct (w_push_grown_props a rc (NArr true (Some (next w)) c (elems ++ [x])) data bytes x rcx nx w
                _ _ Hwf Ha Hx Hax) as (P1 & P2 & P3 & P4 & P5 & P6 & P7 & P8 & P9).
    { intros d E. subst data. exact Hd. }
    destruct (grow_req_spec SZ_PTR allocated c bytes ltac:(unfold SZ_PTR; lia) H64 GR) as (Hc & Hlt & Hbytes & Hb64).
    split; [exact P1|]. split.
    { rewrite len_app. change (len [x]) with 1. rewrite wrap64_small; [reflexivity | rewrite W64_eq; unfold SZ_PTR in Hbytes; lia]. }
    split; [exact P2|]. split; [exact P8|]. discriminate.
Qed.

(* ------------------------------------------------------------------ *)
(* 3. _cbor_map_add_key                                                 *)

Theorem map_add_key_follows_plan a k w rc indef data allocated pairs rck nk :
  wf w ->
  heap w a = Some (CItem rc (NMap indef data allocated pairs)) ->
  block_inv w data allocated ->
  heap w k = Some (CItem rck nk) ->
  a <> k ->
  allocated < 2 ^ 64 -> len pairs <= allocated ->
  let p := map_add_key_plan (negb indef) (len pairs) allocated (grow_ok (nreq w) SZ_PAIR allocated) in
  let pairs' := if ret_bool p then pairs ++ [(k, None)] else pairs in
  exists w' data',
    map_add_key refuse a k w = Ret (ret_bool p) w' /\
    heap w' a = Some (CItem rc (NMap indef data' (fieldN "allocated" p) pairs')) /\
    len pairs' = fieldN "end_ptr" p /\
    heap w' k = Some (CItem (bump (increfs_arg 1 p) rck) nk) /\
    trace w' = req_events data (if ret_bool p then Some (next w) else None) (p_reqs p) ++ trace w /\
    (ret_bool p = false -> same_heap w w').
Proof.
  intros Hwf Ha Hb Hx Hax H64 Hl64 p pairs'. subst pairs' p. unfold map_add_key_plan.
  destruct (N.leb_spec allocated (len pairs)) as [Hfull|Hroom].
  2:{ rewrite append_room. cbn [ret_bool p_ret Z.eqb negb p_reqs].
    rewrite fieldN_arr_allocated, fieldN_arr_end_ptr.
    assert (Hd : exists d sz, data = Some d /\ heap w d = Some (CData sz)).
    { destruct data as [d|]; [destruct Hb as [sz Hsz]; eauto | cbn [block_inv] in Hb; lia]. }
    destruct Hd as (d & sz & -> & Hd).
    eexists. exists (Some d). split; [eapply add_key_room; eauto|].
    destruct (w_push_props a rc (NMap indef (Some d) allocated (pairs ++ [(k, None)])) d k rck nk w Hax)
      as (P1 & P2 & P3 & P4 & P5 & P6).
    split; [exact P1|]. split.
    { rewrite len_app. change (len [(k, @None addr)]) with 1.
      rewrite wrap64_small; [reflexivity | rewrite W64_eq; lia]. }
    split; [exact P2|]. split; [exact P6|]. discriminate. }
  destruct indef; cbn [negb].
  2:{ rewrite append_fixed. cbn [ret_bool p_ret Z.eqb negb p_reqs].
    rewrite fieldN_arr_allocated, fieldN_arr_end_ptr.
    eexists. exists data. split; [eapply add_key_definite_full; eauto|]. wsimpl.
    split; [exact Ha|]. split; [reflexivity|]. split; [exact Hx|]. split; [reflexivity|].
    intros _. split; reflexivity. }
  pose proof (block_inv_ok _ _ _ Hb) as Hd.
  unfold grow_ok. destruct (grow_capacity 64 allocated) as [c|] eqn:G.
  2:{ rewrite append_guard by exact G. cbn [ret_bool p_ret Z.eqb negb p_reqs].
      rewrite fieldN_arr_allocated, fieldN_arr_end_ptr.
      eexists. exists data. split.
      { eapply add_key_guard; eauto. rewrite grow_req_cases, G. reflexivity. }
      wsimpl. split; [exact Ha|]. split; [reflexivity|]. split; [exact Hx|]. split; [reflexivity|].
      intros _. split; reflexivity. }
  unfold multiple_ok. destruct (alloc_multiple_req 64 SZ_PAIR c) as [bytes|] eqn:A.
  2:{ rewrite (append_refused _ _ _ _ _ _ _ c G). cbn [ret_bool p_ret Z.eqb negb p_reqs].
      rewrite fieldN_arr_allocated, fieldN_arr_end_ptr, req_events_multiple, A.
      eexists. exists data. split.
      { eapply add_key_guard; eauto. rewrite grow_req_cases, G, A. reflexivity. }
      wsimpl. split; [exact Ha|]. split; [reflexivity|]. split; [exact Hx|]. split; [reflexivity|].
      intros _. split; reflexivity. }
  assert (GR : grow_req SZ_PAIR allocated = Some (c, bytes)) by (rewrite grow_req_cases, G, A; reflexivity).
  destruct (refuse (nreq w) bytes) eqn:R; cbn [negb].
  - rewrite (append_refused _ _ _ _ _ _ _ c G). cbn [ret_bool p_ret Z.eqb negb p_reqs].
    rewrite fieldN_arr_allocated, fieldN_arr_end_ptr, req_events_multiple, A.
    eexists. exists data. split; [eapply add_key_refused; eauto|]. wsimpl.
    split; [exact Ha|]. split; [reflexivity|]. split; [exact Hx|]. split; [reflexivity|].
    intros _. split; reflexivity.
  - rewrite (append_granted _ _ _ _ _ _ _ c G). cbn [ret_bool p_ret Z.eqb negb p_reqs].
    rewrite fieldN_arr_allocated, fieldN_arr_end_ptr, req_events_multiple, A.
    eexists. exists (Some (next w)). split; [eapply add_key_granted; eauto|].
    destruct (w_push_grown_props a rc (NMap true (Some (next w)) c (pairs ++ [(k, None)])) data bytes k rck nk w
                _ _ Hwf Ha Hx Hax) as (P1 & P2 & P3 & P4 & P5 & P6 & P7 & P8 & P9).
    { intros d E. subst data. exact Hd. }
    destruct (grow_req_spec SZ_PAIR allocated c bytes ltac:(unfold SZ_PAIR; lia) H64 GR) as (Hc & Hlt & Hbytes & Hb64).
    split; [exact P1|]. split.
    { rewrite len_app. change (len [(k, @None addr)]) with 1.
      rewrite wrap64_small; [reflexivity | rewrite W64_eq; unfold SZ_PAIR in Hbytes; lia]. }
    split; [exact P2|]. split; [exact P8|]. discriminate.
Qed.

(* ------------------------------------------------------------------ *)
(* 4. cbor_bytestring_add_chunk / cbor_string_add_chunk                  *)

Theorem add_chunk_follows_plan a x w rc text hdr hsz arr cap chunks rcx nx :
  wf w ->
  heap w a = Some (CItem rc (NChunked text hdr arr cap chunks)) ->
  heap w hdr = Some (CData hsz) ->
  block_inv w arr cap -> arr <> Some hdr ->
  heap w x = Some (CItem rcx nx) -> chunk_ok text nx ->
  a <> x ->
  cap < 2 ^ 64 -> len chunks <= cap ->
  let p := add_chunk_plan (len chunks) cap (grow_ok (nreq w) SZ_PTR cap) in
  let chunks' := if ret_bool p then chunks ++ [x] else chunks in
  exists w' arr',
    add_chunk refuse a x w = Ret (ret_bool p) w' /\
    heap w' a = Some (CItem rc (NChunked text hdr arr' (fieldN "chunk_capacity" p) chunks')) /\
    len chunks' = fieldN "chunk_count" p /\
    heap w' x = Some (CItem (bump (increfs_arg 1 p) rcx) nx) /\
    trace w' = req_events arr (if ret_bool p then Some (next w) else None) (p_reqs p) ++ trace w /\
    (ret_bool p = false -> same_heap w w').
Proof.
  intros Hwf Ha Hh Hb Hah Hx Hk Hax H64 Hle p chunks'. subst chunks' p. unfold add_chunk_plan.
  destruct (add_chunk_spec refuse a x w rc text hdr hsz arr cap chunks rcx nx Hwf Ha Hh Hb Hah Hx Hk Hax H64)
    as [Hroom Hfull].
  destruct (N.eqb_spec (len chunks) cap) as [E|NE].
  2:{ rewrite append_room. cbn [ret_bool p_ret Z.eqb negb p_reqs].
    rewrite fieldN_chk_capacity, fieldN_chk_count.
    destruct (Hroom NE ltac:(lia)) as (w' & R & P1 & P2 & P3 & P4 & P5 & P6).
    exists w', arr. split; [exact R|]. split; [exact P1|]. split.
    { rewrite len_app. change (len [x]) with 1. rewrite wrap64_small; [reflexivity | rewrite W64_eq; lia]. }
    split; [exact P2|]. split; [exact P6|]. discriminate. }
  specialize (Hfull E). rewrite grow_req_cases in Hfull.
  unfold grow_ok. destruct (grow_capacity 64 cap) as [c|] eqn:G.
  2:{ rewrite append_guard by exact G. cbn [ret_bool p_ret Z.eqb negb p_reqs].
      rewrite fieldN_chk_capacity, fieldN_chk_count.
      destruct Hfull as (w' & R & [Hh1 Hn1] & _ & T & _).
      exists w', arr. split; [exact R|]. rewrite Hh1.
      split; [exact Ha|]. split; [reflexivity|]. split; [exact Hx|]. split; [exact T|].
      intros _. split; assumption. }
  unfold multiple_ok. destruct (alloc_multiple_req 64 SZ_PTR c) as [bytes|] eqn:A.
  2:{ rewrite (append_refused _ _ _ _ _ _ _ c G). cbn [ret_bool p_ret Z.eqb negb p_reqs].
      rewrite fieldN_chk_capacity, fieldN_chk_count, req_events_multiple, A.
      destruct Hfull as (w' & R & [Hh1 Hn1] & _ & T & _).
      exists w', arr. split; [exact R|]. rewrite Hh1.
      split; [exact Ha|]. split; [reflexivity|]. split; [exact Hx|]. split; [exact T|].
      intros _. split; assumption. }
  destruct Hfull as (Hc & Hlt & Hbytes & Hb64 & Hfull).
  destruct (refuse (nreq w) bytes) eqn:R; cbn [negb].
  - rewrite (append_refused _ _ _ _ _ _ _ c G). cbn [ret_bool p_ret Z.eqb negb p_reqs].
    rewrite fieldN_chk_capacity, fieldN_chk_count, req_events_multiple, A.
    destruct Hfull as (w' & R' & [Hh1 Hn1] & _ & T & _).
    exists w', arr. split; [exact R'|]. rewrite Hh1.
    split; [exact Ha|]. split; [reflexivity|]. split; [exact Hx|]. split; [exact T|].
    intros _. split; assumption.
  - rewrite (append_granted _ _ _ _ _ _ _ c G). cbn [ret_bool p_ret Z.eqb negb p_reqs].
    rewrite fieldN_chk_capacity, fieldN_chk_count, req_events_multiple, A.
    destruct Hfull as (w' & R' & P1 & P2 & P3 & P4 & P5 & P6 & P7 & P8 & P9).
    exists w', (Some (next w)). split; [exact R'|]. split; [exact P1|]. split.
    { rewrite len_app. change (len [x]) with 1. rewrite wrap64_small; [reflexivity | rewrite W64_eq; lia]. }
    split; [exact P2|]. split; [exact P8|]. discriminate.
Qed.

(* ------------------------------------------------------------------ *)
(* 5. cbor_array_get / cbor_array_replace / cbor_array_set               *)

Theorem array_get_follows_plan a i w rc indef d sz allocated elems dst :
  heap w a = Some (CItem rc (NArr indef (Some d) allocated elems)) ->
  heap w d = Some (CData sz) ->
  (forall e, In e elems -> is_item w e) ->
  let p := array_get_plan allocated dst (len elems) i in
  (ret_null p = true ->
     p_effs p = [] /\
     exists w', array_get a i w = Ret None w' /\ same_heap w w' /\ trace w' = trace w) /\
  (ret_null p = false ->
     p_ret p = RP (PSlot (PField (PArg 0) "data") (Z.of_N i) "") /\
     p_effs p = [Incref (PSlot (PField (PArg 0) "data") (Z.of_N i) "")] /\
     exists e rce ne w',
       nth_error elems (N.to_nat i) = Some e /\ heap w e = Some (CItem rce ne) /\
       array_get a i w = Ret (Some e) w' /\
       heap w' e = Some (CItem (wrap64 (rce + len (p_effs p))) ne) /\ trace w' = trace w).
Proof. clear refuse.
  intros Ha Hd Hall p. subst p. unfold array_get_plan.
  destruct (get_spec a i w rc indef d sz allocated elems Ha Hd Hall) as [Hout Hin].
  destruct (N.leb_spec (len elems) i) as [L|L]; cbn [ret_null p_ret p_effs].
  - split; [|discriminate]. intros _. split; [reflexivity|].
    destruct (Hout L) as (w' & R & SH & _ & T & _). exists w'. auto.
  - split; [discriminate|]. intros _. split; [reflexivity|]. split; [reflexivity|].
    destruct (Hin L) as (e & rce & ne & w' & N1 & H1 & R & H2 & _ & _ & _ & T).
    exists e, rce, ne, w'. change (len [Incref (PSlot (PField (PArg 0) "data") (zN i) "")]) with 1. auto.
Qed.

(* the refusal; and the replacement of an element that is still referenced elsewhere (the
   release of a last reference is the subject of HRef_proofs) *)
Theorem array_replace_follows_plan a i v w rc indef d sz allocated elems dst :
  heap w a = Some (CItem rc (NArr indef (Some d) allocated elems)) ->
  heap w d = Some (CData sz) ->
  let p := array_replace_plan allocated dst (len elems) i in
  (ret_bool p = false ->
     p_effs p = [] /\ array_replace a i v w = Ret false (w_log (AccR a) w)) /\
  (ret_bool p = true ->
     p_effs p = [Incref (PArg 2); Decref (PSlot (PField (PArg 0) "data") (Z.of_N i) "");
                 Store (PField (PArg 0) "data") (Z.of_N i) "" (PArg 2)] /\
     forall old rco no rcv nv,
       nth_error elems (N.to_nat i) = Some old ->
       heap w old = Some (CItem rco no) -> 1 < rco ->
       heap w v = Some (CItem rcv nv) ->
       a <> old -> a <> v -> old <> v ->
       exists w',
         array_replace a i v w = Ret true w' /\
         heap w' a = Some (CItem rc (NArr indef (Some d) (fieldN "allocated" p)
                                       (set_nth elems (N.to_nat i) v))) /\
         len (set_nth elems (N.to_nat i) v) = fieldN "end_ptr" p /\
         heap w' old = Some (CItem (rco - len (filter is_decref (p_effs p))) no) /\
         heap w' v = Some (CItem (bump (increfs_arg 2 p) rcv) nv) /\
         trace w' = trace w).
Proof. clear refuse.
  intros Ha Hd p. subst p. unfold array_replace_plan.
  destruct (N.leb_spec (len elems) i) as [L|L]; cbn [ret_bool p_ret Z.eqb negb p_effs].
  - split; [|discriminate]. intros _. split; [reflexivity|].
    eapply replace_out_of_range; eauto.
  - split; [discriminate|]. intros _. split; [reflexivity|].
    intros old rco no rcv nv Hn Ho Hr Hv Hao Hav Hov.
    eexists. split; [eapply replace_in_range_shared; eauto|].
    destruct (w_replace_props a rc (NArr indef (Some d) allocated (set_nth elems (N.to_nat i) v))
                d old rco no v rcv nv w Hao Hav Hov) as (P1 & P2 & P3 & P4 & P5 & P6 & P7).
    rewrite fieldN_arr_allocated, fieldN_arr_end_ptr.
    split; [exact P1|]. split.
    { unfold len. rewrite set_nth_length. reflexivity. }
    split; [exact P2|]. split; [exact P3 | exact P7].
Qed.

(* the dispatch of cbor_array_set: which callee, or the refusal *)
Theorem array_set_follows_plan a i v w rc indef data allocated elems dst c :
  heap w a = Some (CItem rc (NArr indef data allocated elems)) ->
  let p := array_set_plan allocated dst (len elems) i c in
  (i = len elems ->
     p_reqs p = [ReqCall "cbor_array_push" [AP (PArg 0); AP (PArg 2)]] /\ p_ret p = RZ c /\
     array_set refuse a i v w = array_push refuse a v (w_log (AccR a) w)) /\
  (i < len elems ->
     p_reqs p = [ReqCall "cbor_array_replace" [AP (PArg 0); AZ (Z.of_N i); AP (PArg 2)]] /\ p_ret p = RZ c /\
     array_set refuse a i v w = array_replace a i v (w_log (AccR a) w)) /\
  (len elems < i ->
     p_reqs p = [] /\ p_ret p = RZ 0 /\ array_set refuse a i v w = Ret false (w_log (AccR a) w)).
Proof.
  intros Ha p. subst p. unfold array_set_plan.
  destruct (N.eqb_spec i (len elems)) as [E|NE].
  - split; [|split]; [|lia|lia]. intros _. subst i. cbn [p_reqs p_ret].
    split; [reflexivity|]. split; [reflexivity|]. eapply set_at_end; eauto.
  - destruct (N.ltb_spec i (len elems)) as [L|L]; (split; [lia|]); split; try lia; intros _; cbn [p_reqs p_ret].
    + split; [reflexivity|]. split; [reflexivity|]. eapply set_in_range; eauto.
    + split; [reflexivity|]. split; [reflexivity|]. eapply set_out_of_range; eauto. lia.
Qed.

(* ------------------------------------------------------------------ *)
(* 6. _cbor_map_add_value / cbor_map_add                                 *)

Theorem map_add_value_follows_plan a v w rc indef d sz allocated ps k o rcv nv dst :
  heap w a = Some (CItem rc (NMap indef (Some d) allocated (ps ++ [(k, o)]))) ->
  heap w d = Some (CData sz) ->
  heap w v = Some (CItem rcv nv) ->
  a <> v ->
  len (ps ++ [(k, o)]) < 2 ^ 64 ->
  let p := map_add_value_plan allocated dst (len (ps ++ [(k, o)])) in
  exists w',
    map_add_value a v w = Ret (ret_bool p) w' /\
    p_effs p = [Incref (PArg 1); Store (PField (PArg 0) "data") (Z.of_N (len ps)) "value" (PArg 1)] /\
    heap w' a = Some (CItem rc (NMap indef (Some d) (fieldN "allocated" p) (ps ++ [(k, Some v)]))) /\
    len (ps ++ [(k, Some v)]) = fieldN "end_ptr" p /\
    heap w' v = Some (CItem (bump (increfs_arg 1 p) rcv) nv) /\
    trace w' = trace w.
Proof. clear refuse.
  intros Ha Hd Hv Hav H64 p. subst p. unfold map_add_value_plan.
  cbn [ret_bool p_ret Z.eqb negb p_effs]. rewrite fieldN_arr_allocated, fieldN_arr_end_ptr.
  eexists. split; [eapply add_value_spec; eauto|].
  destruct (w_addval_props a rc (NMap indef (Some d) allocated (ps ++ [(k, Some v)])) d v rcv nv w Hav)
    as (P1 & P2 & P3 & P4 & P5 & P6).
  split.
  { rewrite len_app. change (len [(k, o)]) with 1. unfold sub64, zN.
    destruct (N.leb_spec 1 (len ps + 1)) as [_|]; [|lia]. do 3 f_equal. lia. }
  split; [exact P1|]. split; [rewrite !len_app; reflexivity|]. split; [exact P2 | exact P6].
Qed.

(* the dispatch of cbor_map_add: the key half first; the value half only when it accepted *)
Theorem map_add_follows_plan a k v w :
  (forall w1, map_add_key refuse a k w = Ret false w1 ->
     let p := map_add_plan 0 0 in
     p_reqs p = [ReqCall "_cbor_map_add_key" [AP (PArg 0); AP (PField (PArg 1) "key")]] /\
     map_add refuse a k v w = Ret (ret_bool p) w1) /\
  (forall w1 c1, map_add_key refuse a k w = Ret true w1 ->
     let p := map_add_plan 1 c1 in
     p_reqs p = [ReqCall "_cbor_map_add_key" [AP (PArg 0); AP (PField (PArg 1) "key")];
                 ReqCall "_cbor_map_add_value" [AP (PArg 0); AP (PField (PArg 1) "value")]] /\
     p_ret p = RZ c1 /\
     map_add refuse a k v w = map_add_value a v w1).
Proof.
  split.
  - intros w1 R p. subst p. split; [reflexivity|]. unfold map_add. mstep R. reflexivity.
  - intros w1 c1 R p. subst p. split; [reflexivity|]. split; [reflexivity|]. unfold map_add. mstep R. reflexivity.
Qed.

(* ------------------------------------------------------------------ *)
(* 7. cbor_incref / cbor_move                                            *)

Theorem incref_follows_plan a w rc n :
  heap w a = Some (CItem rc n) ->
  let p := incref_plan rc in
  exists w', incref a w = Ret a w' /\ p_ret p = RP (PArg 0) /\
    heap w' a = Some (CItem (fieldN "refcount" p) n) /\ trace w' = trace w.
Proof. clear refuse.
  intros Ha p. subst p. eexists. split; [apply incref_spec; exact Ha|].
  destruct (w_incref_props a rc n w) as (P1 & _ & _ & _ & P5).
  split; [reflexivity|]. split; [|exact P5].
  unfold fieldN, incref_plan, zN. cbn. rewrite N2Z.id. exact P1.
Qed.

Theorem move_follows_plan a w rc n :
  heap w a = Some (CItem rc n) ->
  let p := move_plan rc in
  exists w', move a w = Ret a w' /\ p_ret p = RP (PArg 0) /\
    heap w' a = Some (CItem (fieldN "refcount" p) n) /\ trace w' = trace w.
Proof. clear refuse.
  intros Ha p. subst p. unfold move.
  eexists. split.
  { mstep (rd_item_spec a w rc n Ha).
    match goal with |- bind (wr_item a ?r ?nd) _ ?w1 = _ => mstep (wr_item_spec a r nd w1 rc n Ha) end.
    reflexivity. }
  split; [reflexivity|]. wsimpl. split; [|reflexivity].
  rewrite upd_same. unfold fieldN, move_plan, zN. cbn. rewrite N2Z.id. reflexivity.
Qed.

(* ------------------------------------------------------------------ *)
(* 8. constructors: the requests, their sizes and order, the release on failure *)

Theorem new_definite_array_follows_plan n w :
  wf w ->
  let ok0 := malloc_ok (nreq w) SZ_ITEM in
  let ok1 := multiple_ok (nreq w + 1) SZ_PTR n in
  let p := new_definite_array_plan n ok0 ok1 in
  let ress := [if ok0 then Some (next w) else None; if ok1 then Some (next w + 1) else None] in
  exists r w',
    new_definite_array refuse n w = Ret r w' /\
    r = (if ret_null p then None else Some (next w)) /\
    trace w' = req_events_seq None ress (p_reqs p) ++ trace w /\
    (ret_null p = true -> heap_eq w w') /\
    (ret_null p = false ->
       heap w' (next w) = Some (CItem 1 (NArr false (Some (next w + 1)) n [])) /\
       In (SetInt (PNew 0) "refcount" 1) (p_effs p) /\
       In (SetInt (PNew 0) "metadata.allocated" (Z.of_N n)) (p_effs p) /\
       In (SetInt (PNew 0) "metadata.end_ptr" 0) (p_effs p) /\
       In (SetInt (PNew 0) "metadata.type" (dst_z true)) (p_effs p) /\
       In (SetPtr (PNew 0) "data" (PNew 1)) (p_effs p)).
Proof.
  intros Hwf ok0 ok1 p ress. subst ress p ok0 ok1.
  rewrite (new_definite_array_cases refuse n w). cbv zeta.
  unfold new_definite_array_plan, malloc_ok, multiple_ok, req_events_seq, zN.
  destruct (refuse (nreq w) SZ_ITEM) eqn:R1; cbn [negb].
  { do 2 eexists. split; [reflexivity|]. cbn [ret_null p_ret p_reqs plan_trace hd tl rev app].
    split; [reflexivity|]. rewrite N2Z.id.
    destruct (w_fail1_props SZ_ITEM w) as (P1 & _ & _ & P4 & _).
    split; [exact P4|]. split; [|discriminate]. intros _ b. rewrite P1. reflexivity. }
  destruct (alloc_multiple_req 64 SZ_PTR n) as [bytes|] eqn:A.
  2:{ cbn [negb]. do 2 eexists. split; [reflexivity|].
      cbn [ret_null p_ret p_reqs plan_trace hd tl ptr_val nth]. rewrite !N2Z.id, A. cbn [app rev].
      split; [reflexivity|].
      destruct (w_fail_guard_props SZ_ITEM (CItem 1 (NArr false None n [])) w Hwf) as (P1 & _ & _ & _ & P5 & _).
      split; [exact P5|]. split; [intros _; exact P1 | discriminate]. }
  destruct (refuse (nreq w + 1) bytes) eqn:R2; cbn [negb].
  { do 2 eexists. split; [reflexivity|].
    cbn [ret_null p_ret p_reqs plan_trace hd tl ptr_val nth]. rewrite !N2Z.id, A. cbn [app rev].
    split; [reflexivity|].
    destruct (w_fail2_props SZ_ITEM (CItem 1 (NArr false None n [])) bytes w Hwf) as (P1 & _ & _ & _ & P5 & _).
    split; [exact P5|]. split; [intros _; exact P1 | discriminate]. }
  do 2 eexists. split; [reflexivity|].
  cbn [ret_null p_ret p_reqs plan_trace hd tl ptr_val nth]. rewrite !N2Z.id, A. cbn [app rev].
  split; [reflexivity|].
  destruct (w_built_props SZ_ITEM (CItem 1 (NArr false None n [])) bytes
              (CItem 1 (NArr false (Some (next w + 1)) n [])) w Hwf) as (P1 & _ & _ & _ & _ & _ & P7).
  split; [exact P7|]. split; [discriminate|]. intros _. split; [exact P1|].
  cbn [p_effs item_ints seq_meta app In]. repeat split; auto 10.
Qed.

Theorem new_definite_map_follows_plan n w :
  wf w ->
  let ok0 := malloc_ok (nreq w) SZ_ITEM in
  let ok1 := multiple_ok (nreq w + 1) SZ_PAIR n in
  let p := new_definite_map_plan n ok0 ok1 in
  let ress := [if ok0 then Some (next w) else None; if ok1 then Some (next w + 1) else None] in
  exists r w',
    new_definite_map refuse n w = Ret r w' /\
    r = (if ret_null p then None else Some (next w)) /\
    trace w' = req_events_seq None ress (p_reqs p) ++ trace w /\
    (ret_null p = true -> heap_eq w w') /\
    (ret_null p = false ->
       heap w' (next w) = Some (CItem 1 (NMap false (Some (next w + 1)) n [])) /\
       In (SetInt (PNew 0) "refcount" 1) (p_effs p) /\
       In (SetInt (PNew 0) "metadata.allocated" (Z.of_N n)) (p_effs p) /\
       In (SetInt (PNew 0) "metadata.end_ptr" 0) (p_effs p) /\
       In (SetInt (PNew 0) "metadata.type" (dst_z true)) (p_effs p) /\
       In (SetPtr (PNew 0) "data" (PNew 1)) (p_effs p)).
Proof.
  intros Hwf ok0 ok1 p ress. subst ress p ok0 ok1.
  rewrite (new_definite_map_cases refuse n w). cbv zeta.
  unfold new_definite_map_plan, malloc_ok, multiple_ok, req_events_seq, zN.
  destruct (refuse (nreq w) SZ_ITEM) eqn:R1; cbn [negb].
  { do 2 eexists. split; [reflexivity|]. cbn [ret_null p_ret p_reqs plan_trace hd tl rev app].
    split; [reflexivity|]. rewrite N2Z.id.
    destruct (w_fail1_props SZ_ITEM w) as (P1 & _ & _ & P4 & _).
    split; [exact P4|]. split; [|discriminate]. intros _ b. rewrite P1. reflexivity. }
  destruct (alloc_multiple_req 64 SZ_PAIR n) as [bytes|] eqn:A.
  2:{ cbn [negb]. do 2 eexists. split; [reflexivity|].
      cbn [ret_null p_ret p_reqs plan_trace hd tl ptr_val nth]. rewrite !N2Z.id, A. cbn [app rev].
      split; [reflexivity|].
      destruct (w_fail_guard_props SZ_ITEM (CItem 1 (NMap false None n [])) w Hwf) as (P1 & _ & _ & _ & P5 & _).
      split; [exact P5|]. split; [intros _; exact P1 | discriminate]. }
  destruct (refuse (nreq w + 1) bytes) eqn:R2; cbn [negb].
  { do 2 eexists. split; [reflexivity|].
    cbn [ret_null p_ret p_reqs plan_trace hd tl ptr_val nth]. rewrite !N2Z.id, A. cbn [app rev].
    split; [reflexivity|].
    destruct (w_fail2_props SZ_ITEM (CItem 1 (NMap false None n [])) bytes w Hwf) as (P1 & _ & _ & _ & P5 & _).
    split; [exact P5|]. split; [intros _; exact P1 | discriminate]. }
  do 2 eexists. split; [reflexivity|].
  cbn [ret_null p_ret p_reqs plan_trace hd tl ptr_val nth]. rewrite !N2Z.id, A. cbn [app rev].
  split; [reflexivity|].
  destruct (w_built_props SZ_ITEM (CItem 1 (NMap false None n [])) bytes
              (CItem 1 (NMap false (Some (next w + 1)) n [])) w Hwf) as (P1 & _ & _ & _ & _ & _ & P7).
  split; [exact P7|]. split; [discriminate|]. intros _. split; [exact P1|].
  cbn [p_effs item_ints seq_meta app In]. repeat split; auto 10.
Qed.

(* one-block constructors: cbor_new_indefinite_array, cbor_new_tag *)
Theorem new_indefinite_array_follows_plan w :
  let p := new_indefinite_array_plan (malloc_ok (nreq w) SZ_ITEM) in
  exists r w',
    new_indefinite_array refuse w = Ret r w' /\
    r = (if ret_null p then None else Some (next w)) /\
    trace w' = req_events None r (p_reqs p) ++ trace w /\
    (ret_null p = false -> heap w' (next w) = Some (CItem 1 (NArr true None 0 []))).
Proof.
  intros p. subst p. unfold new_indefinite_array, new_indefinite_array_plan, malloc_ok, req_events, req_events_seq, zN.
  destruct (refuse (nreq w) SZ_ITEM) eqn:R; cbn [negb].
  - rewrite (malloc_refused refuse _ _ w R). do 2 eexists. split; [reflexivity|].
    cbn [ret_null p_ret p_reqs plan_trace hd tl rev app]. rewrite N2Z.id. split; [reflexivity|].
    split; [reflexivity | discriminate].
  - rewrite (malloc_granted refuse _ _ w R). do 2 eexists. split; [reflexivity|].
    cbn [ret_null p_ret p_reqs plan_trace hd tl rev app]. rewrite N2Z.id. split; [reflexivity|].
    split; [reflexivity|]. intros _. wsimpl. apply upd_same.
Qed.

Theorem new_tag_follows_plan v w :
  let p := new_tag_plan v (malloc_ok (nreq w) SZ_ITEM) in
  exists r w',
    new_tag refuse v w = Ret r w' /\
    r = (if ret_null p then None else Some (next w)) /\
    trace w' = req_events None r (p_reqs p) ++ trace w /\
    (ret_null p = false ->
       heap w' (next w) = Some (CItem 1 (NTag v None)) /\
       In (SetInt (PNew 0) "metadata.value" (Z.of_N v)) (p_effs p) /\
       In (SetPtr (PNew 0) "metadata.tagged_item" PNull) (p_effs p)).
Proof.
  intros p. subst p. unfold new_tag, new_tag_plan, malloc_ok, req_events, req_events_seq, zN.
  destruct (refuse (nreq w) SZ_ITEM) eqn:R; cbn [negb].
  - rewrite (malloc_refused refuse _ _ w R). do 2 eexists. split; [reflexivity|].
    cbn [ret_null p_ret p_reqs plan_trace hd tl rev app]. rewrite N2Z.id. split; [reflexivity|].
    split; [reflexivity | discriminate].
  - rewrite (malloc_granted refuse _ _ w R). do 2 eexists. split; [reflexivity|].
    cbn [ret_null p_ret p_reqs plan_trace hd tl rev app]. rewrite N2Z.id. split; [reflexivity|].
    split; [reflexivity|]. intros _. split; [wsimpl; apply upd_same|].
    cbn [p_effs item_ints app In]. auto 10.
Qed.

(* cbor_tag_set_item: one incref of the new child, the child pointer re-pointed *)
Theorem tag_set_item_follows_plan t x w rc v old rcx nx :
  heap w t = Some (CItem rc (NTag v old)) ->
  heap w x = Some (CItem rcx nx) ->
  t <> x ->
  let p := tag_set_item_plan in
  p_effs p = [Incref (PArg 1); SetPtr (PArg 0) "metadata.tagged_item" (PArg 1)] /\
  exists w',
    tag_set_item t x w = Ret tt w' /\
    heap w' t = Some (CItem rc (NTag v (Some x))) /\
    heap w' x = Some (CItem (bump (increfs_arg 1 p) rcx) nx) /\
    trace w' = trace w.
Proof. clear refuse.
  intros Ht Hx Htx p. subst p. split; [reflexivity|]. unfold tag_set_item.
  eexists. split.
  { mstep (incref_spec x w rcx nx Hx).
    match goal with |- bind (rd_item t) _ ?w1 = _ =>
      assert (Ht1 : heap w1 t = Some (CItem rc (NTag v old))) by (wsimpl; rewrite upd_other by exact Htx; exact Ht);
      mstep (rd_item_spec t w1 _ _ Ht1) end.
    match goal with |- wr_item t ?r ?nd ?w2 = _ => rewrite (wr_item_spec t r nd w2 _ _ Ht1) end.
    reflexivity. }
  wsimpl. split; [apply upd_same|]. split; [|reflexivity].
  rewrite upd_other by congruence. apply upd_same.
Qed.

(* ------------------------------------------------------------------ *)
(* 9. _cbor_stack_push as used by the decoder (HOps.push_ctx): the guard at the nesting limit,
      the one request of sizeof(struct _cbor_stack_record), the counter *)

Theorem stack_push_follows_plan L res sub stk w :
  L < 2 ^ 64 -> len stk <= L ->
  let p := stack_push_plan L (len stk) sub (malloc_ok (nreq w) SZ_REC) in
  (* refused: the context is flagged as failed, after the release of the item *)
  (ret_null p = true ->
     fieldN "size" p = len stk /\
     push_ctx refuse L res sub stk w =
       (decref res ;;; ret (mkhctx stk None true false))
         (if len stk =? L then w else w_refused (EvMalloc SZ_REC None) w) /\
     p_reqs p = (if len stk =? L then [] else [ReqMalloc (Z.of_N SZ_REC)])) /\
  (ret_null p = false ->
     len stk < L /\ p_reqs p = [ReqMalloc (Z.of_N SZ_REC)] /\
     push_ctx refuse L res sub stk w =
       Ret (mkhctx ((next w, res, sub) :: stk) None false false) (w_malloc SZ_REC (CData SZ_REC) w) /\
     len ((next w, res, sub) :: stk) = fieldN "size" p /\
     In (SetInt (PNew 0) "subitems" (Z.of_N sub)) (p_effs p) /\
     In (SetPtr (PNew 0) "item" (PArg 1)) (p_effs p)).
Proof.
  intros HL Hle p. subst p. unfold stack_push_plan, push_ctx, malloc_ok.
  destruct (N.eqb_spec (len stk) L) as [E|NE].
  { cbn [ret_null p_ret]. split; [|discriminate]. intros _.
    split; [unfold fieldN, zN; cbn; apply N2Z.id|]. split; reflexivity. }
  destruct (refuse (nreq w) SZ_REC) eqn:R; cbn [negb ret_null p_ret].
  - split; [|discriminate]. intros _.
    split; [unfold fieldN, zN; cbn; apply N2Z.id|]. split; [|reflexivity].
    mstep (malloc_refused refuse SZ_REC (CData SZ_REC) w R). reflexivity.
  - split; [discriminate|]. intros _. split; [lia|]. split; [reflexivity|]. split.
    { mstep (malloc_granted refuse SZ_REC (CData SZ_REC) w R). reflexivity. }
    split.
    { rewrite len_cons. unfold fieldN, zN. cbn. rewrite N2Z.id.
      rewrite wrap64_small; [reflexivity | rewrite W64_eq; lia]. }
    cbn [p_effs In]. auto 10.
Qed.

End Follows.
