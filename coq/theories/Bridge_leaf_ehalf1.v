(* cbor_encode_half, exponent classes e = 0, 1 <= e < 103, e = 103 .. 105 (tactics and statement in Bridge_leaf_float.v) *)
From Coq Require Import ZArith NArith List Bool Lia ZifyBool ZifyN ZifyNat.
Import ListNotations.
From CB Require Import Word PStream PEnc PMem GenLeafTypes BridgeTac Bridge_leaf_enc Bridge_leaf_float.
From CBGen Require Import Gen_leaf.
Ltac Zify.zify_post_hook ::= Z.div_mod_to_equations.
Local Open Scope Z_scope.
Lemma bridge_half_e0 val s m size : (s < 2)%N -> (m < 2^23)%N -> val = (s * 2^31 + 0 * 2^23 + m)%N -> half_stmt val size.
Proof. unfold half_stmt. intros Hs Hm Hval. half_go val s 0%N m 0. Qed.
Lemma bridge_half_e103 val s m size : (s < 2)%N -> (m < 2^23)%N -> val = (s * 2^31 + 103 * 2^23 + m)%N -> half_stmt val size.
Proof. unfold half_stmt. intros Hs Hm Hval. half_go val s 103%N m 103. Qed.
Lemma bridge_half_e104 val s m size : (s < 2)%N -> (m < 2^23)%N -> val = (s * 2^31 + 104 * 2^23 + m)%N -> half_stmt val size.
Proof. unfold half_stmt. intros Hs Hm Hval. half_go val s 104%N m 104. Qed.
Lemma bridge_half_e105 val s m size : (s < 2)%N -> (m < 2^23)%N -> val = (s * 2^31 + 105 * 2^23 + m)%N -> half_stmt val size.
Proof. unfold half_stmt. intros Hs Hm Hval. half_go val s 105%N m 105. Qed.
Lemma bridge_half_e1_103 val s e m size : (s < 2)%N -> (m < 2^23)%N -> val = (s * 2^31 + e * 2^23 + m)%N ->
  (1 <= e < 103)%N -> half_stmt val size.
Proof. unfold half_stmt. intros Hs Hm Hval Hc. half_go val s e m 1. Qed.
