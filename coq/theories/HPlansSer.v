(* Plans of src/cbor/serialization.c, written by hand from the models PItem.v (serialize_into,
   ser_seq, ser_defstr, ser_close, ssize), PSize.v and HOps.v (serialize_alloc_h).  Definitions
   only; same vocabulary as HPlans.v / HPlansLoad.v.

   Every call — of an encoder (the cbor_encode_... family), of cbor_serialize / cbor_serialized_size or of one of
   the per-type serializers — is an ORDERED event `ReqCall name args` whose integer result is the
   next oracle; the buffer window handed on is `APO (PArg 1) written` (buffer + written) and
   `AZ (buffer_size - written)`.  None of these functions writes the item: their p_fields are empty
   (only what a function writes is reported) and their p_effs hold at most the payload copy.
   A loop is cut at its head: the plan of one round takes the round number [k] (0-based) and the
   running total [written] / [acc] as inputs; arriving at the head of loop i is the outcome
   `RLoop i` with the fields "acc0" (the total carried into the next round) and "round". *)
From Coq Require Import ZArith NArith List Bool String.
Import ListNotations.
From CB Require Import Word PMem PItem GenLeafTypes HItems HPlans.
Local Open Scope string_scope.
Local Open Scope N_scope.

(* ---------- encodings ---------- *)
Definition TY_UINT : Z := 0%Z.
Definition TY_NEGINT : Z := 1%Z.
Definition TY_BYTES : Z := 2%Z.
Definition TY_TEXT : Z := 3%Z.
Definition TY_FLOAT_CTRL : Z := 7%Z.
(* cbor_int_width / cbor_float_width *)
Definition iw_z (w : iwidth) : Z := match w with I8 => 0 | I16 => 1 | I32 => 2 | I64 => 3 end%Z.
Definition FW_0 : Z := 0%Z.   (* a simple value / ctrl *)
Definition FW_16 : Z := 1%Z.
Definition FW_32 : Z := 2%Z.
Definition FW_64 : Z := 3%Z.
Definition fbECBOR_TYPE_UINT := TY_UINT.
Definition fbECBOR_TYPE_NEGINT := TY_NEGINT.
Definition fbECBOR_TYPE_BYTESTRING := TY_BYTES.
Definition fbECBOR_TYPE_STRING := TY_TEXT.
Definition fbECBOR_TYPE_ARRAY := TY_ARRAY.
Definition fbECBOR_TYPE_MAP := TY_MAP.
Definition fbECBOR_TYPE_TAG := TY_TAG.
Definition fbECBOR_TYPE_FLOAT_CTRL := TY_FLOAT_CTRL.
Definition fbECBOR_INT_8 := iw_z I8.
Definition fbECBOR_INT_16 := iw_z I16.
Definition fbECBOR_INT_32 := iw_z I32.
Definition fbECBOR_INT_64 := iw_z I64.
Definition fbECBOR_FLOAT_0 := FW_0.
Definition fbECBOR_FLOAT_16 := FW_16.
Definition fbECBOR_FLOAT_32 := FW_32.
Definition fbECBOR_FLOAT_64 := FW_64.

(* ---------- the buffer window ---------- *)
Definition item0 : ptr := PArg 0.
Definition whole (bs : N) : list arg := [AP (PArg 1); AZ (zN bs)].
(* buffer + written, buffer_size - written *)
Definition window (written bs : N) : list arg := [APO (PArg 1) (zN written); AZ (zN (sub64 bs written))].
Definition fin (r : N) (evs : list req) : plan := mkplan (RZ (zN r)) [] evs [].
(* to the head of loop i with the running total acc, about to start round k *)
Definition to_loop (i : nat) (acc k : N) (evs : list req) : plan :=
  mkplan (RLoop i) [("acc0", zN acc); ("round", zN k)] evs [].

(* ---------- size_t cbor_serialize(item, buffer, buffer_size): dispatch on the type ---------- *)
Definition serializer_of (ty : Z) : option string :=
  if (ty =? TY_UINT)%Z then Some "cbor_serialize_uint"
  else if (ty =? TY_NEGINT)%Z then Some "cbor_serialize_negint"
  else if (ty =? TY_BYTES)%Z then Some "cbor_serialize_bytestring"
  else if (ty =? TY_TEXT)%Z then Some "cbor_serialize_string"
  else if (ty =? TY_ARRAY)%Z then Some "cbor_serialize_array"
  else if (ty =? TY_MAP)%Z then Some "cbor_serialize_map"
  else if (ty =? TY_TAG)%Z then Some "cbor_serialize_tag"
  else if (ty =? TY_FLOAT_CTRL)%Z then Some "cbor_serialize_float_ctrl"
  else None.
Definition serialize_plan (ty : Z) (bs c : N) : plan :=
  match serializer_of ty with
  | Some f => fin c [ReqCall f (AP item0 :: whole bs)]
  | None => fin 0 []
  end.

(* ---------- cbor_serialize_uint / _negint: the encoder of the item's width, on its payload ---------- *)
Definition int_encoder (neg : bool) (w : iwidth) : string :=
  match neg, w with
  | false, I8 => "cbor_encode_uint8" | false, I16 => "cbor_encode_uint16"
  | false, I32 => "cbor_encode_uint32" | false, I64 => "cbor_encode_uint64"
  | true, I8 => "cbor_encode_negint8" | true, I16 => "cbor_encode_negint16"
  | true, I32 => "cbor_encode_negint32" | true, I64 => "cbor_encode_negint64"
  end.
Definition width_of (z : Z) : option iwidth :=
  if (z =? 0)%Z then Some I8 else if (z =? 1)%Z then Some I16 else if (z =? 2)%Z then Some I32
  else if (z =? 3)%Z then Some I64 else None.
(* g8 .. g64: what cbor_get_uint8 .. cbor_get_uint64 return for the item *)
Definition int_plan (neg : bool) (width : Z) (g8 g16 g32 g64 : Z) (bs c : N) : plan :=
  match width_of width with
  | Some w =>
      let v := match w with I8 => g8 | I16 => g16 | I32 => g32 | I64 => g64 end in
      fin c [ReqCall (int_encoder neg w) (AZ v :: whole bs)]
  | None => fin 0 []
  end.

(* ---------- cbor_serialize_bytestring / _string ----------
   definite: the head; then the payload iff the head fitted (c > 0) and what is left of the buffer,
   buffer_size - c, holds [length] bytes (the subtraction cannot wrap: c <= buffer_size);
   indefinite: the start byte, then loop 0 over the chunks *)
Definition str_names (text : bool) : string * string * string :=
  if text then ("cbor_encode_string_start", "cbor_encode_indef_string_start", "cbor_serialize_string")
  else ("cbor_encode_bytestring_start", "cbor_encode_indef_bytestring_start", "cbor_serialize_bytestring").
Definition string_plan (text definite : bool) (length bs c : N) : plan :=
  let '(start, istart, _) := str_names text in
  if definite then
    let call := ReqCall start (AZ (zN length) :: whole bs) in
    if negb (c =? 0) && (length <=? sub64 bs c)
    then mkplan (RZ (zN (wrap64 (c + length)))) [] [call]
                (* an empty payload is not copied at all (its handle may be NULL: cbor_new_definite_*string) *)
                (if 0 <? length then [CopyAt (PArg 1) (zN c) (PField item0 "data") (zN length)] else [])
    else fin 0 [call]
  else
    let call := ReqCall istart (whole bs) in
    if c =? 0 then fin 0 [call] else to_loop 0 c 0 [call].

(* the break that closes an indefinite item *)
Definition close_plan (written bs c : N) : plan :=
  let call := ReqCall "cbor_encode_break" (window written bs) in
  if c =? 0 then fin 0 [call] else fin (wrap64 (written + c)) [call].

(* one round over the parts of a container: the part goes into the window behind what is written;
   a part that returns 0 makes the whole call return 0; otherwise its size is added *)
Definition part_round (i : nat) (k written bs c : N) (f : string) (part : ptr) : plan :=
  let call := ReqCall f (AP part :: window written bs) in
  if c =? 0 then fin 0 [call] else to_loop i (wrap64 (written + c)) (k + 1) [call].

Definition chunks0 : ptr := PField (PField item0 "data") "chunks".
Definition string_round_plan (text : bool) (chunk_count k written bs c : N) : plan :=
  let '(_, _, self) := str_names text in
  if k <? chunk_count then part_round 0 k written bs c self (PSlot chunks0 (zN k) "")
  else close_plan written bs c.

(* ---------- cbor_serialize_array / _map: the head is computed from the SIZE (end_ptr) ---------- *)
Definition slots0 : ptr := PField item0 "data".
Definition container_plan (start istart : string) (definite : bool) (size bs c : N) : plan :=
  let call := if definite then ReqCall start (AZ (zN size) :: whole bs) else ReqCall istart (whole bs) in
  if c =? 0 then fin 0 [call] else to_loop 0 c 0 [call].
Definition array_plan := container_plan "cbor_encode_array_start" "cbor_encode_indef_array_start".
Definition map_plan := container_plan "cbor_encode_map_start" "cbor_encode_indef_map_start".

(* after the last element: a definite container is complete, an indefinite one gets its break *)
Definition after_parts (definite : bool) (written bs c : N) : plan :=
  if definite then fin written [] else close_plan written bs c.

Definition array_round_plan (definite : bool) (size k written bs c : N) : plan :=
  if k <? size then part_round 0 k written bs c "cbor_serialize" (PSlot slots0 (zN k) "")
  else after_parts definite written bs c.

(* a pair: the key, then the value behind it *)
Definition map_round_plan (definite : bool) (size k written bs c0 c1 : N) : plan :=
  if k <? size then
    let kcall := ReqCall "cbor_serialize" (AP (PSlot slots0 (zN k) "key") :: window written bs) in
    if c0 =? 0 then fin 0 [kcall]
    else
      let w1 := wrap64 (written + c0) in
      let vcall := ReqCall "cbor_serialize" (AP (PSlot slots0 (zN k) "value") :: window w1 bs) in
      if c1 =? 0 then fin 0 [kcall; vcall] else to_loop 0 (wrap64 (w1 + c1)) (k + 1) [kcall; vcall]
  else after_parts definite written bs c0.

(* ---------- cbor_serialize_tag: the head, then the tagged item behind it ---------- *)
Definition tag_plan (value bs c0 c1 : N) : plan :=
  let hcall := ReqCall "cbor_encode_tag" (AZ (zN value) :: whole bs) in
  if c0 =? 0 then fin 0 [hcall]
  else
    let icall := ReqCall "cbor_serialize" (AP (PField item0 "metadata.tagged_item") :: window c0 bs) in
    if c1 =? 0 then fin 0 [hcall; icall] else fin (wrap64 (c0 + c1)) [hcall; icall].

(* ---------- cbor_serialize_float_ctrl: by width ---------- *)
Definition float_plan (width : Z) (ctrl bs c : N) : plan :=
  if (width =? FW_0)%Z then fin c [ReqCall "cbor_encode_ctrl" (AZ (zN ctrl) :: whole bs)]
  else if (width =? FW_16)%Z then fin c [ReqCall "cbor_encode_half" (AVal "cbor_float_get_float2" item0 :: whole bs)]
  else if (width =? FW_32)%Z then fin c [ReqCall "cbor_encode_single" (AVal "cbor_float_get_float4" item0 :: whole bs)]
  else if (width =? FW_64)%Z then fin c [ReqCall "cbor_encode_double" (AVal "cbor_float_get_float8" item0 :: whole bs)]
  else fin 0 [].

(* ---------- size_t cbor_serialized_size(item) ----------
   every sum goes through _cbor_safe_signaling_add ([ssadd]: 0 if an operand is 0 or the sum
   overflows), except for the empty definite string, whose size is its one-byte head.
   loops: 0 = chunks of a byte string, 1 = chunks of a text string, 2 = elements, 3 = pairs *)
Definition size_call (p : ptr) : req := ReqCall "cbor_serialized_size" [AP p].
Definition ssize_plan (ty width : Z) (definite : bool) (length size value ctrl : N) (g8 : Z) (c : N) : plan :=
  if ((ty =? TY_UINT) || (ty =? TY_NEGINT))%Z then
    match width_of width with
    | Some I8 => fin (if (g8 <=? 23)%Z then 1 else 2) []
    | Some I16 => fin 3 [] | Some I32 => fin 5 [] | Some I64 => fin 9 []
    | None => fin 0 []
    end
  else if ((ty =? TY_BYTES) || (ty =? TY_TEXT))%Z then
    if definite then
      let h := header_size length in
      if length =? 0 then fin h [] else fin (ssadd h length) []
    else to_loop (if (ty =? TY_BYTES)%Z then 0 else 1) 2 0 []
  else if (ty =? TY_ARRAY)%Z then to_loop 2 (if definite then header_size size else 2) 0 []
  else if (ty =? TY_MAP)%Z then to_loop 3 (if definite then header_size size else 2) 0 []
  else if (ty =? TY_TAG)%Z then
    fin (ssadd (header_size value) c) [size_call (PField item0 "metadata.tagged_item")]
  else if (ty =? TY_FLOAT_CTRL)%Z then
    if (width =? FW_0)%Z then fin (header_size ctrl) []
    else if (width =? FW_16)%Z then fin 3 [] else if (width =? FW_32)%Z then fin 5 []
    else if (width =? FW_64)%Z then fin 9 [] else fin 0 []
  else fin 0 [].

(* one round of a size loop: the size of the part is added to the total with the guarded sum *)
Definition ssize_round_plan (i : nat) (count k acc c : N) (part : ptr) : plan :=
  if k <? count then to_loop i (ssadd acc c) (k + 1) [size_call part] else fin acc [].
Definition ssize_chunks_round_plan (i : nat) (chunk_count k acc c : N) :=
  ssize_round_plan i chunk_count k acc c (PSlot chunks0 (zN k) "").
Definition ssize_array_round_plan (size k acc c : N) :=
  ssize_round_plan 2 size k acc c (PSlot slots0 (zN k) "").
Definition ssize_map_round_plan (size k acc c0 c1 : N) : plan :=
  if k <? size then
    to_loop 3 (ssadd acc (ssadd c0 c1)) (k + 1)
            [size_call (PSlot slots0 (zN k) "key"); size_call (PSlot slots0 (zN k) "value")]
  else fin acc [].

(* ---------- size_t cbor_serialize_alloc(item, unsigned char** buffer, size_t* buffer_size) ----------
   size 0 (the item cannot be sized): 0, *buffer = NULL, *buffer_size = 0, nothing allocated;
   allocation refused: the same; otherwise *buffer = the block of exactly [size] bytes, the item is
   serialized into it, *buffer_size = size, and the count written is returned.
   [nn]: buffer_size was not passed as NULL *)
Definition alloc_plan (nn : bool) (size : N) (ok : bool) (written : N) : plan :=
  let out sz := if nn then [("out_size", zN sz)] else [] in
  let q := size_call item0 in
  if size =? 0 then mkplan (RZ 0) (out 0) [q] [SetPtr (PArg 1) "" PNull]
  else
    let m := ReqMalloc (zN size) in
    if negb ok then mkplan (RZ 0) (out 0) [q; m] [SetPtr (PArg 1) "" PNull]
    else mkplan (RZ (zN written)) (out size)
                [q; m; ReqCall "cbor_serialize" [AP item0; AP (PNew 0); AZ (zN size)]]
                [SetPtr (PArg 1) "" (PNew 0)].

(* ---------- fallbacks (same binders as the generated functions) ---------- *)
Definition zn := Z.to_N.
Definition fbplan_cbor_serialize (ty bs c : Z) := serialize_plan ty (zn bs) (zn c).
Definition fbplan_cbor_serialize_uint (w bs g16 g32 g64 g8 c : Z) := int_plan false w g8 g16 g32 g64 (zn bs) (zn c).
Definition fbplan_cbor_serialize_negint (w bs g16 g32 g64 g8 c : Z) := int_plan true w g8 g16 g32 g64 (zn bs) (zn c).
Definition fbplan_cbor_serialize_bytestring (cc dst len bs k a c : Z) := string_plan false (dst_b dst) (zn len) (zn bs) (zn c).
Definition fbplan_cbor_serialize_bytestring_loop0 (cc dst len bs k a c : Z) := string_round_plan false (zn cc) (zn k) (zn a) (zn bs) (zn c).
Definition fbplan_cbor_serialize_string (cc dst len bs k a c : Z) := string_plan true (dst_b dst) (zn len) (zn bs) (zn c).
Definition fbplan_cbor_serialize_string_loop0 (cc dst len bs k a c : Z) := string_round_plan true (zn cc) (zn k) (zn a) (zn bs) (zn c).
Definition fbplan_cbor_serialize_array (al dst e bs k a c : Z) := array_plan (dst_b dst) (zn e) (zn bs) (zn c).
Definition fbplan_cbor_serialize_array_loop0 (al dst e bs k a c : Z) := array_round_plan (dst_b dst) (zn e) (zn k) (zn a) (zn bs) (zn c).
Definition fbplan_cbor_serialize_map (al dst e bs k a c0 c1 : Z) := map_plan (dst_b dst) (zn e) (zn bs) (zn c0).
Definition fbplan_cbor_serialize_map_loop0 (al dst e bs k a c0 c1 : Z) := map_round_plan (dst_b dst) (zn e) (zn k) (zn a) (zn bs) (zn c0) (zn c1).
Definition fbplan_cbor_serialize_tag (v bs c0 c1 : Z) := tag_plan (zn v) (zn bs) (zn c0) (zn c1).
Definition fbplan_cbor_serialize_float_ctrl (ctrl w bs c : Z) := float_plan w (zn ctrl) (zn bs) (zn c).
Definition fbplan_cbor_serialized_size (al cc ctrl dst e len ty v w g8 k a c0 c1 : Z) :=
  ssize_plan ty w (dst_b dst) (zn len) (zn e) (zn v) (zn ctrl) g8 (zn c0).
Definition fbplan_cbor_serialized_size_loop0 (al cc ctrl dst e len ty v w g8 k a c0 c1 : Z) := ssize_chunks_round_plan 0 (zn cc) (zn k) (zn a) (zn c0).
Definition fbplan_cbor_serialized_size_loop1 (al cc ctrl dst e len ty v w g8 k a c0 c1 : Z) := ssize_chunks_round_plan 1 (zn cc) (zn k) (zn a) (zn c0).
Definition fbplan_cbor_serialized_size_loop2 (al cc ctrl dst e len ty v w g8 k a c0 c1 : Z) := ssize_array_round_plan (zn e) (zn k) (zn a) (zn c0).
Definition fbplan_cbor_serialized_size_loop3 (al cc ctrl dst e len ty v w g8 k a c0 c1 : Z) := ssize_map_round_plan (zn e) (zn k) (zn a) (zn c0) (zn c1).
Definition fbplan_cbor_serialize_alloc (out : Z) (nn ok : bool) (c0 c1 : Z) := alloc_plan nn (zn c0) ok (zn c1).
