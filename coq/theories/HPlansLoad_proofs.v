(* The models of the decoder glue follow the hand-written plans of HPlansLoad.v.

   P level (PBuild.v, pure): [append] with its cascade, the break callback's acceptance condition,
   the map parity rule, the start callbacks' push-or-append decision with the size > 0 shortcut,
   and the outcome mapping of cbor_load (which code / position / read every exit reports).
   H level (HOps.v, heap and allocator trace): the order of the cleanup — [unwind] releases the
   item of a stack record and then pops the record; the failure paths of the string callbacks
   free the payload exactly once, after the failed second allocation.

   Hand proofs inside the model world; no generated text.  Bridge_effects_load.v proves the plans
   generated from the C source equal to these hand-written plans. *)
From CB Require Import Word Word_proofs PStream PMem PItem PBuild HHeap HItems HOps HCont_proofs GenLeafTypes HPlans HPlansLoad HPlans_proofs.
From Coq Require Import Lia ZArith NArith List Bool String ZifyBool ZifyN ZifyNat.
Import ListNotations.
Local Open Scope string_scope.
Local Open Scope list_scope.
Local Open Scope N_scope.
Ltac Zify.zify_post_hook ::= Z.div_mod_to_equations.
Set Default Proof Using "Type".
Local Notation append := PBuild.append.

(* ------------------------------------------------------------------ *)
(* 0. reading a glue plan                                               *)

Definition is_call (name : string) (r : req) : bool :=
  match r with ReqCall f _ => String.eqb f name | _ => false end.
(* the plan hands the completed item to _cbor_builder_append: the cascade *)
Definition plan_cascades (p : plan) : bool := existsb (is_call "_cbor_builder_append") (p_reqs p).
Definition plan_pops (p : plan) : bool := existsb (is_call "_cbor_stack_pop") (p_reqs p).
Definition fieldZ (name : string) (p : plan) : Z :=
  match find (fun kv => String.eqb (fst kv) name) (p_fields p) with Some kv => snd kv | None => 0%Z end.
(* the number of expected items a _cbor_stack_push event declares *)
Definition push_subitems (p : plan) : N :=
  match find (is_call "_cbor_stack_push") (p_reqs p) with
  | Some (ReqCall _ [_; _; AZ s]) => Z.to_N s
  | _ => 0
  end.

Lemma odd_is_even n : odd n = negb (is_even n).
Proof.
  unfold odd, is_even. rewrite <- N.bit0_odd, N.bit0_eqb.
  pose proof (N.mod_upper_bound n 2 ltac:(lia)).
  destruct (N.eqb_spec (n mod 2) 1), (N.eqb_spec (n mod 2) 0); cbn [negb]; try reflexivity; lia.
Qed.

(* ------------------------------------------------------------------ *)
(* 1. frames as the C code sees them                                    *)

Definition frame_ty (f : frame) : Z :=
  match f with
  | FArr _ _ _ _ => TY_ARRAY | FMap _ _ _ _ _ => TY_MAP | FTag _ => TY_TAG
  | FBytes _ => TY_BYTESTRING | FText _ => TY_STRING
  end.
Definition frame_indef (f : frame) : bool :=
  match f with FArr i _ _ _ | FMap i _ _ _ _ => i | FTag _ => false | FBytes _ | FText _ => true end.
Definition frame_sub (f : frame) : N :=
  match f with FArr _ _ _ s | FMap _ _ _ _ s => s | FTag _ => 1 | FBytes _ | FText _ => 0 end.
(* the result of the one insertion call, as P has it: only a full definite container refuses *)
Definition insert_ok (f : frame) : Z :=
  match f with
  | FArr false racc al _ => if al <=? len racc then 0%Z else 1%Z
  | FMap false racc _ al sub => if is_even sub && (al <=? len racc) then 0%Z else 1%Z
  | _ => 1%Z
  end.
(* a map frame holds a pending key exactly while it waits for a value *)
Definition frame_wf (f : frame) : Prop :=
  match f with
  | FMap _ _ key _ sub => (key = None <-> is_even sub = true)
  | _ => True
  end.
(* the frame after one more item, with the new count *)
Definition frame_put (f : frame) (it : item) (sub' : N) : frame :=
  match f with
  | FArr i racc al _ => FArr i (it :: racc) al sub'
  | FMap i racc None al _ => FMap i racc (Some it) al sub'
  | FMap i racc (Some k) al _ => FMap i ((k, it) :: racc) None al sub'
  | other => other
  end.
(* the item a completed frame stands for *)
Definition frame_close (f : frame) (it : item) : item :=
  match f with
  | FArr i racc _ _ => IArray i (rev (it :: racc))
  | FMap i racc (Some k) _ _ => IMap i (rev ((k, it) :: racc))
  | FMap i racc None _ _ => IMap i (rev racc)
  | FTag v => ITag v it
  | FBytes racc => IBytesI (rev racc)
  | FText racc => ITextI (rev racc)
  end.

(* ------------------------------------------------------------------ *)
(* 2. _cbor_builder_append                                              *)

Theorem append_root_follows_plan it cf se sub ty definite c :
  let p := builder_append_plan cf se 0 sub ty definite c in
  p_reqs p = [] /\ p_effs p = [SetPtr (PArg 1) "root" (PArg 0)] /\ append it [] = ok_root it.
Proof. repeat split. Qed.

(* a cascade pops the completed record first and then hands its item to the recursive call *)
Theorem cascade_pops_first cf se size sub ty definite c :
  let p := builder_append_plan cf se size sub ty definite c in
  plan_cascades p = true ->
  exists evs, p_reqs p = evs ++ [call_pop 1; call_append (top_item 1) 1] /\
              existsb (is_call "_cbor_builder_append") evs = false /\
              existsb (is_call "_cbor_stack_pop") evs = false.
Proof.
  intros p. subst p. unfold builder_append_plan, plan_cascades.
  destruct (size =? 0); [discriminate|].
  destruct (ty =? TY_ARRAY)%Z.
  { destruct (c =? 0)%Z; [discriminate|]. destruct definite; [|discriminate].
    destruct (sub64 sub 1 =? 0); [|discriminate]. intros _. eexists. split; [reflexivity|]. split; reflexivity. }
  destruct (ty =? TY_MAP)%Z.
  { destruct (is_even sub).
    - destruct (c =? 0)%Z; [discriminate|]. destruct definite; [|discriminate].
      destruct (sub64 sub 1 =? 0); [|discriminate]. intros _. eexists. split; [reflexivity|]. split; reflexivity.
    - destruct definite; [|discriminate].
      destruct (sub64 sub 1 =? 0); [|discriminate]. intros _. eexists. split; [reflexivity|]. split; reflexivity. }
  destruct (ty =? TY_TAG)%Z; [|discriminate].
  intros _. eexists. split; [reflexivity|]. split; reflexivity.
Qed.

(* P's [append] on a non-empty stack is what the plan says: refusal of a full definite container
   (creation_failed), the syntax error for a string frame, the cascade when the count reaches 0 or a
   tag is filled, otherwise one more item in the frame with the plan's new count (definite: minus
   one; indefinite map: parity flipped; indefinite array: unchanged) *)
Theorem append_follows_plan it f rest :
  frame_wf f -> frame_sub f < 2 ^ 64 ->
  let stk := f :: rest in
  let p := builder_append_plan 0 0 (len stk) (frame_sub f) (frame_ty f) (negb (frame_indef f)) (insert_ok f) in
  append it stk =
    if plan_cascades p then append (frame_close f it) rest
    else if (fieldZ "creation_failed" p =? 1)%Z then fail_mem stk
    else if (fieldZ "syntax_error" p =? 1)%Z then fail_syntax stk
    else ok_stack (frame_put f it (fieldN "subitems" p) :: rest).
Proof.
  intros Hwf H64 stk p. subst p stk. unfold builder_append_plan.
  assert (Hsz : (len (f :: rest) =? 0) = false).
  { rewrite len_cons. apply N.eqb_neq. lia. }
  rewrite Hsz. clear Hsz.
  destruct f as [indef racc al sub | indef racc key al sub | v | racc | racc];
    cbn [frame_ty frame_indef frame_sub insert_ok frame_wf frame_put frame_close] in *.
  - (* array *)
    change (TY_ARRAY =? TY_ARRAY)%Z with true. cbv iota.
    destruct indef; cbn [negb append].
    + change (1 =? 0)%Z with false. cbv iota.
      unfold plan_cascades, fieldZ, fieldN, ctx_fields6, zN. cbn. rewrite N2Z.id. reflexivity.
    + destruct (N.leb_spec al (len racc)) as [Hfull|Hroom].
      * change (0 =? 0)%Z with true. cbv iota. reflexivity.
      * change (1 =? 0)%Z with false. cbv iota.
        destruct (sub64 sub 1 =? 0) eqn:E.
        { reflexivity. }
        { unfold plan_cascades, fieldZ, fieldN, ctx_fields6, zN. cbn. rewrite N2Z.id. reflexivity. }
  - (* map *)
    change (TY_MAP =? TY_ARRAY)%Z with false. change (TY_MAP =? TY_MAP)%Z with true. cbv iota.
    cbn [append]. rewrite odd_is_even.
    destruct (is_even sub) eqn:Ev; cbn [negb andb].
    + (* a key *)
      assert (Hk : key = None) by (apply Hwf; reflexivity). subst key.
      destruct indef; cbn [negb andb].
      * change (1 =? 0)%Z with false. cbv iota.
        unfold plan_cascades, fieldZ, fieldN, ctx_fields6, zN. cbn. rewrite N2Z.id. reflexivity.
      * destruct (N.leb_spec al (len racc)) as [Hfull|Hroom]; cbn [andb].
        { change (0 =? 0)%Z with true. cbv iota. reflexivity. }
        { change (1 =? 0)%Z with false. cbv iota.
          destruct (sub64 sub 1 =? 0) eqn:E.
          - exfalso. apply N.eqb_eq in E. unfold is_even in Ev. apply N.eqb_eq in Ev.
            unfold sub64, W64 in E. destruct (N.leb_spec 1 sub); lia.
          - unfold plan_cascades, fieldZ, fieldN, ctx_fields6, zN. cbn. rewrite N2Z.id. reflexivity. }
    + (* a value *)
      destruct key as [k|]; [|exfalso; destruct Hwf as [Hwf _]; specialize (Hwf eq_refl); congruence].
      change (1 =? 0)%Z with false. cbv iota.
      destruct indef; cbn [negb].
      * unfold plan_cascades, fieldZ, fieldN, ctx_fields6, zN. cbn. rewrite N2Z.id. reflexivity.
      * destruct (sub64 sub 1 =? 0) eqn:E.
        { reflexivity. }
        { unfold plan_cascades, fieldZ, fieldN, ctx_fields6, zN. cbn. rewrite N2Z.id. reflexivity. }
  - (* tag *) reflexivity.
  - (* byte string frame *) reflexivity.
  - (* text string frame *) reflexivity.
Qed.

(* the map parity rule in isolation: which half the plan inserts *)
Theorem map_parity_rule cf se size sub definite c :
  size <> 0 ->
  let p := builder_append_plan cf se size sub TY_MAP definite c in
  (existsb (is_call "_cbor_map_add_value") (p_reqs p) = odd sub) /\
  (existsb (is_call "_cbor_map_add_key") (p_reqs p) = negb (odd sub)).
Proof.
  intros Hs p. subst p. unfold builder_append_plan. apply N.eqb_neq in Hs. rewrite Hs.
  change (TY_MAP =? TY_ARRAY)%Z with false. change (TY_MAP =? TY_MAP)%Z with true. cbv iota.
  rewrite odd_is_even.
  destruct (is_even sub); cbn [negb]; destruct (c =? 0)%Z, definite; try destruct (sub64 sub 1 =? 0); split; reflexivity.
Qed.

(* ------------------------------------------------------------------ *)
(* 3. the break callback                                                *)

Theorem is_indefinite_follows_plan f :
  p_ret (is_indefinite_plan (frame_ty f) (negb (frame_indef f))) = RZ (if frame_indef f then 1 else 0)%Z.
Proof. destruct f as [[] ? ? ?|[] ? ? ? ?| | |]; reflexivity. Qed.

(* the item an indefinite frame stands for when a break closes it *)
Definition frame_break_close (f : frame) : item :=
  match f with
  | FArr i racc _ _ => IArray i (rev racc)
  | FMap i racc _ _ _ => IMap i (rev racc)
  | FBytes racc => IBytesI (rev racc)
  | FText racc => ITextI (rev racc)
  | FTag v => ITag v (ICtrl 0)
  end.

Ltac fin := repeat split; try reflexivity; (let H := fresh in intros H; first [discriminate H | reflexivity]).

Theorem break_follows_plan L cap stk dst :
  (forall f rest, stk = f :: rest -> frame_wf f) ->
  let p := match stk with
           | [] => break_plan 0 0 0 dst 0 0
           | f :: _ => break_plan 0 (len stk) (frame_sub f) dst (frame_ty f) (if frame_indef f then 1 else 0)%Z
           end in
  callback L cap TBreak stk =
    match stk with
    | f :: rest => if plan_cascades p then append (frame_break_close f) rest else fail_syntax stk
    | [] => fail_syntax stk
    end /\
  (plan_cascades p = true -> p_reqs p = [ReqCall "_cbor_is_indefinite" [AP (top_item 0)]; call_pop 0; call_append (top_item 0) 0]) /\
  (plan_cascades p = false -> fieldZ "syntax_error" p = 1%Z).
Proof.
  intros Hwf p. subst p. destruct stk as [|f rest].
  { fin. }
  specialize (Hwf f rest eq_refl). unfold break_plan.
  assert (Hsz : (len (f :: rest) =? 0) = false) by (rewrite len_cons; apply N.eqb_neq; lia).
  rewrite Hsz. clear Hsz.
  destruct f as [indef racc al sub | indef racc key al sub | v | racc | racc];
    cbn [frame_ty frame_indef frame_sub frame_wf frame_break_close callback] in *.
  - destruct indef; fin.
  - destruct indef.
    + change (negb (1 =? 0)%Z) with true. change (TY_MAP =? TY_MAP)%Z with true. cbn [negb andb orb].
      rewrite odd_is_even. destruct (is_even sub) eqn:Ev; cbn [negb].
      * assert (Hk : key = None) by (apply Hwf; reflexivity). subst key.
        fin.
      * fin.
    + fin.
  - fin.
  - fin.
  - fin.
Qed.

(* ------------------------------------------------------------------ *)
(* 4. the start callbacks: push or append                               *)

(* ok0: the constructor succeeded (in P: the declared size is grantable); ok1: the stack is below
   the nesting limit *)
Theorem array_start_follows_plan L cap n stk :
  let p := array_start_plan 0 (len stk) n (alloc_ok cap 64 8 n) (negb (len stk =? L)) in
  callback L cap (TArray n) stk =
    if plan_cascades p then append (IArray false []) stk
    else if (fieldZ "creation_failed" p =? 1)%Z then fail_mem stk
    else ok_stack (FArr false [] n (push_subitems p) :: stk).
Proof.
  intros p. subst p. unfold array_start_plan, start_plan. cbn [callback]. unfold push.
  destruct (alloc_ok cap 64 8 n); cbn [negb]; [|reflexivity].
  destruct (0 <? n); [|reflexivity].
  destruct (len stk =? L); cbn [negb]; [reflexivity|].
  unfold plan_cascades, fieldZ, push_subitems, zN. cbn. rewrite N2Z.id. reflexivity.
Qed.

(* a definite map of n pairs is pushed expecting 2 n items (64-bit product) *)
Theorem map_start_follows_plan L cap n stk :
  let p := map_start_plan 0 (len stk) n (alloc_ok cap 64 16 n) (negb (len stk =? L)) in
  callback L cap (TMap n) stk =
    if plan_cascades p then append (IMap false []) stk
    else if (fieldZ "creation_failed" p =? 1)%Z then fail_mem stk
    else ok_stack (FMap false [] None n (push_subitems p) :: stk).
Proof.
  intros p. subst p. unfold map_start_plan, start_plan. cbn [callback]. unfold push.
  destruct (alloc_ok cap 64 16 n); cbn [negb]; [|reflexivity].
  destruct (0 <? n); [|reflexivity].
  destruct (len stk =? L); cbn [negb]; [reflexivity|].
  unfold plan_cascades, fieldZ, push_subitems, zN. cbn. rewrite N2Z.id. reflexivity.
Qed.

(* the indefinite containers and the tag are always pushed (P never refuses their constructor) *)
Theorem indef_start_follows_plan L cap stk ctor :
  let p := indef_start_plan ctor 0 (len stk) true (negb (len stk =? L)) in
  existsb (is_call "_cbor_stack_push") (p_reqs p) = true /\
  (forall f, push L f stk = if (fieldZ "creation_failed" p =? 1)%Z then fail_mem stk else ok_stack (f :: stk)) /\
  callback L cap TArrayStart stk = push L (FArr true [] 0 0) stk /\
  callback L cap TMapStart stk = push L (FMap true [] None 0 0) stk /\
  callback L cap TBytesStart stk = push L (FBytes []) stk /\
  callback L cap TTextStart stk = push L (FText []) stk.
Proof.
  intros p. subst p. unfold indef_start_plan, start_plan, push. cbn [negb].
  split; [|split; [|repeat split]].
  - destruct (len stk =? L); cbn [negb p_reqs existsb is_call];
      change (String.eqb "_cbor_stack_push" "_cbor_stack_push") with true; rewrite Bool.orb_true_r; reflexivity.
  - intros f. destruct (len stk =? L); reflexivity.
Qed.

(* ------------------------------------------------------------------ *)
(* 5. cbor_load: the outcome mapping                                    *)

Definition code_lerr (c : Z) : lerr :=
  if (c =? ERR_NOTENOUGHDATA)%Z then ENotEnough else if (c =? ERR_NODATA)%Z then ENoData
  else if (c =? ERR_MALFORMATED)%Z then EMalformed else if (c =? ERR_MEMERROR)%Z then EMem
  else if (c =? ERR_SYNTAXERROR)%Z then ESyntax else ENone.

Theorem load_entry_follows_plan L cap buf code cf pos rd sz se :
  let p := load_entry_plan code cf pos rd sz se (len buf) in
  match p_ret p with
  | RP PNull => load L cap buf = LErr (code_lerr (fieldZ "code" p)) (fieldN "position" p) (fieldN "read" p)
  | RLoop 0 => p_reqs p = [] /\ fieldN "read" p = 0 /\ fieldN "size" p = 0 /\
               fieldZ "creation_failed" p = 0%Z /\ fieldZ "syntax_error" p = 0%Z /\
               load L cap buf = load_loop L cap (S (List.length buf)) buf 0 []
  | _ => False
  end.
Proof.
  intros p. subst p. unfold load_entry_plan, load.
  destruct (len buf =? 0); cbn [p_ret]; [reflexivity|]. repeat split.
Qed.

Definition b2Z (b : bool) : Z := if b then 1%Z else 0%Z.

(* one round of the loop.  The exits that report an error report the code, the position and the read
   count the plan computed; a round that succeeds continues with the plan's read count *)
Theorem load_step_follows_plan L cap fuel buf read stk code pos :
  len buf < 2 ^ 64 ->
  (* nothing left *)
  (len buf <= read -> forall st dr cf' se' sz',
     let p := load_step_plan code 0 pos read (len stk) 0 (len buf) st dr cf' se' sz' in
     p_ret p = RLoop 1 /\ p_reqs p = [] /\
     load_loop L cap (S fuel) buf read stk = LErr (code_lerr (fieldZ "code" p)) (fieldN "position" p) (fieldN "read" p)) /\
  (read < len buf -> forall r e, stream_decode (skipnN read buf) = SRes r e ->
     match st r with
     | Finished =>
         forall tk, e = Some tk ->
         let c := callback L cap tk stk in
         fault c = false ->
         let p := load_step_plan code 0 pos read (len stk) 0 (len buf) (zstatus (st r)) (rd r)
                                 (b2Z (creation_failed c)) (b2Z (syntax_error c)) (len (stack c)) in
         match p_ret p with
         | RLoop 1 => load_loop L cap (S fuel) buf read stk =
                      LErr (code_lerr (fieldZ "code" p)) (fieldN "position" p) (fieldN "read" p)
         | RLoop 0 => stack c <> [] /\
                      load_loop L cap (S fuel) buf read stk = load_loop L cap fuel buf (fieldN "read" p) (stack c)
         | RP _ => stack c = [] /\
                   forall t, root c = Some t -> load_loop L cap (S fuel) buf read stk = LOk t (fieldN "read" p)
         | _ => False
         end
     | _ =>
         forall cf' se' sz',
         let p := load_step_plan code 0 pos read (len stk) 0 (len buf) (zstatus (st r)) (rd r) cf' se' sz' in
         p_ret p = RLoop 1 /\
         load_loop L cap (S fuel) buf read stk = LErr (code_lerr (fieldZ "code" p)) (fieldN "position" p) (fieldN "read" p)
     end).
Proof.
  intros H64. split.
  - intros Hle st dr cf' se' sz' p. subst p. unfold load_step_plan. cbn [load_loop].
    destruct (N.leb_spec (len buf) read) as [_|]; [|lia].
    cbn [p_ret p_reqs]. split; [reflexivity|]. split; [reflexivity|].
    unfold fieldZ, fieldN, load_fields, zN. cbn. rewrite !N2Z.id. reflexivity.
  - intros Hlt r e Hsd. cbn [load_loop].
    destruct (N.leb_spec (len buf) read) as [|_]; [lia|]. rewrite Hsd.
    destruct (st r) eqn:Est.
    + (* Finished *)
      intros tk -> Hf. set (c := callback L cap tk stk) in *. unfold load_step_plan.
      destruct (N.leb_spec (len buf) read) as [|_]; [lia|].
      cbn [zstatus]. change (0 =? ST_NEDATA)%Z with false. change (0 =? ST_ERROR)%Z with false. cbv iota.
      rewrite Hf.
      destruct (creation_failed c); cbn [b2Z Z.eqb negb].
      { cbn [p_ret]. unfold fieldZ, fieldN, zN. cbn. rewrite !N2Z.id. reflexivity. }
      destruct (syntax_error c); cbn [b2Z Z.eqb negb].
      { cbn [p_ret]. unfold fieldZ, fieldN, zN. cbn. rewrite !N2Z.id. reflexivity. }
      destruct (stack c) as [|f' rest'] eqn:Es.
      { change (0 <? len (@nil frame)) with false. cbv iota. cbn [p_ret].
        split; [reflexivity|]. intros t Ht. rewrite Ht.
        unfold fieldN, zN. cbn. rewrite !N2Z.id. reflexivity. }
      { assert (Hp : (0 <? len (f' :: rest')) = true) by (rewrite len_cons; apply N.ltb_lt; lia).
        rewrite Hp. cbn [p_ret]. split; [discriminate|].
        unfold fieldN, zN. cbn. rewrite !N2Z.id. reflexivity. }
    + (* Nedata *)
      intros cf' se' sz'. unfold load_step_plan.
      destruct (N.leb_spec (len buf) read) as [|_]; [lia|].
      cbn [zstatus]. change (1 =? ST_NEDATA)%Z with true. cbv iota. cbn [p_ret].
      split; [reflexivity|]. unfold fieldZ, fieldN, zN. cbn. rewrite !N2Z.id. reflexivity.
    + (* DError *)
      intros cf' se' sz'. unfold load_step_plan.
      destruct (N.leb_spec (len buf) read) as [|_]; [lia|].
      cbn [zstatus]. change (2 =? ST_NEDATA)%Z with false. change (2 =? ST_ERROR)%Z with true. cbv iota. cbn [p_ret].
      split; [reflexivity|]. unfold fieldZ, fieldN, zN. cbn. rewrite !N2Z.id. reflexivity.
Qed.

(* which code each exit carries, spelled out *)
Theorem load_outcome_codes code cf pos read sz se n st dr cf' se' sz' :
  let p := load_step_plan code cf pos read sz se n st dr cf' se' sz' in
  p_ret p = RLoop 1 ->
  fieldN "position" p = fieldN "read" p /\
  ((n <=? read) = true -> code_lerr (fieldZ "code" p) = ENotEnough /\ fieldN "read" p = read) /\
  ((n <=? read) = false ->
     (st = ST_NEDATA -> code_lerr (fieldZ "code" p) = ENotEnough /\ fieldN "read" p = read) /\
     (st = ST_ERROR -> code_lerr (fieldZ "code" p) = EMalformed /\ fieldN "read" p = read) /\
     (st = ST_FINISHED -> fieldN "read" p = wrap64 (read + dr) /\
        code_lerr (fieldZ "code" p) = if negb (cf' =? 0)%Z then EMem else ESyntax)).
Proof.
  intros p. subst p. unfold load_step_plan.
  destruct (n <=? read) eqn:E.
  { intros _. unfold fieldZ, fieldN, load_fields, zN. cbn. rewrite !N2Z.id.
    split; [reflexivity|]. split; [intros _; split; reflexivity | discriminate]. }
  destruct (st =? ST_NEDATA)%Z eqn:E1.
  { apply Z.eqb_eq in E1. subst st. intros _. unfold fieldZ, fieldN, zN. cbn. rewrite !N2Z.id.
    split; [reflexivity|]. split; [discriminate|]. intros _.
    split; [intros _; split; reflexivity|]. split; discriminate. }
  destruct (st =? ST_ERROR)%Z eqn:E2.
  { apply Z.eqb_eq in E2. subst st. intros _. unfold fieldZ, fieldN, zN. cbn. rewrite !N2Z.id.
    split; [reflexivity|]. split; [discriminate|]. intros _.
    split; [discriminate|]. split; [intros _; split; reflexivity | discriminate]. }
  destruct (negb (cf' =? 0)%Z) eqn:C1.
  { intros _. unfold fieldZ, fieldN, zN. cbn. rewrite !N2Z.id.
    split; [reflexivity|]. split; [discriminate|]. intros _.
    split; [intros ->; discriminate|]. split; [intros ->; discriminate|]. intros _. split; reflexivity. }
  destruct (negb (se' =? 0)%Z) eqn:C2.
  { intros _. unfold fieldZ, fieldN, zN. cbn. rewrite !N2Z.id.
    split; [reflexivity|]. split; [discriminate|]. intros _.
    split; [intros ->; discriminate|]. split; [intros ->; discriminate|]. intros _. split; reflexivity. }
  destruct (0 <? sz'); cbn [p_ret]; discriminate.
Qed.

(* ------------------------------------------------------------------ *)
(* 6. H: the order of the cleanup                                       *)

Section Cleanup.
Variable refuse : N -> N -> bool.

(* the error path of cbor_load: the item of the top record is released BEFORE the record is popped *)
Theorem unwind_follows_plan code cf pos rd se stk :
  let p := load_unwind_plan code cf pos rd (len stk) se in
  match stk with
  | [] => p_ret p = RP PNull /\ p_reqs p = [] /\ unwind [] = ret tt
  | (rec, top, sub) :: rest =>
      p_ret p = RLoop 1 /\
      p_reqs p = [call_decref (PField (PField stackL "top") "item"); ReqCall "_cbor_stack_pop" [AP stackL]] /\
      unwind stk = (decref top ;;; stack_pop (rec, top, sub) ;;; unwind rest)
  end.
Proof. clear refuse.
  intros p. subst p. unfold load_unwind_plan. destruct stk as [|[[rec top] sub] rest].
  - repeat split.
  - assert (Hp : (0 <? len ((rec, top, sub) :: rest)) = true) by (rewrite len_cons; apply N.ltb_lt; lia).
    rewrite Hp. repeat split.
Qed.

(* the allocator events of the requests of a glue plan, oldest first: a library constructor of an
   item is one malloc of sizeof(cbor_item_t) *)
Definition is_item_ctor (f : string) : bool :=
  String.eqb f "cbor_new_definite_string" || String.eqb f "cbor_new_definite_bytestring".
Fixpoint glue_trace (all ress : list (option addr)) (rs : list req) : list event :=
  match rs with
  | [] => []
  | r :: rs' =>
      let res := hd None ress in
      match r with
      | ReqMalloc b => EvMalloc (Z.to_N b) res :: glue_trace all (tl ress) rs'
      | ReqFree p => EvFree (ptr_val None all p) :: glue_trace all ress rs'
      | ReqCall f _ => if is_item_ctor f then EvMalloc SZ_ITEM res :: glue_trace all (tl ress) rs'
                       else glue_trace all ress rs'
      | _ => glue_trace all (tl ress) rs'
      end
  end.

(* the failure paths of the string callbacks: creation_failed, the stack untouched, the payload
   block freed exactly once and after the failed constructor, nothing left allocated *)
Theorem string_cb_failure_follows_plan text d stk w sub dst ty c :
  wf w ->
  let ok0 := malloc_ok refuse (nreq w) (len d) in
  let ok1 := malloc_ok refuse (nreq w + 1) SZ_ITEM in
  let p := string_cb_plan text 0 (len stk) sub dst ty (len d) ok0 ok1 c in
  let ress := [if ok0 then Some (next w) else None; if ok1 then Some (next w + 1) else None] in
  ok0 && ok1 = false ->
  fieldZ "creation_failed" p = 1%Z /\
  exists w',
    string_cb refuse text d stk w = Ret (cf_ctx stk) w' /\
    trace w' = rev (glue_trace ress ress (p_reqs p)) ++ trace w /\
    heap_eq w w'.
Proof.
  intros Hwf ok0 ok1 p ress Hfail. subst p ress ok0 ok1.
  unfold string_cb_plan, malloc_ok in *. unfold string_cb.
  destruct (refuse (nreq w) (len d)) eqn:R0; cbn [negb andb] in *.
  { split; [reflexivity|]. eexists. split.
    { mstep (malloc_refused refuse (len d) (CData (len d)) w R0). reflexivity. }
    cbn [p_reqs glue_trace hd tl rev app]. unfold zN. rewrite N2Z.id. wsimpl.
    split; [reflexivity|]. intros b. reflexivity. }
  destruct (refuse (nreq w + 1) SZ_ITEM) eqn:R1; cbn [negb] in *; [|discriminate].
  split; [reflexivity|]. eexists. split.
  { mstep (malloc_granted refuse (len d) (CData (len d)) w R0).
    unfold new_definite_string.
    match goal with |- bind (malloc refuse ?sz ?cl) _ ?w1 = _ =>
      mstep (malloc_refused refuse sz cl w1 R1) end.
    match goal with |- bind (free (Some ?a)) _ ?w2 = _ =>
      assert (Hh : heap w2 a = Some (CData (len d))) by (wsimpl; apply upd_same);
      mstep (free_spec a w2 _ Hh) end.
    reflexivity. }
  cbn [p_reqs glue_trace hd tl rev app ptr_val nth].
  replace (is_item_ctor (if text then "cbor_new_definite_string" else "cbor_new_definite_bytestring")) with true
    by (destruct text; reflexivity).
  cbn [glue_trace hd tl rev app ptr_val nth]. unfold zN. rewrite N2Z.id. wsimpl.
  split; [reflexivity|].
  intros b. wsimpl. destruct (N.eq_dec b (next w)) as [->|Hb].
  - rewrite upd_same. symmetry. apply Hwf. lia.
  - rewrite !upd_other by exact Hb. reflexivity.
Qed.

End Cleanup.
