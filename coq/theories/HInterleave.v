(* Model H, property C17: schedules of several threads over ONE shared world.  Definitions only.

   A thread has a program (a list of client calls of all three API layers, HHist3.op3), its own handle
   table, and the outputs it has observed so far.  A schedule is a list of thread indices; [run_sched]
   executes, for each index in the schedule, the next call of that thread on the shared world (every
   call is atomic, as in the model: one allocator, one heap).  A fault of a call propagates; choosing a
   thread that does not exist or has finished is [FStuck]. *)
From CB Require Export HHist3.
From Coq Require Export Arith.
Local Open Scope N_scope.

Record thread := mkthread {
  t_prog : list op3;       (* the calls still to be made *)
  t_state : cstate3;       (* the thread's own handle table *)
  t_outs : list out3       (* what it has observed, newest first *)
}.
Definition thread0 (prog : list op3) : thread := mkthread prog s3_0 [].
Definition outputs (th : thread) : list out3 := rev (t_outs th).

Definition FStuck : fkind := FAssert 1000.

(* the addresses a stretch of a run touches: the cells it reads or writes (access log) and the blocks its
   allocator events name or hand out (event trace); both lists are newest first *)
Definition access_addr (x : access) : addr := match x with AccR a => a | AccW a => a end.
Definition opt_list (o : option addr) : list addr := match o with Some a => [a] | None => [] end.
Definition event_addrs (e : event) : list addr :=
  match e with
  | EvMalloc _ r => opt_list r
  | EvRealloc o _ r => opt_list o ++ opt_list r
  | EvFree p => opt_list p
  end.
Definition newer {A} (l' l : list A) : list A := firstn (length l' - length l) l'.
Definition touched (w w' : world) : list addr :=
  map access_addr (newer (alog w') (alog w)) ++ flat_map event_addrs (newer (trace w') (trace w)).

Section Sched.
Variable refuse : N -> N -> bool.
Variable L : N.

Fixpoint run_sched (sched : list nat) (ths : list thread) : M (list thread) :=
  match sched with
  | [] => ret ths
  | t :: r =>
      match nth_error ths t with
      | Some (mkthread (o :: prog) s acc) =>
          so <- step3 refuse L s o ;;
          run_sched r (set_nth ths t (mkthread prog (fst so) (snd so :: acc)))
      | _ => fail FStuck
      end
  end.

(* the same run, recording for every call the thread that made it and the addresses it touched *)
Fixpoint sched_log (sched : list nat) (ths : list thread) (w : world) : list (nat * list addr) :=
  match sched with
  | [] => []
  | t :: r =>
      match nth_error ths t with
      | Some (mkthread (o :: prog) s acc) =>
          match step3 refuse L s o w with
          | Ret so w' =>
              (t, touched w w') :: sched_log r (set_nth ths t (mkthread prog (fst so) (snd so :: acc))) w'
          | Fault _ => []
          end
      | _ => []
      end
  end.
End Sched.

(* a complete interleaving of the threads' programs: thread [t] is chosen exactly as many times as it has
   calls to make (and no other index occurs) *)
Definition complete (sched : list nat) (ths : list thread) : Prop :=
  forall t, count_occ Nat.eq_dec sched t =
            match nth_error ths t with Some th => length (t_prog th) | None => 0%nat end.

(* the oracle does not depend on the request index (the allocator is configured once, before the threads
   start, and its answers do not depend on who has asked before) *)
Definition index_independent (refuse : N -> N -> bool) : Prop := forall i j sz, refuse i sz = refuse j sz.
