(* generated encoders.c / _cbor_encode_byte = the model's encoders (this run's AST) *)
From Coq Require Import ZArith NArith List Bool Lia ZifyBool ZifyN ZifyNat.
Import ListNotations.
From CB Require Import Word PStream PEnc PMem GenLeafTypes BridgeTac.
From CBGen Require Import Gen_leaf.
Ltac Zify.zify_post_hook ::= Z.div_mod_to_equations.
Local Open Scope Z_scope.
(* ---- encoders.c / encoding.c ---- *)

Lemma bridge_encode_uint8 v size off : (v < 2^8)%N -> (off < 2^8)%N ->
  g_cbor_encode_uint8 (Z.of_N v) (Z.of_N size) (Z.of_N off) = zres (enc_uint8 v size off).
Proof. intros Hv Ho. unfold g_cbor_encode_uint8, enc_uint8, zres, efail, indexed. cbv zeta. norm. splits; cbn [idx map fst snd app]; repeat f_equal; pows; try lia. Qed.

Lemma bridge_encode_uint16 v size off : (v < 2^16)%N -> (off < 2^8)%N ->
  g_cbor_encode_uint16 (Z.of_N v) (Z.of_N size) (Z.of_N off) = zres (enc_uint16 v size off).
Proof. intros Hv Ho. unfold g_cbor_encode_uint16, enc_uint16, zres, efail, indexed. cbv zeta. norm. splits; cbn [idx map fst snd app]; repeat f_equal; pows; try lia. Qed.

Lemma bridge_encode_uint32 v size off : (v < 2^32)%N -> (off < 2^8)%N ->
  g_cbor_encode_uint32 (Z.of_N v) (Z.of_N size) (Z.of_N off) = zres (enc_uint32 v size off).
Proof. intros Hv Ho. unfold g_cbor_encode_uint32, enc_uint32, zres, efail, indexed. cbv zeta. norm. splits; cbn [idx map fst snd app]; repeat f_equal; pows; try lia. Qed.

Lemma bridge_encode_uint64 v size off : (v < 2^64)%N -> (off < 2^8)%N ->
  g_cbor_encode_uint64 (Z.of_N v) (Z.of_N size) (Z.of_N off) = zres (enc_uint64 v size off).
Proof. intros Hv Ho. unfold g_cbor_encode_uint64, enc_uint64, zres, efail, indexed. cbv zeta. norm. splits; cbn [idx map fst snd app]; repeat f_equal; pows; try lia. Qed.

Lemma bridge_encode_byte v size : g_cbor_encode_byte (Z.of_N v) (Z.of_N size) = zres (enc_byte v size).
Proof. unfold g_cbor_encode_byte, enc_byte, zres, efail, indexed. cbv zeta. norm. splits; cbn [idx map fst snd app]; repeat f_equal; try lia. Qed.

