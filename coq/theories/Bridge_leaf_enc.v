(* generated encoders.c / _cbor_encode_byte = the model's encoders (this run's AST) *)
From Coq Require Import ZArith NArith List Bool Lia ZifyBool ZifyN ZifyNat.
Import ListNotations.
From CB Require Import Word PStream PEnc PMem GenLeafTypes BridgeTac.
From CBGen Require Import Gen_leaf.
Ltac Zify.zify_post_hook ::= Z.div_mod_to_equations.
Local Open Scope Z_scope.
(* ---- encoders.c / encoding.c ---- *)

Lemma bridge_encode_uint8 v size off : (v < 2^8)%N -> (off < 2^8)%N ->
  g_cbor_encode_uint8 (Z.of_N v) (Z.of_N size) (Z.of_N off) = zres (enc_uint8 v size off).
Proof.
  intros Hv Ho.
  first [ unfold g_cbor_encode_uint8, enc_uint8, zres, efail, indexed; cbv zeta; norm; splits; cbn [idx map fst snd app]; repeat f_equal; pows; try lia; fail
        | unfold g_cbor_encode_uint8, fb_cbor_encode_uint8; rewrite !N2Z.id; reflexivity ].
Qed.

Lemma bridge_encode_uint16 v size off : (v < 2^16)%N -> (off < 2^8)%N ->
  g_cbor_encode_uint16 (Z.of_N v) (Z.of_N size) (Z.of_N off) = zres (enc_uint16 v size off).
Proof.
  intros Hv Ho.
  first [ unfold g_cbor_encode_uint16, enc_uint16, zres, efail, indexed; cbv zeta; norm; splits; cbn [idx map fst snd app]; repeat f_equal; pows; try lia; fail
        | unfold g_cbor_encode_uint16, fb_cbor_encode_uint16; rewrite !N2Z.id; reflexivity ].
Qed.

Lemma bridge_encode_uint32 v size off : (v < 2^32)%N -> (off < 2^8)%N ->
  g_cbor_encode_uint32 (Z.of_N v) (Z.of_N size) (Z.of_N off) = zres (enc_uint32 v size off).
Proof.
  intros Hv Ho.
  first [ unfold g_cbor_encode_uint32, enc_uint32, zres, efail, indexed; cbv zeta; norm; splits; cbn [idx map fst snd app]; repeat f_equal; pows; try lia; fail
        | unfold g_cbor_encode_uint32, fb_cbor_encode_uint32; rewrite !N2Z.id; reflexivity ].
Qed.

Lemma bridge_encode_uint64 v size off : (v < 2^64)%N -> (off < 2^8)%N ->
  g_cbor_encode_uint64 (Z.of_N v) (Z.of_N size) (Z.of_N off) = zres (enc_uint64 v size off).
Proof.
  intros Hv Ho.
  first [ unfold g_cbor_encode_uint64, enc_uint64, zres, efail, indexed; cbv zeta; norm; splits; cbn [idx map fst snd app]; repeat f_equal; pows; try lia; fail
        | unfold g_cbor_encode_uint64, fb_cbor_encode_uint64; rewrite !N2Z.id; reflexivity ].
Qed.

Lemma bridge_encode_byte v size : g_cbor_encode_byte (Z.of_N v) (Z.of_N size) = zres (enc_byte v size).
Proof.
  first [ unfold g_cbor_encode_byte, enc_byte, zres, efail, indexed; cbv zeta; norm; splits; cbn [idx map fst snd app]; repeat f_equal; try lia; fail
        | unfold g_cbor_encode_byte, fb_cbor_encode_byte; rewrite !N2Z.id; reflexivity ].
Qed.


(* ---- _cbor_encode_uint and the public encoders of encoding.c (major-type offsets) ---- *)
Lemma wrapz_of_N w v : wrapz (Z.of_N w) (Z.of_N v) = Z.of_N (wrap w v).
Proof. unfold wrapz, wrap. rewrite N2Z.inj_mod, N2Z.inj_pow. reflexivity. Qed.

Lemma bridge_encode_uint v size off : (v < 2^64)%N -> (off < 2^8)%N ->
  g_cbor_encode_uint (Z.of_N v) (Z.of_N size) (Z.of_N off) = zres (enc_uint v size off).
Proof.
  intros Hv Ho.
  first [
    unfold g_cbor_encode_uint, enc_uint; cbv zeta;
    change (wrapz 64 65535) with 65535; change (wrapz 64 255) with 255; change (wrapz 64 4294967295) with 4294967295;
    change 8 with (Z.of_N 8); change 16 with (Z.of_N 16); change 32 with (Z.of_N 32);
    rewrite !wrapz_of_N;
    replace (wrap 64 v) with v by (unfold wrap; rewrite N.mod_small; [reflexivity|exact Hv]);
    assert (H8 : (wrap 8 v < 2^8)%N) by (unfold wrap; apply N.mod_lt; discriminate);
    assert (H16 : (wrap 16 v < 2^16)%N) by (unfold wrap; apply N.mod_lt; discriminate);
    assert (H32 : (wrap 32 v < 2^32)%N) by (unfold wrap; apply N.mod_lt; discriminate);
    rewrite (bridge_encode_uint8 _ size off H8 Ho), (bridge_encode_uint16 _ size off H16 Ho),
            (bridge_encode_uint32 _ size off H32 Ho), (bridge_encode_uint64 _ size off Hv Ho);
    unfold nz, b2z;
    repeat match goal with |- context [if ?c then _ else _] =>
      lazymatch c with context [if _ then _ else _] => fail | _ => destruct c eqn:? end end;
    try reflexivity; exfalso; lia
  | unfold g_cbor_encode_uint, fb_cbor_encode_uint; rewrite !N2Z.id; reflexivity ].
Qed.
Lemma bridge_pub_uint8 v size : (v < 2^8)%N -> gcbor_encode_uint8 (Z.of_N v) (Z.of_N size) = zres (enc_uint8 v size 0).
Proof.
  intros Hv.
  first [ unfold gcbor_encode_uint8; cbv zeta; fold_consts; change 0 with (Z.of_N 0); apply bridge_encode_uint8; [exact Hv|pows; lia]
        | unfold gcbor_encode_uint8, fbcbor_encode_uint8; rewrite !N2Z.id; reflexivity ].
Qed.
Lemma bridge_pub_uint16 v size : (v < 2^16)%N -> gcbor_encode_uint16 (Z.of_N v) (Z.of_N size) = zres (enc_uint16 v size 0).
Proof.
  intros Hv.
  first [ unfold gcbor_encode_uint16; cbv zeta; fold_consts; change 0 with (Z.of_N 0); apply bridge_encode_uint16; [exact Hv|pows; lia]
        | unfold gcbor_encode_uint16, fbcbor_encode_uint16; rewrite !N2Z.id; reflexivity ].
Qed.
Lemma bridge_pub_uint32 v size : (v < 2^32)%N -> gcbor_encode_uint32 (Z.of_N v) (Z.of_N size) = zres (enc_uint32 v size 0).
Proof.
  intros Hv.
  first [ unfold gcbor_encode_uint32; cbv zeta; fold_consts; change 0 with (Z.of_N 0); apply bridge_encode_uint32; [exact Hv|pows; lia]
        | unfold gcbor_encode_uint32, fbcbor_encode_uint32; rewrite !N2Z.id; reflexivity ].
Qed.
Lemma bridge_pub_uint64 v size : (v < 2^64)%N -> gcbor_encode_uint64 (Z.of_N v) (Z.of_N size) = zres (enc_uint64 v size 0).
Proof.
  intros Hv.
  first [ unfold gcbor_encode_uint64; cbv zeta; fold_consts; change 0 with (Z.of_N 0); apply bridge_encode_uint64; [exact Hv|pows; lia]
        | unfold gcbor_encode_uint64, fbcbor_encode_uint64; rewrite !N2Z.id; reflexivity ].
Qed.
Lemma bridge_pub_uint v size : (v < 2^64)%N -> gcbor_encode_uint (Z.of_N v) (Z.of_N size) = zres (enc_uint v size 0).
Proof.
  intros Hv.
  first [ unfold gcbor_encode_uint; cbv zeta; fold_consts; change 0 with (Z.of_N 0); apply bridge_encode_uint; [exact Hv|pows; lia]
        | unfold gcbor_encode_uint, fbcbor_encode_uint; rewrite !N2Z.id; reflexivity ].
Qed.
Lemma bridge_pub_negint8 v size : (v < 2^8)%N -> gcbor_encode_negint8 (Z.of_N v) (Z.of_N size) = zres (enc_uint8 v size 32).
Proof.
  intros Hv.
  first [ unfold gcbor_encode_negint8; cbv zeta; fold_consts; change 32 with (Z.of_N 32); apply bridge_encode_uint8; [exact Hv|pows; lia]
        | unfold gcbor_encode_negint8, fbcbor_encode_negint8; rewrite !N2Z.id; reflexivity ].
Qed.
Lemma bridge_pub_negint16 v size : (v < 2^16)%N -> gcbor_encode_negint16 (Z.of_N v) (Z.of_N size) = zres (enc_uint16 v size 32).
Proof.
  intros Hv.
  first [ unfold gcbor_encode_negint16; cbv zeta; fold_consts; change 32 with (Z.of_N 32); apply bridge_encode_uint16; [exact Hv|pows; lia]
        | unfold gcbor_encode_negint16, fbcbor_encode_negint16; rewrite !N2Z.id; reflexivity ].
Qed.
Lemma bridge_pub_negint32 v size : (v < 2^32)%N -> gcbor_encode_negint32 (Z.of_N v) (Z.of_N size) = zres (enc_uint32 v size 32).
Proof.
  intros Hv.
  first [ unfold gcbor_encode_negint32; cbv zeta; fold_consts; change 32 with (Z.of_N 32); apply bridge_encode_uint32; [exact Hv|pows; lia]
        | unfold gcbor_encode_negint32, fbcbor_encode_negint32; rewrite !N2Z.id; reflexivity ].
Qed.
Lemma bridge_pub_negint64 v size : (v < 2^64)%N -> gcbor_encode_negint64 (Z.of_N v) (Z.of_N size) = zres (enc_uint64 v size 32).
Proof.
  intros Hv.
  first [ unfold gcbor_encode_negint64; cbv zeta; fold_consts; change 32 with (Z.of_N 32); apply bridge_encode_uint64; [exact Hv|pows; lia]
        | unfold gcbor_encode_negint64, fbcbor_encode_negint64; rewrite !N2Z.id; reflexivity ].
Qed.
Lemma bridge_pub_negint v size : (v < 2^64)%N -> gcbor_encode_negint (Z.of_N v) (Z.of_N size) = zres (enc_uint v size 32).
Proof.
  intros Hv.
  first [ unfold gcbor_encode_negint; cbv zeta; fold_consts; change 32 with (Z.of_N 32); apply bridge_encode_uint; [exact Hv|pows; lia]
        | unfold gcbor_encode_negint, fbcbor_encode_negint; rewrite !N2Z.id; reflexivity ].
Qed.
Lemma bridge_pub_bytestring_start v size : (v < 2^64)%N -> gcbor_encode_bytestring_start (Z.of_N v) (Z.of_N size) = zres (enc_uint v size 64).
Proof.
  intros Hv.
  first [ unfold gcbor_encode_bytestring_start; cbv zeta; fold_consts; change 64 with (Z.of_N 64); apply bridge_encode_uint; [exact Hv|pows; lia]
        | unfold gcbor_encode_bytestring_start, fbcbor_encode_bytestring_start; rewrite !N2Z.id; reflexivity ].
Qed.
Lemma bridge_pub_string_start v size : (v < 2^64)%N -> gcbor_encode_string_start (Z.of_N v) (Z.of_N size) = zres (enc_uint v size 96).
Proof.
  intros Hv.
  first [ unfold gcbor_encode_string_start; cbv zeta; fold_consts; change 96 with (Z.of_N 96); apply bridge_encode_uint; [exact Hv|pows; lia]
        | unfold gcbor_encode_string_start, fbcbor_encode_string_start; rewrite !N2Z.id; reflexivity ].
Qed.
Lemma bridge_pub_array_start v size : (v < 2^64)%N -> gcbor_encode_array_start (Z.of_N v) (Z.of_N size) = zres (enc_uint v size 128).
Proof.
  intros Hv.
  first [ unfold gcbor_encode_array_start; cbv zeta; fold_consts; change 128 with (Z.of_N 128); apply bridge_encode_uint; [exact Hv|pows; lia]
        | unfold gcbor_encode_array_start, fbcbor_encode_array_start; rewrite !N2Z.id; reflexivity ].
Qed.
Lemma bridge_pub_map_start v size : (v < 2^64)%N -> gcbor_encode_map_start (Z.of_N v) (Z.of_N size) = zres (enc_uint v size 160).
Proof.
  intros Hv.
  first [ unfold gcbor_encode_map_start; cbv zeta; fold_consts; change 160 with (Z.of_N 160); apply bridge_encode_uint; [exact Hv|pows; lia]
        | unfold gcbor_encode_map_start, fbcbor_encode_map_start; rewrite !N2Z.id; reflexivity ].
Qed.
Lemma bridge_pub_tag v size : (v < 2^64)%N -> gcbor_encode_tag (Z.of_N v) (Z.of_N size) = zres (enc_uint v size 192).
Proof.
  intros Hv.
  first [ unfold gcbor_encode_tag; cbv zeta; fold_consts; change 192 with (Z.of_N 192); apply bridge_encode_uint; [exact Hv|pows; lia]
        | unfold gcbor_encode_tag, fbcbor_encode_tag; rewrite !N2Z.id; reflexivity ].
Qed.
Lemma bridge_pub_ctrl v size : (v < 2^8)%N -> gcbor_encode_ctrl (Z.of_N v) (Z.of_N size) = zres (enc_uint8 v size 224).
Proof.
  intros Hv.
  first [ unfold gcbor_encode_ctrl; cbv zeta; fold_consts; change 224 with (Z.of_N 224); apply bridge_encode_uint8; [exact Hv|pows; lia]
        | unfold gcbor_encode_ctrl, fbcbor_encode_ctrl; rewrite !N2Z.id; reflexivity ].
Qed.
Lemma bridge_pub_bool v size : gcbor_encode_bool (Z.of_N v) (Z.of_N size) = zres (if (v =? 0)%N then enc_byte 0xF4 size else enc_byte 0xF5 size).
Proof.
  first [ (* by conversion: with v = 0 or v = N.pos p every test of the truth value of [value] computes *)
          destruct v as [|p];
          [ change (gcbor_encode_bool (Z.of_N 0) (Z.of_N size)) with (g_cbor_encode_byte (Z.of_N 244) (Z.of_N size))
          | change (gcbor_encode_bool (Z.of_N (N.pos p)) (Z.of_N size)) with (g_cbor_encode_byte (Z.of_N 245) (Z.of_N size)) ];
          apply bridge_encode_byte
        | unfold gcbor_encode_bool; cbv zeta; fold_consts; change 245 with (Z.of_N 245); change 244 with (Z.of_N 244);
          rewrite !bridge_encode_byte; unfold nz; destruct (N.eqb_spec v 0) as [->|Hne]; [reflexivity|];
          destruct (Z.eqb_spec (Z.of_N v) 0); [lia|reflexivity]
        | unfold gcbor_encode_bool, fbcbor_encode_bool; rewrite !N2Z.id; reflexivity ].
Qed.
Lemma bridge_pub_indef_bytestring_start size : gcbor_encode_indef_bytestring_start (Z.of_N size) = zres (enc_byte 95 size).
Proof.
  first [ unfold gcbor_encode_indef_bytestring_start; cbv zeta; fold_consts; change 95 with (Z.of_N 95); apply bridge_encode_byte
        | unfold gcbor_encode_indef_bytestring_start, fbcbor_encode_indef_bytestring_start; rewrite !N2Z.id; reflexivity ].
Qed.
Lemma bridge_pub_indef_string_start size : gcbor_encode_indef_string_start (Z.of_N size) = zres (enc_byte 127 size).
Proof.
  first [ unfold gcbor_encode_indef_string_start; cbv zeta; fold_consts; change 127 with (Z.of_N 127); apply bridge_encode_byte
        | unfold gcbor_encode_indef_string_start, fbcbor_encode_indef_string_start; rewrite !N2Z.id; reflexivity ].
Qed.
Lemma bridge_pub_indef_array_start size : gcbor_encode_indef_array_start (Z.of_N size) = zres (enc_byte 159 size).
Proof.
  first [ unfold gcbor_encode_indef_array_start; cbv zeta; fold_consts; change 159 with (Z.of_N 159); apply bridge_encode_byte
        | unfold gcbor_encode_indef_array_start, fbcbor_encode_indef_array_start; rewrite !N2Z.id; reflexivity ].
Qed.
Lemma bridge_pub_indef_map_start size : gcbor_encode_indef_map_start (Z.of_N size) = zres (enc_byte 191 size).
Proof.
  first [ unfold gcbor_encode_indef_map_start; cbv zeta; fold_consts; change 191 with (Z.of_N 191); apply bridge_encode_byte
        | unfold gcbor_encode_indef_map_start, fbcbor_encode_indef_map_start; rewrite !N2Z.id; reflexivity ].
Qed.
Lemma bridge_pub_null size : gcbor_encode_null (Z.of_N size) = zres (enc_byte 246 size).
Proof.
  first [ unfold gcbor_encode_null; cbv zeta; fold_consts; change 246 with (Z.of_N 246); apply bridge_encode_byte
        | unfold gcbor_encode_null, fbcbor_encode_null; rewrite !N2Z.id; reflexivity ].
Qed.
Lemma bridge_pub_undef size : gcbor_encode_undef (Z.of_N size) = zres (enc_byte 247 size).
Proof.
  first [ unfold gcbor_encode_undef; cbv zeta; fold_consts; change 247 with (Z.of_N 247); apply bridge_encode_byte
        | unfold gcbor_encode_undef, fbcbor_encode_undef; rewrite !N2Z.id; reflexivity ].
Qed.
Lemma bridge_pub_break size : gcbor_encode_break (Z.of_N size) = zres (enc_byte 255 size).
Proof.
  first [ unfold gcbor_encode_break; cbv zeta; fold_consts; change 255 with (Z.of_N 255); apply bridge_encode_byte
        | unfold gcbor_encode_break, fbcbor_encode_break; rewrite !N2Z.id; reflexivity ].
Qed.
