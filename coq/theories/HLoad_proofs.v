(* Model H, cbor_load over the heap (HOps.load_h): safety for every allocator oracle and every
   stack limit (C01), clean failure (C05 / C06), ownership of the result (C02), and refinement to
   the pure model PBuild.load when nothing is refused.

   Main theorems (sections 11 and 13):
     load_h_never_faults   (A) no fault, whatever the allocator refuses and whatever the limit L
     load_h_clean_failure  (B) an error result leaves every old cell untouched and every cell of the
                               call released; the code is not ENone
     load_h_success        (C) the root is fresh and owned once; fresh items have count 1; the live
                               fresh cells are exactly the cells reachable from the root
     load_h_refines        (D) with the allocator that grants everything, SIZE_MAX <= cap and
                               len buf < 2^57: load_h and PBuild.load return the same thing
                               (same error triple, or an item whose [abs_of] is P's tree)
     load_h_refines_any    (D') ANY allocator, len buf < SIZE_MAX: the two sides agree, or the H side
                               alone reports a memory error (a request refused, or a growth stopped by
                               the overflow guards: 2^57 items at least).  Hence load_h_ok_is_load_any /
                               load_h_ok_abs_any: whenever cbor_load returns an item, the item abstracts
                               to P's tree, with every traversal budget covering the cells of the call
     load_h_success_order      children are younger than their parent, blocks belong to the call

   The loop invariant combines
     - the reference-count accounting [Inv] of HRef_proofs, with the decoder stack as the client:
       every stack item is owned once by the stack, every stack record is a client-owned block;
     - [G]: the cells that existed before the call are untouched, and every cell created by the
       call refers only to cells created later by the call (children are allocated after their
       parent), so the fresh region is closed and acyclic;
     - [rc1]: every fresh item has reference count 1;
     - [stack_ok]: the shape of each open container agrees with its [subitems] counter
       (definite array: allocated = end_ptr + subitems and subitems > 0, so the push cannot fail
       and CBOR_ASSERT 10 holds; map: an odd counter means a pending key, so _cbor_map_add_value
       has a slot and CBOR_ASSERT 11 / 12 hold; tag: counter 1, CBOR_ASSERT 13).
   For (D) a ghost labelling [T : addr -> option item] of the complete items is carried along;
   its consistency [CONS] is local to each cell, so no separation argument is needed. *)
From CB Require Import Word Word_proofs PStream PMem PMem_proofs PItem PBuild HHeap HItems HOps HRef_proofs HCont_proofs HRead_proofs PStream_proofs.
From CB Require Import SpecHead PRun PBuild_proofs.
From Coq Require Import Lia ZArith ZifyBool ZifyN ZifyNat.
Local Open Scope N_scope.
Ltac Zify.zify_post_hook ::= Z.div_mod_to_equations.
(* every lemma of a section takes all the section variables, in declaration order *)
Set Default Proof Using "All".

#[local] Arguments N.pow : simpl never.
#[local] Arguments N.mul : simpl never.
#[local] Arguments N.add : simpl never.
#[local] Arguments N.sub : simpl never.

Notation dblocks := HRef_proofs.dblocks.
Notation ol := HRef_proofs.opt_list.

(* ------------------------------------------------------------------------------------------ *)
(* 1. the accounting invariant under pointwise heap descriptions                              *)
(* ------------------------------------------------------------------------------------------ *)

(* symbolic execution below an existential: consume the head action of a bind *)
Ltac bstep H := rewrite (bind_Ret _ _ _ _ _ H); cbn [fst snd].

Definition mkw (h : addr -> option cell) (nx : N) : world := mkworld h nx 0 [] [].

Lemma refs_pw sel h h' nx x : (forall b, b < nx -> h' b = h b) -> refs sel h' nx x = refs sel h nx x.
Proof. intros H. unfold refs. apply sumN_ext. intros i Hi. rewrite H by exact Hi. reflexivity. Qed.

Lemma refs_extend sel h nx k x : (forall b, nx <= b -> h b = None) -> refs sel h (nx + k) x = refs sel h nx x.
Proof. intros H. induction k as [|k IH] using N.peano_ind; [rewrite N.add_0_r; reflexivity|].
  unfold refs in *. rewrite N.add_succ_r, sumN_succ, IH, H by lia. cbn [selc cnt]. lia. Qed.

(* only the heap (pointwise), the bump pointer (which may have advanced over dead addresses) and
   the ownership functions (pointwise) matter *)
Lemma Inv_pw own ownd own' ownd' ts w w' :
  Inv own ownd ts w -> (forall b, heap w' b = heap w b) -> next w <= next w' ->
  (forall x, own' x = own x) -> (forall x, ownd' x = ownd x) -> Inv own' ownd' ts w'.
Proof. intros [H1 H2] Hh Hn HO HD.
  assert (ID : forall sel x, refs sel (heap w') (next w') x = refs sel (heap w) (next w) x).
  { intros sel x. replace (next w') with (next w + (next w' - next w)) by lia.
    rewrite (refs_pw sel (heap w) (heap w')) by (intros; apply Hh). apply refs_extend. exact H1. }
  split.
  - intros a Ha. rewrite Hh. apply H1. lia.
  - intros x. specialize (H2 x). unfold okcell, indeg, dindeg in *. rewrite !ID, Hh, HO, HD. exact H2. Qed.

(* the node of a live item is replaced; the references it gains / loses are taken from / given to
   the client *)
Lemma Inv_reacc own ownd own' ownd' w w' a rc n n' :
  Inv own ownd [] w -> heap w a = Some (CItem rc n) ->
  (forall b, heap w' b = if b =? a then Some (CItem rc n') else heap w b) -> next w' = next w ->
  (forall x, own' x + cnt x (kids n') = own x + cnt x (kids n)) ->
  (forall x, ownd' x + cnt x (dblocks n') = ownd x + cnt x (dblocks n)) ->
  Inv own' ownd' [] w'.
Proof. intros I E Hh Hn HO HD.
  pose proof (live_lt _ _ _ _ _ _ I E) as Ha. pose proof (Inv_nil_pos _ _ _ _ _ _ I E) as Hrc.
  destruct I as [H1 H2].
  assert (ID : forall sel x, refs sel (heap w') (next w') x + cnt x (sel n) =
                             refs sel (heap w) (next w) x + cnt x (sel n')).
  { intros sel x. rewrite Hn.
    rewrite (refs_pw sel (upd (heap w) a (Some (CItem rc n'))) (heap w') (next w) x)
      by (intros b _; rewrite Hh; reflexivity).
    pose proof (refs_upd sel (heap w) (next w) a (Some (CItem rc n')) x Ha) as P.
    rewrite E in P. cbn [selc] in P. destruct (N.eqb_spec rc 0); [lia|]. exact P. }
  assert (GE : forall sel x, cnt x (sel n) <= refs sel (heap w) (next w) x).
  { intros sel x. pose proof (refs_ge sel (heap w) (next w) a x Ha) as P. rewrite E in P. cbn [selc] in P.
    destruct (N.eqb_spec rc 0); [lia|]. exact P. }
  split.
  - intros x Hx. rewrite Hh. destruct (N.eqb_spec x a); [lia|]. apply H1. lia.
  - intros x. specialize (H2 x). unfold okcell, indeg, dindeg in *.
    pose proof (ID kids x) as IK. pose proof (ID dblocks x) as IB.
    pose proof (GE kids x) as GK. pose proof (GE dblocks x) as GB.
    specialize (HO x). specialize (HD x). rewrite Hh. cbn [pend tofree] in *.
    set (K' := refs kids (heap w') (next w') x) in *. set (D' := refs dblocks (heap w') (next w') x) in *.
    set (K := refs kids (heap w) (next w) x) in *. set (D := refs dblocks (heap w) (next w) x) in *.
    clearbody K' D' K D.
    destruct (N.eqb_spec x a) as [->|Hne].
    + rewrite E in H2. intuition lia.
    + destruct (heap w x) as [[rcx nx|sz]|]; intuition lia. Qed.

(* a client-owned data block is freed *)
Lemma Inv_free_data own ownd ownd' w w' d sz :
  Inv own ownd [] w -> heap w d = Some (CData sz) ->
  (forall x, ownd x = ownd' x + (if x =? d then 1 else 0)) ->
  (forall b, heap w' b = if b =? d then None else heap w b) -> next w' = next w ->
  Inv own ownd' [] w'.
Proof. intros I E HD Hh Hn.
  assert (I1 : Inv own ownd' [TFreeData (Some d)] w).
  { destruct I as [H1 H2]. split; [exact H1|]. intros x. specialize (H2 x). specialize (HD x).
    unfold okcell in *. cbn [pend tofree] in *. destruct (N.eqb_spec x d) as [->|Hne].
    - rewrite N.eqb_refl. rewrite E in *. lia.
    - destruct (N.eqb_spec d x); [congruence|]. destruct (heap w x) as [[rcx nx|s]|]; intuition lia. }
  assert (I2 : Inv own ownd' [] (mkw (upd (heap w) d None) (next w))).
  { eapply (step_free own ownd' (TFreeData (Some d)) d [] w); [| |exact I1|reflexivity|reflexivity]; reflexivity. }
  eapply Inv_pw; [exact I2| | | |]; cbn [heap next mkw]; try reflexivity; [|lia].
  intros b. rewrite Hh. reflexivity. Qed.

Lemma Inv_alloc_item_pw own own' ownd w w' n :
  Inv own ownd [] w -> kids n = [] -> dblocks n = [] ->
  (forall b, heap w' b = if b =? next w then Some (CItem 1 n) else heap w b) -> next w' = next w + 1 ->
  (forall x, own' x = own x + (if x =? next w then 1 else 0)) ->
  Inv own' ownd [] w'.
Proof. intros I K D Hh Hn HO.
  assert (O0 : own (next w) = 0).
  { destruct I as [H1 H2]. specialize (H2 (next w)). unfold okcell in H2. rewrite H1 in H2 by lia. tauto. }
  pose proof (Inv_alloc_item own ownd [] w (mkw (upd (heap w) (next w) (Some (CItem 1 n))) (next w + 1)) n
                I K D eq_refl eq_refl) as I2.
  eapply Inv_pw; [exact I2| | | |]; cbn [heap next mkw]; try reflexivity; [|lia|].
  - intros b. rewrite Hh. reflexivity.
  - intros x. rewrite HO. destruct (N.eqb_spec x (next w)); [subst; lia|lia]. Qed.

Lemma Inv_alloc_data_pw own ownd ownd' w w' sz :
  Inv own ownd [] w ->
  (forall b, heap w' b = if b =? next w then Some (CData sz) else heap w b) -> next w' = next w + 1 ->
  (forall x, ownd' x = ownd x + (if x =? next w then 1 else 0)) ->
  Inv own ownd' [] w'.
Proof. intros I Hh Hn HO.
  assert (O0 : ownd (next w) = 0).
  { destruct I as [H1 H2]. specialize (H2 (next w)). unfold okcell in H2. rewrite H1 in H2 by lia. tauto. }
  pose proof (Inv_alloc_data own ownd [] w (mkw (upd (heap w) (next w) (Some (CData sz))) (next w + 1)) sz
                I eq_refl eq_refl) as I2.
  eapply Inv_pw; [exact I2| | | |]; cbn [heap next mkw]; try reflexivity; [|lia|].
  - intros b. rewrite Hh. reflexivity.
  - intros x. rewrite HO. destruct (N.eqb_spec x (next w)); [subst; lia|lia]. Qed.

(* a fresh item together with its one data block (in either allocation order) *)
Lemma Inv_new_item2 own own' ownd w w' ai ad n sz :
  Inv own ownd [] w ->
  ((ai = next w /\ ad = next w + 1) \/ (ad = next w /\ ai = next w + 1)) ->
  kids n = [] -> dblocks n = [ad] ->
  (forall b, heap w' b = if b =? ai then Some (CItem 1 n) else if b =? ad then Some (CData sz) else heap w b) ->
  next w' = next w + 2 ->
  (forall x, own' x = own x + (if x =? ai then 1 else 0)) ->
  Inv own' ownd [] w'.
Proof. intros I Hc K D Hh Hn HO. set (nx := next w) in *.
  destruct Hc as [[-> ->]|[-> ->]].
  - set (f1 := mkw (upd (heap w) nx (Some (CItem 1 (NCtrl 0)))) (nx + 1)).
    assert (I1 : Inv own' ownd [] f1).
    { eapply (Inv_alloc_item_pw own own' ownd w f1 (NCtrl 0) I); try reflexivity. exact HO. }
    set (f2 := mkw (upd (heap f1) (nx + 1) (Some (CData sz))) (nx + 2)).
    assert (I2 : Inv own' (fun x => ownd x + (if x =? nx + 1 then 1 else 0)) [] f2).
    { eapply (Inv_alloc_data_pw own' ownd _ f1 f2 sz I1); try reflexivity. cbn [next f1 f2 mkw]. lia. }
    eapply (Inv_reacc own' _ own' ownd f2 w' nx 1 (NCtrl 0) n I2).
    + cbn [heap f2 f1 mkw]. rewrite upd_other by lia. apply upd_same.
    + intros b. rewrite Hh. cbn [heap f2 f1 mkw]. unfold upd.
      destruct (N.eqb_spec b nx); [reflexivity|]. reflexivity.
    + cbn [next f2 mkw]. lia.
    + intros x. rewrite K. reflexivity.
    + intros x. rewrite D. cbn [dblocks cnt]. destruct (N.eqb_spec x (nx + 1)); destruct (N.eqb_spec (nx + 1) x); lia.
  - set (f1 := mkw (upd (heap w) nx (Some (CData sz))) (nx + 1)).
    assert (I1 : Inv own (fun x => ownd x + (if x =? nx then 1 else 0)) [] f1).
    { eapply (Inv_alloc_data_pw own ownd _ w f1 sz I); reflexivity. }
    set (f2 := mkw (upd (heap f1) (nx + 1) (Some (CItem 1 (NCtrl 0)))) (nx + 2)).
    assert (I2 : Inv own' (fun x => ownd x + (if x =? nx then 1 else 0)) [] f2).
    { eapply (Inv_alloc_item_pw own own' _ f1 f2 (NCtrl 0) I1); try reflexivity.
      - cbn [next f1 f2 mkw]. lia.
      - exact HO. }
    eapply (Inv_reacc own' _ own' ownd f2 w' (nx + 1) 1 (NCtrl 0) n I2).
    + cbn [heap f2 f1 mkw]. apply upd_same.
    + intros b. rewrite Hh. cbn [heap f2 f1 mkw]. unfold upd.
      destruct (N.eqb_spec b (nx + 1)); [reflexivity|]. reflexivity.
    + cbn [next f2 mkw]. lia.
    + intros x. rewrite K. reflexivity.
    + intros x. rewrite D. cbn [dblocks cnt]. destruct (N.eqb_spec x nx); destruct (N.eqb_spec nx x); lia.
Qed.

(* the node of a live item is replaced and its growable block moves to a fresh address *)
Lemma Inv_move own own' ownd w w' a rc n n' old tl bytes :
  Inv own ownd [] w -> heap w a = Some (CItem rc n) ->
  dblocks n = ol old ++ tl -> dblocks n' = next w :: tl ->
  (forall b, heap w' b = if b =? a then Some (CItem rc n')
                         else if b =? next w then Some (CData bytes)
                         else match old with
                              | Some d => if b =? d then None else heap w b
                              | None => heap w b
                              end) ->
  next w' = next w + 1 ->
  (forall x, own' x + cnt x (kids n') = own x + cnt x (kids n)) ->
  Inv own' ownd [] w'.
Proof. intros I E D D' Hh Hn HO. set (nx := next w) in *.
  pose proof (live_lt _ _ _ _ _ _ I E) as Ha. pose proof (Inv_nil_pos _ _ _ _ _ _ I E) as Hrc.
  assert (Hold : forall d, old = Some d -> (exists s, heap w d = Some (CData s)) /\ d < nx /\ d <> a).
  { intros d ->. destruct (Inv_dblock_live own ownd [] w a rc n d I E ltac:(lia)) as ([s Hs] & _).
    - rewrite D. cbn [ol app]. left. reflexivity.
    - split; [eauto|]. split; [eapply live_lt; eauto|]. intros ->. congruence. }
  set (f1 := mkw (upd (heap w) nx (Some (CData bytes))) (nx + 1)).
  assert (I1 : Inv own (fun x => ownd x + (if x =? nx then 1 else 0)) [] f1).
  { eapply (Inv_alloc_data_pw own ownd _ w f1 bytes I); reflexivity. }
  set (f2 := mkw (upd (heap f1) a (Some (CItem rc n'))) (nx + 1)).
  assert (I2 : Inv own' (fun x => ownd x + cnt x (ol old)) [] f2).
  { eapply (Inv_reacc own _ own' _ f1 f2 a rc n n' I1).
    - cbn [heap f1 mkw]. rewrite upd_other by lia. exact E.
    - intros b. reflexivity.
    - reflexivity.
    - exact HO.
    - intros x. rewrite D, D', cnt_app. cbn [cnt]. destruct (N.eqb_spec x nx); destruct (N.eqb_spec nx x); lia. }
  destruct old as [d|].
  - destruct (Hold d eq_refl) as ([s Hs] & Hd & Hda).
    eapply (Inv_free_data own' _ ownd f2 w' d s I2).
    + cbn [heap f2 f1 mkw]. rewrite !upd_other by lia. exact Hs.
    + intros x. cbn [ol cnt]. destruct (N.eqb_spec x d); destruct (N.eqb_spec d x); lia.
    + intros b. rewrite Hh. cbn [heap f2 f1 mkw]. unfold upd.
      destruct (N.eqb_spec b a); [destruct (N.eqb_spec b d); [lia|reflexivity]|].
      destruct (N.eqb_spec b nx); [destruct (N.eqb_spec b d); [lia|reflexivity]|]. reflexivity.
    + cbn [next f2 mkw]. lia.
  - eapply Inv_pw; [exact I2| | | |]; cbn [heap next f2 f1 mkw]; try reflexivity; [|lia|].
    + intros b. rewrite Hh. reflexivity.
    + intros x. cbn [ol cnt]. lia.
Qed.

(* what ownership says about a cell *)
Lemma owned_item o od w x : Inv o od [] w -> 0 < o x -> exists rc n, heap w x = Some (CItem rc n) /\ 0 < rc.
Proof. intros [_ H2] Hx. specialize (H2 x). unfold okcell in H2. cbn [pend tofree] in H2.
  destruct (heap w x) as [[rc n|s]|]; [|lia|lia]. exists rc, n. split; [reflexivity|]. intuition lia. Qed.
Lemma owned_data o od w x : Inv o od [] w -> 0 < od x -> exists s, heap w x = Some (CData s).
Proof. intros [_ H2] Hx. specialize (H2 x). unfold okcell in H2. cbn [pend tofree] in H2.
  destruct (heap w x) as [[rc n|s]|]; [lia| |lia]. eauto. Qed.

Lemma cnt_head x l : 0 < cnt x (x :: l).
Proof. cbn [cnt]. rewrite N.eqb_refl. lia. Qed.
Lemma cnt_in_pos x l : In x l -> 0 < cnt x l.
Proof. apply cnt_pos_in. Qed.

(* ------------------------------------------------------------------------------------------ *)
(* 2. the invariants of the decoder                                                           *)
(* ------------------------------------------------------------------------------------------ *)

Definition sitem (r : srec) : addr := snd (fst r).
Definition srecd (r : srec) : addr := fst (fst r).
Definition sown (o : addr -> N) (l : list addr) : addr -> N := fun x => o x + cnt x l.

(* the open container [n] agrees with the counter [sub] of its stack record *)
Definition shape (n : node) (sub : N) : Prop :=
  match n with
  | NArr false (Some _) al elems => 0 < sub /\ al = len elems + sub
  | NArr true data al elems => (data = None -> al = 0) /\ al < 2 ^ 64
  | NMap false (Some _) al pairs =>
      0 < sub /\ sub <= 2 * al /\ sub + 2 * len pairs = 2 * al + sub mod 2 /\
      (N.odd sub = true -> exists ps k, pairs = ps ++ [(k, None)])
  | NMap true data al pairs =>
      (data = None -> al = 0) /\ al < 2 ^ 64 /\ sub < 2 /\
      (sub = 1 -> data <> None /\ exists ps k, pairs = ps ++ [(k, None)])
  | NTag _ None => sub = 1
  | NChunked _ _ arr cap chunks => (arr = None -> cap = 0) /\ cap < 2 ^ 64 /\ len chunks <= cap
  | _ => False
  end.

(* generic facts used below *)
Lemma bind_ret_l {A B} (a : A) (f : A -> M B) w : bind (ret a) f w = f a w.
Proof. reflexivity. Qed.

Lemma Inv_wf o od ts w : Inv o od ts w -> wf w.
Proof. intros [H _]. exact H. Qed.

Lemma two_wrap : wrap64 (1 + 1) = 2.
Proof. reflexivity. Qed.

Lemma odd_mod a : a mod 2 = if N.odd a then 1 else 0.
Proof. rewrite <- N.bit0_mod, N.bit0_odd. destruct (N.odd a); reflexivity. Qed.

Lemma kids_map_key indef data al pairs k :
  kids (NMap indef data al (pairs ++ [(k, None)])) = kids (NMap indef data al pairs) ++ [k].
Proof. cbn [kids]. rewrite flat_map_app. reflexivity. Qed.

Lemma kids_map_val indef data al ps k v :
  kids (NMap indef data al (ps ++ [(k, Some v)])) = kids (NMap indef data al (ps ++ [(k, None)])) ++ [v].
Proof. cbn [kids]. rewrite !flat_map_app. cbn [flat_map pair_kids fst snd app]. rewrite <- app_assoc. reflexivity. Qed.

Lemma tag_set_spec top it w v rcx nx :
  heap w top = Some (CItem 1 (NTag v None)) -> heap w it = Some (CItem rcx nx) -> top <> it ->
  exists w1, tag_set_item top it w = Ret tt w1 /\
    heap w1 top = Some (CItem 1 (NTag v (Some it))) /\ heap w1 it = Some (CItem (wrap64 (rcx + 1)) nx) /\
    heap_but [top; it] w w1 /\ next w1 = next w.
Proof. intros Htop Hit Hne. unfold tag_set_item. eexists. split.
  - mstep (incref_spec it w rcx nx Hit).
    assert (H1 : heap (w_incref it rcx nx w) top = Some (CItem 1 (NTag v None)))
      by (wsimpl; rewrite upd_other by exact Hne; exact Htop).
    mstep (rd_item_spec top _ 1 _ H1).
    apply (wr_item_spec top 1 (NTag v (Some it)) (w_log (AccR top) (w_incref it rcx nx w)) _ _ H1).
  - wsimpl. split; [apply upd_same|]. split; [rewrite upd_other by congruence; apply upd_same|].
    split; [|reflexivity]. intros b Hb. cbn [In] in Hb. wsimpl.
    rewrite !upd_other by (intros E; apply Hb; subst; tauto). reflexivity. Qed.

Lemma map_sub_nowrap n bytes : n < 2 ^ 64 -> alloc_multiple_req 64 SZ_PAIR n = Some bytes -> wrap64 (n * 2) = 2 * n.
Proof. intros Hn E. destruct (alloc_multiple_exact 64 SZ_PAIR n bytes ltac:(unfold SZ_PAIR; lia) Hn E) as [Hb Hlt].
  rewrite wrap64_small; [lia|]. rewrite W64_eq. unfold SZ_PAIR in Hb. lia. Qed.

Lemma dblocks_blocks n d : In d (dblocks n) <-> In d (node_blocks n).
Proof. destruct n as [neg iw v|fw bits|v|text data bytes|text hdr arr cap chunks|indef data al elems|indef data al pairs|v c];
  cbn [dblocks node_blocks]; try tauto.
  rewrite in_app_iff. cbn [In]. destruct arr; cbn [ol HRead_proofs.opt_list In]; tauto. Qed.


Section Load.
Variable refuse : N -> N -> bool.
Variable L : N.
Variable w0 : world.
Variables own ownd : addr -> N.
Notation N0 := (next w0).

Definition node_ok (b : addr) (n : node) : Prop :=
  (forall k, In k (kids n) -> b < k) /\ (forall d, In d (dblocks n) -> N0 <= d).

(* old cells untouched; fresh items refer to later fresh cells only; the bump pointer only grows *)
Record G (w : world) : Prop := mkG {
  g_old : forall b, b < N0 -> heap w b = heap w0 b;
  g_ord : forall b rc n, N0 <= b -> heap w b = Some (CItem rc n) -> node_ok b n;
  g_nx : N0 <= next w }.

Definition rc1 (w : world) : Prop := forall b rc n, N0 <= b -> heap w b = Some (CItem rc n) -> rc = 1.

Fixpoint stack_ok (w : world) (bound : N) (stk : list srec) : Prop :=
  match stk with
  | [] => True
  | r :: rest =>
      N0 <= srecd r /\ N0 <= sitem r /\ sitem r < bound /\
      (exists n, heap w (sitem r) = Some (CItem 1 n) /\ shape n (snd r)) /\
      stack_ok w (sitem r) rest
  end.

Definition stack_fresh (stk : list srec) : Prop := Forall (fun r => N0 <= sitem r /\ N0 <= srecd r) stk.

(* the invariant of the error path: enough to release everything *)
Definition UI (w : world) (stk : list srec) : Prop :=
  Inv (sown own (map sitem stk)) (sown ownd (map srecd stk)) [] w /\ G w /\ stack_fresh stk.

(* the loop invariant; [extra] = items the running callback (or the caller, at the end) owns *)
Definition LI (w : world) (extra : list addr) (stk : list srec) : Prop :=
  Inv (sown own (extra ++ map sitem stk)) (sown ownd (map srecd stk)) [] w /\ G w /\ rc1 w /\
  stack_ok w (next w) stk /\ Forall (fun x => N0 <= x) extra.

(* the precondition of _cbor_builder_append: [it] is complete, owned by the callback, and younger
   than every open container *)
Definition PRE (w : world) (it : addr) (stk : list srec) : Prop :=
  Inv (sown own (it :: map sitem stk)) (sown ownd (map srecd stk)) [] w /\ G w /\ rc1 w /\
  N0 <= it /\ stack_ok w it stk.

Lemma G_upd w w' : G w -> next w <= next w' ->
  (forall b, heap w' b = heap w b \/
             (N0 <= b /\ match heap w' b with Some (CItem _ n) => node_ok b n | _ => True end)) ->
  G w'.
Proof. intros [O R X] Hn H. split.
  - intros b Hb. destruct (H b) as [E|[Hc _]]; [rewrite E; apply O; exact Hb|lia].
  - intros b rc n Hb E. destruct (H b) as [E'|[_ Hc]].
    + rewrite E' in E. eapply R; eassumption.
    + rewrite E in Hc. exact Hc.
  - lia. Qed.

Lemma rc1_upd w w' : rc1 w ->
  (forall b, heap w' b = heap w b \/ match heap w' b with Some (CItem rc _) => rc = 1 | _ => True end) ->
  rc1 w'.
Proof. intros R H b rc n Hb E. destruct (H b) as [E'|Hc].
  - rewrite E' in E. eapply R; eassumption.
  - rewrite E in Hc. exact Hc. Qed.

Lemma stack_ok_frame w w' : forall stk bound,
  stack_ok w bound stk -> (forall t, t < bound -> is_item w t -> heap w' t = heap w t) ->
  stack_ok w' bound stk.
Proof. induction stk as [|r rest IH]; intros bound S H; [exact I|]. cbn [stack_ok] in *.
  destruct S as (S1 & S2 & S3 & (n & Sn & Sh) & S5).
  split; [exact S1|]. split; [exact S2|]. split; [exact S3|]. split.
  - exists n. split; [|exact Sh]. rewrite H; [exact Sn|exact S3|]. exists 1, n. exact Sn.
  - apply IH; [exact S5|]. intros t Ht. apply H. lia. Qed.

Lemma stack_ok_bound w : forall stk b1 b2, stack_ok w b1 stk -> b1 <= b2 -> stack_ok w b2 stk.
Proof. intros [|r rest] b1 b2 S Hb; [exact I|]. cbn [stack_ok] in *.
  destruct S as (S1 & S2 & S3 & S4 & S5). repeat split; try assumption. lia. Qed.

Lemma stack_ok_fresh w : forall stk bound, stack_ok w bound stk -> stack_fresh stk.
Proof. induction stk as [|r rest IH]; intros bound S; [constructor|]. cbn [stack_ok] in S.
  destruct S as (S1 & S2 & S3 & S4 & S5). constructor; [split; assumption|]. eapply IH; exact S5. Qed.

Lemma stack_ok_lt w : forall stk bound r, stack_ok w bound stk -> In r stk -> sitem r < bound.
Proof. induction stk as [|r0 rest IH]; intros bound r S Hin; [destruct Hin|]. cbn [stack_ok] in S.
  destruct S as (S1 & S2 & S3 & S4 & S5). destruct Hin as [<-|Hin]; [exact S3|].
  specialize (IH _ _ S5 Hin). lia. Qed.


(* ------------------------------------------------------------------------------------------ *)
(* 3. releasing fresh items: the task machine stays inside the fresh region                    *)
(* ------------------------------------------------------------------------------------------ *)

Definition task_fresh (t : task) : Prop :=
  match t with TDecref a | TFreeItem a | TFreeData (Some a) => N0 <= a | TFreeData None => True end.

Lemma release_in a n t : In t (release_tasks a n) ->
  match t with
  | TDecref k => In k (kids n)
  | TFreeData (Some d) => In d (dblocks n)
  | TFreeData None => True
  | TFreeItem x => x = a
  end.
Proof.
  destruct n as [neg iw v|fw bits|v|text data bytes|text hdr arr cap chunks|indef data al elems|indef data al pairs|v [c|]];
    cbn [release_tasks kids dblocks]; rewrite ?in_app_iff; cbn [In]; intros H.
  - destruct H as [<-|[]]. reflexivity.
  - destruct H as [<-|[]]. reflexivity.
  - destruct H as [<-|[]]. reflexivity.
  - destruct H as [<-|[<-|[]]]; [|reflexivity]. destruct data; [left; reflexivity|exact I].
  - destruct H as [H|[<-|[<-|[<-|[]]]]].
    + apply in_map_iff in H. destruct H as (k & <- & Hk). exact Hk.
    + destruct arr; [apply in_app_iff; left; left; reflexivity|exact I].
    + apply in_app_iff. right. left. reflexivity.
    + reflexivity.
  - destruct H as [H|[<-|[<-|[]]]].
    + apply in_map_iff in H. destruct H as (k & <- & Hk). exact Hk.
    + destruct data; [left; reflexivity|exact I].
    + reflexivity.
  - destruct H as [H|[<-|[<-|[]]]].
    + apply in_flat_map in H. destruct H as ([k ov] & Hkv & Hin). cbn [fst snd In] in Hin.
      destruct Hin as [<-|Hin].
      * apply in_flat_map. exists (k, ov). split; [exact Hkv|left; reflexivity].
      * destruct ov as [v|]; [|destruct Hin]. destruct Hin as [<-|[]].
        apply in_flat_map. exists (k, Some v). split; [exact Hkv|right; left; reflexivity].
    + destruct data; [left; reflexivity|exact I].
    + reflexivity.
  - destruct H as [[<-|[]]|[<-|[<-|[]]]]; [left; reflexivity|exact I|reflexivity].
  - destruct H as [[]|[<-|[<-|[]]]]; [exact I|reflexivity].
Qed.

Lemma release_fresh a n : N0 <= a -> node_ok a n -> Forall task_fresh (release_tasks a n).
Proof. intros Ha [K D]. apply Forall_forall. intros t Ht. apply release_in in Ht.
  destruct t as [k|[d|]|x]; cbn [task_fresh].
  - specialize (K k Ht). lia.
  - apply D. exact Ht.
  - exact I.
  - subst. exact Ha. Qed.

Lemma drain_decref_ret f a r w w' :
  drain (S f) (TDecref a :: r) w = Ret tt w' -> exists rc n, heap w a = Some (CItem rc n) /\ 0 < rc.
Proof. cbn [drain]. unfold bind at 1. unfold rd_item.
  destruct (heap w a) as [[rc n|sz]|]; [|discriminate|discriminate]. cbn beta. cbn [fst snd].
  unfold bind at 1. destruct (N.ltb_spec 0 rc); [eauto|]. cbn [assert_]. unfold fail. discriminate. Qed.

Lemma drain_free_ret f a r w w' t : t = TFreeData (Some a) \/ t = TFreeItem a ->
  drain (S f) (t :: r) w = Ret tt w' -> exists c, heap w a = Some c.
Proof. intros [->| ->]; cbn [drain]; unfold bind at 1; unfold free;
  (destruct (heap w a) as [c|]; [eauto|discriminate]). Qed.

Lemma G_set w a rc n rc' w' : G w -> N0 <= a -> heap w a = Some (CItem rc n) ->
  heap w' = upd (heap w) a (Some (CItem rc' n)) -> next w' = next w -> G w'.
Proof. intros Gw Ha E Hh Hn. apply (G_upd w w' Gw); [lia|]. intros b. rewrite Hh. unfold upd.
  destruct (N.eqb_spec b a) as [->|]; [|left; reflexivity].
  right. split; [exact Ha|]. eapply g_ord; eassumption. Qed.

Lemma G_del w a w' : G w -> N0 <= a -> heap w' = upd (heap w) a None -> next w' = next w -> G w'.
Proof. intros Gw Ha Hh Hn. apply (G_upd w w' Gw); [lia|]. intros b. rewrite Hh. unfold upd.
  destruct (N.eqb_spec b a) as [->|]; [|left; reflexivity]. right. split; [exact Ha|exact I]. Qed.

Lemma drain_frame : forall fuel ts w w', G w -> Forall task_fresh ts -> drain fuel ts w = Ret tt w' -> G w'.
Proof.
  induction fuel as [|f IH]; intros ts w w' Gw F H.
  - destruct ts; cbn [drain] in H; [inversion H; subst; exact Gw|discriminate].
  - destruct ts as [|t r]; [cbn [drain] in H; inversion H; subst; exact Gw|].
    inversion F as [|? ? Ft Fr]; subst.
    destruct t as [a|[a|]|a]; cbn [task_fresh] in Ft.
    + destruct (drain_decref_ret _ _ _ _ _ H) as (rc & n & E & Hrc).
      rewrite (drain_decref_eq f a r w rc n E Hrc) in H.
      destruct (N.eqb_spec rc 1) as [->|_].
      * eapply IH; [| |exact H].
        -- eapply (G_set w a 1 n 0); [exact Gw|exact Ft|exact E|reflexivity|reflexivity].
        -- apply Forall_app. split; [|exact Fr]. apply release_fresh; [exact Ft|].
           eapply g_ord; eassumption.
      * eapply IH; [| |exact H]; [|exact Fr].
        eapply (G_set w a rc n (rc - 1)); [exact Gw|exact Ft|exact E|reflexivity|reflexivity].
    + destruct (drain_free_ret f a r w w' _ (or_introl eq_refl) H) as [c E].
      rewrite (drain_free_data_eq f a r w c E) in H.
      eapply IH; [| |exact H]; [|exact Fr].
      eapply (G_del w a); [exact Gw|exact Ft|reflexivity|reflexivity].
    + rewrite drain_free_none_eq in H. eapply IH; [| |exact H]; [|exact Fr].
      apply (G_upd w _ Gw); [cbn [next HRef_proofs.w_free]; lia|]. intros b. left. reflexivity.
    + destruct (drain_free_ret f a r w w' _ (or_intror eq_refl) H) as [c E].
      rewrite (drain_free_item_eq f a r w c E) in H.
      eapply IH; [| |exact H]; [|exact Fr].
      eapply (G_del w a); [exact Gw|exact Ft|reflexivity|reflexivity].
Qed.

Lemma sown_cons o x l y : sown o (x :: l) y = sown o l y + (if y =? x then 1 else 0).
Proof. unfold sown. cbn [cnt]. destruct (N.eqb_spec x y); destruct (N.eqb_spec y x); lia. Qed.

(* the callback drops its only reference to a fresh item: the whole subtree goes *)
Lemma release_owned od w it l :
  Inv (sown own (it :: l)) od [] w -> G w -> N0 <= it ->
  exists w', decref it w = Ret tt w' /\ Inv (sown own l) od [] w' /\ G w'.
Proof. intros I Gw Hit.
  destruct (decref_ok (sown own l) (sown own (it :: l)) od it w (sown_cons own it l) I) as (w' & H & I' & _).
  exists w'. split; [exact H|]. split; [exact I'|].
  unfold decref in H. eapply drain_frame; [exact Gw| |exact H]. constructor; [exact Hit|constructor]. Qed.

Lemma fail_release w it stk :
  Inv (sown own (it :: map sitem stk)) (sown ownd (map srecd stk)) [] w -> G w -> N0 <= it ->
  stack_fresh stk -> exists w', decref it w = Ret tt w' /\ UI w' stk.
Proof. intros I Gw Hit F. destruct (release_owned _ w it _ I Gw Hit) as (w' & H & I' & G').
  exists w'. split; [exact H|]. split; [exact I'|]. split; assumption. Qed.

Lemma unwind_spec : forall stk w, UI w stk -> exists w', unwind stk w = Ret tt w' /\ UI w' [].
Proof. induction stk as [|[[rec top] sub] rest IH]; intros w (I & Gw & F).
  - exists w. split; [reflexivity|]. split; [exact I|]. split; [exact Gw|constructor].
  - inversion F as [|? ? [Ft Fr] F']; subst. cbn [sitem srecd fst snd] in Ft, Fr.
    cbn [map sitem srecd fst snd] in I. cbn [unwind].
    destruct (release_owned _ w top _ I Gw Ft) as (w1 & H1 & I1 & G1).
    bstep H1. unfold stack_pop. cbn [fst].
    destruct (owned_data _ _ w1 rec I1) as [s Hs]; [unfold sown; pose proof (cnt_head rec (map srecd rest)); lia|].
    bstep (free_spec rec w1 _ Hs).
    apply IH. split; [|split; [|exact F']].
    + eapply (Inv_free_data _ _ (sown ownd (map srecd rest)) w1 _ rec s I1 Hs).
      * intros x. apply sown_cons.
      * intros b. reflexivity.
      * reflexivity.
    + eapply (G_del w1 rec); [exact G1|exact Fr|reflexivity|reflexivity].
Qed.

(* after the unwinding nothing created by the call is left *)
Lemma fresh_zero : Inv own ownd [] w0 -> forall b, N0 <= b -> own b = 0 /\ ownd b = 0.
Proof. intros [H1 H2] b Hb. specialize (H2 b). unfold okcell in H2. rewrite (H1 b Hb) in H2. tauto. Qed.

Lemma parent_fresh w p rc n b :
  Inv own ownd [] w0 -> G w -> heap w p = Some (CItem rc n) -> rc <> 0 -> N0 <= b ->
  In b (kids n) \/ In b (dblocks n) -> N0 <= p /\ (In b (kids n) -> p < b).
Proof. intros I0 Gw E R Hb Hin. destruct (N.lt_ge_cases p N0) as [Hlt|Hge].
  - exfalso. rewrite (g_old w Gw p Hlt) in E. destruct Hin as [Hin|Hin].
    + destruct (Inv_kid_live _ _ _ _ _ _ _ _ I0 E R Hin) as (rck & nk & Ek & _).
      pose proof (live_lt _ _ _ _ _ _ I0 Ek). lia.
    + destruct (Inv_dblock_live _ _ _ _ _ _ _ _ I0 E R Hin) as ([s Es] & _).
      pose proof (live_lt _ _ _ _ _ _ I0 Es). lia.
  - split; [exact Hge|]. intros Hk. destruct (g_ord w Gw p rc n Hge E) as [K _]. apply K. exact Hk. Qed.

Lemma fresh_dead w : Inv own ownd [] w0 -> Inv own ownd [] w -> G w -> forall b, N0 <= b -> heap w b = None.
Proof. intros I0 I Gw.
  assert (NI : forall b, N0 <= b -> forall rc n, heap w b <> Some (CItem rc n)).
  { intros b. induction b as [b IHb] using (well_founded_induction N.lt_wf_0). intros Hb rc n E.
    pose proof (Inv_nil_pos _ _ _ _ _ _ I E) as Hrc. destruct (fresh_zero I0 b Hb) as [O _].
    destruct I as [_ H2]. pose proof (H2 b) as Z. unfold okcell in Z. rewrite E in Z. cbn [pend tofree] in Z.
    assert (P : 0 < indeg w b) by (intuition lia). apply refs_pos in P.
    destruct P as (p & rcp & np & _ & Ep & Rp & Kp).
    destruct (parent_fresh w p rcp np b I0 Gw Ep Rp Hb (or_introl Kp)) as [Hp Hlt].
    apply (IHb p (Hlt Kp) Hp rcp np Ep). }
  intros b Hb. destruct (heap w b) as [[rc n|sz]|] eqn:E; [exfalso; eapply NI; eassumption| |reflexivity].
  exfalso. destruct (fresh_zero I0 b Hb) as [_ O].
  destruct I as [_ H2]. pose proof (H2 b) as Z. unfold okcell in Z. rewrite E in Z. cbn [pend tofree] in Z.
  assert (P : 0 < dindeg w b) by lia. apply refs_pos in P.
  destruct P as (p & rcp & np & _ & Ep & Rp & Kp).
  destruct (parent_fresh w p rcp np b I0 Gw Ep Rp Hb (or_intror Kp)) as [Hp _].
  eapply NI; eassumption. Qed.


(* ------------------------------------------------------------------------------------------ *)
(* 4. attaching a complete item to the open container on top of the stack                      *)
(* ------------------------------------------------------------------------------------------ *)



Lemma PRE_it w it stk : PRE w it stk -> exists nit, heap w it = Some (CItem 1 nit) /\ it < next w.
Proof. intros (I & Gw & R & Hit & S).
  destruct (owned_item _ _ w it I) as (rc & n & E & _); [unfold sown; pose proof (cnt_head it (map sitem stk)); lia|].
  rewrite (R it rc n Hit E) in E. exists n. split; [exact E|]. eapply live_lt; eassumption. Qed.

(* the state after the item has been attached to [top] (node [n']) and released by the callback *)
Definition ATT (w : world) (rec top : addr) (n' : node) (rest : list srec) : Prop :=
  Inv (sown own (top :: map sitem rest)) (sown ownd (rec :: map srecd rest)) [] w /\ G w /\ rc1 w /\
  heap w top = Some (CItem 1 n') /\ N0 <= top /\ N0 <= rec /\ stack_ok w top rest.


Lemma attach_keep w w1 it rec top sub rest n n' nit :
  PRE w it ((rec, top, sub) :: rest) ->
  heap w top = Some (CItem 1 n) -> heap w it = Some (CItem 1 nit) ->
  kids n' = kids n ++ [it] -> dblocks n' = dblocks n ->
  heap w1 top = Some (CItem 1 n') -> heap w1 it = Some (CItem (wrap64 (1 + 1)) nit) ->
  heap_but [top; it] w w1 -> next w1 = next w ->
  exists w2, decref it w1 = Ret tt w2 /\ ATT w2 rec top n' rest.
Proof. intros (I & Gw & R & Hit & S) Htop Hitm K D P1 P2 P3 P4.
  cbn [stack_ok sitem srecd fst snd] in S. destruct S as (S1 & S2 & S3 & _ & S5).
  rewrite two_wrap in P2.
  eexists. split; [apply (decref_shared it w1 2 nit P2); lia|].
  set (w2 := w_set it _ _).
  assert (PW : forall b, heap w2 b = if b =? top then Some (CItem 1 n') else heap w b).
  { intros b. subst w2. wsimpl. unfold upd. destruct (N.eqb_spec b it) as [->|Hbi].
    - destruct (N.eqb_spec it top); [lia|]. rewrite Hitm. reflexivity.
    - destruct (N.eqb_spec b top) as [->|Hbt]; [exact P1|]. apply P3. cbn [In]. intuition congruence. }
  assert (NX : next w2 = next w) by (subst w2; wsimpl; exact P4).
  clearbody w2.
  destruct (g_ord w Gw top 1 n S2 Htop) as [OK OD].
  split; [|split; [|split; [|split; [|split; [|split]]]]].
  - eapply (Inv_reacc _ _ _ _ w w2 top 1 n n' I Htop PW NX).
    + intros x. rewrite K, cnt_app. cbn [map sitem fst snd]. unfold sown. cbn [cnt]. destruct (N.eqb_spec it x); lia.
    + intros x. rewrite D. reflexivity.
  - apply (G_upd w w2 Gw); [lia|]. intros b. rewrite PW. destruct (N.eqb_spec b top) as [->|]; [|left; reflexivity].
    right. split; [exact S2|]. split.
    + intros k Hk. rewrite K in Hk. apply in_app_iff in Hk. destruct Hk as [Hk|[<-|[]]]; [apply OK; exact Hk|exact S3].
    + intros d Hd. rewrite D in Hd. apply OD. exact Hd.
  - apply (rc1_upd w w2 R). intros b. rewrite PW. destruct (N.eqb_spec b top); [right; reflexivity|left; reflexivity].
  - rewrite PW, N.eqb_refl. reflexivity.
  - exact S2.
  - exact S1.
  - apply (stack_ok_frame w w2 rest top S5). intros t Ht _. rewrite PW. destruct (N.eqb_spec t top); [lia|reflexivity].
Qed.

Lemma attach_moved w w1 it rec top sub rest n n' nit old tl bytes :
  PRE w it ((rec, top, sub) :: rest) ->
  heap w top = Some (CItem 1 n) -> heap w it = Some (CItem 1 nit) ->
  kids n' = kids n ++ [it] -> dblocks n = ol old ++ tl -> dblocks n' = next w :: tl ->
  heap w1 top = Some (CItem 1 n') -> heap w1 it = Some (CItem (wrap64 (1 + 1)) nit) ->
  heap w1 (next w) = Some (CData bytes) -> (forall d, old = Some d -> heap w1 d = None) ->
  heap_but (top :: it :: next w :: HCont_proofs.opt_list old) w w1 -> next w1 = next w + 1 ->
  exists w2, decref it w1 = Ret tt w2 /\ ATT w2 rec top n' rest.
Proof. intros (I & Gw & R & Hit & S) Htop Hitm K D D' P1 P2 P3 P4 P5 P6.
  cbn [stack_ok sitem srecd fst snd] in S. destruct S as (S1 & S2 & S3 & _ & S5).
  rewrite two_wrap in P2.
  pose proof (live_lt _ _ _ _ _ _ I Htop) as Ltop. pose proof (live_lt _ _ _ _ _ _ I Hitm) as Lit.
  assert (Hold : forall d, old = Some d -> (exists s, heap w d = Some (CData s)) /\ d < next w /\ d <> top /\ d <> it).
  { intros d ->. destruct (Inv_dblock_live _ _ [] w top 1 n d I Htop ltac:(lia)) as ([s Hs] & _).
    - rewrite D. cbn [ol app]. left. reflexivity.
    - split; [eauto|]. split; [eapply live_lt; eauto|]. split; intros ->; congruence. }
  eexists. split; [apply (decref_shared it w1 2 nit P2); lia|].
  set (w2 := w_set it _ _).
  assert (PW : forall b, heap w2 b = if b =? top then Some (CItem 1 n')
                                     else if b =? next w then Some (CData bytes)
                                     else match old with
                                          | Some d => if b =? d then None else heap w b
                                          | None => heap w b
                                          end).
  { intros b. subst w2. wsimpl. unfold upd. destruct (N.eqb_spec b it) as [->|Hbi].
    - destruct (N.eqb_spec it top); [lia|]. destruct (N.eqb_spec it (next w)); [lia|].
      rewrite Hitm. destruct old as [d|]; [|reflexivity].
      destruct (Hold d eq_refl) as (_ & _ & _ & Hdi). destruct (N.eqb_spec it d); [congruence|reflexivity].
    - destruct (N.eqb_spec b top) as [->|Hbt]; [exact P1|].
      destruct (N.eqb_spec b (next w)) as [->|Hbn]; [exact P3|].
      destruct old as [d|].
      + destruct (N.eqb_spec b d) as [->|Hbd]; [apply P4; reflexivity|].
        apply P5. cbn [In HCont_proofs.opt_list]. intuition congruence.
      + apply P5. cbn [In HCont_proofs.opt_list]. intuition congruence. }
  assert (NX : next w2 = next w + 1) by (subst w2; wsimpl; exact P6).
  clearbody w2.
  destruct (g_ord w Gw top 1 n S2 Htop) as [OK OD]. pose proof (g_nx w Gw) as GN.
  split; [|split; [|split; [|split; [|split; [|split]]]]].
  - eapply (Inv_move _ _ _ w w2 top 1 n n' old tl bytes I Htop D D' PW NX).
    intros x. rewrite K, cnt_app. cbn [map sitem fst snd]. unfold sown. cbn [cnt]. destruct (N.eqb_spec it x); lia.
  - apply (G_upd w w2 Gw); [lia|]. intros b. rewrite PW. destruct (N.eqb_spec b top) as [->|].
    { right. split; [exact S2|]. split.
      - intros k Hk. rewrite K in Hk. apply in_app_iff in Hk. destruct Hk as [Hk|[<-|[]]]; [apply OK; exact Hk|exact S3].
      - intros d Hd. rewrite D' in Hd. destruct Hd as [<-|Hd]; [exact GN|]. apply OD. rewrite D. apply in_app_iff. right. exact Hd. }
    destruct (N.eqb_spec b (next w)) as [->|]; [right; split; [exact GN|exact Logic.I]|].
    destruct old as [d|]; [|left; reflexivity].
    destruct (N.eqb_spec b d) as [->|]; [|left; reflexivity].
    right. split; [|exact Logic.I]. apply OD. rewrite D. left. reflexivity.
  - apply (rc1_upd w w2 R). intros b. rewrite PW. destruct (N.eqb_spec b top); [right; reflexivity|].
    destruct (N.eqb_spec b (next w)); [right; exact Logic.I|].
    destruct old as [d|]; [|left; reflexivity]. destruct (N.eqb_spec b d); [right; exact Logic.I|left; reflexivity].
  - rewrite PW, N.eqb_refl. reflexivity.
  - exact S2.
  - exact S1.
  - apply (stack_ok_frame w w2 rest top S5). intros t Ht [rct [nt Et]]. rewrite PW.
    destruct (N.eqb_spec t top); [lia|]. destruct (N.eqb_spec t (next w)); [lia|].
    destruct old as [d|]; [|reflexivity]. destruct (N.eqb_spec t d) as [->|]; [|reflexivity].
    destruct (Hold d eq_refl) as ([s Hs] & _). congruence.
Qed.

Lemma att_stay w rec top n' rest sub' : ATT w rec top n' rest -> shape n' sub' -> LI w [] ((rec, top, sub') :: rest).
Proof. intros (I & Gw & R & Htop & Ht & Hr & S) Sh. split; [exact I|]. split; [exact Gw|]. split; [exact R|].
  split; [|constructor]. cbn [stack_ok sitem srecd fst snd].
  split; [exact Hr|]. split; [exact Ht|]. split; [eapply live_lt; eassumption|]. split; [eauto|exact S]. Qed.

Lemma att_pop w rec top sub n' rest : ATT w rec top n' rest ->
  exists w3, stack_pop (rec, top, sub) w = Ret tt w3 /\ PRE w3 top rest /\ heap w3 top = Some (CItem 1 n') /\
             (exists s, heap w rec = Some (CData s)) /\ (forall x, x <> rec -> heap w3 x = heap w x) /\ next w3 = next w.
Proof. intros (I & Gw & R & Htop & Ht & Hr & S). unfold stack_pop. cbn [fst].
  destruct (owned_data _ _ w rec I) as [s Hs]; [unfold sown; pose proof (cnt_head rec (map srecd rest)); lia|].
  eexists. split; [apply (free_spec rec w _ Hs)|].
  assert (Hne : rec <> top) by (intros ->; congruence).
  split; [|split; [wsimpl; rewrite upd_other by congruence; exact Htop|
                   split; [eauto|split; [intros x Hx; wsimpl; apply upd_other; exact Hx|reflexivity]]]].
  split; [|split; [|split; [|split; [exact Ht|]]]].
  - eapply (Inv_free_data _ _ (sown ownd (map srecd rest)) w _ rec s I Hs).
    + intros x. apply sown_cons.
    + intros b. reflexivity.
    + reflexivity.
  - eapply (G_del w rec); [exact Gw|exact Hr|reflexivity|reflexivity].
  - apply (rc1_upd w _ R). intros b. wsimpl. unfold upd. destruct (N.eqb_spec b rec); [right; exact Logic.I|left; reflexivity].
  - apply (stack_ok_frame w _ rest top S). intros t _ [rct [nt Et]]. wsimpl. unfold upd.
    destruct (N.eqb_spec t rec) as [->|]; [congruence|reflexivity].
Qed.

Lemma LI_att w rec top sub rest : LI w [] ((rec, top, sub) :: rest) ->
  exists n, ATT w rec top n rest /\ shape n sub.
Proof. intros (I & Gw & R & S & _). cbn [stack_ok sitem srecd fst snd] in S.
  destruct S as (S1 & S2 & S3 & (n & Hn & Sh) & S5). exists n. split; [|exact Sh].
  split; [exact I|]. split; [exact Gw|]. split; [exact R|]. split; [exact Hn|]. split; [exact S2|].
  split; [exact S1|exact S5]. Qed.

Lemma LI_UI w stk : LI w [] stk -> UI w stk.
Proof. intros (I & Gw & R & S & _). split; [exact I|]. split; [exact Gw|]. eapply stack_ok_fresh; exact S. Qed.

Lemma PRE_fresh w it stk : PRE w it stk -> stack_fresh stk.
Proof. intros (_ & _ & _ & _ & S). eapply stack_ok_fresh; exact S. Qed.

(* a refused growth leaves the heap alone; the callback then drops the item *)
Lemma fail_same w w1 it stk : PRE w it stk -> same_heap w w1 ->
  exists w2, decref it w1 = Ret tt w2 /\ UI w2 stk.
Proof. intros P [Hh Hn]. pose proof (PRE_fresh _ _ _ P) as F. destruct P as (I & Gw & R & Hit & S).
  apply fail_release; [| |exact Hit|exact F].
  - eapply Inv_pw; [exact I| | | |]; try reflexivity; [intros b; rewrite Hh; reflexivity|lia].
  - apply (G_upd w w1 Gw); [lia|]. intros b. left. rewrite Hh. reflexivity. Qed.


(* ------------------------------------------------------------------------------------------ *)
(* 5. _cbor_builder_append                                                                     *)
(* ------------------------------------------------------------------------------------------ *)

Notation happend := (happend refuse).
Notation hcallback := (hcallback refuse L).
Notation push_ctx := (push_ctx refuse L).

(* outcome of a callback: either the loop invariant for the new stack (plus the root, once the
   stack is empty), or a flagged context from which [unwind] releases everything *)
Definition POST (c : hctx) (w' : world) : Prop :=
  (hcf c = false /\ hse c = false /\
   match hstack c with
   | [] => exists t, hroot c = Some t /\ LI w' [t] []
   | _ => LI w' [] (hstack c)
   end) \/
  ((hcf c = true \/ hse c = true) /\ UI w' (hstack c)).


Lemma top_facts w it rec top sub rest : PRE w it ((rec, top, sub) :: rest) ->
  exists n nit, heap w top = Some (CItem 1 n) /\ shape n sub /\ heap w it = Some (CItem 1 nit) /\
                top <> it /\ wf w /\
                (forall d, In d (dblocks n) -> (exists sz, heap w d = Some (CData sz)) /\ cnt d (dblocks n) = 1).
Proof. intros P. destruct (PRE_it _ _ _ P) as (nit & Hit & _). destruct P as (I & Gw & R & Hi & S).
  cbn [stack_ok sitem srecd fst snd] in S. destruct S as (S1 & S2 & S3 & (n & Hn & Sh) & S5).
  exists n, nit. split; [exact Hn|]. split; [exact Sh|]. split; [exact Hit|]. split; [lia|].
  split; [eapply Inv_wf; exact I|]. intros d Hd.
  destruct (Inv_dblock_live _ _ [] w top 1 n d I Hn ltac:(lia) Hd) as (A & B & _). split; assumption. Qed.

Lemma PRE_same w w' it stk : PRE w it stk -> same_heap w w' -> PRE w' it stk.
Proof. intros (I & Gw & R & Hit & S) [Hh Hn].
  split; [eapply Inv_pw; [exact I| | | |]; try reflexivity; [intros b; rewrite Hh; reflexivity|lia]|].
  split; [apply (G_upd w w' Gw); [lia|]; intros b; left; rewrite Hh; reflexivity|].
  split; [apply (rc1_upd w w' R); intros b; left; rewrite Hh; reflexivity|].
  split; [exact Hit|]. apply (stack_ok_frame w w' stk it S). intros t _ _. rewrite Hh. reflexivity. Qed.

Lemma post_fail c w' : (hcf c = true \/ hse c = true) -> UI w' (hstack c) -> POST c w'.
Proof. intros H U. right. split; assumption. Qed.



Lemma happend_spec : forall stk w it, PRE w it stk -> exists c w', happend it stk w = Ret c w' /\ POST c w'.
Proof.
  induction stk as [|[[rec top] sub] rest IH]; intros w it P.
  { exists (mkhctx [] (Some it) false false), w. split; [reflexivity|]. left. cbn [hcf hse hroot hstack].
    destruct P as (I & Gw & R & Hit & _). split; [reflexivity|]. split; [reflexivity|]. exists it. split; [reflexivity|].
    split; [exact I|]. split; [exact Gw|]. split; [exact R|]. split; [exact Logic.I|]. constructor; [exact Hit|constructor]. }
  set (wl := w_log (AccR top) w).
  assert (Pl : PRE wl it ((rec, top, sub) :: rest)) by (apply (PRE_same w wl _ _ P); split; reflexivity).
  destruct (top_facts _ _ _ _ _ _ Pl) as (n & nit & Htop & Sh & Hit & Hne & Hwf & Hblk).
  cbn [HOps.happend]. bstep (rd_item_spec top w 1 n Htop). fold wl. clearbody wl. clear P w.
  rename Pl into P. rename wl into w.
  destruct n as [neg iw v|fw bits|v|text data bytes|text hdr arr cap chunks|indef data al elems|indef data al pairs|v child];
    cbn [shape] in Sh; try contradiction; cbn beta iota.
  - (* an open indefinite string receives something that is not a matching chunk: syntax error *)
    destruct P as (I & Gw & R & Hi & S).
    destruct (fail_release w it _ I Gw Hi (stack_ok_fresh _ _ _ S)) as (w2 & H2 & U2).
    bstep H2. eexists. eexists. split; [reflexivity|]. apply post_fail; [right; reflexivity|exact U2].
  - destruct indef.
    + (* indefinite array *)
      destruct Sh as (Sd & Sal).
      assert (Hb : block_inv w data al).
      { destruct data as [d|]; cbn [block_inv]; [|apply Sd; reflexivity].
        apply (Hblk d). left. reflexivity. }
      destruct (push_indefinite refuse top it w 1 data al elems 1 nit Hwf Htop Hb Hit Hne Sal) as [Hroom Hfull].
      destruct (N.lt_ge_cases (len elems) al) as [Hlt|Hge].
      * destruct (Hroom Hlt) as (w1 & E1 & P1 & P2 & P3 & P4 & _). bstep E1.
        destruct (attach_keep w w1 it rec top sub rest _ (NArr true data al (elems ++ [it])) nit P Htop Hit
                    eq_refl eq_refl P1 P2 P3 P4) as (w2 & E2 & A2).
        bstep E2. eexists. eexists. split; [reflexivity|]. left. cbn [hcf hse hroot hstack negb].
        split; [reflexivity|]. split; [reflexivity|].
        apply (att_stay w2 rec top _ rest sub A2). cbn [shape]. split; assumption.
      * specialize (Hfull Hge). destruct (grow_req SZ_PTR al) as [[c bytes]|].
        -- destruct Hfull as (Hc & Hlt & Hby & Hb64 & Hfull). destruct (refuse (nreq w) bytes).
           ++ destruct Hfull as (w1 & E1 & SH & _). bstep E1.
              destruct (fail_same w w1 it _ P SH) as (w2 & E2 & U2). bstep E2.
              eexists. eexists. split; [reflexivity|]. apply post_fail; [left; reflexivity|exact U2].
           ++ destruct Hfull as (w1 & E1 & P1 & P2 & P3 & P4 & P5 & P6 & _). bstep E1.
              destruct (attach_moved w w1 it rec top sub rest _ (NArr true (Some (next w)) c (elems ++ [it])) nit
                          data [] bytes P Htop Hit eq_refl (eq_sym (app_nil_r _)) eq_refl P1 P2 P3 P4 P5 P6)
                as (w2 & E2 & A2).
              bstep E2. eexists. eexists. split; [reflexivity|]. left. cbn [hcf hse hroot hstack negb].
              split; [reflexivity|]. split; [reflexivity|].
              apply (att_stay w2 rec top _ rest sub A2). cbn [shape]. split; [discriminate|lia].
        -- destruct Hfull as (w1 & E1 & SH & _). bstep E1.
           destruct (fail_same w w1 it _ P SH) as (w2 & E2 & U2). bstep E2.
           eexists. eexists. split; [reflexivity|]. apply post_fail; [left; reflexivity|exact U2].
    + (* definite array: the push cannot fail *)
      destruct data as [d|]; [|contradiction]. destruct Sh as (Ssub & Sal).
      destruct (N.ltb_spec 0 sub) as [_|]; [|lia]. cbn [assert_]. rewrite bind_ret_l.
      destruct (Hblk d) as ([sz Hd] & _); [left; reflexivity|].
      bstep (push_definite_room refuse top it w 1 d sz al elems 1 nit Htop Hd Hit Hne ltac:(lia)). cbn [negb].
      destruct (w_push_props top 1 (NArr false (Some d) al (elems ++ [it])) d it 1 nit w Hne) as (P1 & P2 & P3 & P4 & _).
      destruct (attach_keep w _ it rec top sub rest _ (NArr false (Some d) al (elems ++ [it])) nit P Htop Hit
                  eq_refl eq_refl P1 P2 P3 P4) as (w2 & E2 & A2).
      bstep E2. cbv zeta. rewrite sub64_le by lia.
      destruct (N.eqb_spec (sub - 1) 0) as [Hz|Hnz].
      * destruct (att_pop w2 rec top sub _ rest A2) as (w3 & E3 & P3' & _). bstep E3. apply IH. exact P3'.
      * eexists. eexists. split; [reflexivity|]. left. cbn [hcf hse hroot hstack].
        split; [reflexivity|]. split; [reflexivity|].
        apply (att_stay w2 rec top _ rest (sub - 1) A2). cbn [shape]. rewrite len_app. change (len [it]) with 1. lia.
  - destruct indef.
    + (* indefinite map *)
      destruct Sh as (Sd & Sal & Ssub & S1). unfold odd. destruct (N.odd sub) eqn:Hodd; cbn beta iota.
      * (* the value of the pending key *)
        assert (sub = 1) by (pose proof (odd_mod sub) as Hm; rewrite Hodd in Hm; lia). subst sub.
        destruct (S1 eq_refl) as (Hdn & ps & k & ->). destruct data as [d|]; [|contradiction].
        destruct (Hblk d) as ([sz Hd] & _); [left; reflexivity|].
        pose proof (add_value_spec top it w 1 true d sz al ps k None 1 nit Htop Hd Hit Hne) as Eav.
        erewrite bind_Ret; [|mstep Eav; reflexivity]. cbn [negb].
        destruct (w_addval_props top 1 (NMap true (Some d) al (ps ++ [(k, Some it)])) d it 1 nit w Hne) as (P1 & P2 & P3 & P4 & _).
        destruct (attach_keep w _ it rec top 1 rest _ (NMap true (Some d) al (ps ++ [(k, Some it)])) nit P Htop Hit
                    (kids_map_val _ _ _ _ _ _) eq_refl P1 P2 P3 P4) as (w2 & E2 & A2).
        bstep E2. eexists. eexists. split; [reflexivity|]. left. cbn [hcf hse hroot hstack].
        split; [reflexivity|]. split; [reflexivity|].
        apply (att_stay w2 rec top _ rest _ A2). change (N.lxor 1 1) with 0. cbn [shape].
        split; [discriminate|]. split; [exact Sal|]. split; [lia|]. discriminate.
      * (* a key *)
        assert (sub = 0) by (pose proof (odd_mod sub) as Hm; rewrite Hodd in Hm; lia). subst sub.
        assert (Hdok : data_ok w data).
        { destruct data as [d|]; cbn [data_ok]; [|exact Logic.I]. apply (Hblk d). left. reflexivity. }
        destruct (N.lt_ge_cases (len pairs) al) as [Hlt|Hge].
        -- destruct data as [d|]; [|specialize (Sd eq_refl); lia]. destruct Hdok as [sz Hd].
           bstep (add_key_room refuse true top it w 1 d sz al pairs 1 nit Htop Hd Hit Hne Hlt). cbn [negb].
           destruct (w_push_props top 1 (NMap true (Some d) al (pairs ++ [(it, None)])) d it 1 nit w Hne) as (P1 & P2 & P3 & P4 & _).
           destruct (attach_keep w _ it rec top 0 rest _ (NMap true (Some d) al (pairs ++ [(it, None)])) nit P Htop Hit
                       (kids_map_key _ _ _ _ _) eq_refl P1 P2 P3 P4) as (w2 & E2 & A2).
           bstep E2. eexists. eexists. split; [reflexivity|]. left. cbn [hcf hse hroot hstack].
           split; [reflexivity|]. split; [reflexivity|].
           apply (att_stay w2 rec top _ rest _ A2). change (N.lxor 0 1) with 1. cbn [shape].
           split; [discriminate|]. split; [exact Sal|]. split; [lia|]. intros _. split; [discriminate|eauto].
        -- destruct (grow_req SZ_PAIR al) as [[c bytes]|] eqn:Gr.
           ++ destruct (grow_req_spec SZ_PAIR al c bytes ltac:(unfold SZ_PAIR; lia) Sal Gr) as (Hc & Hcl & Hby & Hb64).
              destruct (refuse (nreq w) bytes) eqn:Rf.
              ** bstep (add_key_refused refuse top it w 1 data al pairs c bytes Htop Hdok Hge Gr Rf). cbn [negb].
                 destruct (fail_same w _ it _ P (conj eq_refl eq_refl : same_heap w
                             (w_refused (EvRealloc data bytes None) (w_log (AccR top) w)))) as (w2 & E2 & U2).
                 bstep E2. eexists. eexists. split; [reflexivity|]. apply post_fail; [left; reflexivity|exact U2].
              ** bstep (add_key_granted refuse top it w 1 data al pairs c bytes 1 nit Hwf Htop Hdok Hit Hne Hge Gr Rf).
                 cbn [negb].
                 assert (Hdd : forall d, data = Some d -> is_data w d) by (intros d ->; exact Hdok).
                 destruct (w_push_grown_props top 1 (NMap true (Some (next w)) c (pairs ++ [(it, None)])) data bytes
                             it 1 nit w _ _ Hwf Htop Hit Hne Hdd) as (P1 & P2 & P3 & P4 & P5 & P6 & _).
                 destruct (attach_moved w _ it rec top 0 rest _ (NMap true (Some (next w)) c (pairs ++ [(it, None)])) nit
                             data [] bytes P Htop Hit (kids_map_key _ _ _ _ _) (eq_sym (app_nil_r _)) eq_refl
                             P1 P2 P3 P4 P5 P6) as (w2 & E2 & A2).
                 bstep E2. eexists. eexists. split; [reflexivity|]. left. cbn [hcf hse hroot hstack].
                 split; [reflexivity|]. split; [reflexivity|].
                 apply (att_stay w2 rec top _ rest _ A2). change (N.lxor 0 1) with 1. cbn [shape].
                 split; [discriminate|]. split; [unfold SZ_PAIR in Hby; lia|]. split; [lia|].
                 intros _. split; [discriminate|eauto].
           ++ bstep (add_key_guard refuse top it w 1 data al pairs Htop Hge Gr). cbn [negb].
              destruct (fail_same w _ it _ P (conj eq_refl eq_refl : same_heap w (w_log (AccR top) w))) as (w2 & E2 & U2).
              bstep E2. eexists. eexists. split; [reflexivity|]. apply post_fail; [left; reflexivity|exact U2].
    + (* definite map: neither the key nor the value can fail *)
      destruct data as [d|]; [|contradiction]. destruct Sh as (Ssub & Sle & Seq & Sodd).
      destruct (Hblk d) as ([sz Hd] & _); [left; reflexivity|].
      pose proof (odd_mod sub) as Hm. unfold odd. destruct (N.odd sub) eqn:Hodd; cbn beta iota.
      * destruct (Sodd eq_refl) as (ps & k & ->).
        pose proof (add_value_spec top it w 1 false d sz al ps k None 1 nit Htop Hd Hit Hne) as Eav.
        erewrite bind_Ret; [|mstep Eav; reflexivity]. cbn [negb].
        destruct (w_addval_props top 1 (NMap false (Some d) al (ps ++ [(k, Some it)])) d it 1 nit w Hne) as (P1 & P2 & P3 & P4 & _).
        destruct (attach_keep w _ it rec top sub rest _ (NMap false (Some d) al (ps ++ [(k, Some it)])) nit P Htop Hit
                    (kids_map_val _ _ _ _ _ _) eq_refl P1 P2 P3 P4) as (w2 & E2 & A2).
        bstep E2. destruct (N.ltb_spec 0 sub) as [_|]; [|lia]. cbn [assert_]. rewrite bind_ret_l.
        cbv zeta. rewrite sub64_le by lia.
        destruct (N.eqb_spec (sub - 1) 0) as [Hz|Hnz].
        -- destruct (att_pop w2 rec top sub _ rest A2) as (w3 & E3 & P3' & _). bstep E3. apply IH. exact P3'.
        -- eexists. eexists. split; [reflexivity|]. left. cbn [hcf hse hroot hstack].
           split; [reflexivity|]. split; [reflexivity|].
           apply (att_stay w2 rec top _ rest (sub - 1) A2). cbn [shape].
           rewrite !len_app in *. change (len [(k, Some it)]) with 1. change (len [(k, @None addr)]) with 1 in Seq.
           split; [lia|]. split; [lia|]. split; [lia|].
           intros Ho. pose proof (odd_mod (sub - 1)) as Hm'. rewrite Ho in Hm'. lia.
      * assert (Hlt : len pairs < al) by lia.
        bstep (add_key_room refuse false top it w 1 d sz al pairs 1 nit Htop Hd Hit Hne Hlt). cbn [negb].
        destruct (w_push_props top 1 (NMap false (Some d) al (pairs ++ [(it, None)])) d it 1 nit w Hne) as (P1 & P2 & P3 & P4 & _).
        destruct (attach_keep w _ it rec top sub rest _ (NMap false (Some d) al (pairs ++ [(it, None)])) nit P Htop Hit
                    (kids_map_key _ _ _ _ _) eq_refl P1 P2 P3 P4) as (w2 & E2 & A2).
        bstep E2. destruct (N.ltb_spec 0 sub) as [_|]; [|lia]. cbn [assert_]. rewrite bind_ret_l.
        cbv zeta. rewrite sub64_le by lia.
        destruct (N.eqb_spec (sub - 1) 0) as [Hz|Hnz]; [lia|].
        eexists. eexists. split; [reflexivity|]. left. cbn [hcf hse hroot hstack].
        split; [reflexivity|]. split; [reflexivity|].
        apply (att_stay w2 rec top _ rest (sub - 1) A2). cbn [shape].
        rewrite len_app. change (len [(it, @None addr)]) with 1.
        split; [lia|]. split; [lia|]. split; [lia|]. intros _. eauto.
  - (* tag *)
    destruct child as [x|]; [contradiction|]. subst sub. change (1 =? 1) with true. cbn [assert_]. rewrite bind_ret_l.
    destruct (tag_set_spec top it w v 1 nit Htop Hit Hne) as (w1 & E1 & P1 & P2 & P3 & P4). bstep E1.
    destruct (attach_keep w w1 it rec top 1 rest _ (NTag v (Some it)) nit P Htop Hit eq_refl eq_refl P1 P2 P3 P4)
      as (w2 & E2 & A2).
    bstep E2. destruct (att_pop w2 rec top 1 _ rest A2) as (w3 & E3 & P3' & _). bstep E3. apply IH. exact P3'.
Qed.


(* ------------------------------------------------------------------------------------------ *)
(* 6. creating items, PUSH_CTX_STACK                                                           *)
(* ------------------------------------------------------------------------------------------ *)

(* a failed constructor: pointwise the same heap, the bump pointer may have advanced *)
Lemma LI_heq w w1 stk : LI w [] stk -> heap_eq w w1 -> next w <= next w1 -> LI w1 [] stk.
Proof. intros (I & Gw & R & S & F) Hh Hn.
  split; [eapply Inv_pw; [exact I|exact Hh|exact Hn| |]; reflexivity|].
  split; [apply (G_upd w w1 Gw Hn); intros b; left; apply Hh|].
  split; [apply (rc1_upd w w1 R); intros b; left; apply Hh|].
  split; [|exact F]. apply (stack_ok_bound w1 stk (next w)); [|exact Hn].
  apply (stack_ok_frame w w1 stk _ S). intros t _ _. apply Hh. Qed.

Lemma cf_post w stk : LI w [] stk -> POST (cf_ctx stk) w.
Proof. intros H. apply post_fail; [left; reflexivity|]. apply LI_UI. exact H. Qed.

(* a fresh item without references *)
Lemma malloc_item_spec w stk sz n : LI w [] stk -> kids n = [] -> dblocks n = [] ->
  exists r w1, malloc refuse sz (CItem 1 n) w = Ret r w1 /\
    match r with
    | None => LI w1 [] stk
    | Some a => PRE w1 a stk /\ heap w1 a = Some (CItem 1 n)
    end.
Proof. intros H K D. destruct (refuse (nreq w) sz) eqn:Rf.
  - eexists. eexists. split; [apply (malloc_refused refuse sz _ w Rf)|].
    apply (LI_heq w _ stk H); [intros b; reflexivity|wsimpl; lia].
  - eexists. eexists. split; [apply (malloc_granted refuse sz _ w Rf)|].
    destruct H as (I & Gw & R & S & _). pose proof (g_nx w Gw) as GN.
    split; [|wsimpl; apply upd_same].
    split; [|split; [|split; [|split; [exact GN|]]]].
    + eapply (Inv_alloc_item_pw _ _ _ w _ n I K D).
      * intros b. reflexivity.
      * reflexivity.
      * intros x. apply sown_cons.
    + apply (G_upd w _ Gw); [wsimpl; lia|]. intros b. wsimpl. unfold upd.
      destruct (N.eqb_spec b (next w)) as [->|]; [|left; reflexivity]. right. split; [exact GN|].
      split; [rewrite K|rewrite D]; intros ? [].
    + apply (rc1_upd w _ R). intros b. wsimpl. unfold upd.
      destruct (N.eqb_spec b (next w)); [right; reflexivity|left; reflexivity].
    + apply (stack_ok_frame w _ stk _ S). intros t Ht _. wsimpl. rewrite upd_other by lia. reflexivity.
Qed.

(* a fresh item with its one data block, in either allocation order *)
Lemma new2_pre w w' stk ai ad n sz : LI w [] stk ->
  ((ai = next w /\ ad = next w + 1) \/ (ad = next w /\ ai = next w + 1)) ->
  kids n = [] -> dblocks n = [ad] ->
  heap w' ai = Some (CItem 1 n) -> heap w' ad = Some (CData sz) ->
  heap_but [next w; next w + 1] w w' -> next w' = next w + 2 ->
  PRE w' ai stk.
Proof. intros (I & Gw & R & S & _) Hc K D Hi Hd Hb Hn. pose proof (g_nx w Gw) as GN.
  assert (PW : forall b, heap w' b = if b =? ai then Some (CItem 1 n) else if b =? ad then Some (CData sz) else heap w b).
  { intros b. destruct (N.eqb_spec b ai) as [->|Hbi]; [exact Hi|]. destruct (N.eqb_spec b ad) as [->|Hbd]; [exact Hd|].
    apply Hb. cbn [In]. lia. }
  assert (Hai : N0 <= ai) by lia. assert (Had : N0 <= ad) by lia.
  split; [|split; [|split; [|split; [exact Hai|]]]].
  - eapply (Inv_new_item2 _ _ _ w w' ai ad n sz I Hc K D PW Hn). intros x. apply sown_cons.
  - apply (G_upd w w' Gw); [lia|]. intros b. rewrite PW.
    destruct (N.eqb_spec b ai) as [->|].
    { right. split; [exact Hai|]. split; [rewrite K; intros ? []|]. rewrite D. intros ? [<-|[]]. exact Had. }
    destruct (N.eqb_spec b ad) as [->|]; [right; split; [exact Had|exact Logic.I]|left; reflexivity].
  - apply (rc1_upd w w' R). intros b. rewrite PW.
    destruct (N.eqb_spec b ai); [right; reflexivity|]. destruct (N.eqb_spec b ad); [right; exact Logic.I|left; reflexivity].
  - apply (stack_ok_bound w' stk (next w)); [|lia].
    apply (stack_ok_frame w w' stk _ S). intros t Ht _. apply Hb. cbn [In]. lia.
Qed.

Lemma push_ctx_spec w res sub stk n :
  PRE w res stk -> heap w res = Some (CItem 1 n) -> shape n sub ->
  exists c w', push_ctx res sub stk w = Ret c w' /\ POST c w'.
Proof. intros P Hres Sh. unfold HOps.push_ctx. pose proof (PRE_fresh _ _ _ P) as F.
  destruct (PRE_it _ _ _ P) as (_ & _ & Lres). destruct P as (I & Gw & R & Hr & S).
  destruct (len stk =? L).
  { destruct (fail_release w res stk I Gw Hr F) as (w2 & E2 & U2). bstep E2.
    eexists. eexists. split; [reflexivity|]. apply post_fail; [left; reflexivity|exact U2]. }
  destruct (refuse (nreq w) SZ_REC) eqn:Rf.
  - bstep (malloc_refused refuse SZ_REC (CData SZ_REC) w Rf).
    destruct (fail_release (w_refused (EvMalloc SZ_REC None) w) res stk) as (w2 & E2 & U2); [| |exact Hr|exact F|].
    + eapply Inv_pw; [exact I| | | |]; reflexivity.
    + apply (G_upd w _ Gw); [wsimpl; lia|]. intros b. left. reflexivity.
    + bstep E2. eexists. eexists. split; [reflexivity|]. apply post_fail; [left; reflexivity|exact U2].
  - bstep (malloc_granted refuse SZ_REC (CData SZ_REC) w Rf). pose proof (g_nx w Gw) as GN.
    eexists. eexists. split; [reflexivity|]. left. cbn [hcf hse hroot hstack].
    split; [reflexivity|]. split; [reflexivity|].
    split; [|split; [|split; [|split; [|constructor]]]].
    + eapply (Inv_alloc_data_pw _ _ _ w _ SZ_REC I).
      * intros b. reflexivity.
      * reflexivity.
      * intros x. cbn [map srecd fst snd]. apply sown_cons.
    + apply (G_upd w _ Gw); [wsimpl; lia|]. intros b. wsimpl. unfold upd.
      destruct (N.eqb_spec b (next w)) as [->|]; [|left; reflexivity]. right. split; [exact GN|exact Logic.I].
    + apply (rc1_upd w _ R). intros b. wsimpl. unfold upd.
      destruct (N.eqb_spec b (next w)); [right; exact Logic.I|left; reflexivity].
    + cbn [stack_ok sitem srecd fst snd]. split; [exact GN|]. split; [exact Hr|]. split; [wsimpl; lia|].
      split; [exists n; split; [wsimpl; rewrite upd_other by lia; exact Hres|exact Sh]|].
      apply (stack_ok_frame w _ stk _ S). intros t Ht _. wsimpl. rewrite upd_other by lia. reflexivity.
Qed.

Lemma leaf_cb_spec w stk sz n : LI w [] stk -> kids n = [] -> dblocks n = [] ->
  exists c w', leaf_cb refuse (malloc refuse sz (CItem 1 n)) stk w = Ret c w' /\ POST c w'.
Proof. intros H K D. unfold leaf_cb. destruct (malloc_item_spec w stk sz n H K D) as (r & w1 & E & Hr). bstep E.
  destruct r as [a|].
  - apply happend_spec. apply Hr.
  - eexists. eexists. split; [reflexivity|]. apply cf_post. exact Hr. Qed.


Lemma LI_same w w1 stk : LI w [] stk -> same_heap w w1 -> LI w1 [] stk.
Proof. intros H [Hh Hn]. apply (LI_heq w w1 stk H); [intros b; rewrite Hh; reflexivity|lia]. Qed.

Lemma LI_wf w e stk : LI w e stk -> wf w.
Proof. intros (I & _). eapply Inv_wf; exact I. Qed.

(* the outcomes of the two-block constructors *)
Lemma fail1_LI w stk sz : LI w [] stk -> LI (w_fail1 sz w) [] stk.
Proof. intros H. apply (LI_heq w _ stk H); [intros b; reflexivity|cbn [next w_fail1 w_refused]; lia]. Qed.
Lemma fail_guard_LI w stk sz c : LI w [] stk -> LI (w_fail_guard sz c w) [] stk.
Proof. intros H. destruct (w_fail_guard_props sz c w (LI_wf _ _ _ H)) as (P1 & _ & P3 & _).
  apply (LI_heq w _ stk H P1). lia. Qed.
Lemma fail2_LI w stk sz c bytes : LI w [] stk -> LI (w_fail2 sz c bytes w) [] stk.
Proof. intros H. destruct (w_fail2_props sz c bytes w (LI_wf _ _ _ H)) as (P1 & _ & P3 & _).
  apply (LI_heq w _ stk H P1). lia. Qed.
Lemma built_pre w stk sz c0 bytes n : LI w [] stk -> kids n = [] -> dblocks n = [next w + 1] ->
  PRE (w_built sz c0 bytes (CItem 1 n) w) (next w) stk /\
  heap (w_built sz c0 bytes (CItem 1 n) w) (next w) = Some (CItem 1 n).
Proof. intros H K D. destruct (w_built_props sz c0 bytes (CItem 1 n) w (LI_wf _ _ _ H)) as (P1 & P2 & P3 & _ & P5 & _).
  split; [|exact P1]. eapply (new2_pre w _ stk (next w) (next w + 1) n bytes H); try eassumption.
  left. split; reflexivity. Qed.

(* ------------------------------------------------------------------------------------------ *)
(* 7. string chunks                                                                            *)
(* ------------------------------------------------------------------------------------------ *)

Lemma string_cb_spec w stk text d : LI w [] stk ->
  exists c w', string_cb refuse text d stk w = Ret c w' /\ POST c w'.
Proof. intros H. unfold string_cb. pose proof (LI_wf _ _ _ H) as Hwf0.
  destruct (refuse (nreq w) (len d)) eqn:R1.
  { bstep (malloc_refused refuse (len d) (CData (len d)) w R1). eexists. eexists. split; [reflexivity|].
    apply cf_post. apply (LI_heq w _ stk H); [intros b; reflexivity|wsimpl; lia]. }
  bstep (malloc_granted refuse (len d) (CData (len d)) w R1).
  set (w1 := w_malloc (len d) (CData (len d)) w). unfold new_definite_string.
  destruct (refuse (nreq w1) SZ_ITEM) eqn:R2.
  { bstep (malloc_refused refuse SZ_ITEM (CItem 1 (NStr text None [])) w1 R2).
    assert (Hh : heap (w_refused (EvMalloc SZ_ITEM None) w1) (next w) = Some (CData (len d)))
      by (subst w1; wsimpl; apply upd_same).
    bstep (free_spec (next w) _ _ Hh). eexists. eexists. split; [reflexivity|]. apply cf_post.
    apply (LI_heq w _ stk H).
    - intros b. subst w1. wsimpl. unfold upd. destruct (N.eqb_spec b (next w)) as [->|]; [|reflexivity].
      symmetry. apply Hwf0. lia.
    - subst w1. wsimpl. lia. }
  bstep (malloc_granted refuse SZ_ITEM (CItem 1 (NStr text None [])) w1 R2).
  change (next w1) with (next w + 1).
  set (w2 := w_malloc SZ_ITEM (CItem 1 (NStr text None [])) w1).
  assert (Hc2 : heap w2 (next w + 1) = Some (CItem 1 (NStr text None []))) by (subst w2 w1; wsimpl; apply upd_same).
  bstep (wr_item_spec (next w + 1) 1 (NStr text (Some (next w)) d) w2 _ _ Hc2).
  set (w3 := w_set (next w + 1) _ w2). set (chunk := next w + 1).
  assert (P : PRE w3 chunk stk).
  { eapply (new2_pre w w3 stk chunk (next w) (NStr text (Some (next w)) d) (len d) H); try reflexivity.
    - right. split; reflexivity.
    - subst w3. wsimpl. apply upd_same.
    - subst w3 w2 w1 chunk. wsimpl. rewrite !upd_other by lia. apply upd_same.
    - intros b Hb. cbn [In] in Hb. subst w3 w2 w1 chunk. wsimpl. rewrite !upd_other by lia. reflexivity.
    - subst w3 w2 w1. wsimpl. lia. }
  assert (Hck : exists dd, heap w3 chunk = Some (CItem 1 (NStr text (Some dd) d))).
  { exists (next w). subst w3 chunk. wsimpl. apply upd_same. }
  destruct Hck as [dd0 Hck]. clearbody w3 chunk. assert (Hck' : exists dd, heap w3 chunk = Some (CItem 1 (NStr text (Some dd) d))) by eauto.
  clear Hck dd0. rename Hck' into Hck. clear Hc2 w2 R2 w1 R1 H Hwf0 w.
  destruct stk as [|[[rec top] sub] rest]; [apply happend_spec; exact P|].
  rename w3 into w. set (wl := w_log (AccR top) w).
  assert (Hckl : exists dd, heap wl chunk = Some (CItem 1 (NStr text (Some dd) d))) by exact Hck.
  assert (Pl : PRE wl chunk ((rec, top, sub) :: rest)) by (apply (PRE_same w wl _ _ P); split; reflexivity).
  destruct (top_facts _ _ _ _ _ _ Pl) as (n & nit & Htop & Sh & Hit & Hne & Hwf & Hblk).
  bstep (rd_item_spec top w 1 n Htop). fold wl. clearbody wl. clear Hck. clear P w. rename Pl into P. rename wl into w.
  destruct n as [neg iw v|fw bits|v|tx data bytes|t hdr arr cap chunks|indef data al elems|indef data al pairs|v child];
    cbn [shape] in Sh; try contradiction; cbn beta iota; try (apply happend_spec; exact P).
  destruct (Bool.eqb_spec t text) as [Ett|_]; [|apply happend_spec; exact P].
  assert (Hk : chunk_ok t nit).
  { destruct Hckl as [dd Hckl]. rewrite Hit in Hckl. injection Hckl as ->. subst t. unfold chunk_ok. destruct text; [exact I|eauto]. }
  destruct Sh as (Sa & Scap & Slen).
  destruct (Hblk hdr) as ([hsz Hh] & Hcnt); [apply in_or_app; right; left; reflexivity|].
  assert (Hah : arr <> Some hdr).
  { intros ->. cbn [dblocks ol app cnt] in Hcnt. rewrite N.eqb_refl in Hcnt. lia. }
  assert (Hb : block_inv w arr cap).
  { destruct arr as [ar|]; cbn [block_inv]; [|apply Sa; reflexivity]. apply (Hblk ar). left. reflexivity. }
  destruct (add_chunk_spec refuse top chunk w 1 t hdr hsz arr cap chunks 1 nit Hwf Htop Hh Hb Hah Hit Hk Hne Scap)
    as [Hroom Hfull].
  destruct (N.eq_dec (len chunks) cap) as [Heq|Hneq].
  - specialize (Hfull Heq). destruct (grow_req SZ_PTR cap) as [[c bytes]|].
    + destruct Hfull as (Hc & Hlt & Hby & Hb64 & Hfull). destruct (refuse (nreq w) bytes).
      * destruct Hfull as (w1 & E1 & SH & _). bstep E1.
        destruct (fail_same w w1 chunk _ P SH) as (w2 & E2 & U2). bstep E2.
        eexists. eexists. split; [reflexivity|]. apply post_fail; [left; reflexivity|exact U2].
      * destruct Hfull as (w1 & E1 & P1 & P2 & P3 & P4 & P5 & P6 & _). bstep E1.
        destruct (attach_moved w w1 chunk rec top sub rest _ (NChunked t hdr (Some (next w)) c (chunks ++ [chunk])) nit
                    arr [hdr] bytes P Htop Hit eq_refl eq_refl eq_refl P1 P2 P3 P4 P5 P6) as (w2 & E2 & A2).
        bstep E2. eexists. eexists. split; [reflexivity|]. left. cbn [hcf hse hroot hstack negb].
        split; [reflexivity|]. split; [reflexivity|].
        apply (att_stay w2 rec top _ rest sub A2). cbn [shape]. rewrite len_app. change (len [chunk]) with 1.
        split; [discriminate|]. split; lia.
    + destruct Hfull as (w1 & E1 & SH & _). bstep E1.
      destruct (fail_same w w1 chunk _ P SH) as (w2 & E2 & U2). bstep E2.
      eexists. eexists. split; [reflexivity|]. apply post_fail; [left; reflexivity|exact U2].
  - destruct (Hroom Hneq ltac:(lia)) as (w1 & E1 & P1 & P2 & P3 & P4 & _). bstep E1.
    destruct (attach_keep w w1 chunk rec top sub rest _ (NChunked t hdr arr cap (chunks ++ [chunk])) nit P Htop Hit
                eq_refl eq_refl P1 P2 P3 P4) as (w2 & E2 & A2).
    bstep E2. eexists. eexists. split; [reflexivity|]. left. cbn [hcf hse hroot hstack negb].
    split; [reflexivity|]. split; [reflexivity|].
    apply (att_stay w2 rec top _ rest sub A2). cbn [shape]. rewrite len_app. change (len [chunk]) with 1.
    split; [exact Sa|]. split; lia.
Qed.


(* ------------------------------------------------------------------------------------------ *)
(* 8. one builder callback                                                                     *)
(* ------------------------------------------------------------------------------------------ *)


Lemma hcallback_spec w stk tk : LI w [] stk -> tok_ok tk ->
  exists c w', hcallback tk stk w = Ret c w' /\ POST c w'.
Proof. intros H Tk.
  destruct tk as [iw v|iw v|off d| |off d| |n| |n| |v|fw bits|b| | | ]; cbn [HOps.hcallback].
  - apply leaf_cb_spec; [exact H|reflexivity|reflexivity].
  - apply leaf_cb_spec; [exact H|reflexivity|reflexivity].
  - apply string_cb_spec. exact H.
  - (* indefinite byte string *)
    pose proof (new_indefinite_string_cases refuse false w) as E. cbv zeta in E.
    destruct (refuse (nreq w) SZ_ITEM).
    { bstep E. eexists. eexists. split; [reflexivity|]. apply cf_post, fail1_LI, H. }
    destruct (refuse (nreq w + 1) SZ_ISD).
    { bstep E. eexists. eexists. split; [reflexivity|]. apply cf_post, fail2_LI, H. }
    bstep E. destruct (built_pre w stk SZ_ITEM (CItem 1 (NStr false None [])) SZ_ISD
                         (NChunked false (next w + 1) None 0 []) H eq_refl eq_refl) as [P Hn].
    eapply push_ctx_spec; [exact P|exact Hn|]. cbn [shape]. split; [reflexivity|]. split; [lia|]. change (len (@nil addr)) with 0. lia.
  - apply string_cb_spec. exact H.
  - pose proof (new_indefinite_string_cases refuse true w) as E. cbv zeta in E.
    destruct (refuse (nreq w) SZ_ITEM).
    { bstep E. eexists. eexists. split; [reflexivity|]. apply cf_post, fail1_LI, H. }
    destruct (refuse (nreq w + 1) SZ_ISD).
    { bstep E. eexists. eexists. split; [reflexivity|]. apply cf_post, fail2_LI, H. }
    bstep E. destruct (built_pre w stk SZ_ITEM (CItem 1 (NStr true None [])) SZ_ISD
                         (NChunked true (next w + 1) None 0 []) H eq_refl eq_refl) as [P Hn].
    eapply push_ctx_spec; [exact P|exact Hn|]. cbn [shape]. split; [reflexivity|]. split; [lia|]. change (len (@nil addr)) with 0. lia.
  - (* definite array *)
    pose proof (new_definite_array_cases refuse n w) as E. cbv zeta in E.
    destruct (refuse (nreq w) SZ_ITEM).
    { bstep E. eexists. eexists. split; [reflexivity|]. apply cf_post, fail1_LI, H. }
    destruct (alloc_multiple_req 64 SZ_PTR n) as [bytes|].
    2:{ bstep E. eexists. eexists. split; [reflexivity|]. apply cf_post, fail_guard_LI, H. }
    destruct (refuse (nreq w + 1) bytes).
    { bstep E. eexists. eexists. split; [reflexivity|]. apply cf_post, fail2_LI, H. }
    bstep E. destruct (built_pre w stk SZ_ITEM (CItem 1 (NArr false None n [])) bytes
                         (NArr false (Some (next w + 1)) n []) H eq_refl eq_refl) as [P Hn].
    destruct (N.ltb_spec 0 n) as [Hpos|Hz].
    + eapply push_ctx_spec; [exact P|exact Hn|]. cbn [shape]. change (len (@nil addr)) with 0. lia.
    + apply happend_spec. exact P.
  - (* indefinite array *)
    unfold new_indefinite_array.
    destruct (malloc_item_spec w stk SZ_ITEM (NArr true None 0 []) H eq_refl eq_refl) as (r & w1 & E & Hr). bstep E.
    destruct r as [a|]; [|eexists; eexists; split; [reflexivity|]; apply cf_post; exact Hr].
    destruct Hr as [P Hn]. eapply push_ctx_spec; [exact P|exact Hn|]. cbn [shape]. split; [reflexivity|lia].
  - (* definite map *)
    cbn [tok_ok] in Tk.
    pose proof (new_definite_map_cases refuse n w) as E. cbv zeta in E.
    destruct (refuse (nreq w) SZ_ITEM).
    { bstep E. eexists. eexists. split; [reflexivity|]. apply cf_post, fail1_LI, H. }
    destruct (alloc_multiple_req 64 SZ_PAIR n) as [bytes|] eqn:A.
    2:{ bstep E. eexists. eexists. split; [reflexivity|]. apply cf_post, fail_guard_LI, H. }
    destruct (refuse (nreq w + 1) bytes).
    { bstep E. eexists. eexists. split; [reflexivity|]. apply cf_post, fail2_LI, H. }
    bstep E. destruct (built_pre w stk SZ_ITEM (CItem 1 (NMap false None n [])) bytes
                         (NMap false (Some (next w + 1)) n []) H eq_refl eq_refl) as [P Hn].
    destruct (N.ltb_spec 0 n) as [Hpos|Hz].
    + eapply push_ctx_spec; [exact P|exact Hn|]. rewrite (map_sub_nowrap n bytes Tk A). cbn [shape].
      change (len (@nil (addr * option addr))) with 0.
      split; [lia|]. split; [lia|]. split; [lia|].
      intros Ho. pose proof (odd_mod (2 * n)) as Hm. rewrite Ho in Hm. lia.
    + apply happend_spec. exact P.
  - (* indefinite map *)
    unfold new_indefinite_map.
    destruct (malloc_item_spec w stk SZ_ITEM (NMap true None 0 []) H eq_refl eq_refl) as (r & w1 & E & Hr). bstep E.
    destruct r as [a|]; [|eexists; eexists; split; [reflexivity|]; apply cf_post; exact Hr].
    destruct Hr as [P Hn]. eapply push_ctx_spec; [exact P|exact Hn|]. cbn [shape].
    split; [reflexivity|]. split; [lia|]. split; [lia|]. discriminate.
  - (* tag *)
    unfold new_tag.
    destruct (malloc_item_spec w stk SZ_ITEM (NTag v None) H eq_refl eq_refl) as (r & w1 & E & Hr). bstep E.
    destruct r as [a|]; [|eexists; eexists; split; [reflexivity|]; apply cf_post; exact Hr].
    destruct Hr as [P Hn]. eapply push_ctx_spec; [exact P|exact Hn|]. reflexivity.
  - apply leaf_cb_spec; [exact H|reflexivity|reflexivity].
  - apply leaf_cb_spec; [exact H|reflexivity|reflexivity].
  - apply leaf_cb_spec; [exact H|reflexivity|reflexivity].
  - apply leaf_cb_spec; [exact H|reflexivity|reflexivity].
  - (* break *)
    destruct stk as [|[[rec top] sub] rest].
    { eexists. eexists. split; [reflexivity|]. apply post_fail; [right; reflexivity|]. apply LI_UI. exact H. }
    set (wl := w_log (AccR top) w).
    assert (Hl : LI wl [] ((rec, top, sub) :: rest)) by (apply (LI_same w wl _ H); split; reflexivity).
    destruct (LI_att _ _ _ _ _ Hl) as (n & A & Sh). pose proof A as (_ & _ & _ & Htop & _).
    bstep (rd_item_spec top w 1 n Htop). fold wl. clearbody wl. clear H w. rename wl into w.
    assert (Hse : exists c w', ret (mkhctx ((rec, top, sub) :: rest) None false true) w = Ret c w' /\ POST c w').
    { eexists. eexists. split; [reflexivity|]. apply post_fail; [right; reflexivity|]. apply LI_UI. exact Hl. }
    assert (Hcl : exists c w', (stack_pop (rec, top, sub) ;;; happend top rest) w = Ret c w' /\ POST c w').
    { destruct (att_pop w rec top sub n rest A) as (w3 & E3 & P3 & _). bstep E3. apply happend_spec. exact P3. }
    destruct n as [neg iw v|fw bits|v|tx data bytes|t hdr arr cap chunks|indef data al elems|indef data al pairs|v child];
      cbn [shape] in Sh; try contradiction; cbn beta iota.
    + exact Hcl.
    + destruct indef; [exact Hcl|exact Hse].
    + destruct indef; [|exact Hse]. destruct (negb (odd sub)); [exact Hcl|exact Hse].
    + exact Hse.
Qed.


(* ------------------------------------------------------------------------------------------ *)
(* 9. the loop of cbor_load                                                                    *)
(* ------------------------------------------------------------------------------------------ *)

Notation hload_loop := (hload_loop refuse L).

(* what holds of a result: an error code and nothing of the call left, or a root owned once *)
Definition RES (r : option addr * lerr * N * N) (w' : world) : Prop :=
  match r with
  | (None, code, _, _) => code <> ENone /\ UI w' []
  | (Some a, code, pos, _) => code = ENone /\ pos = 0 /\ LI w' [a] []
  end.

Lemma unwind_res w stk code (p q : N) : UI w stk -> code <> ENone ->
  exists r w', (unwind stk ;;; @ret HOps.hres (@None addr, code, p, q)) w = Ret r w' /\ RES r w'.
Proof. intros U Hc. destruct (unwind_spec stk w U) as (w' & E & U'). bstep E.
  eexists. eexists. split; [reflexivity|]. split; assumption. Qed.

Lemma hload_loop_spec : forall fuel buf read stk w,
  bytes_ok buf -> len buf < SIZE_MAX -> read <= len buf -> (length buf - N.to_nat read < fuel)%nat ->
  LI w [] stk -> exists r w', hload_loop fuel buf read stk w = Ret r w' /\ RES r w'.
Proof.
  induction fuel as [|f IH]; intros buf read stk w Hb Hlen Hread Hfuel H; [lia|].
  cbn [HOps.hload_loop].
  destruct (N.leb_spec (len buf) read) as [Hle|Hlt].
  { apply unwind_res; [apply LI_UI; exact H|discriminate]. }
  pose proof (C08_contract (skipnN read buf) (bytes_ok_skipn read buf Hb)) as Hc.
  rewrite len_skipnN in Hc. specialize (Hc ltac:(lia)). unfold contract in Hc.
  destruct (head_spec (skipnN read buf)) as [t n|full|] eqn:HS.
  - rewrite Hc. cbn [st rd].
    pose proof (head_spec_tok_ok _ _ _ (bytes_ok_skipn read buf Hb) HS) as Tk.
    apply head_spec_tok_len in HS. rewrite len_skipnN in HS.
    rewrite wrap64_small by (unfold SIZE_MAX, W64 in *; lia).
    destruct (hcallback_spec w stk t H Tk) as (c & w1 & E & [(Hcf & Hse & HP)|(Hf & U)]).
    + bstep E. rewrite Hcf, Hse. destruct (hstack c) as [|r l] eqn:Hs.
      * destruct HP as (a & -> & HL). eexists. eexists. split; [reflexivity|].
        split; [reflexivity|]. split; [reflexivity|exact HL].
      * apply IH; [assumption|assumption|lia|unfold len in *; lia|exact HP].
    + bstep E. destruct (hcf c).
      * apply unwind_res; [exact U|discriminate].
      * destruct (hse c); [apply unwind_res; [exact U|discriminate]|].
        destruct Hf; discriminate.
  - destruct Hc as (req & Hc & _). rewrite Hc. cbn [st]. apply unwind_res; [apply LI_UI; exact H|discriminate].
  - rewrite Hc. cbn [st]. apply unwind_res; [apply LI_UI; exact H|discriminate].
Qed.

Lemma LI_init : Inv own ownd [] w0 -> LI w0 [] [].
Proof. intros I. pose proof (Inv_wf _ _ _ _ I) as Hwf.
  split; [eapply Inv_pw; [exact I| | | |]; try reflexivity; intros x; unfold sown; cbn [app map cnt]; lia|].
  split; [|split; [|split; [exact Logic.I|constructor]]].
  - split; [reflexivity| |reflexivity]. intros b rc n Hb E. rewrite (Hwf b Hb) in E. discriminate.
  - intros b rc n Hb E. rewrite (Hwf b Hb) in E. discriminate. Qed.

Lemma load_h_res buf : bytes_ok buf -> len buf < SIZE_MAX -> Inv own ownd [] w0 ->
  exists r w', load_h refuse L buf w0 = Ret r w' /\ RES r w'.
Proof. intros Hb Hl I. unfold load_h. pose proof (LI_init I) as H.
  destruct (len buf =? 0).
  - eexists. eexists. split; [reflexivity|]. split; [discriminate|]. apply LI_UI. exact H.
  - apply hload_loop_spec; [assumption|assumption|lia|lia|exact H]. Qed.

(* ------------------------------------------------------------------------------------------ *)
(* 10. the fresh cells of a successful load are exactly those reachable from the root          *)
(* ------------------------------------------------------------------------------------------ *)


Lemma fresh_reach o od w a :
  Inv own ownd [] w0 -> Inv o od [] w -> G w ->
  (forall b, N0 <= b -> b <> a -> o b = 0) -> (forall b, N0 <= b -> od b = 0) ->
  forall b, N0 <= b -> heap w b <> None -> reach w a b.
Proof. intros I0 I Gw HO HD.
  assert (RI : forall b, N0 <= b -> forall rc n, heap w b = Some (CItem rc n) -> reach w a b).
  { intros b. induction b as [b IHb] using (well_founded_induction N.lt_wf_0). intros Hb rc n E.
    destruct (N.eq_dec b a) as [->|Hne]; [apply reach_self|].
    pose proof (Inv_nil_pos _ _ _ _ _ _ I E) as Hrc. specialize (HO b Hb Hne).
    pose proof I as [_ H2]. pose proof (H2 b) as Z. unfold okcell in Z. rewrite E in Z. cbn [pend tofree] in Z.
    assert (P : 0 < indeg w b) by (intuition lia). apply refs_pos in P.
    destruct P as (p & rcp & np & _ & Ep & Rp & Kp).
    destruct (parent_fresh w p rcp np b I0 Gw Ep Rp Hb (or_introl Kp)) as [Hp Hlt].
    eapply reach_kid; [apply (IHb p (Hlt Kp) Hp rcp np Ep)|exact Ep|exact Kp]. }
  intros b Hb Hl. destruct (heap w b) as [[rc n|sz]|] eqn:E; [eapply RI; eassumption| |contradiction].
  specialize (HD b Hb).
  pose proof I as [_ H2]. pose proof (H2 b) as Z. unfold okcell in Z. rewrite E in Z. cbn [pend tofree] in Z.
  assert (P : 0 < dindeg w b) by lia. apply refs_pos in P.
  destruct P as (p & rcp & np & _ & Ep & Rp & Kp).
  destruct (parent_fresh w p rcp np b I0 Gw Ep Rp Hb (or_intror Kp)) as [Hp _].
  eapply reach_block; [apply (RI p Hp rcp np Ep)|exact Ep|apply dblocks_blocks; exact Kp]. Qed.

Lemma reach_fresh o od w a : Inv o od [] w -> G w -> N0 <= a -> heap w a <> None ->
  forall b, reach w a b -> N0 <= b /\ heap w b <> None.
Proof. intros I Gw Ha Hl b Rb. induction Rb as [|b rc n c Rb IH Eb Hc|b rc n d Rb IH Eb Hd].
  - split; assumption.
  - destruct IH as [Hb _]. pose proof (Inv_nil_pos _ _ _ _ _ _ I Eb) as Hrc.
    destruct (g_ord w Gw b rc n Hb Eb) as [K _]. specialize (K c Hc).
    destruct (Inv_kid_live _ _ _ _ _ _ _ _ I Eb ltac:(lia) Hc) as (rck & nk & Ek & _).
    split; [lia|congruence].
  - destruct IH as [Hb _]. pose proof (Inv_nil_pos _ _ _ _ _ _ I Eb) as Hrc. apply dblocks_blocks in Hd.
    destruct (g_ord w Gw b rc n Hb Eb) as [_ D]. specialize (D d Hd).
    destruct (Inv_dblock_live _ _ _ _ _ _ _ _ I Eb ltac:(lia) Hd) as ([s Es] & _).
    split; [exact D|congruence]. Qed.


(* every fresh data block belongs to a fresh item (so no stack record survives a successful load) *)
Lemma fresh_block_owner o od w b sz :
  Inv own ownd [] w0 -> Inv o od [] w -> G w -> (forall b, N0 <= b -> od b = 0) ->
  N0 <= b -> heap w b = Some (CData sz) ->
  exists p rc n, N0 <= p /\ heap w p = Some (CItem rc n) /\ In b (node_blocks n).
Proof. intros I0 I Gw HD Hb E. specialize (HD b Hb).
  pose proof I as [_ H2]. pose proof (H2 b) as Z. unfold okcell in Z. rewrite E in Z. cbn [pend tofree] in Z.
  assert (P : 0 < dindeg w b) by lia. apply refs_pos in P.
  destruct P as (p & rcp & np & _ & Ep & Rp & Kp).
  destruct (parent_fresh w p rcp np b I0 Gw Ep Rp Hb (or_intror Kp)) as [Hp _].
  exists p, rcp, np. split; [exact Hp|]. split; [exact Ep|]. apply dblocks_blocks. exact Kp. Qed.

End Load.

(* ------------------------------------------------------------------------------------------ *)
(* 11. main theorems                                                                           *)
(* ------------------------------------------------------------------------------------------ *)

Section Main.
Variable refuse : N -> N -> bool.   (* an arbitrary allocator *)
Variable L : N.                     (* CBOR_MAX_STACK_SIZE *)
Variables own ownd : addr -> N.     (* what the client owns before the call *)

(* (A) cbor_load never faults: no failed CBOR_ASSERT (10..13, 97, 98), no out-of-capacity push into a
   definite container, no NULL / released / mistyped access, no bad free, no fuel exhaustion *)
Theorem load_h_never_faults : forall buf w,
  bytes_ok buf -> len buf < SIZE_MAX -> wf w -> Inv own ownd [] w ->
  exists r w', load_h refuse L buf w = Ret r w'.
Proof. intros buf w Hb Hl _ I. destruct (load_h_res refuse L w own ownd buf Hb Hl I) as (r & w' & E & _). eauto. Qed.

(* (B) a failed load leaves nothing behind, whichever request was refused and wherever the input
   was malformed: the cells that existed are untouched, every address handed out by the call is
   dead again, and the client's accounting is the one it had *)
Theorem load_h_clean_failure : forall buf w code pos rd w',
  bytes_ok buf -> len buf < SIZE_MAX -> wf w -> Inv own ownd [] w ->
  load_h refuse L buf w = Ret (None, code, pos, rd) w' ->
  code <> ENone /\
  (forall b, b < next w -> heap w' b = heap w b) /\
  (forall b, next w <= b -> heap w' b = None) /\
  Inv own ownd [] w' /\ next w <= next w'.
Proof. intros buf w code pos rd w' Hb Hl _ I H.
  destruct (load_h_res refuse L w own ownd buf Hb Hl I) as (r & w1 & E & HR).
  rewrite E in H. inversion H; subst. destruct HR as (Hc & I' & Gw & _).
  assert (I2 : Inv own ownd [] w').
  { eapply Inv_pw; [exact I'| | | |]; try reflexivity; intros x; unfold sown; cbn [map cnt]; lia. }
  split; [exact Hc|]. split; [apply (g_old _ _ Gw)|]. split; [|split; [exact I2|apply (g_nx _ _ Gw)]].
  apply (fresh_dead refuse L w own ownd w' I I2 Gw). Qed.

(* (C) a successful load returns a fresh root owned once by the caller; every item created by the
   call that is still live has reference count 1; the live cells created by the call are exactly
   the cells reachable from the root (in particular no stack record is left: a live fresh data
   block is a block of a live fresh item); nothing that existed before is modified *)
Theorem load_h_success : forall buf w a code pos rd w',
  bytes_ok buf -> len buf < SIZE_MAX -> wf w -> Inv own ownd [] w ->
  load_h refuse L buf w = Ret (Some a, code, pos, rd) w' ->
  code = ENone /\ pos = 0 /\ next w <= a /\
  (forall b, b < next w -> heap w' b = heap w b) /\
  (forall b rc n, next w <= b -> heap w' b = Some (CItem rc n) -> rc = 1) /\
  Inv (fun x => own x + (if x =? a then 1 else 0)) ownd [] w' /\
  (forall b, next w <= b -> (heap w' b <> None <-> reach w' a b)) /\
  (forall b sz, next w <= b -> heap w' b = Some (CData sz) ->
     exists p rc n, next w <= p /\ heap w' p = Some (CItem rc n) /\ In b (node_blocks n)).
Proof. intros buf w a code pos rd w' Hb Hl _ I H.
  destruct (load_h_res refuse L w own ownd buf Hb Hl I) as (r & w1 & E & HR).
  rewrite E in H. inversion H; subst. destruct HR as (Hc & Hp & I' & Gw & R & _ & F).
  pose proof (Forall_inv F) as Ha. cbn beta in Ha.
  assert (I2 : Inv (fun x => own x + (if x =? a then 1 else 0)) ownd [] w').
  { eapply Inv_pw; [exact I'| | | |]; try reflexivity; intros x; unfold sown; cbn [app map cnt].
    - destruct (N.eqb_spec x a); destruct (N.eqb_spec a x); lia.
    - lia. }
  assert (Z : forall b, next w <= b -> own b = 0 /\ ownd b = 0) by (apply (fresh_zero refuse L w own ownd I)).
  assert (La : heap w' a <> None).
  { destruct (owned_item _ _ w' a I2) as (rc & n & Ea & _); [rewrite N.eqb_refl; lia|congruence]. }
  split; [exact Hc|]. split; [exact Hp|]. split; [exact Ha|]. split; [apply (g_old _ _ Gw)|]. split; [exact R|].
  split; [exact I2|]. split.
  - intros b Hb'. split.
    + apply (fresh_reach refuse L w own ownd _ _ w' a I I2 Gw); [| |exact Hb'].
      * intros x Hx Hne. destruct (Z x Hx) as [-> _]. destruct (N.eqb_spec x a); [contradiction|reflexivity].
      * intros x Hx. apply (Z x Hx).
    + intros Rb. apply (reach_fresh refuse L w own ownd _ _ w' a I2 Gw Ha La b Rb).
  - intros b sz Hb' Eb. apply (fresh_block_owner refuse L w own ownd _ _ w' b sz I I2 Gw); [|exact Hb'|exact Eb].
    intros x Hx. apply (Z x Hx). Qed.

(* ... and the cells created by the call are ordered: the children of an item are younger than the
   item, its blocks are cells of the call (no cycle, no pointer into the caller's heap) *)
Theorem load_h_success_order : forall buf w a code pos rd w',
  bytes_ok buf -> len buf < SIZE_MAX -> wf w -> Inv own ownd [] w ->
  load_h refuse L buf w = Ret (Some a, code, pos, rd) w' ->
  forall b rc n, next w <= b -> heap w' b = Some (CItem rc n) ->
    (forall k, In k (kids n) -> b < k) /\ (forall d, In d (dblocks n) -> next w <= d).
Proof. intros buf w a code pos rd w' Hb Hl _ I H.
  destruct (load_h_res refuse L w own ownd buf Hb Hl I) as (r & w1 & E & HR).
  rewrite E in H. inversion H; subst. destruct HR as (_ & _ & _ & Gw & _).
  intros b rc n Hb' E'. exact (g_ord _ _ Gw b rc n Hb' E'). Qed.

End Main.

(* ========================================================================================== *)
(* 12. (D) refinement: load_h computes what the pure model PBuild.load computes, unless the    *)
(*     allocator refuses a request (the simulation is carried out for an arbitrary oracle: a   *)
(*     step either keeps the two sides together or ends in a creation failure of H alone)      *)
(* ========================================================================================== *)

(* ghost labelling: the tree of every complete item created by the call *)
Definition tmap := addr -> option item.

Fixpoint seqo {A} (l : list (option A)) : option (list A) :=
  match l with
  | [] => Some []
  | Some x :: r => option_map (cons x) (seqo r)
  | None :: _ => None
  end.

Definition chunk_of (T : tmap) (text : bool) (c : addr) : option (list N) :=
  match T c with
  | Some (IBytes b) => if text then None else Some b
  | Some (IText b) => if text then Some b else None
  | _ => None
  end.

Definition pair_of (T : tmap) (p : addr * option addr) : option (item * item) :=
  match T (fst p), snd p with
  | Some k, Some va => match T va with Some v => Some (k, v) | None => None end
  | _, _ => None
  end.

(* the tree of a node, given the trees of its children; None when the node is incomplete *)
Definition node_tree (T : tmap) (n : node) : option item :=
  match n with
  | NInt neg w v => Some (if neg then INegint w v else IUint w v)
  | NFloat w b => Some (IFloat w b)
  | NCtrl v => Some (ICtrl v)
  | NStr text (Some _) bs => Some (if text then IText bs else IBytes bs)
  | NStr _ None _ => None
  | NChunked text _ arr _ chunks =>
      match chunks, arr with
      | _ :: _, None => None
      | _, _ => option_map (fun cs => if text then ITextI cs else IBytesI cs) (seqo (map (chunk_of T text) chunks))
      end
  | NArr indef data _ elems =>
      match elems, data with
      | _ :: _, None => None
      | _, _ => option_map (IArray indef) (seqo (map T elems))
      end
  | NMap indef data _ pairs =>
      match pairs, data with
      | _ :: _, None => None
      | _, _ => option_map (IMap indef) (seqo (map (pair_of T) pairs))
      end
  | NTag v (Some c) => option_map (ITag v) (T c)
  | NTag _ None => None
  end.

Definition CONS (T : tmap) (w : world) : Prop :=
  forall x t, T x = Some t -> exists rc n, heap w x = Some (CItem rc n) /\ node_tree T n = Some t.

Lemma node_tree_str T n (text : bool) b :
  node_tree T n = Some (if text then IText b else IBytes b) -> exists d, n = NStr text (Some d) b.
Proof.
  destruct n as [neg iw v|fw bits|v|tx data bytes|tx hdr arr cap0 chunks|indef data al elems|indef data al pairs|v [c|]];
    cbn [node_tree]; intros H.
  - destruct neg; destruct text; discriminate.
  - destruct text; discriminate.
  - destruct text; discriminate.
  - destruct data as [d|]; [|discriminate]. exists d. destruct tx; destruct text; inversion H; reflexivity.
  - destruct chunks; [|destruct arr; [|discriminate]];
      (destruct (seqo _); [|discriminate]); cbn [option_map] in H; destruct tx; destruct text; discriminate.
  - destruct elems; [|destruct data; [|discriminate]];
      (destruct (seqo _); [|discriminate]); cbn [option_map] in H; destruct text; discriminate.
  - destruct pairs; [|destruct data; [|discriminate]];
      (destruct (seqo _); [|discriminate]); cbn [option_map] in H; destruct text; discriminate.
  - destruct (T c); [|discriminate]. cbn [option_map] in H. destruct text; discriminate.
  - discriminate.
Qed.

(* the pairs of an open map against the accumulator and the pending key of the P frame *)
Definition mrep (T : tmap) (pairs : list (addr * option addr)) (racc : list (item * item)) (key : option item) : Prop :=
  match key with
  | None => seqo (map (pair_of T) pairs) = Some (rev racc)
  | Some kt => exists ps ka, pairs = ps ++ [(ka, None)] /\ T ka = Some kt /\ seqo (map (pair_of T) ps) = Some (rev racc)
  end.

Definition is_some {A} (o : option A) : bool := match o with Some _ => true | None => false end.

(* an open container against its P frame; [k] bounds the number of children of the growable ones *)
Definition fnode (T : tmap) (k : N) (n : node) (sub : N) (f : frame) : Prop :=
  match n, f with
  | NArr false _ al elems, FArr false racc al' sub' =>
      al' = al /\ sub' = sub /\ seqo (map T elems) = Some (rev racc)
  | NArr true data al elems, FArr true racc _ _ =>
      seqo (map T elems) = Some (rev racc) /\ al <= 2 * len elems /\ len elems <= k /\ (elems <> [] -> data <> None)
  | NMap false _ al pairs, FMap false racc key al' sub' =>
      al' = al /\ sub' = sub /\ mrep T pairs racc key /\ N.odd sub = is_some key
  | NMap true data al pairs, FMap true racc key _ sub' =>
      sub' = sub /\ mrep T pairs racc key /\ N.odd sub = is_some key /\
      al <= 2 * len pairs /\ len pairs <= k /\ (pairs <> [] -> data <> None)
  | NTag v None, FTag v' => v' = v
  | NChunked text _ arr cap chunks, FBytes racc =>
      text = false /\ seqo (map (chunk_of T false) chunks) = Some (rev racc) /\
      cap <= 2 * len chunks /\ len chunks <= k /\ (chunks <> [] -> arr <> None)
  | NChunked text _ arr cap chunks, FText racc =>
      text = true /\ seqo (map (chunk_of T true) chunks) = Some (rev racc) /\
      cap <= 2 * len chunks /\ len chunks <= k /\ (chunks <> [] -> arr <> None)
  | _, _ => False
  end.

Lemma seqo_app {A} (l1 l2 : list (option A)) r1 r2 :
  seqo l1 = Some r1 -> seqo l2 = Some r2 -> seqo (l1 ++ l2) = Some (r1 ++ r2).
Proof. revert r1. induction l1 as [|[x|] l1 IH]; intros r1 H1 H2; cbn [seqo app] in *.
  - inversion H1; subst. exact H2.
  - destruct (seqo l1) as [r|]; [|discriminate]. cbn [option_map] in *. inversion H1; subst.
    rewrite (IH r eq_refl H2). reflexivity.
  - discriminate. Qed.

Lemma seqo_len {A} (l : list (option A)) r : seqo l = Some r -> len r = len l.
Proof. revert r. induction l as [|[x|] l IH]; intros r H; cbn [seqo] in H.
  - inversion H. reflexivity.
  - destruct (seqo l) as [r0|]; [|discriminate]. cbn [option_map] in H. inversion H; subst.
    rewrite !len_cons, (IH r0 eq_refl). reflexivity.
  - discriminate. Qed.

Lemma seqo_map_ext {A B} (f g : A -> option B) l r :
  seqo (map f l) = Some r -> (forall x, In x l -> f x <> None -> g x = f x) -> seqo (map g l) = Some r.
Proof. revert r. induction l as [|a l IH]; intros r H E; cbn [map seqo] in *; [exact H|].
  assert (Ea : g a = f a).
  { apply E; [left; reflexivity|]. destruct (f a); [discriminate|discriminate H]. }
  rewrite Ea. destruct (f a) as [x|]; [|discriminate].
  destruct (seqo (map f l)) as [r0|] eqn:E0; [|discriminate]. cbn [option_map] in *.
  rewrite (IH r0 eq_refl); [exact H|]. intros y Hy. apply E. right. exact Hy. Qed.

(* T' extends T *)
Definition text_ (T T' : tmap) : Prop := forall x, T x <> None -> T' x = T x.

Lemma chunk_of_ext T T' text c : text_ T T' -> chunk_of T text c <> None -> chunk_of T' text c = chunk_of T text c.
Proof. intros E H. unfold chunk_of in *. destruct (T c) as [t|] eqn:Ec; [|contradiction].
  rewrite (E c) by congruence. rewrite Ec. reflexivity. Qed.

Lemma pair_of_ext T T' p : text_ T T' -> pair_of T p <> None -> pair_of T' p = pair_of T p.
Proof. intros E H. unfold pair_of in *. destruct (T (fst p)) as [k|] eqn:Ek; [|contradiction].
  rewrite (E (fst p)) by congruence. rewrite Ek. destruct (snd p) as [va|]; [|reflexivity].
  destruct (T va) as [v|] eqn:Ev; [|contradiction]. rewrite (E va) by congruence. rewrite Ev. reflexivity. Qed.

Lemma node_tree_ext T T' n t : text_ T T' -> node_tree T n = Some t -> node_tree T' n = Some t.
Proof. intros E H.
  destruct n as [neg iw v|fw bits|v|text data bytes|text hdr arr cap chunks|indef data al elems|indef data al pairs|v [c|]];
    cbn [node_tree] in *; try exact H.
  - assert (X : forall r, seqo (map (chunk_of T text) chunks) = Some r -> seqo (map (chunk_of T' text) chunks) = Some r).
    { intros r Hr. eapply seqo_map_ext; [exact Hr|]. intros x _ Hx. apply chunk_of_ext; assumption. }
    destruct chunks as [|c0 cs]; [exact H|]. destruct arr; [|discriminate].
    destruct (seqo (map (chunk_of T text) (c0 :: cs))) as [r|]; [|discriminate]. rewrite (X r eq_refl). exact H.
  - assert (X : forall r, seqo (map T elems) = Some r -> seqo (map T' elems) = Some r).
    { intros r Hr. eapply seqo_map_ext; [exact Hr|]. intros x _ Hx. apply E. exact Hx. }
    destruct elems as [|c0 cs]; [exact H|]. destruct data; [|discriminate].
    destruct (seqo (map T (c0 :: cs))) as [r|]; [|discriminate]. rewrite (X r eq_refl). exact H.
  - assert (X : forall r, seqo (map (pair_of T) pairs) = Some r -> seqo (map (pair_of T') pairs) = Some r).
    { intros r Hr. eapply seqo_map_ext; [exact Hr|]. intros x _ Hx. apply pair_of_ext; assumption. }
    destruct pairs as [|c0 cs]; [exact H|]. destruct data; [|discriminate].
    destruct (seqo (map (pair_of T) (c0 :: cs))) as [r|]; [|discriminate]. rewrite (X r eq_refl). exact H.
  - destruct (T c) as [x|] eqn:Ec; [|discriminate]. rewrite (E c) by congruence. rewrite Ec. exact H.
Qed.

Lemma mrep_ext T T' pairs racc key : text_ T T' -> mrep T pairs racc key -> mrep T' pairs racc key.
Proof. intros E H. unfold mrep in *. destruct key as [kt|].
  - destruct H as (ps & ka & -> & Hk & Hs). exists ps, ka. split; [reflexivity|].
    split; [rewrite (E ka) by congruence; exact Hk|].
    eapply seqo_map_ext; [exact Hs|]. intros x _ Hx. apply pair_of_ext; assumption.
  - eapply seqo_map_ext; [exact H|]. intros x _ Hx. apply pair_of_ext; assumption. Qed.

Lemma fnode_ext T T' k k' n sub f : text_ T T' -> k <= k' -> fnode T k n sub f -> fnode T' k' n sub f.
Proof. intros E Hk H.
  assert (XT : forall l r, seqo (map T l) = Some r -> seqo (map T' l) = Some r).
  { intros l r Hr. eapply seqo_map_ext; [exact Hr|]. intros x _ Hx. apply E. exact Hx. }
  assert (XC : forall tx l r, seqo (map (chunk_of T tx) l) = Some r -> seqo (map (chunk_of T' tx) l) = Some r).
  { intros tx l r Hr. eapply seqo_map_ext; [exact Hr|]. intros x _ Hx. apply chunk_of_ext; assumption. }
  destruct n as [neg iw v|fw bits|v|text data bytes|text hdr arr cap chunks|indef data al elems|indef data al pairs|v [c|]];
    try destruct indef;
    destruct f as [[|] racc fal fsub|[|] racc key fal fsub|fv|racc|racc]; cbn [fnode] in *; try contradiction.
  - destruct H as (H1 & H2 & H3 & H4 & H5). split; [exact H1|]. split; [apply XC; exact H2|]. split; [exact H3|]. split; [lia|exact H5].
  - destruct H as (H1 & H2 & H3 & H4 & H5). split; [exact H1|]. split; [apply XC; exact H2|]. split; [exact H3|]. split; [lia|exact H5].
  - destruct H as (H1 & H2 & H3 & H4). split; [apply XT; exact H1|]. split; [exact H2|]. split; [lia|exact H4].
  - destruct H as (H1 & H2 & H3). split; [exact H1|]. split; [exact H2|]. apply XT; exact H3.
  - destruct H as (H1 & H2 & H3 & H4 & H5 & H6). split; [exact H1|]. split; [eapply mrep_ext; eassumption|].
    split; [exact H3|]. split; [exact H4|]. split; [lia|exact H6].
  - destruct H as (H1 & H2 & H3 & H4). split; [exact H1|]. split; [exact H2|]. split; [eapply mrep_ext; eassumption|exact H4].
  - exact H.
Qed.

Definition tupd (T : tmap) (a : addr) (t : item) : tmap := fun x => if x =? a then Some t else T x.
Lemma tupd_same T a t : tupd T a t a = Some t.
Proof. unfold tupd. rewrite N.eqb_refl. reflexivity. Qed.
Lemma tupd_other T a t x : x <> a -> tupd T a t x = T x.
Proof. intros H. unfold tupd. destruct (N.eqb_spec x a); [contradiction|reflexivity]. Qed.
Lemma tupd_ext T a t : T a = None -> text_ T (tupd T a t).
Proof. intros Ha x Hx. unfold tupd. destruct (N.eqb_spec x a); [subst; contradiction|reflexivity]. Qed.

Lemma len_rev {A} (l : list A) : len (rev l) = len l.
Proof. unfold len. rewrite rev_length. reflexivity. Qed.

Lemma cons_transport T w w' : CONS T w -> (forall x, T x <> None -> heap w' x = heap w x) -> CONS T w'.
Proof. intros C H x t Hx. destruct (C x t Hx) as (rc & n & E & Nt). exists rc, n.
  split; [rewrite H by congruence; exact E|exact Nt]. Qed.

Lemma cons_extend T w a t rc n' :
  CONS T w -> T a = None -> heap w a = Some (CItem rc n') -> node_tree (tupd T a t) n' = Some t ->
  CONS (tupd T a t) w.
Proof. intros C Ha E Nt x tx Hx. unfold tupd in Hx. destruct (N.eqb_spec x a) as [->|Hne].
  - inversion Hx; subst. eauto.
  - destruct (C x tx Hx) as (rcx & nx & Ex & Nx). exists rcx, nx. split; [exact Ex|].
    eapply node_tree_ext; [apply tupd_ext; exact Ha|exact Nx]. Qed.

Definition frep (T : tmap) (w : world) (k : N) (r : srec) (f : frame) : Prop :=
  T (sitem r) = None /\ exists n, heap w (sitem r) = Some (CItem 1 n) /\ fnode T k n (snd r) f.

Lemma sim_transport T T' w w' k k' rest frest :
  text_ T T' -> k <= k' -> (forall r, In r rest -> T' (sitem r) = None) ->
  (forall r, In r rest -> heap w' (sitem r) = heap w (sitem r)) ->
  Forall2 (frep T w k) rest frest -> Forall2 (frep T' w' k') rest frest.
Proof. intros E Hk HN HH F. induction F as [|r f rest frest (Tr & n & Hn & Fn) F IH]; [constructor|].
  constructor.
  - split; [apply HN; left; reflexivity|]. exists n. split; [rewrite HH by (left; reflexivity); exact Hn|].
    eapply fnode_ext; eassumption.
  - apply IH; intros r0 Hr0; [apply HN|apply HH]; right; exact Hr0. Qed.

Lemma attach_frame w w1 w2 it top nit lst :
  heap w it = Some (CItem 1 nit) -> heap w1 it = Some (CItem (wrap64 (1 + 1)) nit) ->
  heap_but (top :: it :: lst) w w1 -> decref it w1 = Ret tt w2 ->
  forall x, x <> top -> ~ In x lst -> heap w2 x = heap w x.
Proof. intros Hit P2 P3 E x Hx Hl. change (wrap64 (1 + 1)) with 2 in P2.
  rewrite (decref_shared it w1 2 nit P2 ltac:(lia)) in E. inversion E; subst. wsimpl. unfold upd.
  destruct (N.eqb_spec x it) as [->|Hne]; [rewrite Hit; reflexivity|]. apply P3. cbn [In]. intros [E1|[E1|E1]]; [apply Hx; symmetry; exact E1|apply Hne; symmetry; exact E1|apply Hl; exact E1]. Qed.

Lemma node_tree_arr T indef data al l r : (l <> [] -> data <> None) ->
  seqo (map T l) = Some r -> node_tree T (NArr indef data al l) = Some (IArray indef r).
Proof. intros Hd Hs. cbn [node_tree]. rewrite Hs. destruct l as [|x l]; [reflexivity|].
  destruct data; [reflexivity|]. exfalso. apply Hd; [discriminate|reflexivity]. Qed.
Lemma node_tree_map T indef data al l r : (l <> [] -> data <> None) ->
  seqo (map (pair_of T) l) = Some r -> node_tree T (NMap indef data al l) = Some (IMap indef r).
Proof. intros Hd Hs. cbn [node_tree]. rewrite Hs. destruct l as [|x l]; [reflexivity|].
  destruct data; [reflexivity|]. exfalso. apply Hd; [discriminate|reflexivity]. Qed.
Lemma node_tree_chunked T text hdr arr cap l r : (l <> [] -> arr <> None) ->
  seqo (map (chunk_of T text) l) = Some r ->
  node_tree T (NChunked text hdr arr cap l) = Some (if text then ITextI r else IBytesI r).
Proof. intros Hd Hs. cbn [node_tree]. rewrite Hs. destruct l as [|x l]; [reflexivity|].
  destruct arr; [reflexivity|]. exfalso. apply Hd; [discriminate|reflexivity]. Qed.

Lemma seqo_snoc {A B} (f : A -> option B) l r x y :
  seqo (map f l) = Some r -> f x = Some y -> seqo (map f (l ++ [x])) = Some (r ++ [y]).
Proof. intros H1 H2. rewrite map_app. apply seqo_app; [exact H1|]. cbn [map seqo]. rewrite H2. reflexivity. Qed.

Definition grant : N -> N -> bool := fun _ _ => false.

(* the guards never refuse the growth of a pair block below 2^58 pairs *)
Lemma grow_passes_pair al : al < 2 ^ 58 ->
  grow_req SZ_PAIR al = Some (N.max 1 (2 * al), 16 * N.max 1 (2 * al)).
Proof.
  intros Hal.
  assert (H2 : highest_bit 64 2 = 2) by (vm_compute; reflexivity).
  assert (H16 : highest_bit 64 16 = 5) by (vm_compute; reflexivity).
  assert (P58 : 2 ^ 58 < 2 ^ 64) by (apply N.pow_lt_mono_r; lia).
  assert (P59 : 2 ^ 59 = 2 * 2 ^ 58) by reflexivity.
  assert (P5964 : 2 ^ 59 < 2 ^ 64) by (apply N.pow_lt_mono_r; lia).
  assert (G : exists c, grow_capacity 64 al = Some c).
  { unfold grow_capacity, CBOR_BUFFER_GROWTH.
    assert (S : safe_to_multiply 64 2 al = true).
    { unfold safe_to_multiply. destruct (N.leb_spec 2 1) as [Hl|_]; [lia|].
      destruct (N.leb_spec al 1) as [_|_]; [reflexivity|]. cbn [orb].
      apply N.leb_le. rewrite H2. pose proof (hb_le 64 al 58 ltac:(lia) Hal). lia. }
    rewrite S. eexists. reflexivity. }
  destruct G as [c G].
  destruct (grow_spec 64 al c ltac:(lia) ltac:(lia) G) as (Hc & Hlt & Hc64).
  assert (Hc59 : c < 2 ^ 59) by lia.
  assert (A : exists b, alloc_multiple_req 64 SZ_PAIR c = Some b).
  { unfold alloc_multiple_req, SZ_PAIR.
    assert (S : safe_to_multiply 64 16 c = true).
    { unfold safe_to_multiply. destruct (N.leb_spec 16 1) as [Hl|_]; [lia|].
      destruct (N.leb_spec c 1) as [_|_]; [reflexivity|]. cbn [orb].
      apply N.leb_le. rewrite H16. pose proof (hb_le 64 c 59 Hc64 Hc59). lia. }
    rewrite S. eexists. reflexivity. }
  destruct A as [b A].
  destruct (alloc_multiple_exact 64 SZ_PAIR c b ltac:(unfold SZ_PAIR; lia) Hc64 A) as [Hb _].
  unfold grow_req. rewrite G, A. subst b c. reflexivity.
Qed.

Section Refine.
Variable refuse : N -> N -> bool.   (* an arbitrary allocator *)
Variables (L cap : N) (w0 : world) (own ownd : addr -> N).
Notation N0 := (next w0).
Notation PRE := (PRE w0 own ownd).
Notation LI := (LI w0 own ownd).
Notation UI := (UI w0 own ownd).
Notation ATT := (ATT w0 own ownd).

Definition SIMS (k : N) (w : world) (stk : list srec) (fs : list frame) : Prop :=
  exists T, CONS T w /\ Forall2 (frep T w k) stk fs.
Definition SIMR (w : world) (a : addr) (t : item) : Prop := exists T, CONS T w /\ T a = Some t.

(* the H context after a callback against the P context *)
Definition SIMPOST (k : N) (c : hctx) (w' : world) (cP : bctx) : Prop :=
  fault cP = false /\ hcf c = creation_failed cP /\ hse c = syntax_error cP /\
  ((hcf c = true \/ hse c = true) -> UI w' (hstack c)) /\
  (hcf c = false -> hse c = false ->
     match hstack c with
     | [] => exists a t, hroot c = Some a /\ root cP = Some t /\ stack cP = [] /\ LI w' [a] [] /\ SIMR w' a t
     | _ => LI w' [] (hstack c) /\ SIMS k w' (hstack c) (stack cP)
     end).

Lemma simpost_fail k c w' cP :
  fault cP = false -> hcf c = creation_failed cP -> hse c = syntax_error cP ->
  (hcf c = true \/ hse c = true) -> UI w' (hstack c) -> SIMPOST k c w' cP.
Proof. intros H1 H2 H3 H4 U. split; [exact H1|]. split; [exact H2|]. split; [exact H3|]. split; [intros _; exact U|].
  intros A B. destruct H4; congruence. Qed.

Lemma simpost_stay k rec top sub rest w' cP :
  fault cP = false -> creation_failed cP = false -> syntax_error cP = false ->
  LI w' [] ((rec, top, sub) :: rest) -> SIMS k w' ((rec, top, sub) :: rest) (stack cP) ->
  SIMPOST k (mkhctx ((rec, top, sub) :: rest) None false false) w' cP.
Proof. intros H1 H2 H3 HL HS. split; [exact H1|]. cbn [hcf hse hstack hroot].
  split; [symmetry; exact H2|]. split; [symmetry; exact H3|]. split; [intros [|]; discriminate|].
  intros _ _. split; assumption. Qed.

(* Under an arbitrary allocator the H side may fail where the P side goes on: a request refused by the
   oracle, or a growth stopped by the overflow guards of _cbor_realloc_multiple (possible only once 2^57
   items have been read).  Then the callback reports a creation failure, and that is all that is claimed. *)
Definition Bad (k : N) : Prop := (exists i s, refuse i s = true) \/ 2 ^ 57 <= k.
Definition SIMPOSTr (k : N) (c : hctx) (w' : world) (cP : bctx) : Prop :=
  SIMPOST k c w' cP \/ (Bad k /\ hcf c = true /\ UI w' (hstack c)).

Lemma bad_refused k i s : refuse i s = true -> Bad k.
Proof. intros H. left. eauto. Qed.

Lemma post_cf c w' : POST w0 own ownd c w' -> hcf c = true -> UI w' (hstack c).
Proof. intros [(X & _)|(_ & U)] H; [congruence|exact U]. Qed.

(* the part of a step that concerns cells outside the touched container *)
Lemma sim_frame T w w2 k k' top rest frest :
  CONS T w -> T top = None -> k <= k' ->
  (forall x, x <> top -> is_item w x -> heap w2 x = heap w x) ->
  stack_ok w0 w top rest -> Forall2 (frep T w k) rest frest ->
  CONS T w2 /\ Forall2 (frep T w2 k') rest frest.
Proof. intros C Tt Hk Fr S F. split.
  - apply (cons_transport T w w2 C). intros x Hx. apply Fr; [intros ->; contradiction|].
    destruct (T x) as [t|] eqn:E; [|contradiction]. destruct (C x t E) as (rc & n & Ex & _). exists rc, n. exact Ex.
  - apply (sim_transport T T w w2 k k' rest frest); [intros x _; reflexivity|exact Hk| | |exact F].
    + intros r Hr. clear - F Hr. induction F as [|r0 f0 l l' (Tr & _) F IH]; [destruct Hr|].
      destruct Hr as [<-|Hr]; [exact Tr|apply IH; exact Hr].
    + intros r Hr. pose proof (stack_ok_lt refuse L w0 own ownd w rest top r S Hr) as Hlt. apply Fr; [lia|].
      clear - F Hr. induction F as [|r0 f0 l l' (_ & n & Hn & _) F IH]; [destruct Hr|].
      destruct Hr as [<-|Hr]; [exists 1, n; exact Hn|apply IH; exact Hr]. Qed.


Notation A5 l := (l refuse L w0 own ownd).

Lemma cons_item T w x : CONS T w -> T x <> None -> is_item w x.
Proof. intros C Hx. destruct (T x) as [tx|] eqn:E; [|contradiction].
  destruct (C x tx E) as (rc & nx & Ex & _). exists rc, nx. exact Ex. Qed.

(* the touched container stays open *)
Lemma sim_stay T w w2 k rec top sub' rest frest n' f' :
  CONS T w -> T top = None ->
  (forall x, x <> top -> is_item w x -> heap w2 x = heap w x) ->
  stack_ok w0 w top rest -> Forall2 (frep T w k) rest frest ->
  ATT w2 rec top n' rest -> shape n' sub' -> fnode T (k + 1) n' sub' f' ->
  SIMPOST (k + 1) (mkhctx ((rec, top, sub') :: rest) None false false) w2 (ok_stack (f' :: frest)).
Proof. intros C Tt Fr S F A Sh Fn.
  destruct (sim_frame T w w2 k (k + 1) top rest frest C Tt ltac:(lia) Fr S F) as [C2 F2].
  apply simpost_stay; try reflexivity.
  - apply ((A5 att_stay) w2 rec top n' rest sub' A Sh).
  - exists T. split; [exact C2|]. cbn [stack ok_stack]. constructor; [|exact F2].
    split; [exact Tt|]. exists n'. split; [apply A|exact Fn]. Qed.

(* the touched container is complete: it is popped and becomes the item to append *)
Lemma sim_pop T w w2 k rec top sub rest frest n' t' :
  CONS T w -> T top = None ->
  (forall x, x <> top -> is_item w x -> heap w2 x = heap w x) ->
  stack_ok w0 w top rest -> Forall2 (frep T w k) rest frest ->
  ATT w2 rec top n' rest -> node_tree (tupd T top t') n' = Some t' ->
  exists w3, stack_pop (rec, top, sub) w2 = Ret tt w3 /\ PRE w3 top rest /\
             CONS (tupd T top t') w3 /\ Forall2 (frep (tupd T top t') w3 k) rest frest.
Proof. intros C Tt Fr S F A Nt.
  destruct (sim_frame T w w2 k k top rest frest C Tt ltac:(lia) Fr S F) as [C2 F2].
  destruct ((A5 att_pop) w2 rec top sub n' rest A) as (w3 & E3 & P3 & Htop3 & (s & Hrec) & Fr3 & _).
  exists w3. split; [exact E3|]. split; [exact P3|].
  assert (C3 : CONS T w3).
  { apply (cons_transport T w2 w3 C2). intros x Hx. apply Fr3. intros ->.
    destruct (cons_item T w2 rec C2 Hx) as (rc & nx & Ex). congruence. }
  split.
  - eapply cons_extend; [exact C3|exact Tt|exact Htop3|exact Nt].
  - destruct A as (_ & _ & _ & _ & _ & _ & S2).
    apply (sim_transport T (tupd T top t') w2 w3 k k rest frest); [apply tupd_ext; exact Tt|lia| | |exact F2].
    + intros r Hr. pose proof (stack_ok_lt refuse L w0 own ownd w2 rest top r S2 Hr) as Hlt.
      rewrite tupd_other by lia. clear - F2 Hr. induction F2 as [|r0 f0 l l' (Tr & _) F IH]; [destruct Hr|].
      destruct Hr as [<-|Hr]; [exact Tr|apply IH; exact Hr].
    + intros r Hr. apply Fr3. intros E.
      assert (Hi : is_item w2 (sitem r)).
      { clear - F2 Hr. induction F2 as [|r0 f0 l l' (_ & n & Hn & _) F IH]; [destruct Hr|].
        destruct Hr as [<-|Hr]; [exists 1, n; exact Hn|apply IH; exact Hr]. }
      destruct Hi as (rc & nx & Ex). congruence. Qed.


Lemma grant_false a b : grant a b = false. Proof. reflexivity. Qed.

Lemma happend_sim : forall stk fs w it t T k,
  PRE w it stk -> CONS T w -> T it = Some t -> Forall2 (frep T w k) stk fs ->
  exists c w', happend refuse it stk w = Ret c w' /\ SIMPOSTr (k + 1) c w' (append t fs).
Proof.
  induction stk as [|[[rec top] sub] rest IH]; intros fs w it t T k P C Ht F.
  { inversion F; subst. exists (mkhctx [] (Some it) false false), w. split; [reflexivity|]. cbn [append]. unfold ok_root. left.
    split; [reflexivity|]. split; [reflexivity|]. split; [reflexivity|]. split; [intros [|]; discriminate|].
    intros _ _. cbn [hstack hroot root stack]. exists it, t. split; [reflexivity|]. split; [reflexivity|]. split; [reflexivity|].
    split; [|exists T; split; assumption].
    destruct P as (I & Gw & R & Hit & _). split; [exact I|]. split; [exact Gw|]. split; [exact R|].
    split; [exact Logic.I|]. constructor; [exact Hit|constructor]. }
  inversion F as [|r f rest' frest Hf Hrest]; subst.
  destruct Hf as (Ttop & n & Htop0 & Fn). cbn [sitem fst snd] in Ttop, Htop0, Fn.
  set (wl := w_log (AccR top) w).
  assert (Pl : PRE wl it ((rec, top, sub) :: rest)) by (apply ((A5 PRE_same) w wl _ _ P); split; reflexivity).
  assert (Cl : CONS T wl) by exact C.
  assert (Fl : Forall2 (frep T wl k) rest frest) by exact Hrest.
  assert (Htopl : heap wl top = Some (CItem 1 n)) by exact Htop0.
  cbn [HOps.happend]. bstep (rd_item_spec top w 1 n Htop0). fold wl.
  clearbody wl. clear P C Hrest F Htop0 w. rename Pl into P, Cl into C, Fl into F, Htopl into Htop, wl into w.
  destruct ((A5 top_facts) _ _ _ _ _ _ P) as (n2 & nit & Htop2 & Sh & Hit & Hne & Hwf & Hblk).
  assert (n2 = n) by congruence. subst n2. clear Htop2.
  pose proof P as (Ip & Gp & Rp & Hitp & Sp). cbn [stack_ok sitem srecd fst snd] in Sp.
  destruct Sp as (Sp1 & Sp2 & Sp3 & _ & Sp5).
  destruct n as [neg iw v|fw bits|v|text data bytes|text hdr arr cap0 chunks|indef data al elems|indef data al pairs|v child];
    cbn [shape] in Sh; try contradiction; cbn beta iota.
  - (* open indefinite string: syntax error on both sides *)
    destruct ((A5 fail_release) w it _ Ip Gp Hitp (stack_ok_fresh refuse L w0 own ownd _ _ _ (proj2 (proj2 (proj2 (proj2 P)))))) as (w2 & H2 & U2).
    bstep H2. eexists. eexists. split; [reflexivity|].
    destruct f as [fi racc fal fsub|fi racc key fal fsub|fv|racc|racc]; cbn [fnode] in Fn; try contradiction;
      (left; apply simpost_fail; [reflexivity|reflexivity|reflexivity|right; reflexivity|exact U2]).
  - (* arrays *)
    assert (P59 : 2 ^ 59 = 2 * 2 ^ 58) by reflexivity. assert (P58 : 2 ^ 58 = 2 * 2 ^ 57) by reflexivity.
    assert (NI : forall x, is_item w x -> x <> next w).
    { intros x (rc & nx & Ex) ->. rewrite (Hwf (next w)) in Ex by lia. discriminate. }
    destruct indef.
    + destruct f as [[|] racc fal fsub|fi racc key fal fsub|fv|racc|racc]; cbn [fnode] in Fn; try contradiction.
      destruct Fn as (Fs & Fal & Flen & Fd). destruct Sh as (Sd & Sal).
      assert (Hb : block_inv w data al).
      { destruct data as [d|]; cbn [block_inv]; [|apply Sd; reflexivity]. apply (Hblk d). left. reflexivity. }
      destruct (push_indefinite refuse top it w 1 data al elems 1 nit Hwf Htop Hb Hit Hne Sal) as [Hroom Hfull].
      cbn [append].
      assert (Fs' : seqo (map T (elems ++ [it])) = Some (rev (t :: racc))) by (cbn [rev]; apply seqo_snoc; assumption).
      destruct (N.lt_ge_cases (len elems) al) as [Hlt|Hge].
      * destruct (Hroom Hlt) as (w1 & E1 & P1 & P2 & P3 & P4 & _). bstep E1.
        destruct ((A5 attach_keep) w w1 it rec top sub rest _ (NArr true data al (elems ++ [it])) nit P Htop Hit
                    eq_refl eq_refl P1 P2 P3 P4) as (w2 & E2 & A2).
        pose proof (attach_frame w w1 w2 it top nit [] Hit P2 P3 E2) as FR.
        bstep E2. eexists. eexists. split; [reflexivity|]. cbn [negb].
        left. eapply (sim_stay T w w2 k rec top sub rest frest _ _ C Ttop (fun x Hx _ => FR x Hx (fun H => H)) Sp5 F A2).
        -- cbn [shape]. split; assumption.
        -- cbn [fnode]. rewrite len_app. change (len [it]) with 1. split; [exact Fs'|]. split; [lia|]. split; [lia|].
           intros _. destruct data; [discriminate|]. specialize (Sd eq_refl). lia.
      * specialize (Hfull Hge). destruct (grow_req SZ_PTR al) as [[c bytes]|] eqn:Gr.
        2:{ (* the overflow guards stop the growth: possible only beyond 2^57 items *)
            destruct Hfull as (w1 & E1 & SH & _). bstep E1.
            destruct ((A5 fail_same) w w1 it _ P SH) as (w2 & E2 & U2). bstep E2.
            eexists. eexists. split; [reflexivity|]. right. cbn [hcf hstack negb]. split; [|split; [reflexivity|exact U2]].
            right. destruct (N.lt_ge_cases k (2 ^ 57)) as [Hk|Hk]; [|lia].
            rewrite (grow_passes al ltac:(lia)) in Gr. discriminate Gr. }
        destruct Hfull as (Hc & Hlt & Hby & Hb64 & Hfull). destruct (refuse (nreq w) bytes) eqn:Rf.
        { destruct Hfull as (w1 & E1 & SH & _). bstep E1.
          destruct ((A5 fail_same) w w1 it _ P SH) as (w2 & E2 & U2). bstep E2.
          eexists. eexists. split; [reflexivity|]. right. cbn [hcf hstack negb].
          split; [exact (bad_refused _ _ _ Rf)|split; [reflexivity|exact U2]]. }
        destruct Hfull as (w1 & E1 & P1 & P2 & P3 & P4 & P5 & P6 & _). bstep E1.
        unfold SZ_PTR in Hby. subst bytes.
        destruct ((A5 attach_moved) w w1 it rec top sub rest _ (NArr true (Some (next w)) c (elems ++ [it])) nit
                    data [] (8 * c) P Htop Hit eq_refl (eq_sym (app_nil_r _)) eq_refl P1 P2 P3 P4 P5 P6) as (w2 & E2 & A2).
        pose proof (attach_frame w w1 w2 it top nit _ Hit P2 P5 E2) as FR.
        assert (FR' : forall x, x <> top -> is_item w x -> heap w2 x = heap w x).
        { intros x Hx Hi. apply FR; [exact Hx|]. cbn [In]. intros [E|E]; [apply (NI x Hi); symmetry; exact E|].
          destruct data as [d|]; [|exact E]. cbn [HCont_proofs.opt_list In] in E. destruct E as [<-|[]].
          destruct Hb as [s Hs]. destruct Hi as (rc & nx & Ex). congruence. }
        bstep E2. eexists. eexists. split; [reflexivity|]. cbn [negb].
        left. eapply (sim_stay T w w2 k rec top sub rest frest _ _ C Ttop FR' Sp5 F A2).
        -- cbn [shape]. split; [discriminate|]. lia.
        -- cbn [fnode]. rewrite len_app. change (len [it]) with 1. split; [exact Fs'|]. split; [lia|]. split; [lia|]. discriminate.
    + destruct data as [d|]; [|contradiction]. destruct Sh as (Ssub & Sal).
      destruct f as [[|] racc fal fsub|fi racc key fal fsub|fv|racc|racc]; cbn [fnode] in Fn; try contradiction.
      destruct Fn as (-> & -> & Fs).
      destruct (N.ltb_spec 0 sub) as [_|]; [|lia]. cbn [assert_]. rewrite bind_ret_l.
      destruct (Hblk d) as ([sz Hd] & _); [left; reflexivity|].
      bstep (push_definite_room refuse top it w 1 d sz al elems 1 nit Htop Hd Hit Hne ltac:(lia)). cbn [negb].
      destruct (w_push_props top 1 (NArr false (Some d) al (elems ++ [it])) d it 1 nit w Hne) as (P1 & P2 & P3 & P4 & _).
      destruct ((A5 attach_keep) w _ it rec top sub rest _ (NArr false (Some d) al (elems ++ [it])) nit P Htop Hit
                  eq_refl eq_refl P1 P2 P3 P4) as (w2 & E2 & A2).
      pose proof (attach_frame w _ w2 it top nit [] Hit P2 P3 E2) as FR.
      bstep E2. cbv zeta. rewrite sub64_le by lia.
      assert (Fs' : seqo (map T (elems ++ [it])) = Some (rev (t :: racc))) by (cbn [rev]; apply seqo_snoc; assumption).
      pose proof (seqo_len _ _ Fs) as Hl. rewrite len_rev, len_map in Hl.
      rewrite (append_arr_def t racc al sub frest Ssub ltac:(lia)).
      destruct (N.eqb_spec sub 1) as [->|Hn1].
      * change (1 - 1 =? 0) with true. cbn beta iota.
        destruct (sim_pop T w w2 k rec top 1 rest frest _ (IArray false (rev (t :: racc))) C Ttop
                    (fun x Hx _ => FR x Hx (fun H => H)) Sp5 F A2) as (w3 & E3 & P3' & C3 & F3).
        { apply node_tree_arr; [discriminate|]. eapply seqo_map_ext; [exact Fs'|]. intros x _ Hx. apply tupd_ext; assumption. }
        bstep E3. apply (IH frest w3 top _ (tupd T top (IArray false (rev (t :: racc)))) k P3' C3 (tupd_same _ _ _) F3).
      * destruct (N.eqb_spec (sub - 1) 0) as [|_]; [lia|].
        eexists. eexists. split; [reflexivity|].
        left. eapply (sim_stay T w w2 k rec top (sub - 1) rest frest _ _ C Ttop (fun x Hx _ => FR x Hx (fun H => H)) Sp5 F A2).
        -- cbn [shape]. rewrite len_app. change (len [it]) with 1. lia.
        -- cbn [fnode]. split; [reflexivity|]. split; [reflexivity|exact Fs'].
  - (* maps *)
    assert (P58 : 2 ^ 58 = 2 * 2 ^ 57) by reflexivity.
    assert (NI : forall x, is_item w x -> x <> next w).
    { intros x (rc & nx & Ex) ->. rewrite (Hwf (next w)) in Ex by lia. discriminate. }
    destruct indef.
    + destruct f as [fi racc fal fsub|[|] racc key fal fsub|fv|racc|racc]; cbn [fnode] in Fn; try contradiction.
      destruct Fn as (-> & Fm & Fo & Fal & Flen & Fd). destruct Sh as (Sd & Sal & Ssub & S1).
      unfold odd. destruct (N.odd sub) eqn:Hodd; cbn beta iota.
      * assert (sub = 1) by (pose proof (odd_mod sub) as Hm; rewrite Hodd in Hm; lia). subst sub.
        destruct key as [kt|]; [|discriminate Fo]. cbn [mrep] in Fm. destruct Fm as (ps & ka & -> & Hka & Fps).
        destruct (S1 eq_refl) as (Hdn & _). destruct data as [d|]; [|contradiction].
        destruct (Hblk d) as ([sz Hd] & _); [left; reflexivity|].
        pose proof (add_value_spec top it w 1 true d sz al ps ka None 1 nit Htop Hd Hit Hne) as Eav.
        erewrite bind_Ret; [|mstep Eav; reflexivity]. cbn [negb].
        destruct (w_addval_props top 1 (NMap true (Some d) al (ps ++ [(ka, Some it)])) d it 1 nit w Hne) as (P1 & P2 & P3 & P4 & _).
        destruct ((A5 attach_keep) w _ it rec top 1 rest _ (NMap true (Some d) al (ps ++ [(ka, Some it)])) nit P Htop Hit
                    (kids_map_val _ _ _ _ _ _) eq_refl P1 P2 P3 P4) as (w2 & E2 & A2).
        pose proof (attach_frame w _ w2 it top nit [] Hit P2 P3 E2) as FR.
        bstep E2. eexists. eexists. split; [reflexivity|]. rewrite append_map_indef_val. change (N.lxor 1 1) with 0.
        left. eapply (sim_stay T w w2 k rec top 0 rest frest _ _ C Ttop (fun x Hx _ => FR x Hx (fun H => H)) Sp5 F A2).
        -- cbn [shape]. split; [discriminate|]. split; [exact Sal|]. split; [lia|]. discriminate.
        -- cbn [fnode mrep]. rewrite !len_app in *. change (len [(ka, Some it)]) with 1. change (len [(ka, @None addr)]) with 1 in *.
           split; [reflexivity|]. split.
           { cbn [rev]. apply seqo_snoc; [exact Fps|]. unfold pair_of. cbn [fst snd]. rewrite Hka, Ht. reflexivity. }
           split; [reflexivity|]. split; [lia|]. split; [lia|]. discriminate.
      * assert (sub = 0) by (pose proof (odd_mod sub) as Hm; rewrite Hodd in Hm; lia). subst sub.
        destruct key as [kt|]; [discriminate Fo|]. cbn [mrep] in Fm.
        rewrite append_map_indef_key.
        assert (Hdok : data_ok w data).
        { destruct data as [d|]; cbn [data_ok]; [|exact Logic.I]. apply (Hblk d). left. reflexivity. }
        assert (Fm' : mrep T (pairs ++ [(it, None)]) racc (Some t)) by (exists pairs, it; auto).
        destruct (N.lt_ge_cases (len pairs) al) as [Hlt|Hge].
        -- destruct data as [d|]; [|specialize (Sd eq_refl); lia]. destruct Hdok as [sz Hd].
           bstep (add_key_room refuse true top it w 1 d sz al pairs 1 nit Htop Hd Hit Hne Hlt). cbn [negb].
           destruct (w_push_props top 1 (NMap true (Some d) al (pairs ++ [(it, None)])) d it 1 nit w Hne) as (P1 & P2 & P3 & P4 & _).
           destruct ((A5 attach_keep) w _ it rec top 0 rest _ (NMap true (Some d) al (pairs ++ [(it, None)])) nit P Htop Hit
                       (kids_map_key _ _ _ _ _) eq_refl P1 P2 P3 P4) as (w2 & E2 & A2).
           pose proof (attach_frame w _ w2 it top nit [] Hit P2 P3 E2) as FR.
           bstep E2. eexists. eexists. split; [reflexivity|]. change (N.lxor 0 1) with 1.
           left. eapply (sim_stay T w w2 k rec top 1 rest frest _ _ C Ttop (fun x Hx _ => FR x Hx (fun H => H)) Sp5 F A2).
           ++ cbn [shape]. split; [discriminate|]. split; [exact Sal|]. split; [lia|]. intros _. split; [discriminate|eauto].
           ++ cbn [fnode]. rewrite len_app. change (len [(it, @None addr)]) with 1.
              split; [reflexivity|]. split; [exact Fm'|]. split; [reflexivity|]. split; [lia|]. split; [lia|]. discriminate.
        -- destruct (grow_req SZ_PAIR al) as [[c bytes]|] eqn:Gr.
           2:{ bstep (add_key_guard refuse top it w 1 data al pairs Htop Hge Gr). cbn [negb].
               destruct ((A5 fail_same) w _ it _ P (conj eq_refl eq_refl : same_heap w (w_log (AccR top) w))) as (w2 & E2 & U2).
               bstep E2. eexists. eexists. split; [reflexivity|]. right. cbn [hcf hstack].
               split; [|split; [reflexivity|exact U2]].
               right. destruct (N.lt_ge_cases k (2 ^ 57)) as [Hk|Hk]; [|lia].
               rewrite (grow_passes_pair al ltac:(lia)) in Gr. discriminate Gr. }
           destruct (grow_req_spec SZ_PAIR al c bytes ltac:(unfold SZ_PAIR; lia) Sal Gr) as (Hc & Hcl & Hby & Hb64).
           destruct (refuse (nreq w) bytes) eqn:Rf.
           { bstep (add_key_refused refuse top it w 1 data al pairs c bytes Htop Hdok Hge Gr Rf). cbn [negb].
             destruct ((A5 fail_same) w _ it _ P (conj eq_refl eq_refl : same_heap w
                         (w_refused (EvRealloc data bytes None) (w_log (AccR top) w)))) as (w2 & E2 & U2).
             bstep E2. eexists. eexists. split; [reflexivity|]. right. cbn [hcf hstack].
             split; [exact (bad_refused _ _ _ Rf)|split; [reflexivity|exact U2]]. }
           unfold SZ_PAIR in Hby. subst bytes.
           bstep (add_key_granted refuse top it w 1 data al pairs c (16 * c) 1 nit Hwf Htop Hdok Hit Hne Hge Gr Rf).
           cbn [negb].
           assert (Hdd : forall d, data = Some d -> is_data w d) by (intros d ->; exact Hdok).
           destruct (w_push_grown_props top 1 (NMap true (Some (next w)) c (pairs ++ [(it, None)])) data (16 * c)
                       it 1 nit w _ _ Hwf Htop Hit Hne Hdd) as (P1 & P2 & P3 & P4 & P5 & P6 & _).
           destruct ((A5 attach_moved) w _ it rec top 0 rest _ (NMap true (Some (next w)) c (pairs ++ [(it, None)])) nit
                       data [] (16 * c) P Htop Hit (kids_map_key _ _ _ _ _) (eq_sym (app_nil_r _)) eq_refl
                       P1 P2 P3 P4 P5 P6) as (w2 & E2 & A2).
           pose proof (attach_frame w _ w2 it top nit _ Hit P2 P5 E2) as FR.
           assert (FR' : forall x, x <> top -> is_item w x -> heap w2 x = heap w x).
           { intros x Hx Hi. apply FR; [exact Hx|]. cbn [In]. intros [E|E]; [apply (NI x Hi); symmetry; exact E|].
             destruct data as [d|]; [|exact E]. cbn [HCont_proofs.opt_list In] in E. destruct E as [<-|[]].
             destruct Hdok as [s Hs]. destruct Hi as (rc & nx & Ex). congruence. }
           bstep E2. eexists. eexists. split; [reflexivity|]. change (N.lxor 0 1) with 1.
           left. eapply (sim_stay T w w2 k rec top 1 rest frest _ _ C Ttop FR' Sp5 F A2).
           ++ cbn [shape]. split; [discriminate|]. split; [lia|]. split; [lia|]. intros _. split; [discriminate|eauto].
           ++ cbn [fnode]. rewrite len_app. change (len [(it, @None addr)]) with 1.
              split; [reflexivity|]. split; [exact Fm'|]. split; [reflexivity|]. split; [lia|]. split; [lia|]. discriminate.
    + destruct data as [d|]; [|contradiction]. destruct Sh as (Ssub & Sle & Seq & Sodd).
      destruct f as [fi racc fal fsub|[|] racc key fal fsub|fv|racc|racc]; cbn [fnode] in Fn; try contradiction.
      destruct Fn as (-> & -> & Fm & Fo).
      destruct (Hblk d) as ([sz Hd] & _); [left; reflexivity|].
      pose proof (odd_mod sub) as Hm. cbn [append]. unfold odd. destruct (N.odd sub) eqn:Hodd; cbn beta iota; cbn [negb andb].
      * destruct key as [kt|]; [|discriminate Fo]. cbn [mrep] in Fm. destruct Fm as (ps & ka & -> & Hka & Fps).
        pose proof (add_value_spec top it w 1 false d sz al ps ka None 1 nit Htop Hd Hit Hne) as Eav.
        erewrite bind_Ret; [|mstep Eav; reflexivity]. cbn [negb].
        destruct (w_addval_props top 1 (NMap false (Some d) al (ps ++ [(ka, Some it)])) d it 1 nit w Hne) as (P1 & P2 & P3 & P4 & _).
        destruct ((A5 attach_keep) w _ it rec top sub rest _ (NMap false (Some d) al (ps ++ [(ka, Some it)])) nit P Htop Hit
                    (kids_map_val _ _ _ _ _ _) eq_refl P1 P2 P3 P4) as (w2 & E2 & A2).
        pose proof (attach_frame w _ w2 it top nit [] Hit P2 P3 E2) as FR.
        bstep E2. destruct (N.ltb_spec 0 sub) as [_|]; [|lia]. cbn [assert_]. rewrite bind_ret_l.
        cbv zeta. rewrite !sub64_le by lia.
        assert (Fs' : seqo (map (pair_of T) (ps ++ [(ka, Some it)])) = Some (rev ((kt, t) :: racc))).
        { cbn [rev]. apply seqo_snoc; [exact Fps|]. unfold pair_of. cbn [fst snd]. rewrite Hka, Ht. reflexivity. }
        destruct (N.eqb_spec (sub - 1) 0) as [Hz|Hnz].
        -- destruct (sim_pop T w w2 k rec top sub rest frest _ (IMap false (rev ((kt, t) :: racc))) C Ttop
                       (fun x Hx _ => FR x Hx (fun H => H)) Sp5 F A2) as (w3 & E3 & P3' & C3 & F3).
           { apply node_tree_map; [discriminate|]. eapply seqo_map_ext; [exact Fs'|]. intros x _ Hx.
             apply pair_of_ext; [apply tupd_ext; exact Ttop|exact Hx]. }
           bstep E3. apply (IH frest w3 top _ (tupd T top (IMap false (rev ((kt, t) :: racc)))) k P3' C3 (tupd_same _ _ _) F3).
        -- eexists. eexists. split; [reflexivity|].
           left. eapply (sim_stay T w w2 k rec top (sub - 1) rest frest _ _ C Ttop (fun x Hx _ => FR x Hx (fun H => H)) Sp5 F A2).
           ++ cbn [shape]. rewrite !len_app in *. change (len [(ka, Some it)]) with 1. change (len [(ka, @None addr)]) with 1 in Seq.
              split; [lia|]. split; [lia|]. split; [lia|].
              intros Ho. pose proof (odd_mod (sub - 1)) as Hm'. rewrite Ho in Hm'. lia.
           ++ cbn [fnode mrep]. split; [reflexivity|]. split; [reflexivity|]. split; [exact Fs'|]. cbn [is_some].
              destruct (N.odd (sub - 1)) eqn:Ho; [|reflexivity]. pose proof (odd_mod (sub - 1)) as Hm'. rewrite Ho in Hm'. lia.
      * destruct key as [kt|]; [discriminate Fo|]. cbn [mrep] in Fm.
        pose proof (seqo_len _ _ Fm) as Hl. rewrite len_rev, len_map in Hl.
        assert (Hlt : len pairs < al) by lia.
        destruct (N.leb_spec al (len racc)) as [|_]; [lia|].
        bstep (add_key_room refuse false top it w 1 d sz al pairs 1 nit Htop Hd Hit Hne Hlt). cbn [negb].
        destruct (w_push_props top 1 (NMap false (Some d) al (pairs ++ [(it, None)])) d it 1 nit w Hne) as (P1 & P2 & P3 & P4 & _).
        destruct ((A5 attach_keep) w _ it rec top sub rest _ (NMap false (Some d) al (pairs ++ [(it, None)])) nit P Htop Hit
                    (kids_map_key _ _ _ _ _) eq_refl P1 P2 P3 P4) as (w2 & E2 & A2).
        pose proof (attach_frame w _ w2 it top nit [] Hit P2 P3 E2) as FR.
        bstep E2. destruct (N.ltb_spec 0 sub) as [_|]; [|lia]. cbn [assert_]. rewrite bind_ret_l.
        cbv zeta. rewrite !sub64_le by lia.
        destruct (N.eqb_spec (sub - 1) 0) as [Hz|Hnz]; [lia|].
        eexists. eexists. split; [reflexivity|].
        left. eapply (sim_stay T w w2 k rec top (sub - 1) rest frest _ _ C Ttop (fun x Hx _ => FR x Hx (fun H => H)) Sp5 F A2).
        -- cbn [shape]. rewrite len_app. change (len [(it, @None addr)]) with 1.
           split; [lia|]. split; [lia|]. split; [lia|]. intros _. eauto.
        -- cbn [fnode mrep]. split; [reflexivity|]. split; [reflexivity|]. split; [exists pairs, it; auto|]. cbn [is_some].
           destruct (N.odd (sub - 1)) eqn:Ho; [reflexivity|]. pose proof (odd_mod (sub - 1)) as Hm'. rewrite Ho in Hm'. lia.
  - (* tag *)
    destruct child as [x|]; [contradiction|]. subst sub.
    destruct f as [fi racc fal fsub|fi racc key fal fsub|fv|racc|racc]; cbn [fnode] in Fn; try contradiction. subst fv.
    change (1 =? 1) with true. cbn [assert_]. rewrite bind_ret_l.
    destruct (tag_set_spec top it w v 1 nit Htop Hit Hne) as (w1 & E1 & P1 & P2 & P3 & P4). bstep E1.
    destruct ((A5 attach_keep) w w1 it rec top 1 rest _ (NTag v (Some it)) nit P Htop Hit eq_refl eq_refl P1 P2 P3 P4)
      as (w2 & E2 & A2).
    pose proof (attach_frame w w1 w2 it top nit [] Hit P2 P3 E2) as FR.
    bstep E2. cbn [append].
    destruct (sim_pop T w w2 k rec top 1 rest frest _ (ITag v t) C Ttop
                (fun x Hx _ => FR x Hx (fun H => H)) Sp5 F A2) as (w3 & E3 & P3' & C3 & F3).
    { cbn [node_tree]. rewrite tupd_other by (intros E; apply Hne; symmetry; exact E). rewrite Ht. reflexivity. }
    bstep E3. apply (IH frest w3 top _ (tupd T top (ITag v t)) k P3' C3 (tupd_same _ _ _) F3).
Qed.


Lemma Forall2_len {A B} (P : A -> B -> Prop) l1 l2 : Forall2 P l1 l2 -> len l1 = len l2.
Proof. intros F. induction F as [|x y l l' _ F IH]; [reflexivity|]. rewrite !len_cons, IH. reflexivity. Qed.

Lemma cons_dead T w x : CONS T w -> wf w -> next w <= x -> T x = None.
Proof. intros C Hwf Hx. destruct (T x) as [t|] eqn:E; [|reflexivity].
  destruct (C x t E) as (rc & n & Ex & _). rewrite (Hwf x Hx) in Ex. discriminate. Qed.

Lemma frep_item T w k stk fs r : Forall2 (frep T w k) stk fs -> In r stk -> is_item w (sitem r) /\ T (sitem r) = None.
Proof. intros F Hr. induction F as [|r0 f0 l l' (Tr & n & Hn & _) F IH]; [destruct Hr|].
  destruct Hr as [<-|Hr]; [split; [exists 1, n; exact Hn|exact Tr]|apply IH; exact Hr]. Qed.

(* cells allocated, nothing that existed touched; optionally a new complete item is labelled *)
Lemma sim_alloc T w w1 k k' stk fs :
  CONS T w -> k <= k' -> (forall x, is_item w x -> heap w1 x = heap w x) ->
  Forall2 (frep T w k) stk fs -> CONS T w1 /\ Forall2 (frep T w1 k') stk fs.
Proof. intros C Hk Fr F. split.
  - apply (cons_transport T w w1 C). intros x Hx. apply Fr. apply (cons_item T w x C Hx).
  - apply (sim_transport T T w w1 k k' stk fs); [intros x _; reflexivity|exact Hk| | |exact F].
    + intros r Hr. apply (frep_item T w k stk fs r F Hr).
    + intros r Hr. apply Fr. apply (frep_item T w k stk fs r F Hr). Qed.

Lemma sim_label T w k stk fs a t rc n :
  CONS T w -> T a = None -> heap w a = Some (CItem rc n) -> node_tree (tupd T a t) n = Some t ->
  (forall r, In r stk -> sitem r <> a) -> Forall2 (frep T w k) stk fs ->
  CONS (tupd T a t) w /\ Forall2 (frep (tupd T a t) w k) stk fs /\ tupd T a t a = Some t.
Proof. intros C Ta Ha Nt Hna F. split; [eapply cons_extend; eassumption|]. split; [|apply tupd_same].
  apply (sim_transport T (tupd T a t) w w k k stk fs); [apply tupd_ext; exact Ta|lia| |intros; reflexivity|exact F].
  intros r Hr. destruct (frep_item T w k stk fs r F Hr) as [_ Tr].
  rewrite tupd_other by (apply Hna; exact Hr). exact Tr. Qed.


Lemma post_ok_inv c w' : POST w0 own ownd c w' -> hcf c = false -> hse c = false ->
  match hstack c with
  | [] => exists t, hroot c = Some t /\ LI w' [t] []
  | _ => LI w' [] (hstack c)
  end.
Proof. intros [(_ & _ & H)|([H|H] & _)] A B; [exact H|congruence|congruence]. Qed.

Lemma wf_item_lt w x : wf w -> is_item w x -> x < next w.
Proof. intros Hwf (rc & n & E). eapply wf_lt; eassumption. Qed.

Lemma push_ctx_sim w res sub stk fs n T k f' :
  PRE w res stk -> heap w res = Some (CItem 1 n) -> shape n sub -> CONS T w -> T res = None ->
  Forall2 (frep T w k) stk fs -> fnode T (k + 1) n sub f' ->
  exists c w', push_ctx refuse L res sub stk w = Ret c w' /\ SIMPOSTr (k + 1) c w' (push L f' fs).
Proof. intros P Hres Sh C Tres F Fn.
  destruct ((A5 push_ctx_spec) w res sub stk n P Hres Sh) as (c & w' & E & HP).
  exists c, w'. split; [exact E|].
  unfold HOps.push_ctx in E. unfold push. rewrite <- (Forall2_len _ _ _ F).
  pose proof ((A5 PRE_fresh) _ _ _ P) as Fr. destruct (PRE_it refuse L w0 own ownd _ _ _ P) as (_ & _ & Lres).
  pose proof P as (I & Gw & R & Hr & S). pose proof (Inv_wf _ _ _ _ I) as Hwf.
  destruct (len stk =? L).
  - destruct ((A5 fail_release) w res stk I Gw Hr Fr) as (w2 & E2 & U2).
    rewrite (bind_Ret _ _ _ _ _ E2) in E. inversion E; subst c w'.
    left. apply simpost_fail; [reflexivity|reflexivity|reflexivity|left; reflexivity|exact U2].
  - destruct (refuse (nreq w) SZ_REC) eqn:Rf.
    { rewrite (bind_Ret _ _ _ _ _ (malloc_refused refuse SZ_REC (CData SZ_REC) w Rf)) in E.
      unfold bind in E. destruct (decref res _) as [u w2|kf]; [|discriminate E]. inversion E; subst c w'.
      right. split; [exact (bad_refused _ _ _ Rf)|]. split; [reflexivity|]. apply (post_cf _ _ HP). reflexivity. }
    rewrite (bind_Ret _ _ _ _ _ (malloc_granted refuse SZ_REC (CData SZ_REC) w Rf)) in E. inversion E; subst c w'.
    pose proof (post_ok_inv _ _ HP eq_refl eq_refl) as HL. cbn [hstack] in HL.
    set (w1 := w_malloc SZ_REC (CData SZ_REC) w) in *.
    assert (FRa : forall x, is_item w x -> heap w1 x = heap w x).
    { intros x Hx. pose proof (wf_item_lt w x Hwf Hx). subst w1. wsimpl. apply upd_other. lia. }
    destruct (sim_alloc T w w1 k (k + 1) stk fs C ltac:(lia) FRa F) as [C1 F1].
    left. apply simpost_stay; try reflexivity; [exact HL|].
    exists T. split; [exact C1|]. cbn [stack ok_stack]. constructor; [|exact F1].
    split; [exact Tres|]. exists n. cbn [sitem fst snd]. split; [|exact Fn].
    rewrite FRa; [exact Hres|]. exists 1, n. exact Hres. Qed.

Lemma stk_lt w stk fs T k r : wf w -> Forall2 (frep T w k) stk fs -> In r stk -> sitem r <> next w.
Proof. intros Hwf F Hr. destruct (frep_item T w k stk fs r F Hr) as [Hi _].
  pose proof (wf_item_lt w _ Hwf Hi). lia. Qed.

(* a fresh childless item: it is labelled and appended *)
Lemma leaf_cb_sim w stk fs k sz n t :
  LI w [] stk -> SIMS k w stk fs -> kids n = [] -> dblocks n = [] -> (forall T, node_tree T n = Some t) ->
  exists c w', leaf_cb refuse (malloc refuse sz (CItem 1 n)) stk w = Ret c w' /\ SIMPOSTr (k + 1) c w' (append t fs).
Proof. intros H (T & C & F) K D Nt. unfold leaf_cb. pose proof ((A5 LI_wf) _ _ _ H) as Hwf.
  destruct ((A5 malloc_item_spec) w stk sz n H K D) as (r & w1 & E & Hr).
  destruct (refuse (nreq w) sz) eqn:Rf.
  { rewrite (malloc_refused refuse sz _ w Rf) in E. inversion E; subst r w1. clear E.
    bstep (malloc_refused refuse sz (CItem 1 n) w Rf). eexists. eexists. split; [reflexivity|].
    right. split; [exact (bad_refused _ _ _ Rf)|]. split; [reflexivity|]. apply (A5 LI_UI). exact Hr. }
  rewrite (malloc_granted refuse sz _ w Rf) in E. inversion E; subst r w1. clear E.
  bstep (malloc_granted refuse sz (CItem 1 n) w Rf).
  destruct Hr as [P Hn]. set (w1 := w_malloc sz (CItem 1 n) w) in *.
  assert (FRa : forall x, is_item w x -> heap w1 x = heap w x).
  { intros x Hx. pose proof (wf_item_lt w x Hwf Hx) as Hlt. subst w1. wsimpl. apply upd_other. clear - Hlt. lia. }
  destruct (sim_alloc T w w1 k k stk fs C ltac:(lia) FRa F) as [C1 F1].
  destruct (sim_label T w1 k stk fs (next w) t 1 n C1 (cons_dead T w (next w) C Hwf (N.le_refl _)) Hn (Nt _)
              (fun r Hr => stk_lt w stk fs T k r Hwf F Hr) F1) as (C2 & F2 & T2).
  apply (happend_sim stk fs w1 (next w) t _ k P C2 T2 F2). Qed.


(* the P callback for a definite string, once the size check has passed *)
Definition str_cbP (text : bool) (d : list N) (fs : list frame) : bctx :=
  if text then
    match fs with
    | FText racc :: rest => ok_stack (FText (d :: racc) :: rest)
    | _ => append (IText d) fs
    end
  else
    match fs with
    | FBytes racc :: rest => ok_stack (FBytes (d :: racc) :: rest)
    | _ => append (IBytes d) fs
    end.

Lemma string_cb_sim w stk fs k text d : LI w [] stk -> SIMS k w stk fs ->
  exists c w', string_cb refuse text d stk w = Ret c w' /\ SIMPOSTr (k + 1) c w' (str_cbP text d fs).
Proof. intros H (T & C & F). unfold string_cb. pose proof ((A5 LI_wf) _ _ _ H) as Hwf0.
  destruct (refuse (nreq w) (len d)) eqn:R1.
  { bstep (malloc_refused refuse (len d) (CData (len d)) w R1). eexists. eexists. split; [reflexivity|].
    right. split; [exact (bad_refused _ _ _ R1)|]. split; [reflexivity|]. apply (A5 LI_UI).
    apply ((A5 LI_heq) w _ stk H); [intros b; reflexivity|wsimpl; lia]. }
  bstep (malloc_granted refuse (len d) (CData (len d)) w R1).
  set (w1 := w_malloc (len d) (CData (len d)) w). unfold new_definite_string.
  destruct (refuse (nreq w1) SZ_ITEM) eqn:R2.
  { bstep (malloc_refused refuse SZ_ITEM (CItem 1 (NStr text None [])) w1 R2).
    assert (Hh : heap (w_refused (EvMalloc SZ_ITEM None) w1) (next w) = Some (CData (len d)))
      by (subst w1; wsimpl; apply upd_same).
    bstep (free_spec (next w) _ _ Hh). eexists. eexists. split; [reflexivity|].
    right. split; [exact (bad_refused _ _ _ R2)|]. split; [reflexivity|]. apply (A5 LI_UI).
    apply ((A5 LI_heq) w _ stk H).
    - intros b. subst w1. wsimpl. unfold upd. destruct (N.eqb_spec b (next w)) as [->|]; [|reflexivity].
      symmetry. apply Hwf0. lia.
    - subst w1. wsimpl. lia. }
  bstep (malloc_granted refuse SZ_ITEM (CItem 1 (NStr text None [])) w1 R2).
  change (next w1) with (next w + 1).
  set (w2 := w_malloc SZ_ITEM (CItem 1 (NStr text None [])) w1).
  assert (Hc2 : heap w2 (next w + 1) = Some (CItem 1 (NStr text None []))) by (subst w2 w1; wsimpl; apply upd_same).
  bstep (wr_item_spec (next w + 1) 1 (NStr text (Some (next w)) d) w2 _ _ Hc2).
  set (w3 := w_set (next w + 1) _ w2). set (chunk := next w + 1).
  assert (Hch : heap w3 chunk = Some (CItem 1 (NStr text (Some (next w)) d))) by (subst w3; wsimpl; apply upd_same).
  assert (P : PRE w3 chunk stk).
  { eapply ((A5 new2_pre) w w3 stk chunk (next w) (NStr text (Some (next w)) d) (len d) H); try reflexivity.
    - right. split; reflexivity.
    - exact Hch.
    - subst w3 w2 w1 chunk. wsimpl. rewrite !upd_other by lia. apply upd_same.
    - intros b Hb. cbn [In] in Hb. subst w3 w2 w1 chunk. wsimpl. rewrite !upd_other by lia. reflexivity.
    - subst w3 w2 w1. wsimpl. lia. }
  assert (FRa : forall x, is_item w x -> heap w3 x = heap w x).
  { intros x Hx. pose proof (wf_item_lt w x Hwf0 Hx) as Hlt. subst w3 w2 w1 chunk. wsimpl. rewrite !upd_other by lia. reflexivity. }
  set (tch := if text then IText d else IBytes d).
  destruct (sim_alloc T w w3 k k stk fs C ltac:(lia) FRa F) as [C1 F1].
  assert (Hna : forall r, In r stk -> sitem r <> chunk).
  { intros r Hr. destruct (frep_item T w k stk fs r F Hr) as [Hi _]. pose proof (wf_item_lt w _ Hwf0 Hi). subst chunk. lia. }
  destruct (sim_label T w3 k stk fs chunk tch 1 _ C1 (cons_dead T w chunk C Hwf0 ltac:(subst chunk; lia)) Hch
              (ltac:(destruct text; reflexivity)) Hna F1) as (C2 & F2 & T2).
  set (T' := tupd T chunk tch) in *.
  assert (Hcof : chunk_of T' text chunk = Some d).
  { unfold chunk_of. rewrite T2. subst tch. destruct text; reflexivity. }
  clearbody w3 chunk T'. clear Hc2 w2 R2 w1 R1 H Hwf0 C F FRa C1 F1 Hna Hch w T.
  rename w3 into w, T' into T, C2 into C, F2 into F, T2 into Ht.
  assert (Happ : forall w', PRE w' chunk stk -> CONS T w' -> Forall2 (frep T w' k) stk fs ->
            str_cbP text d fs = append tch fs ->
            exists c w'', happend refuse chunk stk w' = Ret c w'' /\ SIMPOSTr (k + 1) c w'' (str_cbP text d fs)).
  { intros w' P' C' F' ->. apply (happend_sim stk fs w' chunk tch T k P' C' Ht F'). }
  destruct stk as [|[[rec top] sub] rest].
  { inversion F; subst. apply Happ; try assumption. unfold str_cbP, tch. destruct text; reflexivity. }
  inversion F as [|r f rest' frest Hf Hrest]; subst.
  destruct Hf as (Ttop & n & Htop0 & Fn). cbn [sitem fst snd] in Ttop, Htop0, Fn.
  set (wl := w_log (AccR top) w).
  assert (Pl : PRE wl chunk ((rec, top, sub) :: rest)) by (apply ((A5 PRE_same) w wl _ _ P); split; reflexivity).
  assert (Cl : CONS T wl) by exact C.
  assert (Fl : Forall2 (frep T wl k) ((rec, top, sub) :: rest) (f :: frest)) by exact F.
  assert (Flr : Forall2 (frep T wl k) rest frest) by exact Hrest.
  assert (Htopl : heap wl top = Some (CItem 1 n)) by exact Htop0.
  bstep (rd_item_spec top w 1 n Htop0). fold wl.
  clearbody wl. clear P C Hrest F Htop0 w. rename Pl into P, Cl into C, Fl into F, Htopl into Htop, wl into w.
  destruct ((A5 top_facts) _ _ _ _ _ _ P) as (n2 & nit & Htop2 & Sh & Hit & Hne & Hwf & Hblk).
  assert (n2 = n) by congruence. subst n2. clear Htop2.
  pose proof P as (Ip & Gp & Rp & Hitp & Sp). cbn [stack_ok sitem srecd fst snd] in Sp.
  destruct Sp as (Sp1 & Sp2 & Sp3 & _ & Sp5).
  destruct n as [neg iw v|fw bits|v|tx data bytes|tx hdr arr cap0 chunks|indef data al elems|indef data al pairs|v child];
    cbn [shape] in Sh; try contradiction; cbn beta iota.
  2,3,4: (try (destruct child as [?|]; [contradiction|]); apply Happ; try assumption;
          destruct f as [[|] racc fal fsub|[|] racc key fal fsub|fv|racc|racc]; try destruct indef; cbn [fnode] in Fn; try contradiction;
          unfold str_cbP, tch; destruct text; reflexivity).
  (* the top of the stack is an open indefinite string *)
  assert (Hf : (tx = false /\ exists racc, f = FBytes racc) \/ (tx = true /\ exists racc, f = FText racc)).
  { destruct f as [fi racc fal fsub|fi racc key fal fsub|fv|racc|racc]; cbn [fnode] in Fn; try contradiction;
      destruct Fn as (-> & _); [left|right]; eauto. }
  destruct (Bool.eqb tx text) eqn:Etx.
  2:{ apply Happ; try assumption. apply Bool.eqb_false_iff in Etx.
      destruct Hf as [(-> & racc & ->)|(-> & racc & ->)]; unfold str_cbP, tch; destruct text; try reflexivity; congruence. }
  apply Bool.eqb_prop in Etx. subst tx.
  assert (Fn' : exists racc, seqo (map (chunk_of T text) chunks) = Some (rev racc) /\
                  cap0 <= 2 * len chunks /\ len chunks <= k /\ (chunks <> [] -> arr <> None) /\
                  f = (if text then FText racc else FBytes racc) /\
                  str_cbP text d (f :: frest) = ok_stack ((if text then FText (d :: racc) else FBytes (d :: racc)) :: frest)).
  { destruct Hf as [(-> & racc & ->)|(-> & racc & ->)]; cbn [fnode] in Fn; destruct Fn as (_ & A1 & A2 & A3 & A4);
      exists racc; repeat (split; [assumption|]); split; reflexivity. }
  destruct Fn' as (racc & Fs & Fcap & Flen & Fd & -> & ->). clear Hf Fn.
  assert (P59 : 2 ^ 59 = 2 * 2 ^ 58) by reflexivity. assert (P58 : 2 ^ 58 = 2 * 2 ^ 57) by reflexivity.
  assert (NI : forall x, is_item w x -> x <> next w).
  { intros x (rc & nx & Ex) ->. rewrite (Hwf (next w)) in Ex by lia. discriminate. }
  destruct Sh as (Sa & Scap & Slen).
  destruct (Hblk hdr) as ([hsz Hh] & Hcnt); [apply in_or_app; right; left; reflexivity|].
  assert (Hah : arr <> Some hdr).
  { intros ->. cbn [dblocks ol app cnt] in Hcnt. rewrite N.eqb_refl in Hcnt. lia. }
  assert (Hb : block_inv w arr cap0).
  { destruct arr as [ar|]; cbn [block_inv]; [|apply Sa; reflexivity]. apply (Hblk ar). left. reflexivity. }
  assert (Hkc : chunk_ok text nit).
  { destruct (C chunk tch Ht) as (rcc & ncc & Ecc & Ncc). rewrite Hit in Ecc. injection Ecc as _ <-.
    destruct (node_tree_str T nit text d Ncc) as (dd & ->). unfold chunk_ok. destruct text; [exact I|eauto]. }
  destruct (add_chunk_spec refuse top chunk w 1 text hdr hsz arr cap0 chunks 1 nit Hwf Htop Hh Hb Hah Hit Hkc Hne Scap)
    as [Hroom Hfull].
  assert (Fs' : seqo (map (chunk_of T text) (chunks ++ [chunk])) = Some (rev (d :: racc)))
    by (cbn [rev]; apply seqo_snoc; assumption).
  assert (Ffin : forall n', fnode T (k + 1) n' sub (if text then FText (d :: racc) else FBytes (d :: racc)) ->
            forall f', f' = (if text then FText (d :: racc) else FBytes (d :: racc)) -> fnode T (k + 1) n' sub f')
    by (intros n' X f' ->; exact X).
  destruct (N.eq_dec (len chunks) cap0) as [Heq|Hneq].
  - specialize (Hfull Heq). destruct (grow_req SZ_PTR cap0) as [[c bytes]|] eqn:Gr.
    2:{ destruct Hfull as (w1 & E1 & SH & _). bstep E1.
        destruct ((A5 fail_same) w w1 chunk _ P SH) as (w2 & E2 & U2). bstep E2.
        eexists. eexists. split; [reflexivity|]. right. cbn [hcf hstack negb]. split; [|split; [reflexivity|exact U2]].
        right. destruct (N.lt_ge_cases k (2 ^ 57)) as [Hk|Hk]; [|lia].
        rewrite (grow_passes cap0 ltac:(lia)) in Gr. discriminate Gr. }
    destruct Hfull as (Hc & Hlt & Hby & Hb64 & Hfull). destruct (refuse (nreq w) bytes) eqn:Rf.
    { destruct Hfull as (w1 & E1 & SH & _). bstep E1.
      destruct ((A5 fail_same) w w1 chunk _ P SH) as (w2 & E2 & U2). bstep E2.
      eexists. eexists. split; [reflexivity|]. right. cbn [hcf hstack negb].
      split; [exact (bad_refused _ _ _ Rf)|split; [reflexivity|exact U2]]. }
    destruct Hfull as (w1 & E1 & P1 & P2 & P3 & P4 & P5 & P6 & _). bstep E1.
    unfold SZ_PTR in Hby. subst bytes.
    destruct ((A5 attach_moved) w w1 chunk rec top sub rest _ (NChunked text hdr (Some (next w)) c (chunks ++ [chunk])) nit
                arr [hdr] (8 * c) P Htop Hit eq_refl eq_refl eq_refl P1 P2 P3 P4 P5 P6) as (w2 & E2 & A2).
    pose proof (attach_frame w w1 w2 chunk top nit _ Hit P2 P5 E2) as FR.
    assert (FR' : forall x, x <> top -> is_item w x -> heap w2 x = heap w x).
    { intros x Hx Hi. apply FR; [exact Hx|]. cbn [In]. intros [E|E]; [apply (NI x Hi); symmetry; exact E|].
      destruct arr as [ar|]; [|exact E]. cbn [HCont_proofs.opt_list In] in E. destruct E as [<-|[]].
      destruct Hb as [s Hs]. destruct Hi as (rc & nx & Ex). congruence. }
    bstep E2. eexists. eexists. split; [reflexivity|]. cbn [negb].
    left. eapply (sim_stay T w w2 k rec top sub rest frest _ _ C Ttop FR' Sp5 Flr A2).
    + cbn [shape]. rewrite len_app. change (len [chunk]) with 1. split; [discriminate|]. split; lia.
    + destruct text; cbn [fnode]; rewrite len_app; change (len [chunk]) with 1;
        (split; [reflexivity|]); (split; [exact Fs'|]); (split; [lia|]); (split; [lia|]); discriminate.
  - destruct (Hroom Hneq ltac:(lia)) as (w1 & E1 & P1 & P2 & P3 & P4 & _). bstep E1.
    destruct ((A5 attach_keep) w w1 chunk rec top sub rest _ (NChunked text hdr arr cap0 (chunks ++ [chunk])) nit P Htop Hit
                eq_refl eq_refl P1 P2 P3 P4) as (w2 & E2 & A2).
    pose proof (attach_frame w w1 w2 chunk top nit [] Hit P2 P3 E2) as FR.
    bstep E2. eexists. eexists. split; [reflexivity|]. cbn [negb].
    left. eapply (sim_stay T w w2 k rec top sub rest frest _ _ C Ttop (fun x Hx _ => FR x Hx (fun H => H)) Sp5 Flr A2).
    + cbn [shape]. rewrite len_app. change (len [chunk]) with 1. split; [exact Sa|]. split; lia.
    + assert (Hd' : chunks ++ [chunk] <> [] -> arr <> None).
      { intros _. destruct arr; [discriminate|]. specialize (Sa eq_refl). lia. }
      destruct text; cbn [fnode]; rewrite len_app; change (len [chunk]) with 1;
        (split; [reflexivity|]); (split; [exact Fs'|]); (split; [lia|]); (split; [lia|]); exact Hd'.
Qed.


Definition tok_fits (tk : tok) : Prop :=
  match tk with TBytes _ d | TText _ d => len d < SIZE_MAX | _ => True end.

(* a container that has just been built (two blocks) on top of an unchanged heap *)
Lemma built_sim T w k stk fs sz c0 bytes n :
  wf w -> CONS T w -> Forall2 (frep T w k) stk fs ->
  let w1 := w_built sz c0 bytes (CItem 1 n) w in
  CONS T w1 /\ Forall2 (frep T w1 k) stk fs /\ T (next w) = None /\ (forall r, In r stk -> sitem r <> next w).
Proof. intros Hwf C F w1. destruct (w_built_props sz c0 bytes (CItem 1 n) w Hwf) as (_ & _ & P3 & _).
  assert (FRa : forall x, is_item w x -> heap w1 x = heap w x).
  { intros x Hx. pose proof (wf_item_lt w x Hwf Hx) as Hlt. apply P3. cbn [In]. clear - Hlt. lia. }
  destruct (sim_alloc T w w1 k k stk fs C ltac:(lia) FRa F) as [C1 F1].
  split; [exact C1|]. split; [exact F1|]. split; [apply (cons_dead T w (next w) C Hwf (N.le_refl _))|].
  intros r Hr. apply (stk_lt w stk fs T k r Hwf F Hr). Qed.

Lemma malloc_sim T w k stk fs sz n :
  wf w -> CONS T w -> Forall2 (frep T w k) stk fs ->
  let w1 := w_malloc sz (CItem 1 n) w in
  CONS T w1 /\ Forall2 (frep T w1 k) stk fs /\ T (next w) = None /\ (forall r, In r stk -> sitem r <> next w).
Proof. intros Hwf C F w1.
  assert (FRa : forall x, is_item w x -> heap w1 x = heap w x).
  { intros x Hx. pose proof (wf_item_lt w x Hwf Hx) as Hlt. subst w1. wsimpl. apply upd_other. clear - Hlt. lia. }
  destruct (sim_alloc T w w1 k k stk fs C ltac:(lia) FRa F) as [C1 F1].
  split; [exact C1|]. split; [exact F1|]. split; [apply (cons_dead T w (next w) C Hwf (N.le_refl _))|].
  intros r Hr. apply (stk_lt w stk fs T k r Hwf F Hr). Qed.

Lemma alloc_ok_big isz n bytes : SIZE_MAX <= cap -> isz < 2 ^ 64 -> n < 2 ^ 64 ->
  alloc_multiple_req 64 isz n = Some bytes -> alloc_ok cap 64 isz n = true.
Proof. intros Hcap Hs Hn E. unfold alloc_ok. rewrite E.
  destruct (alloc_multiple_exact 64 isz n bytes Hs Hn E) as [_ Hb]. apply N.leb_le. unfold SIZE_MAX in Hcap.
  change (2 ^ 64) with 18446744073709551616 in Hb. lia. Qed.

Lemma hcallback_sim w stk fs k tk :
  SIZE_MAX <= cap -> LI w [] stk -> SIMS k w stk fs -> tok_ok tk -> tok_fits tk ->
  exists c w', hcallback refuse L tk stk w = Ret c w' /\ SIMPOSTr (k + 1) c w' (callback L cap tk fs).
Proof. intros Hcap H HS Tk Tf. pose proof ((A5 LI_wf) _ _ _ H) as Hwf.
  (* a refused request: the callback reports a creation failure over an unchanged heap *)
  assert (CF : forall i sz w1 cP, refuse i sz = true -> LI w1 [] stk ->
            exists c w', ret (cf_ctx stk) w1 = Ret c w' /\ SIMPOSTr (k + 1) c w' cP).
  { intros i sz w1 cP R H1. eexists. eexists. split; [reflexivity|]. right. split; [exact (bad_refused _ _ _ R)|].
    split; [reflexivity|]. apply (A5 LI_UI). exact H1. }
  destruct tk as [iw v|iw v|off d| |off d| |n| |n| |v|fw bits|b| | | ]; cbn [HOps.hcallback callback].
  - apply leaf_cb_sim; try assumption; reflexivity.
  - apply leaf_cb_sim; try assumption; reflexivity.
  - cbn [tok_fits] in Tf. destruct (N.ltb_spec cap (len d)) as [|_]; [lia|]. apply (string_cb_sim w stk fs k false d H HS).
  - (* indefinite byte string *)
    destruct HS as (T & C & F).
    pose proof (new_indefinite_string_cases refuse false w) as E. cbv beta iota zeta in E.
    destruct (refuse (nreq w) SZ_ITEM) eqn:R1.
    { bstep E. apply (CF _ _ _ _ R1). apply (A5 fail1_LI). exact H. }
    destruct (refuse (nreq w + 1) SZ_ISD) eqn:R2.
    { bstep E. apply (CF _ _ _ _ R2). apply (A5 fail2_LI). exact H. }
    bstep E.
    destruct ((A5 built_pre) w stk SZ_ITEM (CItem 1 (NStr false None [])) SZ_ISD
                (NChunked false (next w + 1) None 0 []) H eq_refl eq_refl) as [P Hn].
    destruct (built_sim T w k stk fs SZ_ITEM (CItem 1 (NStr false None [])) SZ_ISD
                (NChunked false (next w + 1) None 0 []) Hwf C F) as (C1 & F1 & Tn & _).
    eapply (push_ctx_sim _ (next w) 0 stk fs _ T k (FBytes []) P Hn); [|exact C1|exact Tn|exact F1|].
    + cbn [shape]. split; [reflexivity|]. split; [lia|]. change (len (@nil addr)) with 0. lia.
    + cbn [fnode]. change (len (@nil addr)) with 0. split; [reflexivity|]. split; [reflexivity|]. split; [lia|]. split; [lia|]. intros X; contradiction.
  - cbn [tok_fits] in Tf. destruct (N.ltb_spec cap (len d)) as [|_]; [lia|]. apply (string_cb_sim w stk fs k true d H HS).
  - destruct HS as (T & C & F).
    pose proof (new_indefinite_string_cases refuse true w) as E. cbv beta iota zeta in E.
    destruct (refuse (nreq w) SZ_ITEM) eqn:R1.
    { bstep E. apply (CF _ _ _ _ R1). apply (A5 fail1_LI). exact H. }
    destruct (refuse (nreq w + 1) SZ_ISD) eqn:R2.
    { bstep E. apply (CF _ _ _ _ R2). apply (A5 fail2_LI). exact H. }
    bstep E.
    destruct ((A5 built_pre) w stk SZ_ITEM (CItem 1 (NStr true None [])) SZ_ISD
                (NChunked true (next w + 1) None 0 []) H eq_refl eq_refl) as [P Hn].
    destruct (built_sim T w k stk fs SZ_ITEM (CItem 1 (NStr true None [])) SZ_ISD
                (NChunked true (next w + 1) None 0 []) Hwf C F) as (C1 & F1 & Tn & _).
    eapply (push_ctx_sim _ (next w) 0 stk fs _ T k (FText []) P Hn); [|exact C1|exact Tn|exact F1|].
    + cbn [shape]. split; [reflexivity|]. split; [lia|]. change (len (@nil addr)) with 0. lia.
    + cbn [fnode]. change (len (@nil addr)) with 0. split; [reflexivity|]. split; [reflexivity|]. split; [lia|]. split; [lia|]. intros X; contradiction.
  - (* definite array *)
    cbn [tok_ok] in Tk. destruct HS as (T & C & F).
    pose proof (new_definite_array_cases refuse n w) as E. cbv beta iota zeta in E.
    change 8 with SZ_PTR.
    destruct (refuse (nreq w) SZ_ITEM) eqn:R1.
    { bstep E. apply (CF _ _ _ _ R1). apply (A5 fail1_LI). exact H. }
    destruct (alloc_multiple_req 64 SZ_PTR n) as [bytes|] eqn:A.
    2:{ bstep E. unfold alloc_ok. rewrite A. cbn [negb]. eexists. eexists. split; [reflexivity|].
        left. apply simpost_fail; [reflexivity|reflexivity|reflexivity|left; reflexivity|].
        apply (A5 LI_UI). apply (A5 fail_guard_LI). exact H. }
    destruct (refuse (nreq w + 1) bytes) eqn:R2.
    { bstep E. apply (CF _ _ _ _ R2). apply (A5 fail2_LI). exact H. }
    rewrite (alloc_ok_big SZ_PTR n bytes Hcap ltac:(unfold SZ_PTR; lia) Tk A). cbn [negb].
    bstep E. destruct ((A5 built_pre) w stk SZ_ITEM (CItem 1 (NArr false None n [])) bytes
                         (NArr false (Some (next w + 1)) n []) H eq_refl eq_refl) as [P Hn].
    destruct (built_sim T w k stk fs SZ_ITEM (CItem 1 (NArr false None n [])) bytes
                (NArr false (Some (next w + 1)) n []) Hwf C F) as (C1 & F1 & Tn & Hna).
    destruct (N.ltb_spec 0 n) as [Hpos|Hz].
    + eapply (push_ctx_sim _ (next w) n stk fs _ T k (FArr false [] n n) P Hn); [|exact C1|exact Tn|exact F1|].
      * cbn [shape]. change (len (@nil addr)) with 0. lia.
      * cbn [fnode]. split; [reflexivity|]. split; reflexivity.
    + destruct (sim_label T _ k stk fs (next w) (IArray false []) 1 _ C1 Tn Hn eq_refl Hna F1) as (C2 & F2 & T2).
      apply (happend_sim stk fs _ (next w) _ _ k P C2 T2 F2).
  - (* indefinite array *)
    destruct HS as (T & C & F). unfold new_indefinite_array.
    destruct ((A5 malloc_item_spec) w stk SZ_ITEM (NArr true None 0 []) H eq_refl eq_refl) as (r & w1 & E & Hr).
    destruct (refuse (nreq w) SZ_ITEM) eqn:R1.
    { rewrite (malloc_refused refuse SZ_ITEM _ w R1) in E. inversion E; subst r w1. clear E.
      bstep (malloc_refused refuse SZ_ITEM (CItem 1 (NArr true None 0 [])) w R1). apply (CF _ _ _ _ R1). exact Hr. }
    rewrite (malloc_granted refuse SZ_ITEM _ w R1) in E. inversion E; subst r w1. clear E.
    bstep (malloc_granted refuse SZ_ITEM (CItem 1 (NArr true None 0 [])) w R1). destruct Hr as [P Hn].
    destruct (malloc_sim T w k stk fs SZ_ITEM (NArr true None 0 []) Hwf C F) as (C1 & F1 & Tn & _).
    eapply (push_ctx_sim _ (next w) 0 stk fs _ T k (FArr true [] 0 0) P Hn); [|exact C1|exact Tn|exact F1|].
    + cbn [shape]. split; [reflexivity|lia].
    + cbn [fnode]. change (len (@nil addr)) with 0. split; [reflexivity|]. split; [lia|]. split; [lia|]. intros X; contradiction.
  - (* definite map *)
    cbn [tok_ok] in Tk. destruct HS as (T & C & F).
    pose proof (new_definite_map_cases refuse n w) as E. cbv beta iota zeta in E.
    change 16 with SZ_PAIR.
    destruct (refuse (nreq w) SZ_ITEM) eqn:R1.
    { bstep E. apply (CF _ _ _ _ R1). apply (A5 fail1_LI). exact H. }
    destruct (alloc_multiple_req 64 SZ_PAIR n) as [bytes|] eqn:A.
    2:{ bstep E. unfold alloc_ok. rewrite A. cbn [negb]. eexists. eexists. split; [reflexivity|].
        left. apply simpost_fail; [reflexivity|reflexivity|reflexivity|left; reflexivity|].
        apply (A5 LI_UI). apply (A5 fail_guard_LI). exact H. }
    destruct (refuse (nreq w + 1) bytes) eqn:R2.
    { bstep E. apply (CF _ _ _ _ R2). apply (A5 fail2_LI). exact H. }
    rewrite (alloc_ok_big SZ_PAIR n bytes Hcap ltac:(unfold SZ_PAIR; lia) Tk A). cbn [negb].
    bstep E. destruct ((A5 built_pre) w stk SZ_ITEM (CItem 1 (NMap false None n [])) bytes
                         (NMap false (Some (next w + 1)) n []) H eq_refl eq_refl) as [P Hn].
    destruct (built_sim T w k stk fs SZ_ITEM (CItem 1 (NMap false None n [])) bytes
                (NMap false (Some (next w + 1)) n []) Hwf C F) as (C1 & F1 & Tn & Hna).
    destruct (N.ltb_spec 0 n) as [Hpos|Hz].
    + eapply (push_ctx_sim _ (next w) (wrap64 (n * 2)) stk fs _ T k (FMap false [] None n (wrap64 (n * 2))) P Hn);
        [|exact C1|exact Tn|exact F1|].
      * rewrite (map_sub_nowrap n bytes Tk A). cbn [shape]. change (len (@nil (addr * option addr))) with 0.
        split; [lia|]. split; [lia|]. split; [lia|].
        intros Ho. pose proof (odd_mod (2 * n)) as Hm. rewrite Ho in Hm. lia.
      * cbn [fnode mrep is_some]. split; [reflexivity|]. split; [reflexivity|]. split; [reflexivity|].
        rewrite (map_sub_nowrap n bytes Tk A). destruct (N.odd (2 * n)) eqn:Ho; [|reflexivity].
        pose proof (odd_mod (2 * n)) as Hm. rewrite Ho in Hm. lia.
    + destruct (sim_label T _ k stk fs (next w) (IMap false []) 1 _ C1 Tn Hn eq_refl Hna F1) as (C2 & F2 & T2).
      apply (happend_sim stk fs _ (next w) _ _ k P C2 T2 F2).
  - (* indefinite map *)
    destruct HS as (T & C & F). unfold new_indefinite_map.
    destruct ((A5 malloc_item_spec) w stk SZ_ITEM (NMap true None 0 []) H eq_refl eq_refl) as (r & w1 & E & Hr).
    destruct (refuse (nreq w) SZ_ITEM) eqn:R1.
    { rewrite (malloc_refused refuse SZ_ITEM _ w R1) in E. inversion E; subst r w1. clear E.
      bstep (malloc_refused refuse SZ_ITEM (CItem 1 (NMap true None 0 [])) w R1). apply (CF _ _ _ _ R1). exact Hr. }
    rewrite (malloc_granted refuse SZ_ITEM _ w R1) in E. inversion E; subst r w1. clear E.
    bstep (malloc_granted refuse SZ_ITEM (CItem 1 (NMap true None 0 [])) w R1). destruct Hr as [P Hn].
    destruct (malloc_sim T w k stk fs SZ_ITEM (NMap true None 0 []) Hwf C F) as (C1 & F1 & Tn & _).
    eapply (push_ctx_sim _ (next w) 0 stk fs _ T k (FMap true [] None 0 0) P Hn); [|exact C1|exact Tn|exact F1|].
    + cbn [shape]. split; [reflexivity|]. split; [lia|]. split; [lia|]. discriminate.
    + cbn [fnode mrep is_some]. change (len (@nil (addr * option addr))) with 0.
      split; [reflexivity|]. split; [reflexivity|]. split; [reflexivity|]. split; [lia|]. split; [lia|]. intros X; contradiction.
  - (* tag *)
    destruct HS as (T & C & F). unfold new_tag.
    destruct ((A5 malloc_item_spec) w stk SZ_ITEM (NTag v None) H eq_refl eq_refl) as (r & w1 & E & Hr).
    destruct (refuse (nreq w) SZ_ITEM) eqn:R1.
    { rewrite (malloc_refused refuse SZ_ITEM _ w R1) in E. inversion E; subst r w1. clear E.
      bstep (malloc_refused refuse SZ_ITEM (CItem 1 (NTag v None)) w R1). apply (CF _ _ _ _ R1). exact Hr. }
    rewrite (malloc_granted refuse SZ_ITEM _ w R1) in E. inversion E; subst r w1. clear E.
    bstep (malloc_granted refuse SZ_ITEM (CItem 1 (NTag v None)) w R1). destruct Hr as [P Hn].
    destruct (malloc_sim T w k stk fs SZ_ITEM (NTag v None) Hwf C F) as (C1 & F1 & Tn & _).
    eapply (push_ctx_sim _ (next w) 1 stk fs _ T k (FTag v) P Hn); [|exact C1|exact Tn|exact F1|]; reflexivity.
  - apply leaf_cb_sim; try assumption; reflexivity.
  - apply leaf_cb_sim; try assumption; reflexivity.
  - apply leaf_cb_sim; try assumption; reflexivity.
  - apply leaf_cb_sim; try assumption; reflexivity.
  - (* break *)
    destruct HS as (T & C & F).
    destruct stk as [|[[rec top] sub] rest].
    { inversion F; subst. eexists. eexists. split; [reflexivity|].
      left. apply simpost_fail; [reflexivity|reflexivity|reflexivity|right; reflexivity|]. apply (A5 LI_UI). exact H. }
    inversion F as [|r f rest' frest Hf Hrest]; subst.
    destruct Hf as (Ttop & n & Htop0 & Fn). cbn [sitem fst snd] in Ttop, Htop0, Fn.
    set (wl := w_log (AccR top) w).
    assert (Hl : LI wl [] ((rec, top, sub) :: rest)) by (apply ((A5 LI_same) w wl _ H); split; reflexivity).
    assert (Cl : CONS T wl) by exact C. assert (Fl : Forall2 (frep T wl k) rest frest) by exact Hrest.
    assert (Htopl : heap wl top = Some (CItem 1 n)) by exact Htop0.
    bstep (rd_item_spec top w 1 n Htop0). fold wl. clearbody wl. clear H C F Hrest Htop0 Hwf w.
    rename wl into w, Cl into C, Fl into F, Htopl into Htop.
    destruct ((A5 LI_att) _ _ _ _ _ Hl) as (n2 & A & Sh). pose proof A as (_ & _ & _ & Htop2 & _ & _ & S5).
    assert (n2 = n) by congruence. subst n2. clear Htop2.
    assert (Hse : forall cP, fault cP = false -> creation_failed cP = false -> syntax_error cP = true ->
              exists c w', ret (mkhctx ((rec, top, sub) :: rest) None false true) w = Ret c w' /\ SIMPOSTr (k + 1) c w' cP).
    { intros cP X1 X2 X3. eexists. eexists. split; [reflexivity|].
      left. apply simpost_fail; [exact X1|symmetry; exact X2|symmetry; exact X3|right; reflexivity|]. apply (A5 LI_UI). exact Hl. }
    assert (Hcl : forall t', node_tree (tupd T top t') n = Some t' ->
              exists c w', (stack_pop (rec, top, sub) ;;; happend refuse top rest) w = Ret c w' /\
                           SIMPOSTr (k + 1) c w' (append t' frest)).
    { intros t' Nt.
      destruct (sim_pop T w w k rec top sub rest frest n t' C Ttop (fun x _ _ => eq_refl) S5 F A Nt) as (w3 & E3 & P3 & C3 & F3).
      bstep E3. apply (happend_sim rest frest w3 top t' _ k P3 C3 (tupd_same _ _ _) F3). }
    assert (XT : forall l r, seqo (map T l) = Some r -> seqo (map (tupd T top (IArray true r)) l) = Some r).
    { intros l r Hr. eapply seqo_map_ext; [exact Hr|]. intros x _ Hx. apply tupd_ext; assumption. }
    destruct n as [neg iw v|fw bits|v|tx data bytes|tx hdr arr cap0 chunks|indef data al elems|indef data al pairs|v child];
      cbn [shape] in Sh; try contradiction; cbn beta iota.
    + (* indefinite string *)
      destruct f as [fi racc fal fsub|fi racc key fal fsub|fv|racc|racc]; cbn [fnode] in Fn; try contradiction;
        destruct Fn as (-> & Fs & _ & _ & Fd); apply Hcl.
      * apply (node_tree_chunked _ false hdr arr cap0 chunks (rev racc) Fd). eapply seqo_map_ext; [exact Fs|].
        intros x _ Hx. apply chunk_of_ext; [apply tupd_ext; exact Ttop|exact Hx].
      * apply (node_tree_chunked _ true hdr arr cap0 chunks (rev racc) Fd). eapply seqo_map_ext; [exact Fs|].
        intros x _ Hx. apply chunk_of_ext; [apply tupd_ext; exact Ttop|exact Hx].
    + destruct indef.
      * destruct f as [[|] racc fal fsub|fi racc key fal fsub|fv|racc|racc]; cbn [fnode] in Fn; try contradiction.
        destruct Fn as (Fs & _ & _ & Fd). apply Hcl. apply node_tree_arr; [exact Fd|]. apply XT. exact Fs.
      * destruct data as [d|]; [|contradiction].
        destruct f as [[|] racc fal fsub|fi racc key fal fsub|fv|racc|racc]; cbn [fnode] in Fn; try contradiction.
        apply Hse; reflexivity.
    + destruct indef.
      * destruct f as [fi racc fal fsub|[|] racc key fal fsub|fv|racc|racc]; cbn [fnode] in Fn; try contradiction.
        destruct Fn as (-> & Fm & Fo & _ & _ & Fd). unfold odd. destruct (N.odd sub); cbn [negb].
        -- apply Hse; reflexivity.
        -- destruct key as [kt|]; [discriminate Fo|]. cbn [mrep] in Fm. apply Hcl.
           apply node_tree_map; [exact Fd|]. eapply seqo_map_ext; [exact Fm|].
           intros x _ Hx. apply pair_of_ext; [apply tupd_ext; exact Ttop|exact Hx].
      * destruct data as [d|]; [|contradiction].
        destruct f as [fi racc fal fsub|[|] racc key fal fsub|fv|racc|racc]; cbn [fnode] in Fn; try contradiction.
        apply Hse; reflexivity.
    + destruct child as [x|]; [contradiction|].
      destruct f as [fi racc fal fsub|fi racc key fal fsub|fv|racc|racc]; cbn [fnode] in Fn; try contradiction.
      apply Hse; reflexivity.
Qed.


Lemma unwind_to w stk code (p q : N) : UI w stk ->
  exists w', (unwind stk ;;; @ret HOps.hres (@None addr, code, p, q)) w = Ret (None, code, p, q) w' /\ UI w' [].
Proof. intros U. destruct ((A5 unwind_spec) stk w U) as (w' & E & U'). bstep E. eexists. split; [reflexivity|exact U']. Qed.

Lemma tok_fits_spec bs t n : bytes_ok bs -> len bs < SIZE_MAX -> head_spec bs = HTok t n -> tok_fits t.
Proof. intros Hb Hl HS. destruct t; try exact Logic.I; cbn [tok_fits].
  - destruct (C08_payload_inside bs _ off data n Hb HS (or_introl eq_refl)) as (_ & H2 & H3 & _). lia.
  - destruct (C08_payload_inside bs _ off data n Hb HS (or_intror eq_refl)) as (_ & H2 & H3 & _). lia. Qed.

Lemma hload_loop_sim : forall fuel buf read stk fs w k,
  SIZE_MAX <= cap -> bytes_ok buf -> len buf < SIZE_MAX -> read <= len buf ->
  (length buf - N.to_nat read < fuel)%nat -> k <= read ->
  LI w [] stk -> SIMS k w stk fs ->
  exists r w', hload_loop refuse L fuel buf read stk w = Ret r w' /\
    (match load_loop L cap fuel buf read fs with
     | LOk t n => exists a, r = (Some a, ENone, 0, n) /\ LI w' [a] [] /\ SIMR w' a t
     | LErr code p q => r = (None, code, p, q) /\ UI w' []
     | LFault => False
     end \/
     (Bad (len buf) /\ exists p q, r = (None, EMem, p, q))).
Proof.
  induction fuel as [|f IH]; intros buf read stk fs w k Hcap Hb Hlen Hread Hfuel Hk H HS; [lia|].
  assert (UT : forall stk' w1 code (p q : N), UI w1 stk' ->
            exists r w', (unwind stk' ;;; @ret HOps.hres (@None addr, code, p, q)) w1 = Ret r w' /\
                         r = (None, code, p, q) /\ UI w' []).
  { intros stk' w1 code p q U. destruct (unwind_to w1 stk' code p q U) as (w' & E & U'). eauto. }
  cbn [HOps.hload_loop load_loop].
  destruct (N.leb_spec (len buf) read) as [Hle|Hlt].
  { destruct (UT stk w ENotEnough read read ((A5 LI_UI) _ _ H)) as (r & w' & E & -> & U).
    eexists. eexists. split; [exact E|]. left. split; [reflexivity|exact U]. }
  pose proof (C08_contract (skipnN read buf) (bytes_ok_skipn read buf Hb)) as Hc.
  rewrite len_skipnN in Hc. specialize (Hc ltac:(lia)). unfold contract in Hc.
  destruct (head_spec (skipnN read buf)) as [t n|full|] eqn:HSp.
  - rewrite Hc. cbn [st rd].
    pose proof (head_spec_tok_ok _ _ _ (bytes_ok_skipn read buf Hb) HSp) as Tk.
    pose proof (tok_fits_spec _ _ _ (bytes_ok_skipn read buf Hb) ltac:(rewrite len_skipnN; lia) HSp) as Tf.
    apply head_spec_tok_len in HSp. rewrite len_skipnN in HSp.
    rewrite wrap64_small by (unfold SIZE_MAX, W64 in *; lia).
    destruct (hcallback_sim w stk fs k t Hcap H HS Tk Tf) as (c & w1 & E & [(Hf & Hcf & Hse & HU & HOK)|(HB & Hcf & HU)]).
    2:{ (* the H side alone has failed *)
        bstep E. rewrite Hcf.
        destruct (UT (hstack c) w1 EMem (read + n) (read + n) HU) as (r & w' & E' & -> & U).
        eexists. eexists. split; [exact E'|]. right. split; [|eauto].
        destruct HB as [HB|HB]; [left; exact HB|right; lia]. }
    bstep E. cbv zeta. rewrite Hf, <- Hcf, <- Hse.
    destruct (hcf c).
    { destruct (UT (hstack c) w1 EMem (read + n) (read + n) (HU (or_introl eq_refl))) as (r & w' & E' & -> & U).
      eexists. eexists. split; [exact E'|]. left. split; [reflexivity|exact U]. }
    destruct (hse c).
    { destruct (UT (hstack c) w1 ESyntax (read + n) (read + n) (HU (or_intror eq_refl))) as (r & w' & E' & -> & U).
      eexists. eexists. split; [exact E'|]. left. split; [reflexivity|exact U]. }
    specialize (HOK eq_refl eq_refl). destruct (hstack c) as [|r l].
    + destruct HOK as (a & tr & -> & -> & -> & HL & HR). eexists. eexists. split; [reflexivity|]. left.
      exists a. split; [reflexivity|]. split; assumption.
    + destruct HOK as (HL & HS'). pose proof HS' as (T' & _ & F').
      destruct (stack (callback L cap t fs)) as [|f0 fs0]; [inversion F'|].
      apply (IH buf (read + n) (r :: l) (f0 :: fs0) w1 (k + 1)); try assumption; [lia|unfold len in *; lia|lia].
  - destruct Hc as (req & Hc & _). rewrite Hc. cbn [st].
    destruct (UT stk w ENotEnough read read ((A5 LI_UI) _ _ H)) as (r & w' & E & -> & U).
    eexists. eexists. split; [exact E|]. left. split; [reflexivity|exact U].
  - rewrite Hc. cbn [st].
    destruct (UT stk w EMalformed read read ((A5 LI_UI) _ _ H)) as (r & w' & E & -> & U).
    eexists. eexists. split; [exact E|]. left. split; [reflexivity|exact U].
Qed.


(* ---- the labelling is what [abs] reads ---- *)
Lemma mapM_all {A B} (f : A -> M B) (g : A -> option B) (Q : world -> Prop) l : forall r,
  seqo (map g l) = Some r ->
  (forall x y w1, In x l -> g x = Some y -> Q w1 -> exists w2, f x w1 = Ret y w2 /\ Q w2) ->
  forall w1, Q w1 -> exists w2, mapM f l w1 = Ret r w2 /\ Q w2.
Proof. induction l as [|a l IH]; intros r Hs Hf w1 Hq; cbn [map seqo mapM] in *.
  - inversion Hs; subst. exists w1. split; [reflexivity|exact Hq].
  - destruct (g a) as [y|] eqn:Ga; [|discriminate]. destruct (seqo (map g l)) as [r0|] eqn:E0; [|discriminate].
    cbn [option_map] in Hs. inversion Hs; subst.
    destruct (Hf a y w1 (or_introl eq_refl) Ga Hq) as (w2 & E2 & Q2). bstep E2.
    destruct (IH r0 eq_refl (fun x y' w' Hx => Hf x y' w' (or_intror Hx)) w2 Q2) as (w3 & E3 & Q3). bstep E3.
    exists w3. split; [reflexivity|exact Q3]. Qed.


Lemma abs_tree T o od w : Inv o od [] w -> G w0 w -> CONS T w ->
  forall fuel a t w1, heap w1 = heap w -> T a = Some t -> N0 <= a -> (N.to_nat (next w - a) <= fuel)%nat ->
  exists w2, abs fuel a w1 = Ret t w2 /\ heap w2 = heap w.
Proof. intros I Gw C. pose proof (Inv_wf _ _ _ _ I) as Hwf.
  assert (Hlive : forall x, T x <> None -> x < next w).
  { intros x Hx. apply (wf_item_lt w x Hwf). apply (cons_item T w x C Hx). }
  induction fuel as [|f IH]; intros a t w1 Hh Ht Hge Hfu.
  { assert (La : a < next w) by (apply Hlive; congruence). lia. }
  assert (La : a < next w) by (apply Hlive; congruence).
  cbn [abs]. destruct (C a t Ht) as (rc & n & Ea & Nt).
  pose proof (Inv_nil_pos _ _ _ _ _ _ I Ea) as Hrc.
  assert (Ha1 : heap w1 a = Some (CItem rc n)) by (rewrite Hh; exact Ea).
  bstep (rd_item_spec a w1 rc n Ha1).
  set (wa := w_log (AccR a) w1). assert (Qa : heap wa = heap w) by exact Hh. clearbody wa.
  destruct (g_ord w0 w Gw a rc n Hge Ea) as [OK _].
  assert (Hd : forall d, In d (dblocks n) -> exists sz, heap w d = Some (CData sz)).
  { intros d Hd. destruct (Inv_dblock_live _ _ _ _ _ _ _ _ I Ea ltac:(lia) Hd) as (X & _). exact X. }
  assert (Touch : forall d w', In d (dblocks n) -> heap w' = heap w ->
            exists w'', touch_data false (Some d) w' = Ret tt w'' /\ heap w'' = heap w).
  { intros d w' Hin Hq. destruct (Hd d Hin) as [sz Hs]. eexists. split.
    - apply (touch_data_spec false d w' sz). rewrite Hq. exact Hs.
    - exact Hq. }
  assert (Kid : forall x y w', In x (kids n) -> T x = Some y -> heap w' = heap w ->
            exists w'', abs f x w' = Ret y w'' /\ heap w'' = heap w).
  { intros x y w' Hin Hx Hq. specialize (OK x Hin). assert (Lx : x < next w) by (apply Hlive; congruence).
    apply IH; [exact Hq|exact Hx|lia|lia]. }
  destruct n as [neg iw v|fw bits|v|tx data bytes|tx hdr arr cap0 chunks|indef data al elems|indef data al pairs|v child];
    cbn [node_tree] in Nt; cbn [snd].
  - inversion Nt; subst. eexists. split; [reflexivity|exact Qa].
  - inversion Nt; subst. eexists. split; [reflexivity|exact Qa].
  - inversion Nt; subst. eexists. split; [reflexivity|exact Qa].
  - destruct data as [d|]; [|discriminate]. inversion Nt; subst.
    destruct (len bytes =? 0).
    + rewrite bind_ret_l. eexists. split; [reflexivity|exact Qa].
    + destruct (Touch d wa (or_introl eq_refl) Qa) as (w2 & E2 & Q2). bstep E2. eexists. split; [reflexivity|exact Q2].
  - (* chunked string *)
    destruct (Touch hdr wa ltac:(cbn [dblocks]; apply in_or_app; right; left; reflexivity) Qa) as (w2 & E2 & Q2). bstep E2.
    assert (Hch : forall r, seqo (map (chunk_of T tx) chunks) = Some r -> forall w', heap w' = heap w ->
              exists w'', mapM (chunk_bytes tx) chunks w' = Ret r w'' /\ heap w'' = heap w).
    { intros r Hs. apply (mapM_all (chunk_bytes tx) (chunk_of T tx) (fun w' => heap w' = heap w) chunks r Hs).
      intros c b w' Hin Hc Hq. unfold chunk_of in Hc. destruct (T c) as [tc|] eqn:Tc; [|discriminate].
      assert (Etc : tc = if tx then IText b else IBytes b).
      { destruct tc; try discriminate; destruct tx; try discriminate; inversion Hc; reflexivity. }
      subst tc. destruct (C c _ Tc) as (rcc & nc & Ec & Ntc). destruct (node_tree_str T nc tx b Ntc) as [dc ->].
      unfold chunk_bytes. assert (Ec' : heap w' c = Some (CItem rcc (NStr tx (Some dc) b))) by (rewrite Hq; exact Ec).
      bstep (rd_item_spec c w' _ _ Ec'). rewrite Bool.eqb_reflx. destruct (len b =? 0).
      - rewrite bind_ret_l. eexists. split; [reflexivity|exact Hq].
      - pose proof (Inv_nil_pos _ _ _ _ _ _ I Ec) as Hrcc.
        destruct (Inv_dblock_live _ _ _ _ _ _ _ dc I Ec ltac:(lia) (or_introl eq_refl)) as ([sz Hs'] & _).
        assert (Hs2 : heap (w_log (AccR c) w') dc = Some (CData sz)) by (wsimpl; rewrite Hq; exact Hs').
        bstep (touch_data_spec false dc _ sz Hs2). eexists. split; [reflexivity|exact Hq]. }
    destruct chunks as [|c0 cs].
    + cbn [map seqo option_map] in Nt. inversion Nt; subst. rewrite bind_ret_l. cbn [mapM]. rewrite bind_ret_l.
      eexists. split; [reflexivity|exact Q2].
    + destruct arr as [ar|]; [|discriminate].
      destruct (Touch ar w2 ltac:(cbn [dblocks ol app]; left; reflexivity) Q2) as (w3 & E3 & Q3). bstep E3.
      destruct (seqo (map (chunk_of T tx) (c0 :: cs))) as [r|] eqn:Es; [|discriminate]. cbn [option_map] in Nt.
      inversion Nt; subst. destruct (Hch r eq_refl w3 Q3) as (w4 & E4 & Q4). bstep E4.
      eexists. split; [reflexivity|exact Q4].
  - (* array *)
    assert (Hel : forall r, seqo (map T elems) = Some r -> forall w', heap w' = heap w ->
              exists w'', mapM (abs f) elems w' = Ret r w'' /\ heap w'' = heap w).
    { intros r Hs. apply (mapM_all (abs f) T (fun w' => heap w' = heap w) elems r Hs).
      intros x y w' Hin Hx Hq. apply Kid; assumption. }
    destruct elems as [|e0 es].
    + cbn [map seqo option_map] in Nt. inversion Nt; subst. rewrite bind_ret_l. cbn [mapM]. rewrite bind_ret_l.
      eexists. split; [reflexivity|exact Qa].
    + destruct data as [d|]; [|discriminate].
      destruct (Touch d wa (or_introl eq_refl) Qa) as (w2 & E2 & Q2). bstep E2.
      destruct (seqo (map T (e0 :: es))) as [r|] eqn:Es; [|discriminate]. cbn [option_map] in Nt.
      inversion Nt; subst. destruct (Hel r eq_refl w2 Q2) as (w3 & E3 & Q3). bstep E3.
      eexists. split; [reflexivity|exact Q3].
  - (* map *)
    assert (Hel : forall r, seqo (map (pair_of T) pairs) = Some r -> forall w', heap w' = heap w ->
              exists w'', mapM (fun kv => k <- abs f (fst kv) ;;
                                         match snd kv with
                                         | Some v => v' <- abs f v ;; ret (k, v')
                                         | None => fail FNull
                                         end) pairs w' = Ret r w'' /\ heap w'' = heap w).
    { intros r Hs. apply (mapM_all _ (pair_of T) (fun w' => heap w' = heap w) pairs r Hs).
      intros [ka ov] [kt vt] w' Hin Hp Hq. unfold pair_of in Hp. cbn [fst snd] in *.
      destruct (T ka) as [kt'|] eqn:Tk; [|discriminate]. destruct ov as [va|]; [|discriminate].
      destruct (T va) as [vt'|] eqn:Tv; [|discriminate]. inversion Hp; subst.
      assert (Ik : In ka (kids (NMap indef data al pairs))).
      { cbn [kids]. apply in_flat_map. exists (ka, Some va). split; [exact Hin|left; reflexivity]. }
      assert (Iv : In va (kids (NMap indef data al pairs))).
      { cbn [kids]. apply in_flat_map. exists (ka, Some va). split; [exact Hin|right; left; reflexivity]. }
      destruct (Kid ka kt w' Ik Tk Hq) as (w2 & E2 & Q2). bstep E2.
      destruct (Kid va vt w2 Iv Tv Q2) as (w3 & E3 & Q3). bstep E3.
      eexists. split; [reflexivity|exact Q3]. }
    destruct pairs as [|p0 ps].
    + cbn [map seqo option_map] in Nt. inversion Nt; subst. rewrite bind_ret_l. cbn [mapM]. rewrite bind_ret_l.
      eexists. split; [reflexivity|exact Qa].
    + destruct data as [d|]; [|discriminate].
      destruct (Touch d wa (or_introl eq_refl) Qa) as (w2 & E2 & Q2). bstep E2.
      destruct (seqo (map (pair_of T) (p0 :: ps))) as [r|] eqn:Es; [|discriminate]. cbn [option_map] in Nt.
      inversion Nt; subst. destruct (Hel r eq_refl w2 Q2) as (w3 & E3 & Q3). bstep E3.
      eexists. split; [reflexivity|exact Q3].
  - (* tag *)
    destruct child as [c|]; [|discriminate]. destruct (T c) as [x|] eqn:Tc; [|discriminate]. cbn [option_map] in Nt.
    inversion Nt; subst. destruct (Kid c x wa (or_introl eq_refl) Tc Qa) as (w2 & E2 & Q2). bstep E2.
    eexists. split; [reflexivity|exact Q2].
Qed.

End Refine.

(* 13. (D') the simulation read for an arbitrary allocator (load_h_refines_fuel / _any, load_h_ok_is_load_any,
   load_h_ok_abs_any), and its special case
   (D) refinement: with an allocator that grants every request, a limit [cap] of the pure model that
   no size_t request can exceed, and a buffer shorter than 2^57 bytes (so that no growth guard of
   _cbor_realloc_multiple can fire), cbor_load over the heap returns exactly what PBuild.load
   returns: the same error code, position and read count, or an item whose abstraction [abs_of]
   is the tree of the pure model *)
Section MainD.
Variables (L cap : N) (own ownd : addr -> N).

(* the general form: ANY allocator, any input shorter than SIZE_MAX.  Either the two sides agree, or the H side
   alone has reported a memory error - which needs a request refused by the oracle, or a growth stopped by
   the overflow guards (2^57 items at least).  In particular a successful cbor_load has built, whatever was
   refused before or elsewhere, exactly the tree of the pure model. *)
Lemma load_h_refines_fuel : forall refuse buf w,
  SIZE_MAX <= cap -> bytes_ok buf -> len buf < SIZE_MAX -> wf w -> Inv own ownd [] w ->
  exists r w', load_h refuse L buf w = Ret r w' /\
    (match load L cap buf with
     | LOk t n => exists a, r = (Some a, ENone, 0, n) /\
                    forall fuel, (N.to_nat (next w' - a) <= fuel)%nat -> exists w'', abs fuel a w' = Ret t w''
     | LErr code p q => r = (None, code, p, q)
     | LFault => False
     end \/
     (((exists i s, refuse i s = true) \/ 2 ^ 57 <= len buf) /\ exists p q, r = (None, EMem, p, q))).
Proof. intros refuse buf w Hcap Hb Hlen _ I. unfold load, load_h.
  destruct (len buf =? 0); [eexists; eexists; split; [reflexivity|left; reflexivity]|].
  pose proof (LI_init refuse L w own ownd I) as H.
  assert (HS : SIMS 0 w [] []).
  { exists (fun _ => None). split; [intros x t Hx; discriminate|constructor]. }
  destruct (hload_loop_sim refuse L cap w own ownd (S (length buf)) buf 0 [] [] w 0 Hcap Hb Hlen
              ltac:(lia) ltac:(lia) ltac:(lia) H HS) as (r & w' & E & [R|R]).
  2:{ exists r, w'. split; [exact E|right; exact R]. }
  exists r, w'. split; [exact E|]. left.
  destruct (load_loop L cap (S (length buf)) buf 0 []) as [|t n|code p q].
  - exact R.
  - destruct R as (a & -> & HL & (T & C & Ta)). destruct HL as (I' & Gw & _ & _ & Fa).
    pose proof (Forall_inv Fa) as Ha. cbn beta in Ha.
    exists a. split; [reflexivity|]. intros fuel Hfu.
    destruct (abs_tree refuse L cap w own ownd T _ _ w' I' Gw C fuel a t w' eq_refl Ta Ha Hfu) as (w'' & E2 & _).
    exists w''. exact E2.
  - apply R.
Qed.

(* the general form: ANY allocator, any input shorter than SIZE_MAX.  Either the two sides agree, or the H side
   alone has reported a memory error - which needs a request refused by the oracle, or a growth stopped by
   the overflow guards (2^57 items at least).  In particular a successful cbor_load has built, whatever was
   refused before or elsewhere, exactly the tree of the pure model. *)
Theorem load_h_refines_any : forall refuse buf w,
  SIZE_MAX <= cap -> bytes_ok buf -> len buf < SIZE_MAX -> wf w -> Inv own ownd [] w ->
  exists r w', load_h refuse L buf w = Ret r w' /\
    (match load L cap buf with
     | LOk t n => exists a w'', r = (Some a, ENone, 0, n) /\ abs_of a w' = Ret t w''
     | LErr code p q => r = (None, code, p, q)
     | LFault => False
     end \/
     (((exists i s, refuse i s = true) \/ 2 ^ 57 <= len buf) /\ exists p q, r = (None, EMem, p, q))).
Proof. intros refuse buf w Hcap Hb Hlen Hwf I.
  destruct (load_h_refines_fuel refuse buf w Hcap Hb Hlen Hwf I) as (r & w' & E & [R|R]).
  2:{ exists r, w'. split; [exact E|right; exact R]. }
  exists r, w'. split; [exact E|]. left.
  destruct (load L cap buf) as [|t n|code p q]; [exact R| |exact R].
  destruct R as (a & -> & Hf). destruct (Hf (abs_fuel w')) as (w'' & E2); [unfold abs_fuel; lia|].
  exists a, w''. split; [reflexivity|exact E2].
Qed.

(* ... and the traversal of the decoded item succeeds with any recursion budget that covers the cells
   allocated after the root (the item's children are always younger than the item) *)
Corollary load_h_ok_abs_any : forall refuse buf w a c p r w',
  SIZE_MAX <= cap -> bytes_ok buf -> len buf < SIZE_MAX -> wf w -> Inv own ownd [] w ->
  load_h refuse L buf w = Ret (Some a, c, p, r) w' ->
  exists t, load L cap buf = LOk t r /\ c = ENone /\ p = 0 /\
    forall fuel, (N.to_nat (next w' - a) <= fuel)%nat -> exists w'', abs fuel a w' = Ret t w''.
Proof. intros refuse buf w a c p r w' Hcap Hb Hlen Hwf I E.
  destruct (load_h_refines_fuel refuse buf w Hcap Hb Hlen Hwf I) as (r0 & w1 & E1 & [R|(_ & p0 & q0 & R)]).
  - rewrite E1 in E. inversion E; subst r0 w1. clear E.
    destruct (load L cap buf) as [|t n|code p1 q1].
    + destruct R.
    + destruct R as (a0 & R' & Hf). inversion R'; subst. exists t. repeat split; try reflexivity. exact Hf.
    + discriminate R.
  - rewrite E1, R in E. discriminate E.
Qed.

(* what a successful cbor_load has built, under any allocator *)
Corollary load_h_ok_is_load_any : forall refuse buf w a c p r w',
  SIZE_MAX <= cap -> bytes_ok buf -> len buf < SIZE_MAX -> wf w -> Inv own ownd [] w ->
  load_h refuse L buf w = Ret (Some a, c, p, r) w' ->
  exists t w'', load L cap buf = LOk t r /\ abs_of a w' = Ret t w'' /\ c = ENone /\ p = 0.
Proof. intros refuse buf w a c p r w' Hcap Hb Hlen Hwf I E.
  destruct (load_h_refines_any refuse buf w Hcap Hb Hlen Hwf I) as (r0 & w1 & E1 & [R|(_ & p0 & q0 & R)]).
  - rewrite E1 in E. inversion E; subst r0 w1. clear E.
    destruct (load L cap buf) as [|t n|code p1 q1].
    + destruct R.
    + destruct R as (a0 & w2 & R' & E2). inversion R'; subst. exists t, w2. repeat split; assumption.
    + discriminate R.
  - rewrite E1, R in E. discriminate E.
Qed.

Theorem load_h_refines : forall buf w,
  SIZE_MAX <= cap -> bytes_ok buf -> len buf < 2 ^ 57 -> wf w -> Inv own ownd [] w ->
  match load L cap buf with
  | LOk t n => exists a w' w'', load_h grant L buf w = Ret (Some a, ENone, 0, n) w' /\ abs_of a w' = Ret t w''
  | LErr code p q => exists w', load_h grant L buf w = Ret (None, code, p, q) w'
  | LFault => False
  end.
Proof. intros buf w Hcap Hb Hlen Hwf I.
  assert (P57 : 2 ^ 57 < SIZE_MAX) by (unfold SIZE_MAX; change (2 ^ 57) with 144115188075855872; lia).
  destruct (load_h_refines_any grant buf w Hcap Hb ltac:(lia) Hwf I) as (r & w' & E & [R|([(i & s & X)|X] & _)]).
  - destruct (load L cap buf) as [|t n|code p q].
    + exact R.
    + destruct R as (a & w'' & -> & E2). exists a, w', w''. split; assumption.
    + subst r. exists w'. exact E.
  - discriminate X.
  - lia.
Qed.

(* the two directions, read from the heap side *)
Corollary load_h_ok_is_load : forall buf w a c p r w',
  SIZE_MAX <= cap -> bytes_ok buf -> len buf < 2 ^ 57 -> wf w -> Inv own ownd [] w ->
  load_h grant L buf w = Ret (Some a, c, p, r) w' ->
  exists t w'', load L cap buf = LOk t r /\ abs_of a w' = Ret t w'' /\ c = ENone /\ p = 0.
Proof. intros buf w a c p r w' Hcap Hb Hlen Hwf I E.
  pose proof (load_h_refines buf w Hcap Hb Hlen Hwf I) as R.
  destruct (load L cap buf) as [|t n|code p0 q].
  - destruct R.
  - destruct R as (a0 & w1 & w2 & E1 & E2). rewrite E1 in E. inversion E; subst.
    exists t, w2. split; [reflexivity|]. split; [exact E2|]. split; reflexivity.
  - destruct R as (w1 & E1). rewrite E1 in E. discriminate. Qed.

Corollary load_h_err_is_load : forall buf w c p r w',
  SIZE_MAX <= cap -> bytes_ok buf -> len buf < 2 ^ 57 -> wf w -> Inv own ownd [] w ->
  load_h grant L buf w = Ret (None, c, p, r) w' -> load L cap buf = LErr c p r.
Proof. intros buf w c p r w' Hcap Hb Hlen Hwf I E.
  pose proof (load_h_refines buf w Hcap Hb Hlen Hwf I) as R.
  destruct (load L cap buf) as [|t n|code p0 q].
  - destruct R.
  - destruct R as (a0 & w1 & w2 & E1 & E2). rewrite E1 in E. discriminate.
  - destruct R as (w1 & E1). rewrite E1 in E. inversion E; subst. reflexivity. Qed.

End MainD.

(* ------------------------------------------------------------------------------------------ *)
(* 14. sanity checks by computation                                                            *)
(* ------------------------------------------------------------------------------------------ *)

Definition live_cells (w : world) : list addr :=
  filter (fun a => match heap w a with Some _ => true | None => false end) (map N.of_nat (seq 0 (N.to_nat (next w)))).

(* [2-array [1, tag 1 (text "a")]]: accepted; 6 live cells, all reachable from the root 1 *)
Example ex_load_ok :
  match load_h grant 2048 [0x82; 0x01; 0xC1; 0x61; 0x61] world0 with
  | Ret (Some a, ENone, 0, 5) w => a = 1 /\ live_cells w = [1; 2; 4; 5; 7; 8] /\
      match abs_of a w with Ret t _ => t = IArray false [IUint I8 1; ITag 1 (IText [97])] | Fault _ => False end
  | _ => False
  end.
Proof. vm_compute. repeat split. Qed.

(* the same input when the 4th / 6th request is refused: EMem and nothing left *)
Example ex_load_refused :
  match load_h (fun idx _ => idx =? 3) 2048 [0x82; 0x01; 0xC1; 0x61; 0x61] world0,
        load_h (fun idx _ => idx =? 5) 2048 [0x82; 0x01; 0xC1; 0x61; 0x61] world0 with
  | Ret (None, EMem, 2, 2) w1, Ret (None, EMem, 3, 3) w2 => live_cells w1 = [] /\ live_cells w2 = []
  | _, _ => False
  end.
Proof. vm_compute. repeat split. Qed.

(* malformed / truncated / too deep inputs *)
Example ex_load_errors :
  match load_h grant 2048 [0xBF; 0x01; 0xFF] world0,
        load_h grant 2048 [0xA1; 0x01] world0,
        load_h grant 2 [0x81; 0x81; 0x81; 0x01] world0 with
  | Ret (None, ESyntax, 3, 3) w1, Ret (None, ENotEnough, 2, 2) w2, Ret (None, EMem, 3, 3) w3 =>
      live_cells w1 = [] /\ live_cells w2 = [] /\ live_cells w3 = []
  | _, _, _ => False
  end.
Proof. vm_compute. repeat split. Qed.

(* why (D) is stated for the granting allocator: the pure model refuses only the requests whose
   size is declared by the input (PBuild.v), so under a size-cap allocator a refused growth of an
   indefinite array (here realloc(8 * 16) with cap = 100) is an error in H and not in P *)
Example ex_growth_refused_only_in_H :
  let buf := 0x9F :: repeat 0x01 17 ++ [0xFF] in
  (exists t, load 2048 100 buf = LOk t 19) /\
  exists w, load_h (fun _ size => 100 <? size) 2048 buf world0 = Ret (None, EMem, 10, 10) w.
Proof. split; [eexists; vm_compute; reflexivity|eexists; vm_compute; reflexivity]. Qed.

Print Assumptions load_h_never_faults.
Print Assumptions load_h_clean_failure.
Print Assumptions load_h_success.
Print Assumptions load_h_success_order.
Print Assumptions load_h_refines.
Print Assumptions load_h_refines_any.
Print Assumptions load_h_ok_is_load_any.
Print Assumptions load_h_ok_abs_any.
Print Assumptions load_h_ok_is_load.
Print Assumptions load_h_err_is_load.
