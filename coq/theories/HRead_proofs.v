(* Model H: read-only operations.
   C18 — serialization / size computation never store into the items they inspect, at any
         instant (the access log records every store, so a store undone later would still show);
   C13 — ... and make no allocator request;
   C17 — every cell they read is reachable from their argument, and their result depends only on
         those cells (frame property). *)
From CB Require Import Word Word_proofs HHeap HItems HOps PItem.
From CB Require Import HHist.
From Coq Require Import List NArith Lia.
Import ListNotations.
Local Open Scope N_scope.

(* ------------------------------------------------------------------------------------------ *)
(* 1. the predicate                                                                           *)
(* ------------------------------------------------------------------------------------------ *)

(* [w'] is [w] plus some logged reads: same heap, same bump pointer, same request count, same
   allocator trace; the access log grew by reads only *)
Definition ro_rel (w w' : world) : Prop :=
  heap w' = heap w /\ next w' = next w /\ nreq w' = nreq w /\ trace w' = trace w /\
  exists reads, alog w' = reads ++ alog w /\ Forall (fun x => exists b, x = AccR b) reads.

Definition readonly {A} (m : M A) : Prop :=
  forall w a w', m w = Ret a w' -> ro_rel w w'.

(* refinement: all the reads fall inside [P] *)
Definition ro_rel_in (P : addr -> Prop) (w w' : world) : Prop :=
  heap w' = heap w /\ next w' = next w /\ nreq w' = nreq w /\ trace w' = trace w /\
  exists reads, alog w' = reads ++ alog w /\ Forall (fun x => exists b, x = AccR b /\ P b) reads.

(* ... when started on heap [h] (which, being read-only, the computation keeps) *)
Definition roP (h : addr -> option cell) (P : addr -> Prop) {A} (m : M A) : Prop :=
  forall w a w', heap w = h -> m w = Ret a w' -> ro_rel_in P w w'.

Lemma ro_rel_in_refl P w : ro_rel_in P w w.
Proof. repeat split. exists []. split; [reflexivity|constructor]. Qed.

Lemma ro_rel_in_trans P w w1 w2 : ro_rel_in P w w1 -> ro_rel_in P w1 w2 -> ro_rel_in P w w2.
Proof.
  intros (A1 & A2 & A3 & A4 & r1 & A5 & A6) (B1 & B2 & B3 & B4 & r2 & B5 & B6).
  repeat split; try congruence.
  exists (r2 ++ r1). split.
  - rewrite B5, A5. apply app_assoc.
  - apply Forall_app. split; assumption.
Qed.

Lemma ro_rel_in_weaken (P Q : addr -> Prop) w w' :
  (forall b, P b -> Q b) -> ro_rel_in P w w' -> ro_rel_in Q w w'.
Proof.
  intros PQ (A1 & A2 & A3 & A4 & r & A5 & A6). repeat split; try assumption.
  exists r. split; [assumption|].
  eapply Forall_impl; [|exact A6]. intros x (b & -> & Pb). exists b. auto.
Qed.

Lemma ro_rel_in_ro_rel P w w' : ro_rel_in P w w' -> ro_rel w w'.
Proof.
  intros (A1 & A2 & A3 & A4 & r & A5 & A6). repeat split; try assumption.
  exists r. split; [assumption|].
  eapply Forall_impl; [|exact A6]. intros x (b & -> & _). exists b. reflexivity.
Qed.

Lemma ro_rel_ro_rel_in w w' : ro_rel w w' -> ro_rel_in (fun _ => True) w w'.
Proof.
  intros (A1 & A2 & A3 & A4 & r & A5 & A6). repeat split; try assumption.
  exists r. split; [assumption|].
  eapply Forall_impl; [|exact A6]. intros x (b & ->). exists b. auto.
Qed.

Lemma readonly_roP {A} (m : M A) : readonly m <-> forall h, roP h (fun _ => True) m.
Proof.
  split.
  - intros R h w a w' _ E. apply ro_rel_ro_rel_in. eapply R; eassumption.
  - intros R w a w' E. eapply ro_rel_in_ro_rel. eapply (R (heap w)); [reflexivity|eassumption].
Qed.

Lemma roP_readonly {A} (m : M A) : (forall h, exists P, roP h P m) -> readonly m.
Proof.
  intros R w a w' E. destruct (R (heap w)) as [P RP].
  eapply ro_rel_in_ro_rel. eapply RP; [reflexivity|eassumption].
Qed.

(* --- closure of [roP] --- *)
Lemma roP_weaken h (P Q : addr -> Prop) {A} (m : M A) :
  (forall b, P b -> Q b) -> roP h P m -> roP h Q m.
Proof. intros PQ R w a w' Hh E. eapply ro_rel_in_weaken; [exact PQ|]. eapply R; eassumption. Qed.

Lemma roP_ret h P {A} (x : A) : roP h P (ret x).
Proof. intros w a w' _ E. unfold ret in E. inversion E; subst. apply ro_rel_in_refl. Qed.

Lemma roP_fail h P {A} k : roP h P (@fail A k).
Proof. intros w a w' _ E. discriminate E. Qed.

Lemma roP_bind h P {A B} (m : M A) (f : A -> M B) :
  roP h P m -> (forall a, roP h P (f a)) -> roP h P (bind m f).
Proof.
  intros Hm Hf w b w' Hh E. unfold bind in E.
  destruct (m w) as [a w1|k] eqn:E1; [|discriminate E].
  pose proof (Hm _ _ _ Hh E1) as R1.
  assert (Hh1 : heap w1 = h) by (destruct R1 as [R _]; congruence).
  eapply ro_rel_in_trans; [exact R1|]. eapply Hf; eassumption.
Qed.

Lemma roP_rd h (P : addr -> Prop) a : P a -> roP h P (rd_item a).
Proof.
  intros Pa w c w' _ E. unfold rd_item in E.
  destruct (heap w a) as [[rc n|sz]|]; try discriminate E.
  inversion E; subst; clear E. repeat split. exists [AccR a]. split; [reflexivity|].
  constructor; [|constructor]. exists a. auto.
Qed.

(* the continuation may use what was read *)
Lemma roP_rd_bind h (P : addr -> Prop) a {B} (f : N * node -> M B) :
  P a -> (forall rc n, h a = Some (CItem rc n) -> roP h P (f (rc, n))) ->
  roP h P (bind (rd_item a) f).
Proof.
  intros Pa Hf w b w' Hh E. unfold bind in E.
  destruct (rd_item a w) as [c w1|k] eqn:E1; [|discriminate E].
  pose proof (roP_rd h P a Pa _ _ _ Hh E1) as R1.
  eapply ro_rel_in_trans; [exact R1|].
  unfold rd_item in E1. destruct (heap w a) as [[rc n|sz]|] eqn:Ha; try discriminate E1.
  inversion E1; subst c w1; clear E1.
  eapply (Hf rc n); [congruence| |exact E]. exact Hh.
Qed.

Lemma roP_touch h (P : addr -> Prop) p :
  (forall d, p = Some d -> P d) -> roP h P (touch_data false p).
Proof.
  intros Pd w c w' _ E. unfold touch_data in E.
  destruct p as [d|]; [|discriminate E].
  destruct (heap w d) as [[rc n|sz]|]; try discriminate E.
  inversion E; subst; clear E. repeat split. exists [AccR d]. split; [reflexivity|].
  constructor; [|constructor]. exists d. auto.
Qed.

Lemma roP_assert h P id b : roP h P (assert_ id b).
Proof. destruct b; [apply roP_ret|apply roP_fail]. Qed.

Lemma roP_if h P {A} (b : bool) (m1 m2 : M A) :
  roP h P m1 -> roP h P m2 -> roP h P (if b then m1 else m2).
Proof. destruct b; auto. Qed.

Lemma roP_mapM h P {A B} (f : A -> M B) (l : list A) :
  (forall x, In x l -> roP h P (f x)) -> roP h P (mapM f l).
Proof.
  induction l as [|x r IH]; intros Hf; cbn [mapM].
  - apply roP_ret.
  - apply roP_bind; [apply Hf; left; reflexivity|]. intros y.
    apply roP_bind; [apply IH; intros z Hz; apply Hf; right; exact Hz|]. intros ys.
    apply roP_ret.
Qed.

(* --- closure of [readonly] --- *)
Lemma readonly_ret {A} (x : A) : readonly (ret x).
Proof. apply readonly_roP. intros h. apply roP_ret. Qed.

Lemma readonly_fail {A} k : readonly (@fail A k).
Proof. apply readonly_roP. intros h. apply roP_fail. Qed.

Lemma readonly_bind {A B} (m : M A) (f : A -> M B) :
  readonly m -> (forall a, readonly (f a)) -> readonly (bind m f).
Proof.
  intros Hm Hf. apply readonly_roP. intros h. apply roP_bind.
  - apply readonly_roP. exact Hm.
  - intros a. apply readonly_roP. apply Hf.
Qed.

Lemma readonly_mapM {A B} (f : A -> M B) (l : list A) :
  (forall x, In x l -> readonly (f x)) -> readonly (mapM f l).
Proof.
  intros Hf. apply readonly_roP. intros h. apply roP_mapM.
  intros x Hx. apply readonly_roP. apply Hf. exact Hx.
Qed.

Lemma readonly_rd_item a : readonly (rd_item a).
Proof. apply readonly_roP. intros h. apply roP_rd. exact I. Qed.

Lemma readonly_touch_data p : readonly (touch_data false p).
Proof. apply readonly_roP. intros h. apply roP_touch. auto. Qed.

Lemma readonly_assert id b : readonly (assert_ id b).
Proof. apply readonly_roP. intros h. apply roP_assert. Qed.

Lemma readonly_if {A} (b : bool) (m1 m2 : M A) :
  readonly m1 -> readonly m2 -> readonly (if b then m1 else m2).
Proof. destruct b; auto. Qed.

(* ------------------------------------------------------------------------------------------ *)
(* 3a. reachability                                                                           *)
(* ------------------------------------------------------------------------------------------ *)

(* the items an item refers to *)
Definition node_kids (n : node) : list addr :=
  match n with
  | NChunked _ _ _ _ chunks => chunks
  | NArr _ _ _ elems => elems
  | NMap _ _ _ pairs =>
      flat_map (fun kv => fst kv :: match snd kv with Some v => [v] | None => [] end) pairs
  | NTag _ (Some c) => [c]
  | _ => []
  end.

(* the data blocks an item owns *)
Definition opt_list (o : option addr) : list addr := match o with Some d => [d] | None => [] end.
Definition node_blocks (n : node) : list addr :=
  match n with
  | NStr _ data _ => opt_list data
  | NChunked _ hdr arr _ _ => hdr :: opt_list arr
  | NArr _ data _ _ => opt_list data
  | NMap _ data _ _ => opt_list data
  | _ => []
  end.

Inductive reachh (h : addr -> option cell) (a : addr) : addr -> Prop :=
| reach_self : reachh h a a
| reach_kid b rc n c :
    reachh h a b -> h b = Some (CItem rc n) -> In c (node_kids n) -> reachh h a c
| reach_block b rc n d :
    reachh h a b -> h b = Some (CItem rc n) -> In d (node_blocks n) -> reachh h a d.

Definition reach (w : world) (a b : addr) : Prop := reachh (heap w) a b.

Lemma reach_step h a rc n c b :
  h a = Some (CItem rc n) -> In c (node_kids n) -> reachh h c b -> reachh h a b.
Proof.
  intros Ha Hc R. induction R as [|b rc' n' c' R IH Hb Hc'|b rc' n' d R IH Hb Hd].
  - eapply reach_kid; [apply reach_self|exact Ha|exact Hc].
  - eapply reach_kid; eassumption.
  - eapply reach_block; eassumption.
Qed.

Lemma reach_trans h a b c : reachh h a b -> reachh h b c -> reachh h a c.
Proof.
  intros R1 R2. induction R2 as [|x rc n y R IH Hx Hy|x rc n y R IH Hx Hy].
  - exact R1.
  - eapply reach_kid; eassumption.
  - eapply reach_block; eassumption.
Qed.

Lemma in_opt_list d : In d (opt_list (Some d)).
Proof. left. reflexivity. Qed.

(* ------------------------------------------------------------------------------------------ *)
(* 1 + 3b. [chunk_bytes] and [abs]: read-only, within the reachable cells                     *)
(* ------------------------------------------------------------------------------------------ *)

Lemma chunk_bytes_roP h tx a : roP h (reachh h a) (chunk_bytes tx a).
Proof.
  unfold chunk_bytes. apply roP_rd_bind; [apply reach_self|].
  intros rc n Hn. cbn [snd].
  destruct n as [neg w v|w b|v|text data bytes|text hdr arr cap chunks|indef data al elems
                |indef data al pairs|v child]; try apply roP_fail.
  - destruct (Bool.eqb text tx); [|apply roP_fail].
    apply roP_bind; [|intros _; apply roP_ret].
    apply roP_if; [apply roP_ret|]. apply roP_touch. intros d ->.
    eapply reach_block; [apply reach_self|exact Hn|apply in_opt_list].
  - destruct (Bool.eqb text tx); apply roP_fail.
Qed.

Lemma abs_roP h : forall fuel a, roP h (reachh h a) (abs fuel a).
Proof.
  induction fuel as [|f IH]; intros a.
  - apply roP_fail.
  - cbn [abs]. apply roP_rd_bind; [apply reach_self|].
    intros rc n Hn. cbn [snd].
    assert (Hk : forall c, In c (node_kids n) -> forall b, reachh h c b -> reachh h a b).
    { intros c Hc b Hb. eapply reach_step; eassumption. }
    assert (Hb : forall d, In d (node_blocks n) -> reachh h a d).
    { intros d Hd. eapply reach_block; [apply reach_self|exact Hn|exact Hd]. }
    destruct n as [neg w v|w b|v|text data bytes|text hdr arr cap chunks|indef data al elems
                  |indef data al pairs|v child]; cbn [node_kids node_blocks] in Hk, Hb.
    + apply roP_ret.
    + apply roP_ret.
    + apply roP_ret.
    + apply roP_bind; [|intros _; apply roP_ret].
      apply roP_if; [apply roP_ret|]. apply roP_touch. intros d ->. apply Hb, in_opt_list.
    + apply roP_bind; [apply roP_touch; intros d Hd; inversion Hd; subst; apply Hb; left; reflexivity|].
      intros _. apply roP_bind.
      { destruct chunks; [apply roP_ret|]. apply roP_touch. intros d ->.
        apply Hb. right. apply in_opt_list. }
      intros _. apply roP_bind; [|intros cs; apply roP_ret].
      apply roP_mapM. intros c Hc. eapply roP_weaken; [apply (Hk c Hc)|apply chunk_bytes_roP].
    + apply roP_bind.
      { destruct elems; [apply roP_ret|]. apply roP_touch. intros d ->. apply Hb, in_opt_list. }
      intros _. apply roP_bind; [|intros xs; apply roP_ret].
      apply roP_mapM. intros c Hc. eapply roP_weaken; [apply (Hk c Hc)|apply IH].
    + apply roP_bind.
      { destruct pairs; [apply roP_ret|]. apply roP_touch. intros d ->. apply Hb, in_opt_list. }
      intros _. apply roP_bind; [|intros xs; apply roP_ret].
      apply roP_mapM. intros [k ov] Hkv. cbn [fst snd].
      apply roP_bind.
      { eapply roP_weaken; [|apply IH]. apply Hk. apply in_flat_map.
        exists (k, ov). split; [exact Hkv|left; reflexivity]. }
      intros k'. destruct ov as [v|]; [|apply roP_fail].
      apply roP_bind; [|intros v'; apply roP_ret].
      eapply roP_weaken; [|apply IH]. apply Hk. apply in_flat_map.
      exists (k, Some v). split; [exact Hkv|right; left; reflexivity].
    + destruct child as [x|]; [|apply roP_fail].
      apply roP_bind; [|intros x'; apply roP_ret].
      eapply roP_weaken; [|apply IH]. apply Hk. left. reflexivity.
Qed.

Lemma chunk_bytes_readonly tx a : readonly (chunk_bytes tx a).
Proof. apply roP_readonly. intros h. eexists. apply chunk_bytes_roP. Qed.

Lemma abs_readonly_pred fuel a : readonly (abs fuel a).
Proof. apply roP_readonly. intros h. eexists. apply abs_roP. Qed.

(* C18 / C13 for the traversal itself *)
Theorem abs_readonly : forall fuel a w t w',
  abs fuel a w = Ret t w' ->
  heap w' = heap w /\ next w' = next w /\ nreq w' = nreq w /\ trace w' = trace w /\
  (exists reads, alog w' = reads ++ alog w /\ Forall (fun x => exists b, x = AccR b) reads).
Proof. intros fuel a w t w' E. exact (abs_readonly_pred fuel a w t w' E). Qed.

(* C17, footprint: whatever was appended to the log is a read of a cell reachable from [a] *)
Theorem abs_footprint : forall fuel a w t w',
  abs fuel a w = Ret t w' ->
  forall reads, alog w' = reads ++ alog w ->
  forall b, In (AccR b) reads -> reach w a b.
Proof.
  intros fuel a w t w' E reads Hr b Hb.
  destruct (abs_roP (heap w) fuel a w t w' eq_refl E) as (_ & _ & _ & _ & r & Hr' & F).
  assert (r = reads) by (eapply app_inv_tail; rewrite <- Hr, <- Hr'; reflexivity). subst r.
  rewrite Forall_forall in F. destruct (F _ Hb) as (b' & Eb & Rb). inversion Eb; subst b'.
  exact Rb.
Qed.

(* both at once *)
Theorem abs_reads_reachable : forall fuel a w t w',
  abs fuel a w = Ret t w' ->
  exists reads, alog w' = reads ++ alog w /\
                Forall (fun x => exists b, x = AccR b /\ reach w a b) reads.
Proof.
  intros fuel a w t w' E.
  destruct (abs_roP (heap w) fuel a w t w' eq_refl E) as (_ & _ & _ & _ & r & Hr' & F).
  exists r. split; assumption.
Qed.

(* ------------------------------------------------------------------------------------------ *)
(* 2. serialization                                                                           *)
(* ------------------------------------------------------------------------------------------ *)

Lemma abs_of_readonly a : readonly (abs_of a).
Proof. intros w t w' E. unfold abs_of in E. eapply abs_readonly_pred. exact E. Qed.

Lemma serialized_size_readonly_pred a : readonly (serialized_size_h a).
Proof.
  unfold serialized_size_h. apply readonly_bind; [apply abs_of_readonly|].
  intros t. apply readonly_ret.
Qed.

Lemma serialize_readonly_pred a n : readonly (serialize_h a n).
Proof.
  unfold serialize_h. apply readonly_bind; [apply abs_of_readonly|].
  intros t. apply readonly_ret.
Qed.

Theorem serialized_size_readonly : forall a w r w',
  serialized_size_h a w = Ret r w' ->
  heap w' = heap w /\ next w' = next w /\ nreq w' = nreq w /\ trace w' = trace w /\
  (exists reads, alog w' = reads ++ alog w /\ Forall (fun x => exists b, x = AccR b) reads).
Proof. intros a w r w' E. exact (serialized_size_readonly_pred a w r w' E). Qed.

Theorem serialize_readonly : forall a n w r w',
  serialize_h a n w = Ret r w' ->
  heap w' = heap w /\ next w' = next w /\ nreq w' = nreq w /\ trace w' = trace w /\
  (exists reads, alog w' = reads ++ alog w /\ Forall (fun x => exists b, x = AccR b) reads).
Proof. intros a n w r w' E. exact (serialize_readonly_pred a n w r w' E). Qed.

Lemma ro_rel_no_writes w w' :
  ro_rel w w' -> forall b, In (AccW b) (alog w') -> In (AccW b) (alog w).
Proof.
  intros (_ & _ & _ & _ & r & Hr & F) b Hb. rewrite Hr in Hb.
  apply in_app_or in Hb. destruct Hb as [Hb|Hb]; [|exact Hb].
  rewrite Forall_forall in F. destruct (F _ Hb) as (c & Ec). discriminate Ec.
Qed.

(* C18: every store in the log after the call was already in the log before it *)
Theorem C18_no_writes : forall a n w r w',
  serialize_h a n w = Ret r w' ->
  forall b, In (AccW b) (alog w') -> In (AccW b) (alog w).
Proof. intros a n w r w' E. eapply ro_rel_no_writes, serialize_readonly_pred, E. Qed.

Theorem C18_no_writes_size : forall a w r w',
  serialized_size_h a w = Ret r w' ->
  forall b, In (AccW b) (alog w') -> In (AccW b) (alog w).
Proof. intros a w r w' E. eapply ro_rel_no_writes, serialized_size_readonly_pred, E. Qed.

Theorem C18_no_writes_abs : forall fuel a w t w',
  abs fuel a w = Ret t w' ->
  forall b, In (AccW b) (alog w') -> In (AccW b) (alog w).
Proof. intros fuel a w t w' E. eapply ro_rel_no_writes, abs_readonly_pred, E. Qed.

(* ... and the heap is the same function, so in particular every item is unchanged *)
Theorem C18_heap_unchanged : forall a n w r w',
  serialize_h a n w = Ret r w' -> forall b, heap w' b = heap w b.
Proof. intros a n w r w' E b. destruct (serialize_readonly _ _ _ _ _ E) as [H _]. rewrite H. reflexivity. Qed.

(* C13, "allocates nothing": no allocator event, no request *)
Theorem C13_no_requests : forall a n w r w',
  serialize_h a n w = Ret r w' -> trace w' = trace w /\ nreq w' = nreq w.
Proof.
  intros a n w r w' E. destruct (serialize_readonly _ _ _ _ _ E) as (_ & _ & H3 & H4 & _). auto.
Qed.

Theorem C13_no_requests_size : forall a w r w',
  serialized_size_h a w = Ret r w' -> trace w' = trace w /\ nreq w' = nreq w.
Proof.
  intros a w r w' E. destruct (serialized_size_readonly _ _ _ _ E) as (_ & _ & H3 & H4 & _). auto.
Qed.

(* footprint of the serializer *)
Theorem serialize_footprint : forall a n w r w',
  serialize_h a n w = Ret r w' ->
  forall reads, alog w' = reads ++ alog w ->
  forall b, In (AccR b) reads -> reach w a b.
Proof.
  intros a n w r w' E reads Hr b Hb. unfold serialize_h, bind, abs_of in E.
  destruct (abs (abs_fuel w) a w) as [t w1|k] eqn:E1; [|discriminate E].
  unfold ret in E. inversion E; subst; clear E.
  eapply abs_footprint; eassumption.
Qed.

(* ------------------------------------------------------------------------------------------ *)
(* 3c. frame                                                                                  *)
(* ------------------------------------------------------------------------------------------ *)

(* started on heap [h1] and returning, [m] returns the same value when started on heap [h2] *)
Definition frame (h1 h2 : addr -> option cell) {A} (m : M A) : Prop :=
  forall w1 a w1', heap w1 = h1 -> m w1 = Ret a w1' ->
    heap w1' = h1 /\
    forall w2, heap w2 = h2 -> exists w2', m w2 = Ret a w2' /\ heap w2' = h2.

Lemma frame_ret h1 h2 {A} (x : A) : frame h1 h2 (ret x).
Proof.
  intros w1 a w1' H1 E. unfold ret in E. inversion E; subst. split; [reflexivity|].
  intros w2 H2. exists w2. split; [reflexivity|exact H2].
Qed.

Lemma frame_fail h1 h2 {A} k : frame h1 h2 (@fail A k).
Proof. intros w1 a w1' _ E. discriminate E. Qed.

Lemma frame_bind h1 h2 {A B} (m : M A) (f : A -> M B) :
  frame h1 h2 m -> (forall a, frame h1 h2 (f a)) -> frame h1 h2 (bind m f).
Proof.
  intros Hm Hf w1 b w1' H1 E. unfold bind in E.
  destruct (m w1) as [a w1a|k] eqn:E1; [|discriminate E].
  destruct (Hm _ _ _ H1 E1) as [H1a K1].
  destruct (Hf a _ _ _ H1a E) as [H1b K2].
  split; [exact H1b|]. intros w2 H2.
  destruct (K1 w2 H2) as (w2a & E2 & H2a).
  destruct (K2 w2a H2a) as (w2' & E2' & H2').
  exists w2'. split; [|exact H2']. unfold bind. rewrite E2. exact E2'.
Qed.

Lemma frame_rd_bind h1 h2 a {B} (f : N * node -> M B) :
  h1 a = h2 a ->
  (forall rc n, h1 a = Some (CItem rc n) -> frame h1 h2 (f (rc, n))) ->
  frame h1 h2 (bind (rd_item a) f).
Proof.
  intros Ha Hf w1 b w1' H1 E. unfold bind, rd_item in E.
  destruct (heap w1 a) as [[rc n|sz]|] eqn:Hc; try discriminate E.
  assert (Hc1 : h1 a = Some (CItem rc n)) by (rewrite <- H1; exact Hc).
  match type of E with f _ ?w = _ => destruct (Hf rc n Hc1 w b w1' H1 E) as [H1b K] end.
  split; [exact H1b|]. intros w2 H2.
  unfold bind, rd_item. rewrite H2, <- Ha, Hc1. apply K. reflexivity.
Qed.

Lemma frame_touch h1 h2 p :
  (forall d, p = Some d -> h1 d = h2 d) -> frame h1 h2 (touch_data false p).
Proof.
  intros Hd w1 u w1' H1 E. unfold touch_data in E.
  destruct p as [d|]; [|discriminate E].
  destruct (heap w1 d) as [[rc n|sz]|] eqn:Hc; try discriminate E.
  inversion E; subst u w1'; clear E. split; [exact H1|].
  intros w2 H2. unfold touch_data.
  assert (Hc2 : heap w2 d = Some (CData sz)).
  { rewrite H2, <- (Hd d eq_refl), <- H1. exact Hc. }
  rewrite Hc2. eexists. split; [reflexivity|exact H2].
Qed.

Lemma frame_if h1 h2 {A} (b : bool) (m1 m2 : M A) :
  frame h1 h2 m1 -> frame h1 h2 m2 -> frame h1 h2 (if b then m1 else m2).
Proof. destruct b; auto. Qed.

Lemma frame_mapM h1 h2 {A B} (f : A -> M B) (l : list A) :
  (forall x, In x l -> frame h1 h2 (f x)) -> frame h1 h2 (mapM f l).
Proof.
  induction l as [|x r IH]; intros Hf; cbn [mapM].
  - apply frame_ret.
  - apply frame_bind; [apply Hf; left; reflexivity|]. intros y.
    apply frame_bind; [apply IH; intros z Hz; apply Hf; right; exact Hz|]. intros ys.
    apply frame_ret.
Qed.

Lemma chunk_bytes_frame h1 h2 tx a :
  (forall b, reachh h1 a b -> h1 b = h2 b) -> frame h1 h2 (chunk_bytes tx a).
Proof.
  intros Hag. unfold chunk_bytes. apply frame_rd_bind; [apply Hag, reach_self|].
  intros rc n Hn. cbn [snd].
  destruct n as [neg w v|w b|v|text data bytes|text hdr arr cap chunks|indef data al elems
                |indef data al pairs|v child]; try apply frame_fail.
  - destruct (Bool.eqb text tx); [|apply frame_fail].
    apply frame_bind; [|intros _; apply frame_ret].
    apply frame_if; [apply frame_ret|]. apply frame_touch. intros d ->. apply Hag.
    eapply reach_block; [apply reach_self|exact Hn|apply in_opt_list].
  - destruct (Bool.eqb text tx); apply frame_fail.
Qed.

Lemma abs_frame h1 h2 : forall fuel a,
  (forall b, reachh h1 a b -> h1 b = h2 b) -> frame h1 h2 (abs fuel a).
Proof.
  induction fuel as [|f IH]; intros a Hag.
  - apply frame_fail.
  - cbn [abs]. apply frame_rd_bind; [apply Hag, reach_self|].
    intros rc n Hn. cbn [snd].
    assert (Hk : forall c, In c (node_kids n) -> forall b, reachh h1 c b -> h1 b = h2 b).
    { intros c Hc b Hb. apply Hag. eapply reach_step; eassumption. }
    assert (Hb : forall d, In d (node_blocks n) -> h1 d = h2 d).
    { intros d Hd. apply Hag. eapply reach_block; [apply reach_self|exact Hn|exact Hd]. }
    destruct n as [neg w v|w b|v|text data bytes|text hdr arr cap chunks|indef data al elems
                  |indef data al pairs|v child]; cbn [node_kids node_blocks] in Hk, Hb.
    + apply frame_ret.
    + apply frame_ret.
    + apply frame_ret.
    + apply frame_bind; [|intros _; apply frame_ret].
      apply frame_if; [apply frame_ret|]. apply frame_touch. intros d ->. apply Hb, in_opt_list.
    + apply frame_bind;
        [apply frame_touch; intros d Hd; inversion Hd; subst; apply Hb; left; reflexivity|].
      intros _. apply frame_bind.
      { destruct chunks; [apply frame_ret|]. apply frame_touch. intros d ->.
        apply Hb. right. apply in_opt_list. }
      intros _. apply frame_bind; [|intros cs; apply frame_ret].
      apply frame_mapM. intros c Hc. apply chunk_bytes_frame. apply (Hk c Hc).
    + apply frame_bind.
      { destruct elems; [apply frame_ret|]. apply frame_touch. intros d ->. apply Hb, in_opt_list. }
      intros _. apply frame_bind; [|intros xs; apply frame_ret].
      apply frame_mapM. intros c Hc. apply IH. apply (Hk c Hc).
    + apply frame_bind.
      { destruct pairs; [apply frame_ret|]. apply frame_touch. intros d ->. apply Hb, in_opt_list. }
      intros _. apply frame_bind; [|intros xs; apply frame_ret].
      apply frame_mapM. intros [k ov] Hkv. cbn [fst snd].
      apply frame_bind.
      { apply IH. apply Hk. apply in_flat_map.
        exists (k, ov). split; [exact Hkv|left; reflexivity]. }
      intros k'. destruct ov as [v|]; [|apply frame_fail].
      apply frame_bind; [|intros v'; apply frame_ret].
      apply IH. apply Hk. apply in_flat_map.
      exists (k, Some v). split; [exact Hkv|right; left; reflexivity].
    + destruct child as [x|]; [|apply frame_fail].
      apply frame_bind; [|intros x'; apply frame_ret].
      apply IH. apply Hk. left. reflexivity.
Qed.

(* C17: the tree read from [a] depends only on the cells reachable from [a] *)
Theorem C17_frame : forall fuel a w1 w2 t w1',
  (forall b, reach w1 a b -> heap w1 b = heap w2 b) ->
  abs fuel a w1 = Ret t w1' ->
  exists w2', abs fuel a w2 = Ret t w2'.
Proof.
  intros fuel a w1 w2 t w1' Hag E.
  destruct (abs_frame (heap w1) (heap w2) fuel a Hag w1 t w1' eq_refl E) as [_ K].
  destruct (K w2 eq_refl) as (w2' & E2 & _). exists w2'. exact E2.
Qed.

(* the same for the serializer; its fuel is computed from the bump pointer, hence the extra
   hypothesis *)
Theorem C17_frame_serialize : forall a n w1 w2 r w1',
  (forall b, reach w1 a b -> heap w1 b = heap w2 b) -> next w1 = next w2 ->
  serialize_h a n w1 = Ret r w1' ->
  exists w2', serialize_h a n w2 = Ret r w2'.
Proof.
  intros a n w1 w2 r w1' Hag Hn E. unfold serialize_h, bind, abs_of in *.
  destruct (abs (abs_fuel w1) a w1) as [t w1a|k] eqn:E1; [|discriminate E].
  destruct (C17_frame _ _ _ w2 _ _ Hag E1) as [w2a E2].
  unfold abs_fuel in *. rewrite <- Hn, E2. unfold ret in *. inversion E; subst.
  exists w2a. reflexivity.
Qed.

(* a store (or anything else) that leaves the cells reachable from [a] alone cannot change what a
   reader of [a] sees: disjoint items do not interfere *)
Corollary C17_disjoint_update : forall fuel a w1 t w1' x c,
  ~ reach w1 a x ->
  abs fuel a w1 = Ret t w1' ->
  exists w2', abs fuel a (mkworld (upd (heap w1) x c) (next w1) (nreq w1) (trace w1) (alog w1))
              = Ret t w2'.
Proof.
  intros fuel a w1 t w1' x c Hx E. eapply C17_frame; [|exact E].
  intros b Hb. cbn [heap]. unfold upd.
  destruct (N.eqb_spec b x) as [->|_]; [contradiction|reflexivity].
Qed.

(* ------------------------------------------------------------------------------------------ *)
(* 4. getters                                                                                 *)
(* ------------------------------------------------------------------------------------------ *)

Lemma refcount_roP h a : roP h (eq a) (refcount a).
Proof.
  unfold refcount. apply roP_rd_bind; [reflexivity|]. intros rc n _. apply roP_ret.
Qed.

Theorem refcount_readonly : forall a, readonly (refcount a).
Proof. intros a. apply roP_readonly. intros h. eexists. apply refcount_roP. Qed.

(* exact effect: one read of [a], result = the stored count *)
Theorem refcount_spec : forall a w r w',
  refcount a w = Ret r w' ->
  (exists n, heap w a = Some (CItem r n)) /\
  w' = mkworld (heap w) (next w) (nreq w) (trace w) (AccR a :: alog w).
Proof.
  intros a w r w' E. unfold refcount, bind, rd_item, ret in E.
  destruct (heap w a) as [[rc n|sz]|]; try discriminate E.
  cbn [fst] in E. inversion E; subst. split; [exists n|]; reflexivity.
Qed.

(* the probe is a pure function of the world: it cannot store, and it looks at one cell *)
Theorem probe1_frame : forall w1 w2 a, heap w1 a = heap w2 a -> probe1 w1 a = probe1 w2 a.
Proof. intros w1 w2 a H. unfold probe1. rewrite H. reflexivity. Qed.

(* ------------------------------------------------------------------------------------------ *)
(* 5. non-vacuity: the log does record stores                                                 *)
(* ------------------------------------------------------------------------------------------ *)

Theorem incref_writes : forall a w r w',
  incref a w = Ret r w' -> alog w' = AccW a :: AccR a :: alog w.
Proof.
  intros a w r w' E. unfold incref, bind, rd_item in E.
  destruct (heap w a) as [[rc n|sz]|] eqn:Ha; try discriminate E.
  unfold wr_item in E. cbn [heap fst snd next nreq trace alog] in E. rewrite Ha in E.
  unfold ret in E. inversion E; subst. reflexivity.
Qed.

Corollary incref_not_readonly : forall a w r w', incref a w = Ret r w' -> ~ ro_rel w w'.
Proof.
  intros a w r w' E R. pose proof (incref_writes _ _ _ _ E) as Hl.
  destruct R as (_ & _ & _ & _ & rs & Hr & F).
  rewrite Hl in Hr.
  change (AccW a :: AccR a :: alog w) with ([AccW a; AccR a] ++ alog w) in Hr.
  apply app_inv_tail in Hr. subst rs. inversion F as [|x l (b & Eb) _]. discriminate Eb.
Qed.

(* cbor_tag_item hands out a counted reference: it stores into the child *)
Theorem tag_item_writes : forall t w x w',
  tag_item t w = Ret x w' -> alog w' = AccW x :: AccR x :: AccR t :: alog w.
Proof.
  intros t w x w' E. unfold tag_item, bind in E.
  destruct (rd_item t w) as [c w1|k] eqn:E1; [|discriminate E].
  unfold rd_item in E1. destruct (heap w t) as [[rc n|sz]|]; try discriminate E1.
  inversion E1; subst c w1; clear E1. cbn [snd] in E.
  destruct n as [| | | | | | |v [y|]]; try discriminate E.
  pose proof (incref_writes _ _ _ _ E) as Hl. cbn [alog] in Hl.
  assert (x = y); [|subst y; exact Hl].
  unfold incref, bind in E.
  destruct (rd_item y _) as [c1 w2|]; [|discriminate E].
  destruct (wr_item y _ _ w2) as [u w3|]; [|discriminate E].
  unfold ret in E. inversion E. reflexivity.
Qed.

(* a concrete run, built through the API with an allocator that never refuses:
   x = build_uint8(7); t = build_tag(5, x); then tag_item(t) *)
Definition never : N -> N -> bool := fun _ _ => false.
Definition ex_setup : M (addr * addr) :=
  ox <- build_int never false I8 7 ;;
  match ox with
  | None => fail FNull
  | Some x =>
      ot <- build_tag never 5 x ;;
      match ot with None => fail FNull | Some t => ret (x, t) end
  end.

Example tag_item_logs_a_store :
  match ex_setup world0 with
  | Ret (x, t) w =>
      match tag_item t w with
      | Ret y w' => y = x /\ alog w' = AccW x :: AccR x :: AccR t :: alog w /\ In (AccW x) (alog w')
      | Fault _ => False
      end
  | Fault _ => False
  end.
Proof. vm_compute. split; [reflexivity|]. split; [reflexivity|]. left. reflexivity. Qed.

(* ------------------------------------------------------------------------------------------ *)
Print Assumptions abs_readonly.
Print Assumptions abs_footprint.
Print Assumptions serialized_size_readonly.
Print Assumptions serialize_readonly.
Print Assumptions C18_no_writes.
Print Assumptions C18_no_writes_size.
Print Assumptions C13_no_requests.
Print Assumptions C13_no_requests_size.
Print Assumptions C17_frame.
Print Assumptions C17_frame_serialize.
Print Assumptions refcount_readonly.
Print Assumptions tag_item_writes.
Print Assumptions abs_reads_reachable.
Print Assumptions serialize_footprint.
Print Assumptions C17_disjoint_update.
Print Assumptions incref_not_readonly.
Print Assumptions tag_item_logs_a_store.
