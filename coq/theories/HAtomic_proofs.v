(* Model H, property C06 uniformly over ALL 26 client operations of HHist.op: a call that reports
   failure was atomic.

   [failed o out]: [out] is the documented failure value of operation [o] - NULL for the calls that
   create or return an item (the constructors, build_tag, array_get, tag_item, copy), false for
   push / set / replace / map_add / add_chunk, an error code for load, 0 bytes for serialize (buffer
   too small), serialize_alloc (refused) and serialized_size (overflow).

   [C06_step_atomic]: for every allocator oracle, every nesting limit, every world satisfying the
   accounting invariant and every legal call: if the call returns its failure value then
   (i)   every cell is exactly what it was - node, reference count, everything;
   (ii)  nothing stays allocated: every block the call obtained has been released again;
   (iii) the handle table gains at most one NULL slot;
   (iv)  the accounting invariant holds with the same client ownership.
   This covers allocation failures at ANY request of the call (item, data block, growth, any request
   in the middle of cbor_copy / cbor_load) and the failures that have nothing to do with memory
   (definite container full, index out of range, size guard, malformed / truncated input, nesting
   limit, buffer too small).  No operation is excepted: in particular cbor_map_add cannot fail after
   the key has been stored ([map_add_value] has no failing return), and cbor_array_set delegates to
   push / replace, whose failures are atomic.

   Method: for the container calls the failing returns are found by inversion of the monadic code
   (they need no hypothesis at all: [array_push_false] ...); two-block constructors by the existing
   case lemmas of HCopy_proofs (ctor2_post); cbor_copy by HCopy_proofs.C06_copy_clean_failure;
   cbor_load by HLoad_proofs.load_h_clean_failure; serialization by HRead_proofs (read-only). *)
From CB Require Import Word Word_proofs PMem PItem PBuild HHeap HItems HOps HHist.
From CB Require Import HRef_proofs HCont_proofs HRead_proofs HLoad_proofs HCopy_proofs HHist_proofs.
From CB Require Import HHist2 HHist3 HHist2_proofs HHist3_proofs.
From CB Require Import HStepInv_proofs HTrace_proofs HFrame_proofs HSeq_proofs.
From Coq Require Import Lia ZArith List.
Import ListNotations.
Local Open Scope N_scope.

(* ------------------------------------------------------------------------------------------ *)
(* 1. the documented failure values                                                            *)
(* ------------------------------------------------------------------------------------------ *)

Definition failed (o : op) (r : out) : bool :=
  match o, r with
  | (OBuildInt _ _ _ | OBuildFloat _ _ | OBuildCtrl _ | OBuildString _ _ | ONewIndefString _
     | ONewDefArray _ | ONewIndefArray | ONewDefMap _ | ONewIndefMap | ONewTag _
     | OBuildTag _ _ | OGet _ _ | OTagItem _ | OCopy _), OutHandle false => true
  | (OPush _ _ | OSet _ _ _ | OReplace _ _ _ | OMapAdd _ _ _ | OAddChunk _ _), OutBool false => true
  | OLoad _, OutLoadErr _ _ => true
  | (OSerialize _ _ | OSerAlloc _), OutBytes N0 _ => true
  | OSerSize _, OutNum N0 => true
  | _, _ => false
  end.

(* the state of the heap is what it was *)
Definition same_cells (w w' : world) : Prop := forall b, heap w' b = heap w b.

Lemma same_cells_heq w w' : heap w' = heap w -> same_cells w w'.
Proof. intros H b. rewrite H. reflexivity. Qed.
Lemma same_cells_trans w1 w2 w3 : same_cells w1 w2 -> same_cells w2 w3 -> same_cells w1 w3.
Proof. intros H1 H2 b. rewrite H2. apply H1. Qed.

(* ------------------------------------------------------------------------------------------ *)
(* 2. failing returns of the container calls, by inversion (no hypothesis)                     *)
(* ------------------------------------------------------------------------------------------ *)

Ltac binv H :=
  repeat (apply bind_inv in H;
          let a := fresh "r" in let w1 := fresh "w" in let E := fresh "E" in
          destruct H as (a & w1 & E & H)).
(* a chain of calls that ends in [ret v] cannot return another value *)
Ltac ret_ne H := binv H; apply ret_inv in H; destruct H as [H _]; discriminate H.

Section Inv.
Variable refuse : N -> N -> bool.

Lemma malloc_none sz c w w' : malloc refuse sz c w = Ret None w' -> heap w' = heap w /\ next w' = next w.
Proof. unfold malloc. destruct (refuse (nreq w) sz); intros H; [injection H as <-; auto|discriminate H]. Qed.

Lemma realloc_none old sz w w' : realloc refuse old sz w = Ret None w' -> heap w' = heap w /\ next w' = next w.
Proof.
  unfold realloc. destruct (realloc_bad old w); [discriminate|].
  destruct (refuse (nreq w) sz); intros H; [injection H as <-; auto|discriminate H].
Qed.

Lemma grow_none data isz al w w' : grow refuse data isz al w = Ret None w' -> heap w' = heap w /\ next w' = next w.
Proof.
  unfold grow. destruct (grow_capacity 64 al) as [c|].
  2:{ intros H. apply ret_inv in H. destruct H as [_ ->]. auto. }
  destruct (alloc_multiple_req 64 isz c) as [bytes|].
  2:{ intros H. apply ret_inv in H. destruct H as [_ ->]. auto. }
  intros H. apply bind_inv in H. destruct H as (r & w1 & E & H). destruct r as [d|].
  - apply ret_inv in H. destruct H as [H _]. discriminate H.
  - apply ret_inv in H. destruct H as [_ ->]. eapply realloc_none. exact E.
Qed.

Lemma rd_same a w c w' : rd_item a w = Ret c w' -> heap w' = heap w /\ next w' = next w.
Proof. intros H. apply rd_inv in H. destruct H as (_ & H1 & H2 & _). auto. Qed.
Lemma touch_same wr p w u w' : touch_data wr p w = Ret u w' -> heap w' = heap w /\ next w' = next w.
Proof. intros H. apply touch_any_inv in H. destruct H as (H1 & H2 & _). auto. Qed.

Lemma eq2_trans (w w1 w' : world) :
  heap w1 = heap w /\ next w1 = next w -> heap w' = heap w1 /\ next w' = next w1 -> heap w' = heap w /\ next w' = next w.
Proof. intros [A B] [C D]. split; congruence. Qed.

Lemma array_push_false a x w w' : array_push refuse a x w = Ret false w' -> heap w' = heap w /\ next w' = next w.
Proof.
  unfold array_push. intros H. apply bind_inv in H. destruct H as (c & w1 & E1 & H).
  apply rd_same in E1. eapply eq2_trans; [exact E1|]. clear E1.
  destruct (snd c) as [neg iw v|fw bits|v|text data bytes|text hdr arr cap chunks|indef data al elems|indef data al pairs|v ch];
    try discriminate H.
  destruct indef.
  - apply bind_inv in H. destruct H as (st & w2 & E2 & H). destruct st as [[d' c']|].
    + exfalso. ret_ne H.
    + apply ret_inv in H. destruct H as [_ ->].
      destruct (al <=? len elems).
      * apply bind_inv in E2. destruct E2 as (g & w3 & E3 & E2). destruct g as [[c' d']|].
        -- apply ret_inv in E2. destruct E2 as [E2 _]. discriminate E2.
        -- apply ret_inv in E2. destruct E2 as [_ ->]. eapply grow_none. exact E3.
      * apply ret_inv in E2. destruct E2 as [E2 _]. discriminate E2.
  - destruct (al <=? len elems).
    + apply ret_inv in H. destruct H as [_ ->]. auto.
    + exfalso. ret_ne H.
Qed.

Lemma add_chunk_false a x w w' : add_chunk refuse a x w = Ret false w' -> heap w' = heap w /\ next w' = next w.
Proof.
  unfold add_chunk. intros H. apply bind_inv in H. destruct H as (c & w1 & E1 & H).
  apply rd_same in E1. eapply eq2_trans; [exact E1|]. clear E1.
  destruct (snd c) as [neg iw v|fw bits|v|text data bytes|text hdr arr cap chunks|indef data al elems|indef data al pairs|v ch];
    try discriminate H.
  apply bind_inv in H. destruct H as (u0 & w0 & E0 & H).
  apply chunk_assert_inv in E0. destruct E0 as (A0 & B0 & _). eapply eq2_trans; [exact (conj A0 B0)|]. clear A0 B0.
  apply bind_inv in H. destruct H as (u & w2 & E2 & H).
  apply touch_same in E2. eapply eq2_trans; [exact E2|]. clear E2.
  apply bind_inv in H. destruct H as (st & w3 & E3 & H). destruct st as [[d' c']|].
  - exfalso. ret_ne H.
  - apply ret_inv in H. destruct H as [_ ->].
    destruct (len chunks =? cap).
    + apply bind_inv in E3. destruct E3 as (g & w4 & E4 & E3). destruct g as [[c' d']|].
      * exfalso. ret_ne E3.
      * apply ret_inv in E3. destruct E3 as [_ ->]. eapply grow_none. exact E4.
    + apply ret_inv in E3. destruct E3 as [E3 _]. discriminate E3.
Qed.

Lemma array_get_none a i w w' : array_get a i w = Ret None w' -> heap w' = heap w /\ next w' = next w.
Proof.
  unfold array_get. intros H. apply bind_inv in H. destruct H as (c & w1 & E1 & H).
  apply rd_same in E1. eapply eq2_trans; [exact E1|]. clear E1.
  destruct (snd c) as [neg iw v|fw bits|v|text data bytes|text hdr arr cap chunks|indef data al elems|indef data al pairs|v ch];
    try discriminate H.
  destruct (len elems <=? i).
  - apply ret_inv in H. destruct H as [_ ->]. auto.
  - exfalso. apply bind_inv in H. destruct H as (u & w2 & E2 & H).
    destruct (nth_error elems (N.to_nat i)); [ret_ne H|discriminate H].
Qed.

Lemma array_replace_false a i x w w' : array_replace a i x w = Ret false w' -> heap w' = heap w /\ next w' = next w.
Proof.
  unfold array_replace. intros H. apply bind_inv in H. destruct H as (c & w1 & E1 & H).
  apply rd_same in E1. eapply eq2_trans; [exact E1|]. clear E1.
  destruct (snd c) as [neg iw v|fw bits|v|text data bytes|text hdr arr cap chunks|indef data al elems|indef data al pairs|v ch];
    try discriminate H.
  destruct (len elems <=? i).
  - apply ret_inv in H. destruct H as [_ ->]. auto.
  - exfalso. apply bind_inv in H. destruct H as (u & w2 & E2 & H).
    destruct (nth_error elems (N.to_nat i)); [ret_ne H|discriminate H].
Qed.

Lemma array_set_false a i x w w' : array_set refuse a i x w = Ret false w' -> heap w' = heap w /\ next w' = next w.
Proof.
  unfold array_set. intros H. apply bind_inv in H. destruct H as (c & w1 & E1 & H).
  apply rd_same in E1. eapply eq2_trans; [exact E1|]. clear E1.
  destruct (snd c) as [neg iw v|fw bits|v|text data bytes|text hdr arr cap chunks|indef data al elems|indef data al pairs|v ch];
    try discriminate H.
  destruct (i =? len elems); [eapply array_push_false; exact H|].
  destruct (i <? len elems); [eapply array_replace_false; exact H|].
  apply ret_inv in H. destruct H as [_ ->]. auto.
Qed.

Lemma map_add_key_false a k w w' : map_add_key refuse a k w = Ret false w' -> heap w' = heap w /\ next w' = next w.
Proof.
  unfold map_add_key. intros H. apply bind_inv in H. destruct H as (c & w1 & E1 & H).
  apply rd_same in E1. eapply eq2_trans; [exact E1|]. clear E1.
  destruct (snd c) as [neg iw v|fw bits|v|text data bytes|text hdr arr cap chunks|indef data al elems|indef data al pairs|v ch];
    try discriminate H.
  destruct indef.
  - apply bind_inv in H. destruct H as (st & w2 & E2 & H). destruct st as [[d' c']|].
    + exfalso. ret_ne H.
    + apply ret_inv in H. destruct H as [_ ->].
      destruct (al <=? len pairs).
      * apply bind_inv in E2. destruct E2 as (g & w3 & E3 & E2). destruct g as [[c' d']|].
        -- apply ret_inv in E2. destruct E2 as [E2 _]. discriminate E2.
        -- apply ret_inv in E2. destruct E2 as [_ ->]. eapply grow_none. exact E3.
      * apply ret_inv in E2. destruct E2 as [E2 _]. discriminate E2.
  - destruct (al <=? len pairs).
    + apply ret_inv in H. destruct H as [_ ->]. auto.
    + exfalso. ret_ne H.
Qed.

(* _cbor_map_add_value has no failing return: once the key is stored the pair is completed *)
Lemma map_add_value_true a v w b w' : map_add_value a v w = Ret b w' -> b = true.
Proof.
  unfold map_add_value. intros H. apply bind_inv in H. destruct H as (u & w1 & E1 & H).
  apply bind_inv in H. destruct H as (c & w2 & E2 & H).
  destruct (snd c) as [neg iw v0|fw bits|v0|text data bytes|text hdr arr cap chunks|indef data al elems|indef data al pairs|v0 ch];
    try discriminate H.
  destruct (rev pairs) as [|[k o] rp]; [discriminate H|].
  binv H. apply ret_inv in H. destruct H as [H _]. exact H.
Qed.

Lemma map_add_false a k v w w' : map_add refuse a k v w = Ret false w' -> heap w' = heap w /\ next w' = next w.
Proof.
  unfold map_add. intros H. apply bind_inv in H. destruct H as (ok & w1 & E1 & H). destruct ok.
  - apply map_add_value_true in H. discriminate H.
  - apply ret_inv in H. destruct H as [_ ->]. eapply map_add_key_false. exact E1.
Qed.

Lemma build_tag_none v x w w' : build_tag refuse v x w = Ret None w' -> heap w' = heap w /\ next w' = next w.
Proof.
  unfold build_tag, new_tag. intros H. apply bind_inv in H. destruct H as (r & w1 & E1 & H). destruct r as [t|].
  - exfalso. ret_ne H.
  - apply ret_inv in H. destruct H as [_ ->]. eapply malloc_none. exact E1.
Qed.

Lemma tag_item_some t w r w' : (x <- tag_item t ;; ret (Some x)) w = Ret r w' -> r <> None.
Proof. intros H. apply bind_inv in H. destruct H as (x & w1 & _ & H). apply ret_inv in H. destruct H as [-> _]. discriminate. Qed.

(* two-block constructors: NULL -> every cell is what it was (the item, if it had been obtained, is free again) *)
Lemma wp_none {A} (m : M (option A)) w (Q : option A -> world -> Prop) w' : wp m w Q -> m w = Ret None w' -> Q None w'.
Proof. intros (r & w1 & E & H) E'. rewrite E in E'. injection E' as -> ->. exact H. Qed.

Lemma build_string_none text bytes w w' : wf w -> build_string refuse text bytes w = Ret None w' ->
  same_cells w w' /\ next w <= next w'.
Proof.
  intros Hwf E. destruct (wp_none _ _ _ _ (wp_build_string refuse text bytes w Hwf) E) as (r0 & [Hn P] & _). split; assumption.
Qed.
Lemma new_indefinite_string_none text w w' : wf w -> new_indefinite_string refuse text w = Ret None w' ->
  same_cells w w' /\ next w <= next w'.
Proof. intros Hwf E. destruct (wp_none _ _ _ _ (wp_new_indefinite_string refuse text w Hwf) E) as [Hn P]. split; assumption. Qed.
Lemma new_definite_array_none n w w' : wf w -> new_definite_array refuse n w = Ret None w' ->
  same_cells w w' /\ next w <= next w'.
Proof. intros Hwf E. destruct (wp_none _ _ _ _ (wp_new_definite_array refuse n w Hwf) E) as [Hn P]. split; assumption. Qed.
Lemma new_definite_map_none n w w' : wf w -> new_definite_map refuse n w = Ret None w' ->
  same_cells w w' /\ next w <= next w'.
Proof. intros Hwf E. destruct (wp_none _ _ _ _ (wp_new_definite_map refuse n w Hwf) E) as [Hn P]. split; assumption. Qed.

(* serialization never changes a cell; cbor_serialize_alloc followed by the client's free of the
   buffer leaves every cell as it was, whatever the outcome *)
Lemma abs_of_same a w t w' : abs_of a w = Ret t w' -> heap w' = heap w /\ next w' = next w.
Proof. intros H. destruct (abs_of_readonly a w t w' H) as (H1 & H2 & _). auto. Qed.

Lemma ser_alloc_free_same {X} (k : N -> list N -> X) p w r w' : wf w ->
  (r <- serialize_alloc_h refuse p ;;
   match r with
   | (wr, Some buf, bytes) => free (Some buf) ;;; ret (k wr bytes)
   | (wr, None, bytes) => ret (k wr bytes)
   end) w = Ret r w' -> same_cells w w' /\ next w <= next w'.
Proof.
  intros Hwf H. apply bind_inv in H. destruct H as ([[wr ob] bytes] & w1 & E1 & H).
  unfold serialize_alloc_h in E1. apply bind_inv in E1. destruct E1 as (t & w2 & E2 & E1).
  apply abs_of_same in E2. destruct E2 as [Hh Hn].
  destruct (ssize t =? 0).
  { apply ret_inv in E1. destruct E1 as [E1 ->]. injection E1 as -> -> ->. apply ret_inv in H. destruct H as [_ ->].
    split; [apply same_cells_heq; exact Hh|lia]. }
  apply bind_inv in E1. destruct E1 as (b & w3 & E3 & E1). destruct b as [q|].
  - destruct (serialize_into t (ssize t)) as [[wr0 out0]|]; [|discriminate E1].
    apply ret_inv in E1. destruct E1 as [E1 ->]. injection E1 as -> -> ->.
    apply bind_inv in H. destruct H as (u & w4 & E4 & H). apply ret_inv in H. destruct H as [_ ->].
    unfold malloc in E3. destruct (refuse (nreq w2) (ssize t)); [discriminate E3|]. injection E3 as <- <-.
    unfold free in E4. cbn [heap] in E4. rewrite upd_same in E4. inversion E4; subst; clear E4.
    split; [|cbn [next]; lia]. intros b. cbn [heap].
    destruct (N.eq_dec b (next w2)) as [->|Ne].
    + rewrite upd_same. rewrite Hn. symmetry. apply Hwf. lia.
    + rewrite !upd_other by exact Ne. rewrite Hh. reflexivity.
  - apply ret_inv in E1. destruct E1 as [E1 ->]. injection E1 as -> -> ->. apply ret_inv in H. destruct H as [_ ->].
    apply malloc_none in E3. destruct E3 as [H3 N3]. split; [apply same_cells_heq; congruence|lia].
Qed.

End Inv.

(* ------------------------------------------------------------------------------------------ *)
(* 3. the uniform theorem                                                                      *)
(* ------------------------------------------------------------------------------------------ *)

Definition table_grows_null (s s' : cstate) : Prop :=
  handles s' = handles s \/ handles s' = handles s ++ [None].

Section Atomic.
Variable refuse : N -> N -> bool.
Variable L : N.

Lemma newh_failed s (m : M (option addr)) w s' r w' :
  newh s m w = Ret (s', r) w' -> r = OutHandle false -> m w = Ret None w' /\ s' = hpush s None.
Proof.
  unfold newh. intros H Hr. apply bind_inv in H. destruct H as (x & w1 & E & H).
  apply ret_inv in H. destruct H as [H ->]. injection H as -> ->. destruct x as [a|]; [discriminate Hr|]. auto.
Qed.

Lemma bool_failed (s : cstate) (m : M bool) w (s' : cstate) (r : out) w' :
  (b <- m ;; ret (s, OutBool b)) w = Ret (s', r) w' -> r = OutBool false -> m w = Ret false w' /\ s' = s.
Proof.
  intros H Hr. apply bind_inv in H. destruct H as (b & w1 & E & H).
  apply ret_inv in H. destruct H as [H ->]. injection H as -> ->. injection Hr as ->. auto.
Qed.

(* the heart: the heap is cell for cell what it was, the bump pointer has not gone back, and the
   table gained at most a NULL slot *)
Lemma step_failed_same s own ownd w o s' r w' :
  Inv own ownd [] w -> legal s own w o ->
  step refuse L s o w = Ret (s', r) w' -> failed o r = true ->
  same_cells w w' /\ next w <= next w' /\ table_grows_null s s'.
Proof.
  intros I0 Lg E F. pose proof (Inv_wf _ _ _ _ I0) as Hwf.
  assert (Hpush : table_grows_null s (hpush s None)) by (right; reflexivity).
  assert (Hsame : table_grows_null s s) by (left; reflexivity).
  assert (Heq : forall w1, heap w1 = heap w /\ next w1 = next w -> same_cells w w1 /\ next w <= next w1).
  { intros w1 [A B]. split; [apply same_cells_heq; exact A|lia]. }
  destruct o as [neg iw v|fw bits|v|text bytes|text|n| |n| |v|v x|a x|a i|a i x|a i x|m k v|c x|t x|t|h|h|h|bytes|h|h n|h];
    cbn [step failed] in *.
  - destruct r as [[|]| | | | | | |]; try discriminate F. destruct (newh_failed _ _ _ _ _ _ E eq_refl) as [E1 ->].
    destruct (Heq _ (malloc_none _ _ _ _ _ E1)). auto.
  - destruct r as [[|]| | | | | | |]; try discriminate F. destruct (newh_failed _ _ _ _ _ _ E eq_refl) as [E1 ->].
    destruct (Heq _ (malloc_none _ _ _ _ _ E1)). auto.
  - destruct r as [[|]| | | | | | |]; try discriminate F. destruct (newh_failed _ _ _ _ _ _ E eq_refl) as [E1 ->].
    destruct (Heq _ (malloc_none _ _ _ _ _ E1)). auto.
  - destruct r as [[|]| | | | | | |]; try discriminate F. destruct (newh_failed _ _ _ _ _ _ E eq_refl) as [E1 ->].
    destruct (build_string_none _ _ _ _ _ Hwf E1). auto.
  - destruct r as [[|]| | | | | | |]; try discriminate F. destruct (newh_failed _ _ _ _ _ _ E eq_refl) as [E1 ->].
    destruct (new_indefinite_string_none _ _ _ _ Hwf E1). auto.
  - destruct r as [[|]| | | | | | |]; try discriminate F. destruct (newh_failed _ _ _ _ _ _ E eq_refl) as [E1 ->].
    destruct (new_definite_array_none _ _ _ _ Hwf E1). auto.
  - destruct r as [[|]| | | | | | |]; try discriminate F. destruct (newh_failed _ _ _ _ _ _ E eq_refl) as [E1 ->].
    destruct (Heq _ (malloc_none _ _ _ _ _ E1)). auto.
  - destruct r as [[|]| | | | | | |]; try discriminate F. destruct (newh_failed _ _ _ _ _ _ E eq_refl) as [E1 ->].
    destruct (new_definite_map_none _ _ _ _ Hwf E1). auto.
  - destruct r as [[|]| | | | | | |]; try discriminate F. destruct (newh_failed _ _ _ _ _ _ E eq_refl) as [E1 ->].
    destruct (Heq _ (malloc_none _ _ _ _ _ E1)). auto.
  - destruct r as [[|]| | | | | | |]; try discriminate F. destruct (newh_failed _ _ _ _ _ _ E eq_refl) as [E1 ->].
    destruct (Heq _ (malloc_none _ _ _ _ _ E1)). auto.
  - (* build_tag *)
    destruct r as [[|]| | | | | | |]; try discriminate F. unfold with1h in E. destruct (hget s x) as [q|].
    + destruct (newh_failed _ _ _ _ _ _ E eq_refl) as [E1 ->]. destruct (Heq _ (build_tag_none _ _ _ _ _ E1)). auto.
    + apply ret_inv in E. destruct E as [E _]. discriminate E.
  - (* push *)
    destruct r as [|[|]| | | | | |]; try discriminate F. unfold with2 in E.
    destruct (hget s a) as [p|]; [|apply ret_inv in E; destruct E as [E _]; discriminate E].
    destruct (hget s x) as [q|]; [|apply ret_inv in E; destruct E as [E _]; discriminate E].
    destruct (bool_failed _ _ _ _ _ _ E eq_refl) as [E1 ->]. destruct (Heq _ (array_push_false _ _ _ _ _ E1)). auto.
  - (* get *)
    destruct r as [[|]| | | | | | |]; try discriminate F. unfold with1h in E. destruct (hget s a) as [p|].
    + destruct (newh_failed _ _ _ _ _ _ E eq_refl) as [E1 ->]. destruct (Heq _ (array_get_none _ _ _ _ E1)). auto.
    + apply ret_inv in E. destruct E as [E _]. discriminate E.
  - (* set *)
    destruct r as [|[|]| | | | | |]; try discriminate F. unfold with2 in E.
    destruct (hget s a) as [p|]; [|apply ret_inv in E; destruct E as [E _]; discriminate E].
    destruct (hget s x) as [q|]; [|apply ret_inv in E; destruct E as [E _]; discriminate E].
    destruct (bool_failed _ _ _ _ _ _ E eq_refl) as [E1 ->]. destruct (Heq _ (array_set_false _ _ _ _ _ _ E1)). auto.
  - (* replace *)
    destruct r as [|[|]| | | | | |]; try discriminate F. unfold with2 in E.
    destruct (hget s a) as [p|]; [|apply ret_inv in E; destruct E as [E _]; discriminate E].
    destruct (hget s x) as [q|]; [|apply ret_inv in E; destruct E as [E _]; discriminate E].
    destruct (bool_failed _ _ _ _ _ _ E eq_refl) as [E1 ->]. destruct (Heq _ (array_replace_false _ _ _ _ _ E1)). auto.
  - (* map_add *)
    destruct r as [|[|]| | | | | |]; try discriminate F.
    destruct (hget s v) as [rr|]; [|apply ret_inv in E; destruct E as [E _]; discriminate E].
    unfold with2 in E.
    destruct (hget s m) as [p|]; [|apply ret_inv in E; destruct E as [E _]; discriminate E].
    destruct (hget s k) as [q|]; [|apply ret_inv in E; destruct E as [E _]; discriminate E].
    destruct (bool_failed _ _ _ _ _ _ E eq_refl) as [E1 ->]. destruct (Heq _ (map_add_false _ _ _ _ _ _ E1)). auto.
  - (* add_chunk *)
    destruct r as [|[|]| | | | | |]; try discriminate F. unfold with2 in E.
    destruct (hget s c) as [p|]; [|apply ret_inv in E; destruct E as [E _]; discriminate E].
    destruct (hget s x) as [q|]; [|apply ret_inv in E; destruct E as [E _]; discriminate E].
    destruct (bool_failed _ _ _ _ _ _ E eq_refl) as [E1 ->]. destruct (Heq _ (add_chunk_false _ _ _ _ _ E1)). auto.
  - discriminate F.
  - (* tag_item never returns NULL *)
    destruct r as [[|]| | | | | | |]; try discriminate F. unfold with1h in E. destruct (hget s t) as [p|].
    + destruct (newh_failed _ _ _ _ _ _ E eq_refl) as [E1 _]. exfalso. exact (tag_item_some _ _ _ _ E1 eq_refl).
    + apply ret_inv in E. destruct E as [E _]. discriminate E.
  - discriminate F.
  - discriminate F.
  - (* copy *)
    destruct r as [[|]| | | | | | |]; try discriminate F. unfold with1h in E. destruct (hget s h) as [p|] eqn:Eh.
    + destruct (newh_failed _ _ _ _ _ _ E eq_refl) as [E1 ->]. destruct (Lg p Eh) as [_ Sh].
      unfold copy_h in E1. destruct (C06_copy_clean_failure refuse _ _ _ own ownd _ I0 Sh E1) as [P _].
      split; [exact P|]. split; [|exact Hpush].
      destruct (C17_step_frame refuse L s (OCopy h) w (hpush s None) (OutHandle false) w' Hwf) as [Hn _]; [|exact Hn].
      cbn [step]. unfold with1h. rewrite Eh. exact E.
    + apply ret_inv in E. destruct E as [E _]. discriminate E.
  - (* load *)
    destruct r as [| | | | |code pos| |]; try discriminate F. destruct Lg as [Hb Hl].
    apply bind_inv in E. destruct E as ([[[oa code0] pos0] rd] & w1 & E1 & E).
    destruct oa as [a|]; apply ret_inv in E; destruct E as [E ->]; [discriminate E|]. injection E as -> -> ->.
    destruct (load_h_clean_failure refuse L own ownd bytes w code0 pos0 rd w1 Hb Hl Hwf I0 E1) as (_ & P1 & P2 & _ & Hn).
    split; [|split; [exact Hn|exact Hpush]].
    intros b. destruct (N.lt_ge_cases b (next w)) as [Lt|Ge]; [apply P1; exact Lt|].
    rewrite (P2 b Ge). symmetry. apply Hwf. exact Ge.
  - (* serialized_size *)
    destruct r as [| | |[|]| | | |]; try discriminate F. unfold with1 in E. destruct (hget s h) as [p|].
    + apply bind_inv in E. destruct E as (nn & w1 & E1 & E). apply ret_inv in E. destruct E as [E ->]. injection E as -> _.
      destruct (serialized_size_readonly p w nn w1 E1) as (H1 & H2 & _). destruct (Heq w1 (conj H1 H2)). auto.
    + apply ret_inv in E. destruct E as [E _]. discriminate E.
  - (* serialize *)
    destruct r as [| | | |[|] bs| | |]; try discriminate F. unfold with1 in E. destruct (hget s h) as [p|].
    + apply bind_inv in E. destruct E as (rr & w1 & E1 & E).
      destruct (serialize_readonly p n w rr w1 E1) as (H1 & H2 & _).
      destruct rr as [[wr bs']|]; [|discriminate E]. apply ret_inv in E. destruct E as [E ->]. injection E as -> _.
      destruct (Heq w1 (conj H1 H2)). auto.
    + apply ret_inv in E. destruct E as [E _]. discriminate E.
  - (* serialize_alloc *)
    destruct r as [| | | |[|] bs| | |]; try discriminate F. unfold with1 in E. destruct (hget s h) as [p|].
    + assert (Hs : s' = s).
      { apply bind_inv in E. destruct E as ([[wr ob] bs'] & w1 & _ & E). destruct ob as [buf|].
        - apply bind_inv in E. destruct E as (u & w2 & _ & E). apply ret_inv in E. destruct E as [E _]. injection E as -> _. reflexivity.
        - apply ret_inv in E. destruct E as [E _]. injection E as -> _. reflexivity. }
      subst s'. destruct (ser_alloc_free_same refuse (fun wr bytes => (s, OutBytes wr bytes)) p w _ w' Hwf E). auto.
    + apply ret_inv in E. destruct E as [E _]. discriminate E.
Qed.

(* C06 for every operation: a call that reports failure was atomic *)
Theorem C06_step_atomic : forall s own ownd w o s' r w',
  Inv own ownd [] w -> legal s own w o ->
  step refuse L s o w = Ret (s', r) w' -> failed o r = true ->
  (forall b, heap w b <> None -> heap w' b = heap w b) /\          (* (i)   live cells: same contents *)
  (forall b, heap w' b <> None -> heap w b <> None) /\             (* (ii)  nothing stays allocated *)
  table_grows_null s s' /\                                          (* (iii) at most a NULL handle *)
  Inv own ownd [] w' /\                                             (* (iv)  same accounting *)
  (forall b, heap w' b = heap w b) /\ next w <= next w'.            (* (i) + (ii) in one *)
Proof.
  intros s own ownd w o s' r w' I0 Lg E F.
  destruct (step_failed_same s own ownd w o s' r w' I0 Lg E F) as (P & Hn & Ht).
  split; [intros b _; apply P|]. split; [intros b Hb; rewrite <- (P b); exact Hb|]. split; [exact Ht|].
  split; [eapply Inv_heq; [exact I0|exact P|exact Hn]|]. split; [exact P|exact Hn].
Qed.

(* in this model a legal call never faults, so: a legal call either succeeds or fails atomically *)
Corollary C06_step_total_atomic : forall s own ownd w o,
  Inv own ownd [] w -> caps w -> legal s own w o ->
  exists s' r w', step refuse L s o w = Ret (s', r) w' /\
    (failed o r = true -> (forall b, heap w' b = heap w b) /\ table_grows_null s s' /\ Inv own ownd [] w').
Proof.
  intros s own ownd w o I0 Cw Lg.
  destruct (C04_step refuse L s own ownd w o I0 (Inv_wf _ _ _ _ I0) Cw Lg) as (s' & r & w' & E & _).
  exists s', r, w'. split; [exact E|]. intros F.
  destruct (C06_step_atomic s own ownd w o s' r w' I0 Lg E F) as (_ & _ & Ht & I' & P & _). auto.
Qed.

(* the number of live blocks: same cells, possibly a larger bump pointer *)
Lemma live_count_same w w' : wf w -> same_cells w w' -> next w <= next w' -> live_count w' = live_count w.
Proof.
  intros Hwf P Hn. unfold live_count.
  set (F := fun (h : addr -> option cell) (i acc : N) => acc + match h i with Some _ => 1 | None => 0 end).
  change (N.recursion 0 (F (heap w')) (next w') = N.recursion 0 (F (heap w)) (next w)).
  assert (Ext : forall n, N.recursion 0 (F (heap w')) n = N.recursion 0 (F (heap w)) n).
  { intros n. induction n as [|n IH] using N.peano_ind; [reflexivity|].
    rewrite !N.recursion_succ; try (intros ? ? -> ? ? ->; reflexivity); try reflexivity.
    rewrite IH. unfold F. rewrite P. reflexivity. }
  rewrite Ext.
  assert (Above : forall k, N.recursion 0 (F (heap w)) (next w + k) = N.recursion 0 (F (heap w)) (next w)).
  { intros k. induction k as [|k IH] using N.peano_ind; [rewrite N.add_0_r; reflexivity|].
    rewrite N.add_succ_r. rewrite N.recursion_succ; try (intros ? ? -> ? ? ->; reflexivity); try reflexivity.
    rewrite IH. unfold F at 1. rewrite (Hwf (next w + k)) by lia. lia. }
  replace (next w') with (next w + (next w' - next w)) by lia. apply Above.
Qed.

(* histories: at any point of a legal history from the empty world, a call that reports failure
   leaves the live heap exactly as it was *)
Theorem C06_history_atomic : forall pre o rest s outs w s' r w',
  legal_history refuse L (pre ++ o :: rest) s0 own0 world0 ->
  run_hist refuse L pre s0 [] world0 = Ret (s, outs) w ->
  step refuse L s o w = Ret (s', r) w' -> failed o r = true ->
  (forall b, heap w' b = heap w b) /\ live_count w' = live_count w /\ table_grows_null s s' /\
  Inv (own_hist refuse L pre s0 own0 world0) own0 [] w'.
Proof.
  intros pre o rest s outs w s' r w' LH R E F.
  destruct (legal_history_app refuse L pre (o :: rest) s0 own0 world0 LH s outs w [] R) as (L1 & L2).
  destruct (C04_history_gen refuse L pre s0 own0 own0 world0 [] Inv_world0 caps_world0 L1)
    as (s1 & outs1 & w1 & R1 & I1 & C1).
  rewrite R in R1. injection R1 as <- <- <-.
  cbn [legal_history] in L2. destruct L2 as [Lo _].
  destruct (C06_step_atomic s _ own0 w o s' r w' I1 Lo E F) as (_ & _ & Ht & I' & P & Hn).
  split; [exact P|]. split; [apply live_count_same; [eapply Inv_wf; exact I1|exact P|exact Hn]|]. split; assumption.
Qed.

End Atomic.

(* ------------------------------------------------------------------------------------------ *)
(* 4. non-vacuity: one legal history with nine failing calls of nine different kinds           *)
(* ------------------------------------------------------------------------------------------ *)

(* the allocator refuses the requests number 5 (the element copy in the middle of cbor_copy, after
   the new array and its slot block have been obtained) and number 10 (in the middle of the second
   cbor_load, after the array, its slots and the decoder's stack record have been obtained).
   array of capacity 1; push 7 (ok); push again (FULL); get 5 (OUT OF RANGE); copy (REFUSED MID-WAY);
   load of a truncated array (NOT ENOUGH DATA, after two items were built); serialize into 1 byte
   (TOO SMALL); set 3 (BEYOND); replace 4 (OUT OF RANGE); load (REFUSED MID-WAY);
   definite map of 2^61 pairs (SIZE GUARD, after the item was obtained); build_tag (ok) *)
Definition ex06_refuse : N -> N -> bool := fun i _ => (i =? 5) || (i =? 10).
Definition ex06_ops : list op :=
  [ONewDefArray 1; OBuildInt false I8 7; OPush 0 1; OPush 0 1; OGet 0 5; OCopy 0; OLoad [130%N; 1%N];
   OSerialize 0 1; OSet 0 3 1; OReplace 0 4 1; OLoad [131%N; 1%N; 2%N; 3%N]; ONewDefMap (2^61); OBuildTag 5 1]%nat.

Ltac lg06_copy :=
  split;
  [ let p := fresh "p" in let Hp := fresh "Hp" in intros p Hp; lg_h Hp;
    split; [vm_compute; reflexivity|apply shapedb_ok; vm_compute; reflexivity]
  | lg_next ].
Ltac lg06_load :=
  split; [split; [repeat constructor|vm_compute; reflexivity]|lg_next].
Ltac lg06_ser :=
  split;
  [ let p := fresh "p" in let Hp := fresh "Hp" in intros p Hp; lg_h Hp;
    split; [vm_compute; reflexivity|eapply abs_readable; vm_compute; reflexivity]
  | lg_next ].
Ltac lg06_tag :=
  split;
  [ let q := fresh "q" in let Hq := fresh "Hq" in intros q Hq; lg_h Hq; split; [vm_compute; reflexivity|lg_room]
  | lg_next ].

Example ex06_legal : legal_history ex06_refuse 8 ex06_ops s0 own0 world0.
Proof.
  unfold ex06_ops.
  lg_ctor. lg_ctor. lg_push. lg_push. lg_get. lg06_copy. lg06_load. lg06_ser. lg_set. lg_set. lg06_load.
  lg_ctor. lg06_tag. exact I.
Qed.

(* per call: is the output a failure value, are the addresses 0..16 live exactly as before, and the
   number of live blocks afterwards *)
Fixpoint atomic_table (refuse : N -> N -> bool) (L : N) (ops : list op) (s : cstate) (w : world)
    : list (bool * bool * N) :=
  match ops with
  | [] => []
  | o :: r =>
      match step refuse L s o w with
      | Ret (s', out) w' =>
          (failed o out,
           forallb (fun b => match heap w b, heap w' b with None, None => true | Some _, Some _ => true | _, _ => false end)
                   [0; 1; 2; 3; 4; 5; 6; 7; 8; 9; 10; 11; 12; 13; 14; 15; 16],
           live_count w') :: atomic_table refuse L r s' w'
      | Fault _ => []
      end
  end.

Example ex06_table :
  atomic_table ex06_refuse 8 ex06_ops s0 world0 =
    [(false, false, 2); (false, false, 3); (false, true, 3);
     (true, true, 3); (true, true, 3); (true, true, 3); (true, true, 3); (true, true, 3);
     (true, true, 3); (true, true, 3); (true, true, 3); (true, true, 3);
     (false, false, 4)] /\
  match run_hist ex06_refuse 8 ex06_ops s0 [] world0 with
  | Ret (s, outs) w =>
      outs = [OutHandle true; OutHandle true; OutBool true; OutBool false; OutHandle false; OutHandle false;
              OutLoadErr ENotEnough 2; OutBytes 0 [129]; OutBool false; OutBool false; OutLoadErr EMem 1;
              OutHandle false; OutHandle true] /\ nreq w = 13 /\ next w = 12
  | Fault _ => False
  end.
Proof. vm_compute. repeat split. Qed.

(* the theorem applied to the copy that fails mid-way and to the load that fails mid-way *)
Example ex06_copy_atomic : forall s outs w s' r w',
  run_hist ex06_refuse 8 (firstn 5 ex06_ops) s0 [] world0 = Ret (s, outs) w ->
  step ex06_refuse 8 s (OCopy 0) w = Ret (s', r) w' -> failed (OCopy 0) r = true ->
  (forall b, heap w' b = heap w b) /\ live_count w' = live_count w /\ table_grows_null s s'.
Proof.
  intros s outs w s' r w' R E F.
  destruct (C06_history_atomic ex06_refuse 8 (firstn 5 ex06_ops) (OCopy 0) (skipn 6 ex06_ops) s outs w s' r w'
              ex06_legal R E F) as (A & B & C & _). auto.
Qed.
Example ex06_load_atomic : forall s outs w s' r w',
  run_hist ex06_refuse 8 (firstn 10 ex06_ops) s0 [] world0 = Ret (s, outs) w ->
  step ex06_refuse 8 s (OLoad [131; 1; 2; 3]) w = Ret (s', r) w' -> failed (OLoad [131; 1; 2; 3]) r = true ->
  (forall b, heap w' b = heap w b) /\ live_count w' = live_count w /\ table_grows_null s s'.
Proof.
  intros s outs w s' r w' R E F.
  destruct (C06_history_atomic ex06_refuse 8 (firstn 10 ex06_ops) (OLoad [131; 1; 2; 3]) (skipn 11 ex06_ops) s outs w s' r w'
              ex06_legal R E F) as (A & B & C & _). auto.
Qed.

(* ------------------------------------------------------------------------------------------ *)
(* 5. the third layer of client calls (HHist3.step3)                                           *)
(* ------------------------------------------------------------------------------------------ *)

(* failure values of the calls of the third layer *)
Definition failed3 (o : op3) (r : out3) : bool :=
  match o, r with
  | O3Old o, Out r => failed o r
  | (O3NewDefString _ | O3NewInt _ | O3NewFloat _ | O3NewCtrl | O3BuildBool _ | O3NewNull | O3NewUndef
     | O3BuildString0 _ | O3BuildTagMove _ _), Out (OutHandle false) => true
  | (O3SetHandleNew _ _ | O3PushMove _ _ | O3MapAddMove _ _ _), Out (OutBool false) => true
  | O3SerializeTyped _ _ _, Out (OutBytes N0 _) => true
  | _, _ => false
  end.

(* the items whose reference the client hands over with cbor_move BEFORE the call is made, in the
   idioms f(.., cbor_move(x)): their count is one lower whether or not f then succeeds *)
Definition moved (s : cstate3) (o : op3) : list addr :=
  match o with
  | O3PushMove a x => match hget (base s) a, hget (base s) x with Some _, Some q => [q] | _, _ => [] end
  | O3MapAddMove m k v =>
      match hget (base s) m, hget (base s) k, hget (base s) v with Some _, Some q, Some r => [q; r] | _, _, _ => [] end
  | O3BuildTagMove _ x => match hget (base s) x with Some q => [q] | None => [] end
  | _ => []
  end.

Lemma move_inv q w r w' : move q w = Ret r w' ->
  exists rc n, heap w q = Some (CItem rc n) /\ (forall b, heap w' b = upd (heap w) q (Some (CItem (sub64 rc 1) n)) b) /\ next w' = next w.
Proof.
  unfold move. intros H. apply bind_inv in H. destruct H as ([rc n] & w1 & E1 & H).
  apply rd_item_ret in E1. destruct E1 as [Eq ->]. cbn [fst snd] in H.
  apply bind_inv in H. destruct H as ([] & w2 & E2 & H). apply ret_inv in H. destruct H as [_ ->].
  apply wr_item_ret in E2. destruct E2 as [_ ->]. exists rc, n. split; [exact Eq|]. split; reflexivity.
Qed.

Section Atomic3.
Variable refuse : N -> N -> bool.
Variable L : N.

Lemma lift3_inv s (m : M (cstate * out)) w s' r w' : lift3 s m w = Ret (s', r) w' ->
  exists sb rb, m w = Ret (sb, rb) w' /\ s' = mkcs3 sb (unset s) /\ r = Out rb.
Proof.
  unfold lift3. intros H. apply bind_inv in H. destruct H as ([sb rb] & w1 & E & H).
  apply ret_inv in H. destruct H as [H ->]. injection H as -> ->. eauto.
Qed.

Definition table3_grows_null (s s' : cstate3) : Prop := table_grows_null (base s) (base s') /\ unset s' = unset s.

(* C06 for the third layer.  A failing call leaves every cell as it was and nothing allocated -
   EXCEPT that in the idioms f(.., cbor_move(x)) the count of the moved item x is one lower (two lower
   for cbor_map_add with the same item as key and value): cbor_move has been evaluated before f was
   called, so a failing f does not give the reference back. *)
Theorem C06_step3_atomic : forall s own ownd w o s' r w',
  Inv own ownd [] w -> legal3 s own w o ->
  step3 refuse L s o w = Ret (s', r) w' -> failed3 o r = true ->
  (forall b, ~ In b (moved s o) -> heap w' b = heap w b) /\
  (forall b, In b (moved s o) -> exists rc n, heap w b = Some (CItem rc n) /\ heap w' b = Some (CItem (rc - cnt b (moved s o)) n)) /\
  (forall b, heap w' b <> None -> heap w b <> None) /\
  next w <= next w' /\ table3_grows_null s s' /\
  (moved s o = [] -> Inv own ownd [] w').
Proof.
  intros s own ownd w o s' r w' I0 Lg E F. pose proof (Inv_wf _ _ _ _ I0) as Hwf.
  (* the common conclusion when nothing is moved and the heap is pointwise the same *)
  assert (Same : moved s o = [] -> (forall b, heap w' b = heap w b) -> next w <= next w' -> table3_grows_null s s' ->
            (forall b, ~ In b (moved s o) -> heap w' b = heap w b) /\
            (forall b, In b (moved s o) -> exists rc n, heap w b = Some (CItem rc n) /\ heap w' b = Some (CItem (rc - cnt b (moved s o)) n)) /\
            (forall b, heap w' b <> None -> heap w b <> None) /\
            next w <= next w' /\ table3_grows_null s s' /\ (moved s o = [] -> Inv own ownd [] w')).
  { intros Hm P Hn Ht. rewrite Hm. split; [intros b _; apply P|]. split; [intros b []|].
    split; [intros b Hb; rewrite <- P; exact Hb|]. split; [exact Hn|]. split; [exact Ht|].
    intros _. eapply Inv_heq; [exact I0|exact P|exact Hn]. }
  assert (Heq : forall w1, heap w1 = heap w /\ next w1 = next w -> (forall b, heap w1 b = heap w b) /\ next w <= next w1).
  { intros w1 [A B]. split; [intros b; rewrite A; reflexivity|lia]. }
  assert (Tpush : table3_grows_null s (mkcs3 (hpush (base s) None) (unset s))) by (split; [right; reflexivity|reflexivity]).
  assert (Tsame : table3_grows_null s s) by (split; [left; reflexivity|reflexivity]).
  assert (Tsame' : table3_grows_null s (mkcs3 (base s) (unset s))) by (split; [left; reflexivity|reflexivity]).
  destruct o as [o|text|h bytes|h n|iw|iw h v|neg h|fw|fw h bits| |h v|h b|b| | |h|a x|m k v|t x|v x|h|bytes|k h n|h|h];
    cbn [step3 failed3 legal3] in *.
  - (* a call of the first layer *)
    destruct r as [r|l0]; [|discriminate F]. destruct Lg as [Lg _].
    unfold old3 in E. destruct (forallb (is_set s) (op_reads o)); [|discriminate E].
    apply lift3_inv in E. destruct E as (sb & rb & E & -> & Er). injection Er as <-.
    destruct (C06_step_atomic refuse L (base s) own ownd w o sb r w' I0 Lg E F) as (_ & _ & Ht & _ & P & Hn).
    apply Same; [reflexivity|exact P|exact Hn|split; [exact Ht|reflexivity]].
  - destruct r as [[[|]| | | | | | |]|]; try discriminate F.
    apply lift3_inv in E. destruct E as (sb & rb & E & -> & Er). injection Er as <-.
    unfold new_definite_string_op in E. destruct (newh_failed _ _ _ _ _ _ E eq_refl) as [E1 ->].
    destruct (Heq _ (malloc_none _ _ _ _ _ E1)). apply Same; auto.
  - destruct r as [[|[|]| | | | | |]|]; try discriminate F.
    apply lift3_inv in E. destruct E as (sb & rb & E & -> & Er). injection Er as <-.
    unfold set_handle_new in E. destruct (hget (base s) h) as [a|]; [|apply ret_inv in E; destruct E as [E _]; discriminate E].
    apply bind_inv in E. destruct E as (d & w1 & E1 & E). destruct d as [d|].
    + exfalso. apply bind_inv in E. destruct E as (c & w2 & _ & E).
      destruct (snd c) as [| | |text data bs| | | |]; try discriminate E. destruct data; [discriminate E|]. ret_ne E.
    + apply ret_inv in E. destruct E as [E ->]. injection E as ->.
      destruct (Heq _ (malloc_none _ _ _ _ _ E1)). apply Same; auto.
  - discriminate F.
  - destruct r as [[[|]| | | | | | |]|]; try discriminate F.
    unfold new_int in E. apply bind_inv in E. destruct E as (x & w1 & E1 & E). apply ret_inv in E. destruct E as [E ->].
    destruct x as [a|]; [discriminate E|]. injection E as ->.
    destruct (Heq _ (malloc_none _ _ _ _ _ E1)). apply Same; auto.
  - discriminate F.
  - discriminate F.
  - destruct r as [[[|]| | | | | | |]|]; try discriminate F.
    unfold new_float in E. apply bind_inv in E. destruct E as (x & w1 & E1 & E). apply ret_inv in E. destruct E as [E ->].
    destruct x as [a|]; [discriminate E|]. injection E as ->.
    destruct (Heq _ (malloc_none _ _ _ _ _ E1)). apply Same; auto.
  - discriminate F.
  - destruct r as [[[|]| | | | | | |]|]; try discriminate F.
    unfold new_ctrl in E. apply lift3_inv in E. destruct E as (sb & rb & E & -> & Er). injection Er as <-.
    destruct (newh_failed _ _ _ _ _ _ E eq_refl) as [E1 ->]. unfold new_ctrl_item in E1.
    destruct (Heq _ (malloc_none _ _ _ _ _ E1)). apply Same; auto.
  - discriminate F.
  - discriminate F.
  - destruct r as [[[|]| | | | | | |]|]; try discriminate F.
    unfold build_bool in E. apply lift3_inv in E. destruct E as (sb & rb & E & -> & Er). injection Er as <-.
    destruct (newh_failed _ _ _ _ _ _ E eq_refl) as [E1 ->]. unfold build_ctrl in E1.
    destruct (Heq _ (malloc_none _ _ _ _ _ E1)). apply Same; auto.
  - destruct r as [[[|]| | | | | | |]|]; try discriminate F.
    unfold new_ctrl_set in E. apply lift3_inv in E. destruct E as (sb & rb & E & -> & Er). injection Er as <-.
    destruct (newh_failed _ _ _ _ _ _ E eq_refl) as [E1 ->].
    apply bind_inv in E1. destruct E1 as (x & w1 & E1 & E2). destruct x as [a|]; [exfalso; ret_ne E2|].
    apply ret_inv in E2. destruct E2 as [_ ->]. unfold new_ctrl_item in E1.
    destruct (Heq _ (malloc_none _ _ _ _ _ E1)). apply Same; auto.
  - destruct r as [[[|]| | | | | | |]|]; try discriminate F.
    unfold new_ctrl_set in E. apply lift3_inv in E. destruct E as (sb & rb & E & -> & Er). injection Er as <-.
    destruct (newh_failed _ _ _ _ _ _ E eq_refl) as [E1 ->].
    apply bind_inv in E1. destruct E1 as (x & w1 & E1 & E2). destruct x as [a|]; [exfalso; ret_ne E2|].
    apply ret_inv in E2. destruct E2 as [_ ->]. unfold new_ctrl_item in E1.
    destruct (Heq _ (malloc_none _ _ _ _ _ E1)). apply Same; auto.
  - discriminate F.
  - (* cbor_array_push(a, cbor_move(x)) *)
    destruct r as [[|[|]| | | | | |]|]; try discriminate F. unfold push_move in E. cbn [moved].
    destruct (hget (base s) a) as [p|] eqn:Ha; [|apply ret_inv in E; destruct E as [E _]; discriminate E].
    destruct (hget (base s) x) as [q|] eqn:Hx; [|apply ret_inv in E; destruct E as [E _]; discriminate E].
    destruct (Lg p q eq_refl eq_refl) as (_ & _ & _ & _ & _ & (rcq & nq & Eq & Hrc & _)).
    destruct (is_set s x); [|discriminate E].
    apply bind_inv in E. destruct E as (u & w1 & E1 & E). apply bind_inv in E. destruct E as (b & w2 & E2 & E).
    apply ret_inv in E. destruct E as [E ->]. injection E as Es Eb. subst s'. try subst b.
    destruct (move_inv _ _ _ _ E1) as (rc0 & n0 & Eq0 & H1 & N1). rewrite Eq in Eq0. injection Eq0 as <- <-.
    destruct (array_push_false _ _ _ _ _ E2) as [H2 N2]. rewrite sub64_1 in H1 by lia.
    split; [|split; [|split; [|split; [lia|split; [exact Tsame|discriminate]]]]].
    + intros b Hb. rewrite H2, H1. apply upd_other. intros ->. apply Hb. left. reflexivity.
    + intros b [<-|[]]. exists rcq, nq. split; [exact Eq|]. rewrite H2, H1, upd_same. cbn [cnt]. rewrite N.eqb_refl. reflexivity.
    + intros b Hb. destruct (N.eq_dec b q) as [Hq|Nq]; [subst b; rewrite Eq; discriminate|]. rewrite H2, H1, upd_other in Hb by exact Nq. exact Hb.
  - (* cbor_map_add(m, {cbor_move(k), cbor_move(v)}) *)
    destruct r as [[|[|]| | | | | |]|]; try discriminate F. unfold map_add_move in E. cbn [moved].
    destruct (hget (base s) m) as [p|] eqn:Hm; [|apply ret_inv in E; destruct E as [E _]; discriminate E].
    destruct (hget (base s) k) as [q|] eqn:Hk; [|apply ret_inv in E; destruct E as [E _]; discriminate E].
    destruct (hget (base s) v) as [rr|] eqn:Hv; [|apply ret_inv in E; destruct E as [E _]; discriminate E].
    destruct (Lg p q rr eq_refl eq_refl eq_refl) as (_ & _ & _ & _ & _ & _ & _ & _ & _ & (rcq & nq & Eq & Hrq & _ & Hqq) & (rcr & nr & Er & Hrr & _)).
    destruct (is_set s k && is_set s v); [|discriminate E].
    apply bind_inv in E. destruct E as (u & w1 & E1 & E). apply bind_inv in E. destruct E as (u2 & w2 & E2 & E).
    apply bind_inv in E. destruct E as (b & w3 & E3 & E).
    apply ret_inv in E. destruct E as [E ->]. injection E as Es Eb. subst s'. try subst b.
    destruct (move_inv _ _ _ _ E1) as (rc0 & n0 & Eq0 & H1 & N1). rewrite Eq in Eq0. injection Eq0 as <- <-.
    destruct (move_inv _ _ _ _ E2) as (rc1 & n1 & Er1 & H2 & N2).
    destruct (map_add_false _ _ _ _ _ _ E3) as [H3 N3]. rewrite sub64_1 in H1 by lia.
    split; [|split; [|split; [|split; [lia|split; [exact Tsame|discriminate]]]]].
    + intros b Hb. rewrite H3, H2, upd_other by (intros ->; apply Hb; right; left; reflexivity).
      rewrite H1. apply upd_other. intros ->. apply Hb. left. reflexivity.
    + intros b Hb. destruct (N.eq_dec q rr) as [<-|Hqr].
      * assert (b = q) by (destruct Hb as [<-|[<-|[]]]; reflexivity). subst b.
        rewrite H1, upd_same in Er1. injection Er1 as <- <-. rewrite sub64_1 in H2 by (specialize (Hqq eq_refl); lia).
        exists rcq, nq. split; [exact Eq|]. rewrite H3, H2, upd_same. cbn [cnt]. rewrite N.eqb_refl. first [reflexivity|f_equal; f_equal; lia].
      * rewrite H1, upd_other in Er1 by congruence. rewrite Er in Er1. injection Er1 as <- <-.
        rewrite sub64_1 in H2 by lia.
        destruct Hb as [<-|[<-|[]]].
        -- exists rcq, nq. split; [exact Eq|]. rewrite H3, H2, upd_other by exact Hqr. rewrite H1, upd_same. cbn [cnt].
           rewrite N.eqb_refl. destruct (N.eqb_spec rr q); [congruence|]. first [reflexivity|f_equal; f_equal; lia].
        -- exists rcr, nr. split; [exact Er|]. rewrite H3, H2, upd_same. cbn [cnt].
           rewrite N.eqb_refl. destruct (N.eqb_spec q rr); [congruence|]. first [reflexivity|f_equal; f_equal; lia].
    + intros b Hb. destruct (N.eq_dec b rr) as [Hr|Nr]; [subst b; rewrite Er; discriminate|].
      destruct (N.eq_dec b q) as [Hq|Nq]; [subst b; rewrite Eq; discriminate|].
      rewrite H3, H2, upd_other in Hb by exact Nr. rewrite H1, upd_other in Hb by exact Nq. exact Hb.
  - discriminate F.
  - (* cbor_build_tag(v, cbor_move(x)) *)
    destruct r as [[[|]| | | | | | |]|]; try discriminate F. unfold build_tag_move in E. cbn [moved].
    destruct (hget (base s) x) as [q|] eqn:Hx; [|apply ret_inv in E; destruct E as [E _]; discriminate E].
    destruct (Lg q eq_refl) as (_ & _ & (rcq & nq & Eq & Hrc & _)).
    destruct (is_set s x); [|discriminate E].
    apply bind_inv in E. destruct E as (u & w1 & E1 & E).
    apply lift3_inv in E. destruct E as (sb & rb & E & -> & Er). injection Er as <-.
    destruct (newh_failed _ _ _ _ _ _ E eq_refl) as [E2 ->].
    destruct (move_inv _ _ _ _ E1) as (rc0 & n0 & Eq0 & H1 & N1). rewrite Eq in Eq0. injection Eq0 as <- <-.
    destruct (build_tag_none _ _ _ _ _ E2) as [H2 N2]. rewrite sub64_1 in H1 by lia.
    split; [|split; [|split; [|split; [lia|split; [exact Tpush|discriminate]]]]].
    + intros b Hb. rewrite H2, H1. apply upd_other. intros ->. apply Hb. left. reflexivity.
    + intros b [<-|[]]. exists rcq, nq. split; [exact Eq|]. rewrite H2, H1, upd_same. cbn [cnt]. rewrite N.eqb_refl. reflexivity.
    + intros b Hb. destruct (N.eq_dec b q) as [Hq|Nq]; [subst b; rewrite Eq; discriminate|]. rewrite H2, H1, upd_other in Hb by exact Nq. exact Hb.
  - discriminate F.
  - destruct r as [[[|]| | | | | | |]|]; try discriminate F.
    unfold build_string0 in E. apply lift3_inv in E. destruct E as (sb & rb & E & -> & Er). injection Er as <-.
    destruct (newh_failed _ _ _ _ _ _ E eq_refl) as [E1 ->].
    destruct (build_string_none _ _ _ _ _ Hwf E1). apply Same; auto.
  - (* the typed serializers *)
    destruct r as [[| | | |[|] bs| | |]|]; try discriminate F. unfold serialize_typed in E.
    destruct (hget (base s) h) as [a|]; [|apply ret_inv in E; destruct E as [E _]; discriminate E].
    destruct (memN a (unset s)); [discriminate E|].
    apply bind_inv in E. destruct E as (c & w1 & E1 & E). apply rd_same in E1.
    apply bind_inv in E. destruct E as (u & w2 & E2 & E).
    assert (w2 = w1) by (destruct (skind_id (node_kind (snd c)) =? skind_id k); [apply ret_inv in E2; destruct E2 as [_ ->]; reflexivity|discriminate E2]).
    subst w2. apply bind_inv in E. destruct E as (rr & w3 & E3 & E).
    destruct (serialize_readonly a n w1 rr w3 E3) as (H3 & N3 & _).
    destruct rr as [[wr bs']|]; [|discriminate E]. apply ret_inv in E. destruct E as [E ->]. injection E as <- _.
    destruct E1 as [H1 N1]. apply Same; [reflexivity|intros b; rewrite H3, H1; reflexivity|lia|exact Tsame].
  - discriminate F.
  - discriminate F.
Qed.

End Atomic3.

(* the exception is real: a failing cbor_array_push(a, cbor_move(x)) (definite array full) returns
   false and leaves x with a count one lower - the reference the client moved is not given back *)
Example ex06_push_move_not_restored :
  let ops := [O3Old (ONewDefArray 0); O3Old (OBuildInt false I8 7); O3Old (OIncref 1)]%nat in
  match run_hist3 never 8 ops s3_0 [] world0 with
  | Ret (s, _) w =>
      match step3 never 8 s (O3PushMove 0 1) w with
      | Ret (s', r) w' =>
          r = Out (OutBool false) /\ failed3 (O3PushMove 0 1) r = true /\ moved s (O3PushMove 0 1) = [3] /\
          heap w 3 = Some (CItem 2 (NInt false I8 7)) /\ heap w' 3 = Some (CItem 1 (NInt false I8 7)) /\
          heap w' 1 = heap w 1 /\ heap w' 2 = heap w 2 /\ live_count w' = live_count w
      | Fault _ => False
      end
  | Fault _ => False
  end.
Proof. vm_compute. repeat split. Qed.

Print Assumptions C06_step_atomic.
Print Assumptions C06_step3_atomic.
Print Assumptions C06_step_total_atomic.
Print Assumptions C06_history_atomic.
Print Assumptions ex06_legal.
