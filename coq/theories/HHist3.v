(* Model H, third layer of client calls (outside the [op] type of HHist.v and the three calls of
   HHist2.v, which stay as they are):

     ints.c           cbor_new_int8/16/32/64 (value NOT initialised), cbor_set_uint8/16/32/64,
                      cbor_mark_uint, cbor_mark_negint
     floats_ctrls.c   cbor_new_float2/4/8 (value NOT initialised), cbor_set_float2/4/8, cbor_new_ctrl,
                      cbor_set_ctrl, cbor_set_bool, cbor_build_bool, cbor_new_null, cbor_new_undef
     common.c         cbor_move (alone, and in the documented idioms f(.., cbor_move(x))),
                      cbor_intermediate_decref, cbor_typeof, cbor_isa_*, cbor_is_*
     strings.c        cbor_build_string (NUL-terminated: strlen)
     serialization.c  cbor_serialize_uint/negint/bytestring/string/array/map/tag/float_ctrl called directly
     getters          cbor_get_int, cbor_get_uint8..64, cbor_int_get_width, cbor_float_get_width,
                      cbor_float_ctrl_is_ctrl, cbor_float_get_float2/4/8, cbor_float_get_float,
                      cbor_ctrl_value, cbor_get_bool, cbor_refcount, cbor_tag_value,
                      cbor_bytestring_length / is_definite / is_indefinite / chunk_count,
                      cbor_string_length / codepoint_count / is_definite / is_indefinite / chunk_count,
                      cbor_array_size / allocated / is_definite / is_indefinite, cbor_map_ (the same four),
                      the pointer getters cbor_*_handle / cbor_*_chunks_handle
     allocators.c     cbor_set_allocs (while no block is alive)

   The value of an item made by cbor_new_intN / cbor_new_floatN lives in bytes that nobody has written.
   The [node] type has no "no value yet" form, and storing 0 would be a totalisation that hides a read
   before the first write.  So the client state carries a side table [unset] of the items (by address:
   addresses are never reused) whose value has not been stored yet; the heap node holds the placeholder
   0, and EVERY operation that reads the value of an item, or that puts the item where a later traversal
   would read it (serializers, copy, getters, insertion into a container or a tag), faults with [FUninit]
   when the item is in the table.  Histories that read before writing are therefore illegal: they are
   excluded from the correspondence and from the theorems ([legal3]).  Type predicates, the width
   getters, the reference count, cbor_mark_*, cbor_incref / cbor_decref / cbor_move do not read the
   value and are allowed on such an item.

   Every CBOR_ASSERT of the C functions is an [assert_] / [fail (FAssert id)] here (ids 61-77).
   Definitions only. *)
From CB Require Export HHist2 PUtf8 PWiden.
Local Open Scope N_scope.

(* client state: the handle table of HHist.v and the set of items whose value is not yet written *)
Record cstate3 := mkcs3 { base : cstate; unset : list addr }.
Definition s3_0 : cstate3 := mkcs3 (mkcs []) [].

Definition memN (a : addr) (l : list addr) : bool := existsb (N.eqb a) l.
Definition remN (a : addr) (l : list addr) : list addr := filter (fun x => negb (x =? a)) l.

(* read of a value that was never written (not a CBOR_ASSERT: undefined behaviour of the client) *)
Definition FUninit : fkind := FAssert 60.

Definition iw_bits (w : iwidth) : N := match w with I8 => 8 | I16 => 16 | I32 => 32 | I64 => 64 end.
Definition fw_bits (w : fwidth) : N := match w with F16 => 32 | F32 => 32 | F64 => 64 end.   (* float2 is stored as a float *)
Definition iw_eqb (a b : iwidth) : bool :=
  match a, b with I8, I8 | I16, I16 | I32, I32 | I64, I64 => true | _, _ => false end.
Definition fw_eqb (a b : fwidth) : bool :=
  match a, b with F16, F16 | F32, F32 | F64, F64 => true | _, _ => false end.

(* cbor_type, and which type-specific serializer accepts the item *)
Inductive skind := KUint | KNegint | KBytes | KString | KArray | KMap | KTag | KFloatCtrl.
Definition skind_id (k : skind) : N :=
  match k with KUint => 0 | KNegint => 1 | KBytes => 2 | KString => 3 | KArray => 4 | KMap => 5 | KTag => 6 | KFloatCtrl => 7 end.
Definition node_kind (n : node) : skind :=
  match n with
  | NInt false _ _ => KUint
  | NInt true _ _ => KNegint
  | NFloat _ _ | NCtrl _ => KFloatCtrl
  | NStr text _ _ | NChunked text _ _ _ _ => if text then KString else KBytes
  | NArr _ _ _ _ => KArray
  | NMap _ _ _ _ => KMap
  | NTag _ _ => KTag
  end.

Definition b2n (b : bool) : N := if b then 1 else 0.
Definition iw_id (w : iwidth) : N := match w with I8 => 0 | I16 => 1 | I32 => 2 | I64 => 3 end.   (* cbor_int_width *)
Definition fw_id (w : fwidth) : N := match w with F16 => 1 | F32 => 2 | F64 => 3 end.             (* cbor_float_width; 0 = ctrl *)

(* cbor_typeof; cbor_isa_uint .. cbor_isa_float_ctrl; cbor_is_int, cbor_is_float, cbor_is_bool,
   cbor_is_null, cbor_is_undef; then the getters of the item's metadata, by type:
     int          cbor_int_get_width
     float / ctrl cbor_float_get_width, cbor_float_ctrl_is_ctrl
     byte string  cbor_bytestring_length, _is_definite, _is_indefinite, and (indefinite) _chunk_count
     text string  cbor_string_length, _codepoint_count, _is_definite, _is_indefinite, and (indefinite) _chunk_count
     array / map  cbor_array_size, _allocated, _is_definite, _is_indefinite (resp. the four cbor_map_ functions)
     tag          cbor_tag_value
   and finally cbor_refcount.  None of these reads an int / float value.
   The length of an indefinite string is the 0 its constructor stored (add_chunk does not touch it), and so
   is its code-point count.  The code-point count of a definite text string is what cbor_string_set_handle
   stored when the buffer was installed: the DFA's count, or 0 for invalid UTF-8 -- [spec_codepoints]
   (PUtf8_proofs.stored_codepoints_spec: the DFA computes exactly that, property C16). *)
Definition meta_of (n : node) : list N :=
  match n with
  | NInt _ w _ => [iw_id w]
  | NFloat w _ => [fw_id w; 0]
  | NCtrl _ => [0; 1]
  | NStr false _ bytes => [len bytes; 1; 0]
  | NStr true _ bytes => [len bytes; spec_codepoints bytes; 1; 0]
  | NChunked false _ _ _ chunks => [0; 0; 1; len chunks]
  | NChunked true _ _ _ chunks => [0; 0; 0; 1; len chunks]
  | NArr indef _ allocated elems => [len elems; allocated; b2n (negb indef); b2n indef]
  | NMap indef _ allocated pairs => [len pairs; allocated; b2n (negb indef); b2n indef]
  | NTag v _ => [v]
  end.
Definition preds_of (rc : N) (n : node) : list N :=
  let t := skind_id (node_kind n) in
  [t; b2n (t =? 0); b2n (t =? 1); b2n (t =? 2); b2n (t =? 3); b2n (t =? 4); b2n (t =? 5); b2n (t =? 6); b2n (t =? 7);
   b2n (match n with NInt _ _ _ => true | _ => false end);
   b2n (match n with NFloat _ _ => true | _ => false end);
   b2n (match n with NCtrl v => (v =? 20) || (v =? 21) | _ => false end);
   b2n (match n with NCtrl v => v =? 22 | _ => false end);
   b2n (match n with NCtrl v => v =? 23 | _ => false end)]
  ++ meta_of n ++ [rc].

(* the value getters: cbor_get_int and cbor_get_uintN; cbor_float_get_floatN as bits (NaN canonical)
   and cbor_float_get_float as the bits of the double it returns (NaN canonical; PWiden: the float of a
   half / single item widened to binary64); cbor_ctrl_value and, on a boolean, cbor_get_bool *)
Definition values_of (n : node) : list N :=
  match n with
  | NInt _ _ v => [v; v]
  | NFloat F64 bits => [canon64 bits; float_get_float_bits F64 bits]
  | NFloat w bits => [canon32 bits; float_get_float_bits w bits]
  | NCtrl v => v :: (if (v =? 20) || (v =? 21) then [b2n (v =? 21)] else [])
  | _ => []
  end.

(* the pointer getters cbor_bytestring_handle / cbor_string_handle, cbor_bytestring_chunks_handle /
   cbor_string_chunks_handle, cbor_array_handle, cbor_map_handle: the block the pointer designates (its
   address; 0 = NULL: a definite string without buffer, a container that has no storage yet), then what the
   client finds there: the bytes, the chunk items, the elements, the key / value items, in storage order *)
Definition oaddr (o : option addr) : N := match o with Some a => a | None => 0 end.
Definition ptrs_of (n : node) : list N :=
  match n with
  | NStr _ data bytes => oaddr data :: bytes
  | NChunked _ _ arr _ chunks => oaddr arr :: chunks
  | NArr _ data _ elems => oaddr data :: elems
  | NMap _ data _ pairs => oaddr data :: flat_map (fun kv => [fst kv; oaddr (snd kv)]) pairs
  | _ => []
  end.

(* cbor_build_string: the bytes up to the first NUL *)
Fixpoint upto0 (l : list N) : list N :=
  match l with
  | [] => []
  | b :: r => if b =? 0 then [] else b :: upto0 r
  end.

(* what the client observes from one call of this layer *)
Inductive out3 :=
| Out (o : out)
| OutVals (l : list N).

Inductive op3 :=
| O3Old (o : op)                                   (* layer 1: HHist.step, guarded by [unset] *)
| O3NewDefString (text : bool)                     (* layer 2: HHist2 *)
| O3SetHandleNew (h : nat) (bytes : list N)
| O3SetHandleShorten (h : nat) (n : N)
| O3NewInt (w : iwidth)
| O3SetUint (w : iwidth) (h : nat) (v : N)
| O3Mark (neg : bool) (h : nat)
| O3NewFloat (w : fwidth)
| O3SetFloat (w : fwidth) (h : nat) (bits : N)
| O3NewCtrl
| O3SetCtrl (h : nat) (v : N)
| O3SetBool (h : nat) (b : bool)
| O3BuildBool (b : bool)
| O3NewNull | O3NewUndef
| O3Move (h : nat)
| O3PushMove (a x : nat)
| O3MapAddMove (m k v : nat)
| O3TagSetMove (t x : nat)
| O3BuildTagMove (v : N) (x : nat)
| O3IntermediateDecref (h : nat)
| O3BuildString0 (bytes : list N)
| O3SerializeTyped (k : skind) (h : nat) (n : N)
| O3Preds (h : nat)
| O3Vals (h : nat).

Section Api3.
Variable refuse : N -> N -> bool.
Variable L : N.

Definition is_set (s : cstate3) (h : nat) : bool :=
  match hget (base s) h with Some a => negb (memN a (unset s)) | None => true end.

(* lift a call of the earlier layers: the table is unchanged *)
Definition lift3 (s : cstate3) (m : M (cstate * out)) : M (cstate3 * out3) :=
  r <- m ;; ret (mkcs3 (fst r) (unset s), Out (snd r)).

(* the handles whose item an [op] of HHist.v reads, copies, serializes or stores in a container;
   cbor_incref / cbor_decref touch the count only *)
Definition op_reads (o : op) : list nat :=
  match o with
  | OBuildTag _ x => [x]
  | OPush a x => [a; x]
  | OGet a _ => [a]
  | OSet a _ x | OReplace a _ x => [a; x]
  | OMapAdd m k v => [m; k; v]
  | OAddChunk c x => [c; x]
  | OTagSet t x => [t; x]
  | OTagItem t => [t]
  | OCopy h | OSerSize h | OSerialize h _ | OSerAlloc h => [h]
  | _ => []
  end.

Definition old3 (s : cstate3) (o : op) : M (cstate3 * out3) :=
  if forallb (is_set s) (op_reads o) then lift3 s (step refuse L (base s) o) else fail FUninit.

(* ---------- ints.c ---------- *)

(* cbor_new_int8/16/32/64: one block of sizeof(cbor_item_t) + width bytes, count 1, type UINT, width
   set; the value bytes are not written *)
Definition new_int (s : cstate3) (w : iwidth) : M (cstate3 * out3) :=
  r <- malloc refuse (SZ_ITEM + iw_bytes w) (CItem 1 (NInt false w 0)) ;;
  ret (mkcs3 (hpush (base s) r) (match r with Some a => a :: unset s | None => unset s end),
       Out (OutHandle (match r with Some _ => true | None => false end))).

(* cbor_set_uintN(item, (uintN_t)v): CBOR_ASSERT(cbor_is_int(item)); CBOR_ASSERT(width == N); store *)
Definition set_uint (s : cstate3) (w : iwidth) (h : nat) (v : N) : M (cstate3 * out3) :=
  match hget (base s) h with
  | None => ret (s, Out OutSkip)
  | Some a =>
      c <- rd_item a ;;
      match snd c with
      | NInt neg w0 _ =>
          assert_ 62 (iw_eqb w0 w) ;;;
          wr_item a (fst c) (NInt neg w0 (wrap (iw_bits w) v)) ;;;
          ret (mkcs3 (base s) (remN a (unset s)), Out OutUnit)
      | _ => fail (FAssert 61)
      end
  end.

(* cbor_mark_uint / cbor_mark_negint: CBOR_ASSERT(cbor_is_int(item)); item->type = ... *)
Definition mark_int (s : cstate3) (neg : bool) (h : nat) : M (cstate3 * out3) :=
  match hget (base s) h with
  | None => ret (s, Out OutSkip)
  | Some a =>
      c <- rd_item a ;;
      match snd c with
      | NInt _ w v => wr_item a (fst c) (NInt neg w v) ;;; ret (s, Out OutUnit)
      | _ => fail (FAssert 61)
      end
  end.

(* ---------- floats_ctrls.c ---------- *)

(* cbor_new_float2/4/8: sizeof(cbor_item_t) + 4 / 4 / 8 bytes; the value bytes are not written *)
Definition new_float (s : cstate3) (w : fwidth) : M (cstate3 * out3) :=
  r <- malloc refuse (SZ_ITEM + fw_bytes w) (CItem 1 (NFloat w 0)) ;;
  ret (mkcs3 (hpush (base s) r) (match r with Some a => a :: unset s | None => unset s end),
       Out (OutHandle (match r with Some _ => true | None => false end))).

(* cbor_set_float2/4/8: CBOR_ASSERT(cbor_is_float(item)); CBOR_ASSERT(width == ..); store *)
Definition set_float (s : cstate3) (w : fwidth) (h : nat) (bits : N) : M (cstate3 * out3) :=
  match hget (base s) h with
  | None => ret (s, Out OutSkip)
  | Some a =>
      c <- rd_item a ;;
      match snd c with
      | NFloat w0 _ =>
          assert_ 64 (fw_eqb w0 w) ;;;
          wr_item a (fst c) (NFloat w0 (wrap (fw_bits w) bits)) ;;;
          ret (mkcs3 (base s) (remN a (unset s)), Out OutUnit)
      | _ => fail (FAssert 63)
      end
  end.

(* cbor_new_ctrl: sizeof(cbor_item_t) bytes, width FLOAT_0, ctrl = CBOR_CTRL_NONE = 0 (initialised) *)
Definition new_ctrl_item : M (option addr) := malloc refuse SZ_ITEM (CItem 1 (NCtrl 0)).
Definition new_ctrl (s : cstate3) : M (cstate3 * out3) := lift3 s (newh (base s) new_ctrl_item).

(* cbor_set_ctrl(item, (uint8_t)v): CBOR_ASSERT(cbor_isa_float_ctrl(item)); CBOR_ASSERT(width == FLOAT_0) *)
Definition set_ctrl_at (a : addr) (v : N) : M unit :=
  c <- rd_item a ;;
  match snd c with
  | NCtrl _ => wr_item a (fst c) (NCtrl (wrap 8 v))
  | NFloat _ _ => fail (FAssert 66)
  | _ => fail (FAssert 65)
  end.
Definition set_ctrl (s : cstate3) (h : nat) (v : N) : M (cstate3 * out3) :=
  match hget (base s) h with
  | None => ret (s, Out OutSkip)
  | Some a => set_ctrl_at a v ;;; ret (s, Out OutUnit)
  end.

(* cbor_set_bool: CBOR_ASSERT(cbor_is_bool(item)) *)
Definition set_bool (s : cstate3) (h : nat) (b : bool) : M (cstate3 * out3) :=
  match hget (base s) h with
  | None => ret (s, Out OutSkip)
  | Some a =>
      c <- rd_item a ;;
      match snd c with
      | NCtrl v =>
          assert_ 67 ((v =? 20) || (v =? 21)) ;;;
          wr_item a (fst c) (NCtrl (if b then 21 else 20)) ;;; ret (s, Out OutUnit)
      | _ => fail (FAssert 67)
      end
  end.

(* cbor_build_bool(b) = cbor_build_ctrl(b ? 21 : 20) *)
Definition build_bool (s : cstate3) (b : bool) : M (cstate3 * out3) :=
  lift3 s (newh (base s) (build_ctrl refuse (if b then 21 else 20))).

(* cbor_new_null / cbor_new_undef: cbor_new_ctrl, then cbor_set_ctrl *)
Definition new_ctrl_set (s : cstate3) (v : N) : M (cstate3 * out3) :=
  lift3 s (newh (base s)
    (r <- new_ctrl_item ;;
     match r with
     | None => ret None
     | Some a => set_ctrl_at a v ;;; ret (Some a)
     end)).

(* ---------- common.c ---------- *)

(* cbor_move(item): the count goes down by one, nothing is released even at zero *)
Definition move_op (s : cstate3) (h : nat) : M (cstate3 * out3) :=
  match hget (base s) h with
  | None => ret (s, Out OutSkip)
  | Some a => move a ;;; ret (s, Out OutUnit)
  end.

(* the documented idioms: the argument cbor_move(x) is evaluated before the call *)
(* cbor_array_push(a, cbor_move(x)) *)
Definition push_move (s : cstate3) (a x : nat) : M (cstate3 * out3) :=
  match hget (base s) a, hget (base s) x with
  | Some p, Some q =>
      if is_set s x then move q ;;; b <- array_push refuse p q ;; ret (s, Out (OutBool b))
      else fail FUninit
  | _, _ => ret (s, Out OutSkip)
  end.
(* cbor_map_add(m, (struct cbor_pair){.key = cbor_move(k), .value = cbor_move(v)}) *)
Definition map_add_move (s : cstate3) (m k v : nat) : M (cstate3 * out3) :=
  match hget (base s) m, hget (base s) k, hget (base s) v with
  | Some p, Some q, Some r =>
      if is_set s k && is_set s v then
        move q ;;; move r ;;; b <- map_add refuse p q r ;; ret (s, Out (OutBool b))
      else fail FUninit
  | _, _, _ => ret (s, Out OutSkip)
  end.
(* cbor_tag_set_item(t, cbor_move(x)) *)
Definition tag_set_move (s : cstate3) (t x : nat) : M (cstate3 * out3) :=
  match hget (base s) t, hget (base s) x with
  | Some p, Some q =>
      if is_set s x then move q ;;; tag_set_item p q ;;; ret (s, Out OutUnit)
      else fail FUninit
  | _, _ => ret (s, Out OutSkip)
  end.
(* cbor_build_tag(v, cbor_move(x)) *)
Definition build_tag_move (s : cstate3) (v : N) (x : nat) : M (cstate3 * out3) :=
  match hget (base s) x with
  | Some q =>
      if is_set s x then move q ;;; lift3 s (newh (base s) (build_tag refuse v q))
      else fail FUninit
  | None => ret (mkcs3 (hpush (base s) None) (unset s), Out OutSkip)
  end.

(* cbor_intermediate_decref(item) { cbor_decref(&item); } *)
Definition intermediate_decref (s : cstate3) (h : nat) : M (cstate3 * out3) :=
  match hget (base s) h with
  | None => ret (s, Out OutSkip)
  | Some a => decref a ;;; ret (s, Out OutUnit)
  end.

(* ---------- strings.c ---------- *)

(* cbor_build_string(val): cbor_new_definite_string, strlen, _cbor_malloc(len), memcpy, set_handle *)
Definition build_string0 (s : cstate3) (bytes : list N) : M (cstate3 * out3) :=
  lift3 s (newh (base s) (build_string refuse true (upto0 bytes))).

(* ---------- serialization.c: the type-specific serializers called directly ---------- *)

(* CBOR_ASSERT(cbor_isa_<type>(item)), then what cbor_serialize does for that type *)
Definition serialize_typed (s : cstate3) (k : skind) (h : nat) (n : N) : M (cstate3 * out3) :=
  match hget (base s) h with
  | None => ret (s, Out OutSkip)
  | Some a =>
      if memN a (unset s) then fail FUninit else
      c <- rd_item a ;;
      assert_ (70 + skind_id k) (skind_id (node_kind (snd c)) =? skind_id k) ;;;
      r <- serialize_h a n ;;
      match r with
      | Some (wr, bytes) => ret (s, Out (OutBytes wr bytes))
      | None => fail (FAssert 96)
      end
  end.

(* ---------- predicates and getters ---------- *)

Definition preds3 (s : cstate3) (h : nat) : M (cstate3 * out3) :=
  match hget (base s) h with
  | None => ret (s, Out OutSkip)
  | Some a => c <- rd_item a ;; ret (s, OutVals (preds_of (fst c) (snd c)))
  end.

Definition vals3 (s : cstate3) (h : nat) : M (cstate3 * out3) :=
  match hget (base s) h with
  | None => ret (s, Out OutSkip)
  | Some a =>
      if memN a (unset s) then fail FUninit else
      c <- rd_item a ;; ret (s, OutVals (preds_of (fst c) (snd c) ++ values_of (snd c)))
  end.

(* two further calls kept OUTSIDE [op3] (so that every theorem over [op3] / [step3], here and in HStepInv / HFrame /
   HAtomic / HTrace, stays as it is): the pointer getters, and cbor_set_allocs, whose legality is a property of the
   whole heap (no frame property can hold for it) *)
Definition ptrs3 (s : cstate3) (h : nat) : M (cstate3 * out3) :=
  match hget (base s) h with
  | None => ret (s, Out OutSkip)
  | Some a => c <- rd_item a ;; ret (s, OutVals (ptrs_of (snd c)))
  end.

(* cbor_set_allocs: allowed while nothing obtained from the previous allocator is alive (a block is
   released through the functions installed at that moment); the model has one allocator, so the call
   changes nothing -- what is modelled is the rule *)
Definition set_allocs (s : cstate3) : M (cstate3 * out3) :=
  fun w => if live_count w =? 0 then Ret (s, Out OutUnit) w else Fault (FAssert 78).

(* ---------- one call, histories ---------- *)

Definition step3 (s : cstate3) (o : op3) : M (cstate3 * out3) :=
  match o with
  | O3Old o => old3 s o
  | O3NewDefString text => lift3 s (new_definite_string_op refuse (base s) text)
  | O3SetHandleNew h bytes => lift3 s (set_handle_new refuse (base s) h bytes)
  | O3SetHandleShorten h n => lift3 s (set_handle_shorten (base s) h n)
  | O3NewInt w => new_int s w
  | O3SetUint w h v => set_uint s w h v
  | O3Mark neg h => mark_int s neg h
  | O3NewFloat w => new_float s w
  | O3SetFloat w h bits => set_float s w h bits
  | O3NewCtrl => new_ctrl s
  | O3SetCtrl h v => set_ctrl s h v
  | O3SetBool h b => set_bool s h b
  | O3BuildBool b => build_bool s b
  | O3NewNull => new_ctrl_set s 22
  | O3NewUndef => new_ctrl_set s 23
  | O3Move h => move_op s h
  | O3PushMove a x => push_move s a x
  | O3MapAddMove m k v => map_add_move s m k v
  | O3TagSetMove t x => tag_set_move s t x
  | O3BuildTagMove v x => build_tag_move s v x
  | O3IntermediateDecref h => intermediate_decref s h
  | O3BuildString0 bytes => build_string0 s bytes
  | O3SerializeTyped k h n => serialize_typed s k h n
  | O3Preds h => preds3 s h
  | O3Vals h => vals3 s h
  end.

Fixpoint run_hist3 (ops : list op3) (s : cstate3) (acc : list out3) : M (cstate3 * list out3) :=
  match ops with
  | [] => ret (s, rev acc)
  | o :: r => so <- step3 s o ;; run_hist3 r (fst so) (snd so :: acc)
  end.

End Api3.
