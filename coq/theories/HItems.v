(* Model H: the item API — constructors, reference counting, containers, tags.
   src/cbor/common.c ints.c floats_ctrls.c bytestrings.c strings.c arrays.c maps.c tags.c.
   Every _cbor_malloc / _cbor_realloc / _cbor_free call site of the code is one [malloc] /
   [realloc] / [free] here, in the same order.  Definitions only. *)
From CB Require Export HHeap.
Local Open Scope N_scope.

Definition SZ_ITEM : N := 48.   (* sizeof(cbor_item_t) *)
Definition SZ_PTR : N := 8.     (* sizeof(cbor_item_t* ) *)
Definition SZ_PAIR : N := 16.   (* sizeof(struct cbor_pair) *)
Definition SZ_ISD : N := 24.    (* sizeof(struct cbor_indefinite_string_data) *)
Definition SZ_REC : N := 24.    (* sizeof(struct _cbor_stack_record) *)

Definition iw_bytes (w : iwidth) : N := match w with I8 => 1 | I16 => 2 | I32 => 4 | I64 => 8 end.
Definition fw_bytes (w : fwidth) : N := match w with F16 => 4 | F32 => 4 | F64 => 8 end.

Section API.
Variable refuse : N -> N -> bool.
Notation malloc := (malloc refuse).
Notation realloc := (realloc refuse).

(* ---------- ints.c / floats_ctrls.c ---------- *)
Definition build_int (neg : bool) (w : iwidth) (v : N) : M (option addr) :=
  malloc (SZ_ITEM + iw_bytes w) (CItem 1 (NInt neg w v)).
Definition build_float (w : fwidth) (bits : N) : M (option addr) :=
  malloc (SZ_ITEM + fw_bytes w) (CItem 1 (NFloat w bits)).
Definition build_ctrl (v : N) : M (option addr) :=
  malloc SZ_ITEM (CItem 1 (NCtrl v)).

(* ---------- common.c: reference counts ---------- *)
Definition incref (a : addr) : M addr :=
  c <- rd_item a ;; wr_item a (wrap64 (fst c + 1)) (snd c) ;;; ret a.
(* cbor_move: decrement without releasing *)
Definition move (a : addr) : M addr :=
  c <- rd_item a ;; wr_item a (sub64 (fst c) 1) (snd c) ;;; ret a.
Definition refcount (a : addr) : M N := c <- rd_item a ;; ret (fst c).

(* cbor_decref, defunctionalised: the C recursion visits children in storage order, then frees
   the data block(s), then the item *)
Inductive task := TDecref (a : addr) | TFreeData (p : option addr) | TFreeItem (a : addr).

Definition release_tasks (a : addr) (n : node) : list task :=
  match n with
  | NInt _ _ _ | NFloat _ _ | NCtrl _ => [TFreeItem a]
  | NStr _ data _ => [TFreeData data; TFreeItem a]
  | NChunked _ hdr arr _ chunks => map TDecref chunks ++ [TFreeData arr; TFreeData (Some hdr); TFreeItem a]
  | NArr _ data _ elems => map TDecref elems ++ [TFreeData data; TFreeItem a]
  | NMap _ data _ pairs =>
      flat_map (fun kv => TDecref (fst kv) :: match snd kv with Some v => [TDecref v] | None => [] end) pairs
      ++ [TFreeData data; TFreeItem a]
  | NTag _ child => match child with Some c => [TDecref c] | None => [] end ++ [TFreeData None; TFreeItem a]
  end.

Fixpoint drain (fuel : nat) (ts : list task) : M unit :=
  match fuel with
  | O => match ts with [] => ret tt | _ => fail FFuel end
  | S f =>
    match ts with
    | [] => ret tt
    | TDecref a :: r =>
        c <- rd_item a ;;
        assert_ 1 (0 <? fst c) ;;;
        if fst c =? 1
        then wr_item a 0 (snd c) ;;; drain f (release_tasks a (snd c) ++ r)
        else wr_item a (sub64 (fst c) 1) (snd c) ;;; drain f r
    | TFreeData p :: r => free p ;;; drain f r
    | TFreeItem a :: r => free (Some a) ;;; drain f r
    end
  end.

(* an upper bound on the number of tasks one release can ever create *)
Definition node_links (n : node) : N :=
  match n with
  | NChunked _ _ _ _ chunks => len chunks
  | NArr _ _ _ elems => len elems
  | NMap _ _ _ pairs => 2 * len pairs
  | NTag _ _ => 1
  | _ => 0
  end.
Definition drain_fuel (w : world) : nat :=
  N.to_nat (N.recursion 2 (fun i acc => acc + match heap w i with
                                               | Some (CItem _ n) => 4 + node_links n
                                               | _ => 0 end) (next w)).
Definition decref (a : addr) : M unit := fun w => drain (drain_fuel w) [TDecref a] w.

(* ---------- bytestrings.c / strings.c ---------- *)
Definition new_definite_string (text : bool) : M (option addr) :=
  malloc SZ_ITEM (CItem 1 (NStr text None [])).

(* cbor_build_bytestring / cbor_build_stringn *)
Definition build_string (text : bool) (bytes : list N) : M (option addr) :=
  it <- new_definite_string text ;;
  match it with
  | None => ret None
  | Some a =>
      content <- malloc (len bytes) (CData (len bytes)) ;;
      match content with
      | None => free (Some a) ;;; ret None
      | Some d => wr_item a 1 (NStr text (Some d) bytes) ;;; ret (Some a)
      end
  end.

Definition new_indefinite_string (text : bool) : M (option addr) :=
  it <- malloc SZ_ITEM (CItem 1 (NStr text None [])) ;;     (* overwritten below once data is known *)
  match it with
  | None => ret None
  | Some a =>
      hdr <- malloc SZ_ISD (CData SZ_ISD) ;;
      match hdr with
      | None => free (Some a) ;;; ret None
      | Some h => wr_item a 1 (NChunked text h None 0 []) ;;; ret (Some a)
      end
  end.

(* container growth shared by arrays, maps and chunk lists: guard, new capacity, realloc_multiple.
   None = refused (by the guard or by the allocator); Some (cap', blk') otherwise *)
Definition grow (data : option addr) (item_size allocated : N) : M (option (N * addr)) :=
  match grow_capacity 64 allocated with
  | None => ret None
  | Some cap' =>
      match alloc_multiple_req 64 item_size cap' with
      | None => ret None
      | Some bytes =>
          r <- realloc data bytes ;;
          match r with None => ret None | Some d => ret (Some (cap', d)) end
      end
  end.

(* the assertions of cbor_bytestring_add_chunk on its second argument (bytestrings.c:95-96):
     CBOR_ASSERT(cbor_isa_bytestring(chunk)); CBOR_ASSERT(cbor_bytestring_is_definite(chunk));
   cbor_string_add_chunk has no such lines: it stores whatever it is given *)
Definition chunk_assert (text : bool) (chunk : addr) : M unit :=
  if text then ret tt else
    cc <- rd_item chunk ;;
    match snd cc with
    | NStr false _ _ => ret tt
    | NChunked false _ _ _ _ => fail (FAssert 21)
    | _ => fail (FAssert 20)
    end.

(* cbor_bytestring_add_chunk / cbor_string_add_chunk *)
Definition add_chunk (a chunk : addr) : M bool :=
  c <- rd_item a ;;
  match snd c with
  | NChunked text hdr arr cap chunks =>
      chunk_assert text chunk ;;;
      touch_data false (Some hdr) ;;;
      (if len chunks =? cap then
         g <- grow arr SZ_PTR cap ;;
         match g with
         | None => ret None
         | Some (cap', arr') => touch_data true (Some hdr) ;;; ret (Some (Some arr', cap'))
         end
       else ret (Some (arr, cap))) >>= fun st =>
      match st with
      | None => ret false
      | Some (arr', cap') =>
          incref chunk ;;;
          touch_data true arr' ;;; touch_data true (Some hdr) ;;;
          wr_item a (fst c) (NChunked text hdr arr' cap' (chunks ++ [chunk])) ;;; ret true
      end
  | _ => fail FType
  end.

(* ---------- arrays.c ---------- *)
Definition new_definite_array (size : N) : M (option addr) :=
  it <- malloc SZ_ITEM (CItem 1 (NArr false None size [])) ;;
  match it with
  | None => ret None
  | Some a =>
      match alloc_multiple_req 64 SZ_PTR size with
      | None => free (Some a) ;;; ret None
      | Some bytes =>
          d <- malloc bytes (CData bytes) ;;
          match d with
          | None => free (Some a) ;;; ret None
          | Some p => wr_item a 1 (NArr false (Some p) size []) ;;; ret (Some a)
          end
      end
  end.
Definition new_indefinite_array : M (option addr) :=
  malloc SZ_ITEM (CItem 1 (NArr true None 0 [])).

Definition array_push (a pushee : addr) : M bool :=
  c <- rd_item a ;;
  match snd c with
  | NArr false data allocated elems =>
      if allocated <=? len elems then ret false
      else touch_data true data ;;;
           wr_item a (fst c) (NArr false data allocated (elems ++ [pushee])) ;;;
           incref pushee ;;; ret true
  | NArr true data allocated elems =>
      (if allocated <=? len elems then
         g <- grow data SZ_PTR allocated ;;
         match g with None => ret None | Some (cap', d') => ret (Some (Some d', cap')) end
       else ret (Some (data, allocated))) >>= fun st =>
      match st with
      | None => ret false
      | Some (data', allocated') =>
          touch_data true data' ;;;
          wr_item a (fst c) (NArr true data' allocated' (elems ++ [pushee])) ;;;
          incref pushee ;;; ret true
      end
  | _ => fail FType
  end.

(* cbor_array_get: NULL for an index outside the array *)
Definition array_get (a : addr) (index : N) : M (option addr) :=
  c <- rd_item a ;;
  match snd c with
  | NArr _ data _ elems =>
      if len elems <=? index then ret None
      else touch_data false data ;;;
           match nth_error elems (N.to_nat index) with
           | Some e => incref e ;;; ret (Some e)
           | None => fail FOutOfBounds
           end
  | _ => fail FType
  end.

Fixpoint set_nth {A} (l : list A) (i : nat) (x : A) : list A :=
  match l, i with
  | [], _ => []
  | _ :: r, O => x :: r
  | y :: r, S j => y :: set_nth r j x
  end.

Definition array_replace (a : addr) (index : N) (value : addr) : M bool :=
  c <- rd_item a ;;
  match snd c with
  | NArr indef data allocated elems =>
      if len elems <=? index then ret false
      else touch_data false data ;;;
           match nth_error elems (N.to_nat index) with
           | None => fail FOutOfBounds
           | Some old =>
               decref old ;;;                      (* cbor_intermediate_decref *)
               incref value ;;;
               c' <- rd_item a ;;
               touch_data true data ;;;
               wr_item a (fst c') (NArr indef data allocated (set_nth elems (N.to_nat index) value)) ;;;
               ret true
           end
  | _ => fail FType
  end.

Definition array_set (a : addr) (index : N) (value : addr) : M bool :=
  c <- rd_item a ;;
  match snd c with
  | NArr _ _ _ elems =>
      if index =? len elems then array_push a value
      else if index <? len elems then array_replace a index value
      else ret false
  | _ => fail FType
  end.

(* ---------- maps.c ---------- *)
Definition new_definite_map (size : N) : M (option addr) :=
  it <- malloc SZ_ITEM (CItem 1 (NMap false None size [])) ;;
  match it with
  | None => ret None
  | Some a =>
      match alloc_multiple_req 64 SZ_PAIR size with
      | None => free (Some a) ;;; ret None
      | Some bytes =>
          d <- malloc bytes (CData bytes) ;;
          match d with
          | None => free (Some a) ;;; ret None
          | Some p => wr_item a 1 (NMap false (Some p) size []) ;;; ret (Some a)
          end
      end
  end.
Definition new_indefinite_map : M (option addr) :=
  malloc SZ_ITEM (CItem 1 (NMap true None 0 [])).

Definition map_add_key (a key : addr) : M bool :=
  c <- rd_item a ;;
  match snd c with
  | NMap false data allocated pairs =>
      if allocated <=? len pairs then ret false
      else touch_data true data ;;;
           wr_item a (fst c) (NMap false data allocated (pairs ++ [(key, None)])) ;;;
           incref key ;;; ret true
  | NMap true data allocated pairs =>
      (if allocated <=? len pairs then
         g <- grow data SZ_PAIR allocated ;;
         match g with None => ret None | Some (cap', d') => ret (Some (Some d', cap')) end
       else ret (Some (data, allocated))) >>= fun st =>
      match st with
      | None => ret false
      | Some (data', allocated') =>
          touch_data true data' ;;;
          wr_item a (fst c) (NMap true data' allocated' (pairs ++ [(key, None)])) ;;;
          incref key ;;; ret true
      end
  | _ => fail FType
  end.

(* _cbor_map_add_value: writes handle[end_ptr - 1].value *)
Definition map_add_value (a value : addr) : M bool :=
  incref value ;;;
  c <- rd_item a ;;
  match snd c with
  | NMap indef data allocated pairs =>
      match rev pairs with
      | [] => fail FOutOfBounds
      | (k, _) :: rp =>
          touch_data true data ;;;
          wr_item a (fst c) (NMap indef data allocated (rev rp ++ [(k, Some value)])) ;;; ret true
      end
  | _ => fail FType
  end.

Definition map_add (a key value : addr) : M bool :=
  ok <- map_add_key a key ;;
  if ok then map_add_value a value else ret false.

(* ---------- tags.c ---------- *)
Definition new_tag (v : N) : M (option addr) := malloc SZ_ITEM (CItem 1 (NTag v None)).
Definition tag_set_item (tag x : addr) : M unit :=
  incref x ;;;
  c <- rd_item tag ;;
  match snd c with
  | NTag v _ => wr_item tag (fst c) (NTag v (Some x))
  | _ => fail FType
  end.
Definition tag_item (tag : addr) : M addr :=
  c <- rd_item tag ;;
  match snd c with
  | NTag _ (Some x) => incref x
  | NTag _ None => fail FNull
  | _ => fail FType
  end.
Definition build_tag (v : N) (x : addr) : M (option addr) :=
  r <- new_tag v ;;
  match r with
  | None => ret None
  | Some t => tag_set_item t x ;;; ret (Some t)
  end.

End API.
