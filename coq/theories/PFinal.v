(* Instantiation of the theorems proved under the section hypothesis "every decoder call meets
   its contract" with the proof of that contract (PStream_proofs.C08_contract). *)
From CB Require Import Word Word_proofs PStream SpecHead PRun PBuild SpecParse PDrive
  PStream_proofs PBuild_proofs PDrive_proofs PItem SpecItem PItem_proofs PMem_proofs.
Local Open Scope N_scope.

Definition load_is_run_full := load_is_run C08_contract.
Definition load_is_spec_full := load_is_spec C08_contract.
Definition client_same_events := C09_same_events C08_contract.
Definition client_final_state := C09_final_state C08_contract.
Definition client_complete := C09_complete C08_contract.
Definition client_run := C09_run_client C08_contract.

(* cbor_serialize_alloc: the size theorem discharges the hypothesis of PItem_proofs.C07_alloc *)
Lemma C07_alloc_full : forall t, wf_item t -> len (encode_rfc t) < 2^64 ->
  serialize_alloc t = Some (len (encode_rfc t), len (encode_rfc t), encode_rfc t).
Proof.
  intros t Hwf Hlt. apply PItem_proofs.C07_alloc; [exact Hwf | | ].
  - split; [|exact Hlt]. pose proof (encode_rfc_nonempty t). apply N.lt_le_trans with 1; [reflexivity|assumption].
  - rewrite (ssize_exact_or_zero t Hwf). cbv zeta. apply N.ltb_lt in Hlt. rewrite Hlt. reflexivity.
Qed.

(* cbor_serialize into a large enough buffer emits exactly encode_rfc *)
Lemma serialize_is_rfc : forall t size, wf_item t -> size < 2^64 -> len (encode_rfc t) <= size ->
  serialize_into t size = Some (len (encode_rfc t), encode_rfc t).
Proof.
  intros t size Hwf Hs Hfit. destruct (PItem_proofs.C07_into t size Hwf Hs) as (ret & out & E & Hok & _).
  destruct (Hok Hfit) as [-> ->]. exact E.
Qed.
