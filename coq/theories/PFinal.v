(* Instantiation of the theorems proved under the section hypothesis "every decoder call meets
   its contract" with the proof of that contract (PStream_proofs.C08_contract). *)
From CB Require Import Word Word_proofs PStream SpecHead PRun PBuild SpecParse PDrive
  PStream_proofs PBuild_proofs PDrive_proofs PItem SpecItem PItem_proofs PMem_proofs.
Local Open Scope N_scope.

Definition load_is_run_full := load_is_run C08_contract.
Definition load_is_spec_full := load_is_spec C08_contract.
Definition client_same_events := C09_same_events C08_contract.
Definition client_final_state := C09_final_state C08_contract.
Definition client_complete := C09_complete C08_contract.
Definition client_run := C09_run_client C08_contract.

(* cbor_serialize_alloc: the size theorem discharges the hypothesis of PItem_proofs.C07_alloc *)
Lemma C07_alloc_full : forall t, wf_item t -> len (encode_rfc t) < 2^64 ->
  serialize_alloc t = Some (len (encode_rfc t), len (encode_rfc t), encode_rfc t).
Proof.
  intros t Hwf Hlt. apply PItem_proofs.C07_alloc; [exact Hwf | | ].
  - split; [|exact Hlt]. pose proof (encode_rfc_nonempty t). apply N.lt_le_trans with 1; [reflexivity|assumption].
  - rewrite (ssize_exact_or_zero t Hwf). cbv zeta. apply N.ltb_lt in Hlt. rewrite Hlt. reflexivity.
Qed.

(* cbor_serialize into a large enough buffer emits exactly encode_rfc *)
Lemma serialize_is_rfc : forall t size, wf_item t -> size < 2^64 -> len (encode_rfc t) <= size ->
  serialize_into t size = Some (len (encode_rfc t), encode_rfc t).
Proof.
  intros t size Hwf Hs Hfit. destruct (PItem_proofs.C07_into t size Hwf Hs) as (ret & out & E & Hok & _).
  destruct (Hok Hfit) as [-> ->]. exact E.
Qed.

(* ---- CBOR sequences (C14): decoding repeatedly at the offset advanced by bytes-read ---- *)
From CB Require Import PRound_proofs.
Fixpoint load_seq (L cap : N) (k : nat) (buf : list N) : option (list item * list N) :=
  match k with
  | O => Some ([], buf)
  | S j =>
      match load L cap buf with
      | LOk t n =>
          match load_seq L cap j (skipnN n buf) with
          | Some (ts, r) => Some (t :: ts, r)
          | None => None
          end
      | _ => None
      end
  end.

Lemma bytes_ok_concat_enc ts : Forall wf_item ts -> bytes_ok (concat (map encode_rfc ts)).
Proof.
  induction ts as [|t r IH]; intros H; [constructor|].
  inversion H as [|? ? Ht Hr]; subst. cbn [map concat].
  apply bytes_ok_app. split; [apply encode_rfc_bytes_ok; exact Ht|apply IH; exact Hr].
Qed.

Theorem load_sequence : forall L cap ts, Forall (rt_ok L cap) ts ->
  len (concat (map encode_rfc ts)) < SIZE_MAX ->
  load_seq L cap (length ts) (concat (map encode_rfc ts)) = Some (map canon ts, []).
Proof.
  intros L cap ts. induction ts as [|t r IH]; intros Hok Hlen; [reflexivity|].
  inversion Hok as [|? ? Ht Hr]; subst.
  cbn [length map concat load_seq] in *.
  assert (Hwf : Forall wf_item r).
  { clear -Hr. induction Hr as [|x l Hx Hl IHl]; constructor; [destruct Hx as [Hx _]; exact Hx|exact IHl]. }
  rewrite (C03_roundtrip_load L cap t (concat (map encode_rfc r)) Ht (bytes_ok_concat_enc r Hwf) Hlen).
  rewrite skipnN_app by reflexivity.
  rewrite IH; [reflexivity|exact Hr|].
  rewrite len_app in Hlen. pose proof (N.le_0_l (len (encode_rfc t))).
  eapply N.le_lt_trans; [|exact Hlen]. rewrite N.add_comm. apply N.le_add_r.
Qed.

