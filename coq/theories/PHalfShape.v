(* Model P, the shape of _cbor_decode_half (src/cbor/internal/loaders.c): which floating-point
   expression the function evaluates for each half-precision pattern, with `ldexp` left as a constructor,
   and the binary32 pattern that expression denotes.  Definitions only.  The translator renders the C
   function into the same datatype (Gen_leaf.g_cbor_decode_half); Bridge_leaf_dechalf.v ties the two and
   ties the shape to PStream.decode_half. *)
From Coq Require Import ZArith.
From CB Require Export PStream.
Local Open Scope Z_scope.

Inductive fval :=
| FLdexp (m e : Z)      (* ldexp((double)m, e) for an integer m: m * 2^e *)
| FInf                  (* INFINITY *)
| FNan                  (* NAN *)
| FNeg (v : fval)       (* -v *)
| FCast32 (v : fval).   (* (float)v *)

(* int half = (halfp[0] << 8) + halfp[1]; exp = (half >> 10) & 0x1f; mant = half & 0x3ff;
   exp == 0: ldexp(mant, -24); exp != 31: ldexp(mant + 1024, exp - 25); else mant == 0 ? INFINITY : NAN;
   return (float)(half & 0x8000 ? -val : val) *)
Definition decode_half_shape (h : N) : fval :=
  let e := ((h / 2^10) mod 32)%N in
  let m := (h mod 2^10)%N in
  let mag :=
    if (e =? 0)%N then FLdexp (Z.of_N m) (-24)
    else if (e =? 31)%N then (if (m =? 0)%N then FInf else FNan)
    else FLdexp (Z.of_N m + 1024) (Z.of_N e - 25) in
  FCast32 (if ((h / 2^15) mod 2 =? 1)%N then FNeg mag else mag).

(* not a binary32 pattern: the value is outside what this interpretation covers *)
Definition F32_OUT : N := 2^32.

(* the binary32 pattern an expression denotes.  ldexp(m, e) = m * 2^e is interpreted when it is 0 or a
   normal binary32 number with at most 24 significant bits (then it is exact, and so is the conversion to
   float); every NaN is the canonical pattern (section 5 of DESIGN.md); anything else is F32_OUT. *)
Fixpoint f32_bits (v : fval) : N :=
  match v with
  | FLdexp m e =>
      if m =? 0 then 0%N
      else if m <? 0 then F32_OUT
      else
        let p := Z.log2 m in
        let biased := p + e + 127 in
        if (1 <=? biased) && (biased <=? 254) && (p <=? 23)
        then Z.to_N (biased * 2^23 + (m - 2^p) * 2^(23 - p))
        else F32_OUT
  | FInf => 0x7F800000%N
  | FNan => F32_NAN
  | FNeg w =>
      let b := f32_bits w in
      if (b =? F32_NAN)%N then F32_NAN
      else if (b <? 2^31)%N then (b + 2^31)%N
      else if (b <? 2^32)%N then (b - 2^31)%N
      else F32_OUT
  | FCast32 w => f32_bits w
  end.

(* the case split an expression falls into, independent of how ldexp's arguments are normalised *)
Inductive fkind := KFinite (neg : bool) (zero : bool) | KInf (neg : bool) | KNan | KOther.
Fixpoint fkind_of (v : fval) : fkind :=
  match v with
  | FLdexp m e => if m <? 0 then KOther else KFinite false (m =? 0)
  | FInf => KInf false
  | FNan => KNan
  | FNeg w => match fkind_of w with
              | KFinite n z => KFinite (negb n) z
              | KInf n => KInf (negb n)
              | k => k
              end
  | FCast32 w => fkind_of w
  end.
