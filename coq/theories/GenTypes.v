(* Types of the definitions the translator regenerates from /repo's sources on every run, and
   the expected generated form of each model definition. *)
From CB Require Export PStream.
Local Open Scope N_scope.

(* one case of the switch as the translator reads it off the AST, with every literal it saw *)
Inductive gaction :=
| GErr
| GImm (cb : cbid) (loadw loadoff sub : N)            (* cb(ctx, loadW(source + loadoff) - sub) *)
| GArg (cb : cbid) (claim loadw loadoff : N)          (* if (claim_bytes(claim)) cb(ctx, loadW(source + loadoff)) *)
| GFloat (cb : cbid) (claim loadw loadoff : N)        (* same, float loader of loadw bytes *)
| GStrImm (cb : cbid) (loadw loadoff sub ptroff : N)  (* length = loadW(source+loadoff) - sub; claim(length); cb(ctx, source+ptroff, length) *)
| GStrArg (cb : cbid) (claim loadw loadoff ptroff : N)
| GNoArg (cb : cbid)
| GBool (b : bool).

(* what the translator must produce for a model action *)
Definition expected (a : action) : gaction :=
  match a with
  | AErr => GErr
  | AImm cb sub => GImm cb 1 0 sub
  | AArg cb k => GArg cb k k 1
  | AFloat cb k => GFloat cb k k 1
  | AStrImm cb sub => GStrImm cb 1 0 sub 1
  | AStrArg cb k => GStrArg cb k k 1 (1 + k)
  | ANoArg cb => GNoArg cb
  | ABool b => GBool b
  end.

Definition bytes256 : list N := map N.of_nat (seq 0 256).
