(* Model P, item trees and serialization: src/cbor/serialization.c.  Definitions only. *)
From CB Require Export PEnc PMem.
Local Open Scope N_scope.

Inductive item :=
| IUint (w : iwidth) (v : N)
| INegint (w : iwidth) (v : N)
| IBytes (data : list N)
| IBytesI (chunks : list (list N))     (* indefinite: the payloads of its definite chunks *)
| IText (data : list N)
| ITextI (chunks : list (list N))
| IArray (indef : bool) (xs : list item)
| IMap (indef : bool) (kvs : list (item * item))
| ITag (v : N) (x : item)
| ICtrl (v : N)
| IFloat (w : fwidth) (bits : N).      (* F16 and F32 store a C float (binary32 bits) *)

(* ---------------- cbor_serialized_size ---------------- *)
Definition ssadd := safe_signaling_add 64.

Definition int_size (w : iwidth) (v : N) : N :=
  match w with I8 => if v <=? 23 then 1 else 2 | I16 => 3 | I32 => 5 | I64 => 9 end.

Definition defstr_size (d : list N) : N :=
  let l := len d in
  let h := header_size l in
  if l =? 0 then h else ssadd h l.

Fixpoint ssize (t : item) : N :=
  match t with
  | IUint w v | INegint w v => int_size w v
  | IBytes d | IText d => defstr_size d
  | IBytesI cs | ITextI cs => fold_left (fun acc c => ssadd acc (defstr_size c)) cs 2
  | IArray indef xs =>
      fold_left (fun acc x => ssadd acc (ssize x)) xs
                (if indef then 2 else header_size (len xs))
  | IMap indef kvs =>
      fold_left (fun acc kv => ssadd acc (ssadd (ssize (fst kv)) (ssize (snd kv)))) kvs
                (if indef then 2 else header_size (len kvs))
  | ITag v x => ssadd (header_size v) (ssize x)
  | ICtrl v => header_size v
  | IFloat F16 _ => 3 | IFloat F32 _ => 5 | IFloat F64 _ => 9
  end.

(* ---------------- cbor_serialize into a buffer of [size] bytes ----------------
   result: None = undefined behaviour (out-of-range shift in cbor_encode_half);
   Some (ret, out): return value and the bytes stored at buffer[0..|out|) *)
Definition sres_ := option (N * list N).

(* after a part returned (w1, o1) with w1 > 0, continue with [k] on the remaining size *)
Definition sthen (size : N) (r : eres) (k : N -> list N -> sres_) : sres_ :=
  let (w1, o1) := r in
  if w1 =? 0 then Some (0, o1) else k w1 o1.

Definition ser_defstr (mt_off : N) (d : list N) (size : N) : N * list N :=
  let length := len d in
  let (written, o) := enc_uint length size mt_off in
  if negb (written =? 0) && (length <=? size - written)
  then (written + length, o ++ d) else (0, o).

(* serialize a list of parts one after another at buffer + written *)
Section SerSeq.
Context {A : Type} (f : A -> N -> sres_).
Fixpoint ser_seq (xs : list A) (size written : N) (out : list N) : sres_ :=
  match xs with
  | [] => Some (written, out)
  | x :: r =>
      match f x (size - written) with
      | None => None
      | Some (w1, o1) =>
          if w1 =? 0 then Some (0, out ++ o1)
          else ser_seq r size (written + w1) (out ++ o1)
      end
  end.
End SerSeq.

Definition ser_break (size written : N) (out : list N) : sres_ :=
  let (bw, bo) := enc_byte 0xFF (size - written) in
  if bw =? 0 then Some (0, out) else Some (written + bw, out ++ bo).

Definition ser_close (indef : bool) (size : N) (r : sres_) : sres_ :=
  match r with
  | None => None
  | Some (written, out) =>
      if written =? 0 then Some (0, out)
      else if indef then ser_break size written out else Some (written, out)
  end.

Definition ser_int (off : N) (w : iwidth) (v size : N) : N * list N :=
  match w with
  | I8 => enc_uint8 v size off | I16 => enc_uint16 v size off
  | I32 => enc_uint32 v size off | I64 => enc_uint64 v size off
  end.

Definition ser_chunked (start mt_off : N) (cs : list (list N)) (size : N) : sres_ :=
  let (written, o) := enc_byte start size in
  if written =? 0 then Some (0, o)
  else ser_close true size
         (ser_seq (fun c n => Some (ser_defstr mt_off c n)) cs size written o).

Fixpoint serialize_into (t : item) (size : N) : sres_ :=
  match t with
  | IUint w v => Some (ser_int 0x00 w v size)
  | INegint w v => Some (ser_int 0x20 w v size)
  | IBytes d => Some (ser_defstr 0x40 d size)
  | IText d => Some (ser_defstr 0x60 d size)
  | IBytesI cs => ser_chunked 0x5F 0x40 cs size
  | ITextI cs => ser_chunked 0x7F 0x60 cs size
  | IArray indef xs =>
      let (written, o) := if indef then enc_byte 0x9F size else enc_uint (len xs) size 0x80 in
      if written =? 0 then Some (0, o)
      else ser_close indef size (ser_seq serialize_into xs size written o)
  | IMap indef kvs =>
      let (written, o) := if indef then enc_byte 0xBF size else enc_uint (len kvs) size 0xA0 in
      if written =? 0 then Some (0, o)
      else ser_close indef size
             (ser_seq (fun kv n =>
                match serialize_into (fst kv) n with
                | None => None
                | Some (w1, o1) =>
                    if w1 =? 0 then Some (0, o1) else
                    match serialize_into (snd kv) (n - w1) with
                    | None => None
                    | Some (w2, o2) => if w2 =? 0 then Some (0, o1 ++ o2) else Some (w1 + w2, o1 ++ o2)
                    end
                end) kvs size written o)
  | ITag v x =>
      let (written, o) := enc_uint v size 0xC0 in
      if written =? 0 then Some (0, o) else
      match serialize_into x (size - written) with
      | None => None
      | Some (w1, o1) => if w1 =? 0 then Some (0, o ++ o1) else Some (written + w1, o ++ o1)
      end
  | ICtrl v => Some (enc_uint8 v size 0xE0)
  | IFloat F16 b => encode_half b size
  | IFloat F32 b => Some (encode_single b size)
  | IFloat F64 b => Some (encode_double b size)
  end.

(* cbor_serialize_alloc: (return value, requested size, buffer contents) *)
Definition serialize_alloc (t : item) : option (N * N * list N) :=
  let sz := ssize t in
  if sz =? 0 then Some (0, 0, [])
  else match serialize_into t sz with
       | None => None
       | Some (w, o) => Some (w, sz, o)
       end.
