(* C09: the fragment-fed client of the streaming decoder receives exactly the RFC 8949
   tokenisation of the stream, whatever the fragmentation; each wait asks for strictly more
   than is buffered and never for more than the pending item occupies. *)
From CB Require Import Word Word_proofs PStream SpecHead PRun PDrive.
From Coq Require Import Lia ZArith ZifyBool ZifyN ZifyNat.
Ltac Zify.zify_post_hook ::= Z.div_mod_to_equations.
Local Open Scope N_scope.

(* ---------- list helpers ---------- *)
Lemma firstnN_app_le k (l ext : list N) : k <= len l -> firstnN k (l ++ ext) = firstnN k l.
Proof.
  unfold firstnN, len. intros H. rewrite firstn_app.
  replace (N.to_nat k - length l)%nat with 0%nat by lia. cbn [firstn]. apply app_nil_r.
Qed.
Lemma skipnN_app_le k (l ext : list N) : k <= len l -> skipnN k (l ++ ext) = skipnN k l ++ ext.
Proof.
  unfold skipnN, len. intros H. rewrite skipn_app.
  replace (N.to_nat k - length l)%nat with 0%nat by lia. reflexivity.
Qed.
Lemma length_skipnN n (l : list N) : length (skipnN n l) = (length l - N.to_nat n)%nat.
Proof. unfold skipnN. apply skipn_length. Qed.

(* ---------- the head specification only inspects the bytes of the head ---------- *)
Definition hbad (b : N) : bool :=
  let mt := b / 32 in
  let ai := b mod 32 in
  ((28 <=? ai) && (ai <=? 30)) || ((ai =? 31) && ((mt =? 0) || (mt =? 1) || (mt =? 6)))
  || ((mt =? 7) && ((ai <? 20) || (ai =? 24))).

Definition head_tail (b : N) (rest : list N) : hres :=
    let mt := b / 32 in
    let ai := b mod 32 in
    let k := arg_bytes ai in
    let arg := if ai <? 24 then ai else be_val (firstnN k rest) in
    let hl := 1 + k in
    if mt =? 0 then HTok (TUint (iwidth_of ai) arg) hl
    else if mt =? 1 then HTok (TNegint (iwidth_of ai) arg) hl
    else if (mt =? 2) || (mt =? 3) then
      if ai =? 31 then HTok (if mt =? 2 then TBytesStart else TTextStart) 1
      else if len rest - k <? arg then HNeed (hl + arg)
      else let data := firstnN arg (skipnN k rest) in
           HTok (if mt =? 2 then TBytes hl data else TText hl data) (hl + arg)
    else if mt =? 4 then (if ai =? 31 then HTok TArrayStart 1 else HTok (TArray arg) hl)
    else if mt =? 5 then (if ai =? 31 then HTok TMapStart 1 else HTok (TMap arg) hl)
    else if mt =? 6 then HTok (TTag arg) hl
    else
      if ai =? 20 then HTok (TBool false) 1
      else if ai =? 21 then HTok (TBool true) 1
      else if ai =? 22 then HTok TNull 1
      else if ai =? 23 then HTok TUndef 1
      else if ai =? 25 then HTok (TFloat F16 (decode_half arg)) hl
      else if ai =? 26 then HTok (TFloat F32 (canon32 arg)) hl
      else if ai =? 27 then HTok (TFloat F64 (canon64 arg)) hl
      else HTok TBreak 1.

Lemma head_spec_cons b rest :
  head_spec (b :: rest) =
  if hbad b then HBad
  else if len rest <? arg_bytes (b mod 32) then HNeed (1 + arg_bytes (b mod 32))
  else head_tail b rest.
Proof.
  unfold head_spec, hbad, head_tail. cbv zeta.
  destruct ((28 <=? b mod 32) && (b mod 32 <=? 30)); [reflexivity|].
  destruct ((b mod 32 =? 31) && ((b / 32 =? 0) || (b / 32 =? 1) || (b / 32 =? 6))); [reflexivity|].
  destruct ((b / 32 =? 7) && ((b mod 32 <? 20) || (b mod 32 =? 24))); reflexivity.
Qed.

Definition hlen (h : hres) : N := match h with HTok _ n => n | HNeed n => n | HBad => 0 end.
Ltac brk :=
  repeat match goal with
  | H : context[if ?c then _ else _] |- _ => destruct c eqn:?
  | |- context[if ?c then _ else _] => destruct c eqn:?
  end.

Lemma head_tail_tok b rest t n :
  b < 256 -> hbad b = false -> arg_bytes (b mod 32) <= len rest ->
  head_tail b rest = HTok t n -> 1 + arg_bytes (b mod 32) <= n /\ n <= 1 + len rest.
Proof.
  intros Hb Hbad Hk H.
  assert (Hmt : b / 32 < 8) by lia. assert (Hai : b mod 32 < 32) by lia.
  unfold hbad, head_tail in *. cbv zeta in *.
  remember (b / 32) as mt. remember (b mod 32) as ai.
  set (arg := if ai <? 24 then ai else be_val _) in *. clearbody arg.
  clear Heqmt Heqai Hb.
  unfold arg_bytes in *.
  brk; try discriminate; apply (f_equal hlen) in H; cbn [hlen] in H; lia.
Qed.

Lemma head_tail_tok_weak b rest t n :
  arg_bytes (b mod 32) <= len rest ->
  head_tail b rest = HTok t n -> 1 <= n /\ n <= 1 + len rest.
Proof.
  intros Hk H. unfold head_tail in *. cbv zeta in *.
  set (arg := if b mod 32 <? 24 then b mod 32 else be_val _) in *. clearbody arg.
  set (k := arg_bytes (b mod 32)) in *. clearbody k.
  brk; try discriminate; apply (f_equal hlen) in H; cbn [hlen] in H; lia.
Qed.

Lemma head_tail_need b rest full :
  arg_bytes (b mod 32) <= len rest ->
  head_tail b rest = HNeed full -> 1 + arg_bytes (b mod 32) <= full /\ 1 + len rest < full.
Proof.
  intros Hk H. unfold head_tail in *. cbv zeta in *.
  set (arg := if b mod 32 <? 24 then b mod 32 else be_val _) in *. clearbody arg.
  set (k := arg_bytes (b mod 32)) in *. clearbody k.
  brk; try discriminate; apply (f_equal hlen) in H; cbn [hlen] in H; lia.
Qed.

Lemma head_tail_not_bad b rest : head_tail b rest <> HBad.
Proof. unfold head_tail. cbv zeta. brk; discriminate. Qed.

Lemma head_tail_tok_ext b rest ext t n :
  arg_bytes (b mod 32) <= len rest ->
  head_tail b rest = HTok t n -> head_tail b (rest ++ ext) = HTok t n.
Proof.
  intros Hk H. unfold head_tail in *. cbv zeta in *.
  rewrite (firstnN_app_le _ _ _ Hk).
  set (arg := if b mod 32 <? 24 then b mod 32 else be_val _) in *. clearbody arg.
  set (k := arg_bytes (b mod 32)) in *. clearbody k.
  pose proof (len_app rest ext) as Hl. pose proof (len_skipnN k rest) as Hs.
  brk; try discriminate; try exact H; try lia;
    rewrite (skipnN_app_le _ _ _ Hk), firstnN_app_le in * by lia; exact H.
Qed.

Lemma head_tail_need_ext b rest ext full :
  arg_bytes (b mod 32) <= len rest ->
  head_tail b rest = HNeed full -> len (rest ++ ext) + 1 < full ->
  head_tail b (rest ++ ext) = HNeed full.
Proof.
  intros Hk H Hlt. unfold head_tail in *. cbv zeta in *.
  rewrite (firstnN_app_le _ _ _ Hk).
  set (arg := if b mod 32 <? 24 then b mod 32 else be_val _) in *. clearbody arg.
  set (k := arg_bytes (b mod 32)) in *. clearbody k.
  pose proof (len_app rest ext) as Hl.
  brk; try discriminate; try exact H;
    apply (f_equal hlen) in H; cbn [hlen] in H; lia.
Qed.

Lemma head_tail_need_tok b rest ext full t n :
  arg_bytes (b mod 32) <= len rest ->
  head_tail b rest = HNeed full -> head_tail b (rest ++ ext) = HTok t n -> full <= n.
Proof.
  intros Hk H H2. unfold head_tail in *. cbv zeta in *.
  rewrite (firstnN_app_le _ _ _ Hk) in H2.
  set (arg := if b mod 32 <? 24 then b mod 32 else be_val _) in *. clearbody arg.
  set (k := arg_bytes (b mod 32)) in *. clearbody k.
  brk; try discriminate;
    apply (f_equal hlen) in H; apply (f_equal hlen) in H2; cbn [hlen] in *; lia.
Qed.

Lemma head_tok_bounds b t n : head_spec b = HTok t n -> 1 <= n /\ n <= len b.
Proof.
  destruct b as [|b0 rest]; [discriminate|]. rewrite head_spec_cons, len_cons.
  destruct (hbad b0); [discriminate|].
  destruct (N.ltb_spec (len rest) (arg_bytes (b0 mod 32))) as [Hk|Hk]; [discriminate|].
  intros H. apply head_tail_tok_weak in H; lia.
Qed.

Lemma head_need_bounds b full : head_spec b = HNeed full -> len b < full.
Proof.
  destruct b as [|b0 rest].
  - cbn [head_spec]. intros H. apply (f_equal hlen) in H. cbn [hlen] in H. rewrite len_nil. lia.
  - rewrite head_spec_cons, len_cons.
    destruct (hbad b0); [discriminate|].
    destruct (N.ltb_spec (len rest) (arg_bytes (b0 mod 32))) as [Hk|Hk]; intros H.
    + apply (f_equal hlen) in H. cbn [hlen] in H. lia.
    + apply head_tail_need in H; lia.
Qed.

(* prefix-independence: a complete head is not affected by what follows it *)
Lemma head_tok_ext b ext t n : head_spec b = HTok t n -> head_spec (b ++ ext) = HTok t n.
Proof.
  destruct b as [|b0 rest]; [discriminate|]. rewrite <- app_comm_cons, !head_spec_cons.
  destruct (hbad b0); [discriminate|].
  destruct (N.ltb_spec (len rest) (arg_bytes (b0 mod 32))) as [Hk|Hk]; [discriminate|].
  intros H. pose proof (len_app rest ext) as Hl.
  destruct (N.ltb_spec (len (rest ++ ext)) (arg_bytes (b0 mod 32))) as [Hk2|Hk2]; [lia|].
  apply head_tail_tok_ext; assumption.
Qed.

Lemma head_bad_ext b ext : head_spec b = HBad -> head_spec (b ++ ext) = HBad.
Proof.
  destruct b as [|b0 rest]; [discriminate|]. rewrite <- app_comm_cons, !head_spec_cons.
  destruct (hbad b0); [reflexivity|].
  destruct (N.ltb_spec (len rest) (arg_bytes (b0 mod 32))) as [Hk|Hk]; [discriminate|].
  intros H. exfalso. exact (head_tail_not_bad _ _ H).
Qed.

(* an incomplete head stays incomplete, with the same size, until that size is reached *)
Lemma head_need_ext b ext full :
  head_spec b = HNeed full -> len (b ++ ext) < full -> head_spec (b ++ ext) = HNeed full.
Proof.
  destruct b as [|b0 rest].
  - cbn [head_spec app]. intros H Hl. apply (f_equal hlen) in H. cbn [hlen] in H. subst full.
    destruct ext; [reflexivity|]. rewrite len_cons in Hl. lia.
  - rewrite <- app_comm_cons, !head_spec_cons, len_cons.
    destruct (hbad b0); [discriminate|].
    pose proof (len_app rest ext) as Hl.
    destruct (N.ltb_spec (len rest) (arg_bytes (b0 mod 32))) as [Hk|Hk]; intros H Hlt.
    + pose proof (f_equal hlen H) as H'. cbn [hlen] in H'.
      destruct (N.ltb_spec (len (rest ++ ext)) (arg_bytes (b0 mod 32))) as [Hk2|Hk2]; [exact H|lia].
    + destruct (N.ltb_spec (len (rest ++ ext)) (arg_bytes (b0 mod 32))) as [Hk2|Hk2]; [lia|].
      apply head_tail_need_ext; [assumption|assumption|lia].
Qed.

(* ... and the item that eventually completes is at least that long *)
Lemma head_need_tok b ext full t n :
  bytes_ok b -> head_spec b = HNeed full -> head_spec (b ++ ext) = HTok t n -> full <= n.
Proof.
  destruct b as [|b0 rest]; intros Hb.
  - cbn [head_spec app]. intros H H2. apply (f_equal hlen) in H. cbn [hlen] in H.
    apply head_tok_bounds in H2. lia.
  - rewrite <- app_comm_cons, !head_spec_cons.
    assert (Hb0 : b0 < 256) by (inversion Hb; assumption).
    destruct (hbad b0) eqn:Hbad; [discriminate|].
    pose proof (len_app rest ext) as Hl.
    destruct (N.ltb_spec (len rest) (arg_bytes (b0 mod 32))) as [Hk|Hk]; intros H H2.
    + pose proof (f_equal hlen H) as H'. cbn [hlen] in H'.
      destruct (N.ltb_spec (len (rest ++ ext)) (arg_bytes (b0 mod 32))) as [Hk2|Hk2]; [discriminate|].
      apply head_tail_tok in H2; try assumption. lia.
    + destruct (N.ltb_spec (len (rest ++ ext)) (arg_bytes (b0 mod 32))) as [Hk2|Hk2]; [lia|].
      exact (head_tail_need_tok _ _ _ _ _ _ Hk H H2).
Qed.

(* converse of prefix-independence *)
Lemma head_tok_prefix b ext t n :
  bytes_ok b -> head_spec (b ++ ext) = HTok t n -> n <= len b -> head_spec b = HTok t n.
Proof.
  intros Hb H Hn. destruct (head_spec b) as [t' n'|full|] eqn:Hs.
  - rewrite (head_tok_ext _ ext _ _ Hs) in H. exact H.
  - pose proof (head_need_bounds _ _ Hs). pose proof (head_need_tok _ _ _ _ _ Hb Hs H). lia.
  - rewrite (head_bad_ext _ ext Hs) in H. discriminate.
Qed.

(* ---------- the tokenisation: events, head byte strings, undecoded suffix ---------- *)
Fixpoint rest_spec (fuel : nat) (s : list N) : list N :=
  match fuel with
  | O => s
  | S f => match head_spec s with HTok t n => rest_spec f (skipnN n s) | _ => s end
  end.
Definition rest_of (s : list N) : list N := rest_spec (S (length s)) s.

Fixpoint heads_spec (fuel : nat) (s : list N) : list (list N) :=
  match fuel with
  | O => []
  | S f => match head_spec s with
           | HTok t n => firstnN n s :: heads_spec f (skipnN n s)
           | _ => []
           end
  end.
Definition heads_of (s : list N) : list (list N) := heads_spec (S (length s)) s.

Lemma skip_shorter s t n : head_spec s = HTok t n -> (length (skipnN n s) < length s)%nat.
Proof.
  intros H. apply head_tok_bounds in H. rewrite length_skipnN. unfold len in H. lia.
Qed.

Lemma tokens_spec_fuel : forall f1 f2 s,
  (length s < f1)%nat -> (length s < f2)%nat -> tokens_spec f1 s = tokens_spec f2 s.
Proof.
  induction f1 as [|f1 IH]; intros f2 s H1 H2; [lia|]. destruct f2 as [|f2]; [lia|].
  cbn [tokens_spec]. destruct (head_spec s) as [t n| |] eqn:Hs; try reflexivity.
  pose proof (skip_shorter _ _ _ Hs). f_equal. apply IH; lia.
Qed.
Lemma rest_spec_fuel : forall f1 f2 s,
  (length s < f1)%nat -> (length s < f2)%nat -> rest_spec f1 s = rest_spec f2 s.
Proof.
  induction f1 as [|f1 IH]; intros f2 s H1 H2; [lia|]. destruct f2 as [|f2]; [lia|].
  cbn [rest_spec]. destruct (head_spec s) as [t n| |] eqn:Hs; try reflexivity.
  pose proof (skip_shorter _ _ _ Hs). apply IH; lia.
Qed.
Lemma heads_spec_fuel : forall f1 f2 s,
  (length s < f1)%nat -> (length s < f2)%nat -> heads_spec f1 s = heads_spec f2 s.
Proof.
  induction f1 as [|f1 IH]; intros f2 s H1 H2; [lia|]. destruct f2 as [|f2]; [lia|].
  cbn [heads_spec]. destruct (head_spec s) as [t n| |] eqn:Hs; try reflexivity.
  pose proof (skip_shorter _ _ _ Hs). f_equal. apply IH; lia.
Qed.

Lemma tokens_of_fuel f s : (length s < f)%nat -> tokens_spec f s = tokens_of s.
Proof. intros. apply tokens_spec_fuel; lia. Qed.
Lemma rest_of_fuel f s : (length s < f)%nat -> rest_spec f s = rest_of s.
Proof. intros. apply rest_spec_fuel; lia. Qed.
Lemma heads_of_fuel f s : (length s < f)%nat -> heads_spec f s = heads_of s.
Proof. intros. apply heads_spec_fuel; lia. Qed.

(* unfolding equations, fuel-free *)
Lemma tokens_of_tok s t n :
  head_spec s = HTok t n -> tokens_of s = t :: tokens_of (skipnN n s).
Proof.
  intros Hs. unfold tokens_of at 1. cbn [tokens_spec]. rewrite Hs. f_equal.
  apply tokens_of_fuel. apply (skip_shorter _ _ _ Hs).
Qed.
Lemma rest_of_tok s t n : head_spec s = HTok t n -> rest_of s = rest_of (skipnN n s).
Proof.
  intros Hs. unfold rest_of at 1. cbn [rest_spec]. rewrite Hs.
  apply rest_of_fuel. apply (skip_shorter _ _ _ Hs).
Qed.
Lemma heads_of_tok s t n :
  head_spec s = HTok t n -> heads_of s = firstnN n s :: heads_of (skipnN n s).
Proof.
  intros Hs. unfold heads_of at 1. cbn [heads_spec]. rewrite Hs. f_equal.
  apply heads_of_fuel. apply (skip_shorter _ _ _ Hs).
Qed.
Lemma tokens_of_stop s : (forall t n, head_spec s <> HTok t n) -> tokens_of s = [].
Proof.
  intros H. unfold tokens_of. cbn [tokens_spec].
  destruct (head_spec s) as [t n| |]; [destruct (H t n); reflexivity| |]; reflexivity.
Qed.
Lemma rest_of_stop s : (forall t n, head_spec s <> HTok t n) -> rest_of s = s.
Proof.
  intros H. unfold rest_of. cbn [rest_spec].
  destruct (head_spec s) as [t n| |]; [destruct (H t n); reflexivity| |]; reflexivity.
Qed.
Lemma heads_of_stop s : (forall t n, head_spec s <> HTok t n) -> heads_of s = [].
Proof.
  intros H. unfold heads_of. cbn [heads_spec].
  destruct (head_spec s) as [t n| |]; [destruct (H t n); reflexivity| |]; reflexivity.
Qed.

(* strong induction along the tokenisation *)
Lemma spec_ind (P : list N -> Prop) :
  (forall s, (forall t n, head_spec s <> HTok t n) -> P s) ->
  (forall s t n, head_spec s = HTok t n -> P (skipnN n s) -> P s) ->
  forall s, P s.
Proof.
  intros Hstop Hstep s. remember (length s) as m eqn:Hm.
  revert s Hm. induction m as [m IH] using lt_wf_ind. intros s Hm.
  destruct (head_spec s) as [t n|full|] eqn:Hs.
  - apply (Hstep s t n Hs). apply (IH (length (skipnN n s))); [|reflexivity].
    subst m. apply (skip_shorter _ _ _ Hs).
  - apply Hstop. intros t n. rewrite Hs. discriminate.
  - apply Hstop. intros t n. rewrite Hs. discriminate.
Qed.

(* the stream is the concatenation of its complete heads followed by the undecoded suffix *)
Theorem heads_rest_split s : concat (heads_of s) ++ rest_of s = s.
Proof.
  induction s as [s Hstop|s t n Hs IH] using spec_ind.
  - rewrite heads_of_stop, rest_of_stop by assumption. reflexivity.
  - rewrite (heads_of_tok _ _ _ Hs), (rest_of_tok _ _ _ Hs). cbn [concat].
    rewrite <- app_assoc, IH. apply firstnN_skipnN.
Qed.

(* the suffix does not start with a complete head *)
Theorem rest_of_not_tok s t n : head_spec (rest_of s) <> HTok t n.
Proof.
  revert t n. induction s as [s Hstop|s t n Hs IH] using spec_ind.
  - rewrite rest_of_stop by assumption. assumption.
  - rewrite (rest_of_tok _ _ _ Hs). assumption.
Qed.

(* each head byte string is, on its own, exactly one complete head denoting the event *)
Theorem heads_tokens s :
  bytes_ok s ->
  Forall2 (fun h t => head_spec h = HTok t (len h)) (heads_of s) (tokens_of s).
Proof.
  induction s as [s Hstop|s t n Hs IH] using spec_ind; intros Hb.
  - rewrite heads_of_stop, tokens_of_stop by assumption. constructor.
  - rewrite (heads_of_tok _ _ _ Hs), (tokens_of_tok _ _ _ Hs).
    pose proof (head_tok_bounds _ _ _ Hs) as [Hn1 Hn2].
    constructor; [|apply IH, bytes_ok_skipn, Hb].
    rewrite len_firstnN by assumption.
    apply (head_tok_prefix _ (skipnN n s)); [apply bytes_ok_firstn, Hb| |].
    + rewrite firstnN_skipnN. exact Hs.
    + rewrite len_firstnN by assumption. lia.
Qed.

Lemma rest_of_idem s : rest_of (rest_of s) = rest_of s.
Proof. apply rest_of_stop. intros t n. apply rest_of_not_tok. Qed.

(* tokenising a stream = tokenising a prefix, then continuing from its undecoded suffix *)
Lemma tokens_of_app ext s : tokens_of (s ++ ext) = tokens_of s ++ tokens_of (rest_of s ++ ext).
Proof.
  induction s as [s Hstop|s t n Hs IH] using spec_ind.
  - rewrite (tokens_of_stop s), (rest_of_stop s) by assumption. reflexivity.
  - pose proof (head_tok_bounds _ _ _ Hs) as [Hn1 Hn2].
    rewrite (tokens_of_tok _ _ _ (head_tok_ext _ ext _ _ Hs)), skipnN_app_le by assumption.
    rewrite (tokens_of_tok _ _ _ Hs), (rest_of_tok _ _ _ Hs), IH. reflexivity.
Qed.
Lemma rest_of_app ext s : rest_of (s ++ ext) = rest_of (rest_of s ++ ext).
Proof.
  induction s as [s Hstop|s t n Hs IH] using spec_ind.
  - rewrite (rest_of_stop s) by assumption. reflexivity.
  - pose proof (head_tok_bounds _ _ _ Hs) as [Hn1 Hn2].
    rewrite (rest_of_tok _ _ _ (head_tok_ext _ ext _ _ Hs)), skipnN_app_le by assumption.
    rewrite (rest_of_tok _ _ _ Hs), IH. reflexivity.
Qed.

Lemma rest_of_bytes_ok s : bytes_ok s -> bytes_ok (rest_of s).
Proof. intros H. rewrite <- (heads_rest_split s) in H. apply bytes_ok_app in H. apply H. Qed.
Lemma rest_of_len s : len (rest_of s) <= len s.
Proof. rewrite <- (heads_rest_split s) at 2. rewrite len_app. lia. Qed.

(* ---------- the client ---------- *)
(* what the client's final state must be, given the undecoded suffix [r] of the stream *)
Definition final_ok (r : list N) (d : dstate) : Prop :=
  match head_spec r with
  | HNeed full => exists w, d = DWait r w /\ len r < w /\ w <= full
  | HBad => d = DStop
  | HTok _ _ => False
  end.

Section Client.
Hypothesis Hcontract : forall buf, bytes_ok buf -> len buf < SIZE_MAX -> contract buf.

Lemma pump_correct : forall fuel buffer wanted acc,
  (length buffer < fuel)%nat -> bytes_ok buffer -> len buffer < SIZE_MAX ->
  (len buffer < wanted -> exists full, head_spec buffer = HNeed full /\ wanted <= full) ->
  exists d, pump fuel buffer wanted acc = (acc ++ tokens_of buffer, d)
            /\ final_ok (rest_of buffer) d.
Proof.
  induction fuel as [|fuel IH]; intros buffer wanted acc Hf Hb Hl Hw; [lia|].
  cbn [pump]. destruct (N.ltb_spec (len buffer) wanted) as [Hlt|Hge].
  - destruct (Hw Hlt) as [full [Hs Hwf]].
    assert (Hstop : forall t n, head_spec buffer <> HTok t n) by (intros; rewrite Hs; discriminate).
    rewrite (tokens_of_stop _ Hstop), (rest_of_stop _ Hstop), app_nil_r.
    eexists; split; [reflexivity|]. unfold final_ok. rewrite Hs. exists wanted. split; [reflexivity|lia].
  - pose proof (Hcontract buffer Hb Hl) as C. unfold contract in C.
    destruct (head_spec buffer) as [t n|full|] eqn:Hs.
    + rewrite C. cbn [st rd].
      pose proof (skip_shorter _ _ _ Hs) as Hsh.
      destruct (IH (skipnN n buffer) 0 (acc ++ [t])) as [d [Hp Hfin]].
      * lia.
      * apply bytes_ok_skipn, Hb.
      * rewrite len_skipnN. lia.
      * lia.
      * exists d. rewrite Hp, (tokens_of_tok _ _ _ Hs), (rest_of_tok _ _ _ Hs), <- app_assoc.
        split; [reflexivity|exact Hfin].
    + destruct C as [rq [C [Hr1 [Hr2 Hr3]]]]. rewrite C. cbn [st req].
      destruct (N.leb_spec rq (len buffer)) as [Hle|Hgt]; [lia|].
      assert (Hstop : forall t n, head_spec buffer <> HTok t n) by (intros; rewrite Hs; discriminate).
      rewrite (tokens_of_stop _ Hstop), (rest_of_stop _ Hstop), app_nil_r.
      eexists; split; [reflexivity|]. unfold final_ok. rewrite Hs. exists rq. split; [reflexivity|lia].
    + rewrite C. cbn [st].
      assert (Hstop : forall t n, head_spec buffer <> HTok t n) by (intros; rewrite Hs; discriminate).
      rewrite (tokens_of_stop _ Hstop), (rest_of_stop _ Hstop), app_nil_r.
      eexists; split; [reflexivity|]. unfold final_ok. rewrite Hs. reflexivity.
Qed.

Lemma drive_correct : forall frags buffer wanted acc,
  Forall bytes_ok frags -> bytes_ok buffer -> len (buffer ++ concat frags) < SIZE_MAX ->
  (wanted = 0 \/ exists full, head_spec buffer = HNeed full /\ len buffer < wanted /\ wanted <= full) ->
  exists d, drive frags buffer wanted acc = (acc ++ tokens_of (buffer ++ concat frags), d)
            /\ final_ok (rest_of (buffer ++ concat frags)) d.
Proof.
  induction frags as [|fr frags IH]; intros buffer wanted acc Hfr Hb Hl Hw.
  - cbn [drive concat] in *. rewrite app_nil_r in *.
    apply pump_correct; [lia|assumption|assumption|].
    intros Hlt. destruct Hw as [Hw|[full [Hs [_ Hwf]]]]; [lia|]. exists full. split; assumption.
  - cbn [drive concat] in *. rewrite app_assoc in *.
    inversion Hfr as [|? ? Hfr1 Hfr2]; subst.
    set (b := buffer ++ fr) in *.
    assert (Hbb : bytes_ok b) by (apply bytes_ok_app; split; assumption).
    pose proof (len_app b (concat frags)) as Hlb.
    destruct (pump_correct (S (S (length b))) b wanted acc) as [d [Hp Hfin]];
      [lia|assumption|lia| |].
    + intros Hlt. destruct Hw as [Hw|[full [Hs [_ Hwf]]]]; [lia|]. exists full. split; [|assumption].
      apply head_need_ext; [assumption|]. fold b. lia.
    + rewrite Hp. rewrite (tokens_of_app (concat frags) b), (rest_of_app (concat frags) b).
      pose proof (rest_of_len b) as Hrl.
      unfold final_ok in Hfin. destruct (head_spec (rest_of b)) as [t n|full|] eqn:Hs.
      * destruct Hfin.
      * destruct Hfin as [w [-> [Hw1 Hw2]]].
        destruct (IH (rest_of b) w (acc ++ tokens_of b)) as [d' [Hd Hfin']].
        -- assumption.
        -- apply rest_of_bytes_ok, Hbb.
        -- rewrite len_app in *. lia.
        -- right. exists full. repeat split; assumption.
        -- exists d'. rewrite Hd, <- app_assoc. split; [reflexivity|exact Hfin'].
      * subst d.
        pose proof (head_bad_ext _ (concat frags) Hs) as Hs'.
        assert (Hstop : forall t n, head_spec (rest_of b ++ concat frags) <> HTok t n)
          by (intros; rewrite Hs'; discriminate).
        rewrite (tokens_of_stop _ Hstop), (rest_of_stop _ Hstop), app_nil_r.
        eexists; split; [reflexivity|]. unfold final_ok. rewrite Hs'. reflexivity.
Qed.

Theorem C09_run_client frags :
  Forall bytes_ok frags -> len (concat frags) < SIZE_MAX ->
  exists d, run_client frags = (tokens_of (concat frags), d)
            /\ final_ok (rest_of (concat frags)) d.
Proof.
  intros Hfr Hl. unfold run_client.
  destruct (drive_correct frags [] 0 [] Hfr (Forall_nil _) Hl (or_introl eq_refl)) as [d H].
  exists d. exact H.
Qed.

(* C09, events: same callbacks, same arguments, same order, for every fragmentation *)
Theorem C09_same_events frags :
  Forall bytes_ok frags -> len (concat frags) < SIZE_MAX ->
  fst (run_client frags) = tokens_of (concat frags).
Proof.
  intros Hfr Hl. destruct (C09_run_client frags Hfr Hl) as [d [H _]]. rewrite H. reflexivity.
Qed.

(* C09, final state: never a fault; the buffer is the undecoded suffix of the stream; either
   that suffix starts with a reserved initial byte and the client stopped on ERROR, or it is an
   incomplete item of [full] bytes and the client waits for w bytes, len rest < w <= full *)
Theorem C09_final_state frags :
  Forall bytes_ok frags -> len (concat frags) < SIZE_MAX ->
  let s := concat frags in
  let rest := rest_of s in
  concat (heads_of s) ++ rest = s /\
  Forall2 (fun h t => head_spec h = HTok t (len h)) (heads_of s) (fst (run_client frags)) /\
  snd (run_client frags) <> DFault /\
  match head_spec rest with
  | HNeed full => exists w, snd (run_client frags) = DWait rest w /\ len rest < w /\ w <= full
  | HBad => snd (run_client frags) = DStop
  | HTok _ _ => False
  end.
Proof.
  intros Hfr Hl s rest. destruct (C09_run_client frags Hfr Hl) as [d [H Hfin]].
  fold s in H, Hfin. fold rest in Hfin. rewrite H. cbn [fst snd].
  split; [apply heads_rest_split|]. split.
  - apply heads_tokens. unfold s. clear -Hfr. induction Hfr as [|x l Hx _ IH]; [constructor|].
    cbn [concat]. apply bytes_ok_app. split; assumption.
  - unfold final_ok in Hfin. destruct (head_spec rest) as [t n|full|].
    + destruct Hfin.
    + split; [|exact Hfin]. destruct Hfin as [w [-> _]]. discriminate.
    + split; [|exact Hfin]. subst d. discriminate.
Qed.

(* C09, completeness: a stream that ends on an item boundary is delivered completely *)
Theorem C09_complete frags :
  Forall bytes_ok frags -> len (concat frags) < SIZE_MAX ->
  concat (heads_of (concat frags)) = concat frags ->
  run_client frags = (tokens_of (concat frags), DWait [] 1).
Proof.
  intros Hfr Hl Hall. destruct (C09_run_client frags Hfr Hl) as [d [H Hfin]].
  assert (Hr : rest_of (concat frags) = []).
  { pose proof (heads_rest_split (concat frags)) as Hsp. rewrite Hall in Hsp.
    apply (app_inv_head (concat frags)). rewrite app_nil_r. exact Hsp. }
  rewrite Hr in Hfin. unfold final_ok in Hfin. cbn [head_spec] in Hfin.
  destruct Hfin as [w [-> [Hw1 Hw2]]]. rewrite len_nil in Hw1.
  rewrite H. repeat f_equal. lia.
Qed.

(* the same, with the boundary condition phrased on the undecoded suffix *)
Corollary C09_complete_rest frags :
  Forall bytes_ok frags -> len (concat frags) < SIZE_MAX ->
  rest_of (concat frags) = [] ->
  run_client frags = (tokens_of (concat frags), DWait [] 1).
Proof.
  intros Hfr Hl Hr. apply C09_complete; try assumption.
  pose proof (heads_rest_split (concat frags)) as Hsp. rewrite Hr, app_nil_r in Hsp. exact Hsp.
Qed.
End Client.

Check C09_same_events.
Check C09_final_state.
Check C09_complete.
Print Assumptions C09_same_events.
Print Assumptions C09_final_state.
Print Assumptions C09_complete.
Print Assumptions C09_complete_rest.
Print Assumptions heads_tokens.
Print Assumptions heads_rest_split.
Print Assumptions rest_of_not_tok.
