(* generated plans of the serializer (translator/effects.py, this run's clang AST of
   serialization.c) = the hand-written plans of HPlansSer.v.  Automation only (BridgeEffTac):
   unfold; normalise; case split with lia pruning; constructor-wise comparison with lia at the
   integer leaves.  HPlansSer_proofs.v ties the hand-written plans to the models PItem.v / HOps.v;
   the [code_*] corollaries at the end compose the two. *)
From Coq Require Import ZArith NArith List Bool String Lia ZifyBool ZifyN ZifyNat.
Import ListNotations.
From CB Require Import Word Word_proofs PStream PEnc PMem PItem GenLeafTypes BridgeTac BridgeEffTac HHeap HItems HOps HCont_proofs HPlans HPlansSer HPlans_proofs HPlansSer_proofs.
From CBGen Require Import Gen_effects_ser.
Ltac Zify.zify_post_hook ::= Z.div_mod_to_equations.
Local Open Scope Z_scope.

Ltac ser_unfold :=
  cbv beta zeta delta
    [Gcbor_serialize Gcbor_serialize_uint Gcbor_serialize_negint
     Gcbor_serialize_bytestring Gcbor_serialize_bytestring_loop0 Gcbor_serialize_string Gcbor_serialize_string_loop0
     Gcbor_serialize_array Gcbor_serialize_array_loop0 Gcbor_serialize_map Gcbor_serialize_map_loop0
     Gcbor_serialize_tag Gcbor_serialize_float_ctrl
     Gcbor_serialized_size Gcbor_serialized_size_loop0 Gcbor_serialized_size_loop1
     Gcbor_serialized_size_loop2 Gcbor_serialized_size_loop3 Gcbor_serialize_alloc
     fbplan_cbor_serialize fbplan_cbor_serialize_uint fbplan_cbor_serialize_negint
     fbplan_cbor_serialize_bytestring fbplan_cbor_serialize_bytestring_loop0
     fbplan_cbor_serialize_string fbplan_cbor_serialize_string_loop0
     fbplan_cbor_serialize_array fbplan_cbor_serialize_array_loop0
     fbplan_cbor_serialize_map fbplan_cbor_serialize_map_loop0
     fbplan_cbor_serialize_tag fbplan_cbor_serialize_float_ctrl
     fbplan_cbor_serialized_size fbplan_cbor_serialized_size_loop0 fbplan_cbor_serialized_size_loop1
     fbplan_cbor_serialized_size_loop2 fbplan_cbor_serialized_size_loop3 fbplan_cbor_serialize_alloc
     serialize_plan serializer_of int_plan int_encoder width_of string_plan str_names close_plan part_round
     string_round_plan container_plan array_plan map_plan after_parts array_round_plan map_round_plan
     tag_plan float_plan ssize_plan ssize_round_plan ssize_chunks_round_plan ssize_array_round_plan
     ssize_map_round_plan alloc_plan size_call fin to_loop window whole item0 chunks0 slots0 zn
     zN dst_z dst_b sub64 pnew ssadd
     fb_cbor_safe_signaling_add fb_cbor_encoded_header_size
     TY_UINT TY_NEGINT TY_BYTES TY_TEXT TY_ARRAY TY_MAP TY_TAG TY_FLOAT_CTRL iw_z FW_0 FW_16 FW_32 FW_64].

(* a reduction modulo 2^w of a value that is provably in range is dropped *)
Ltac small_mods :=
  repeat match goal with
  | |- context [?x mod ?m] =>
      lazymatch type of x with Z => rewrite (Z.mod_small x m) by lia end
  end.
(* the guarded sum and the header size stay folded: both sides mention the same model function *)
Ltac ser_bridge :=
  ser_unfold; rewrite ?N2Z.id; cbn [app];
  norm; pows; small_mods; rewrite ?N2Z.id; rewrite ?Z.add_0_l; rewrite ?N2Z.id; psplits; peq.

Lemma bridge_ser_enums :
  ECBOR_TYPE_UINT = TY_UINT /\ ECBOR_TYPE_NEGINT = TY_NEGINT /\ ECBOR_TYPE_BYTESTRING = TY_BYTES /\
  ECBOR_TYPE_STRING = TY_TEXT /\ ECBOR_TYPE_ARRAY = TY_ARRAY /\ ECBOR_TYPE_MAP = TY_MAP /\
  ECBOR_TYPE_TAG = TY_TAG /\ ECBOR_TYPE_FLOAT_CTRL = TY_FLOAT_CTRL /\
  ECBOR_INT_8 = iw_z I8 /\ ECBOR_INT_16 = iw_z I16 /\ ECBOR_INT_32 = iw_z I32 /\ ECBOR_INT_64 = iw_z I64 /\
  ECBOR_FLOAT_0 = FW_0 /\ ECBOR_FLOAT_16 = FW_16 /\ ECBOR_FLOAT_32 = FW_32 /\ ECBOR_FLOAT_64 = FW_64.
Proof. repeat split; vm_compute; reflexivity. Qed.

Lemma bridge_plan_serialize ty bs c : (bs < 2^64)%N -> (c < 2^64)%N -> 0 <= ty < 2^32 ->
  Gcbor_serialize ty (Z.of_N bs) (Z.of_N c) = serialize_plan ty bs c.
Proof. intros Hb Hc Ht. ser_bridge. Qed.

Lemma bridge_plan_serialize_uint w g8 g16 g32 g64 bs c : (bs < 2^64)%N -> (c < 2^64)%N -> 0 <= w < 2^32 ->
  Gcbor_serialize_uint w (Z.of_N bs) g16 g32 g64 g8 (Z.of_N c) = int_plan false w g8 g16 g32 g64 bs c.
Proof. intros Hb Hc Hw. ser_bridge. Qed.

Lemma bridge_plan_serialize_negint w g8 g16 g32 g64 bs c : (bs < 2^64)%N -> (c < 2^64)%N -> 0 <= w < 2^32 ->
  Gcbor_serialize_negint w (Z.of_N bs) g16 g32 g64 g8 (Z.of_N c) = int_plan true w g8 g16 g32 g64 bs c.
Proof. intros Hb Hc Hw. ser_bridge. Qed.

(* The round lemmas assume the loop invariant "the round number does not exceed the count" (k <= count:
   the counter starts at 0, advances by one and the loop exits at equality), so that an up-counting
   test `i < n`, `i != n` and a down-counting one `remaining > 0` are the same test. *)
(* ---- strings: entry (definite: head + space check + copy; indefinite: start byte) and one round ---- *)
Lemma bridge_plan_serialize_bytestring cc definite len bs k a c :
  (len < 2^64)%N -> (bs < 2^64)%N -> (c < 2^64)%N ->
  Gcbor_serialize_bytestring cc (dst_z definite) (Z.of_N len) (Z.of_N bs) k a (Z.of_N c) = string_plan false definite len bs c.
Proof. intros Hl Hb Hc. destruct definite; ser_bridge. Qed.

Lemma bridge_plan_serialize_string cc definite len bs k a c :
  (len < 2^64)%N -> (bs < 2^64)%N -> (c < 2^64)%N ->
  Gcbor_serialize_string cc (dst_z definite) (Z.of_N len) (Z.of_N bs) k a (Z.of_N c) = string_plan true definite len bs c.
Proof. intros Hl Hb Hc. destruct definite; ser_bridge. Qed.

Lemma bridge_plan_serialize_bytestring_round cc dst len bs k a c :
  (cc < 2^64)%N -> (bs < 2^64)%N -> (k <= cc)%N -> (a < 2^64)%N -> (c < 2^64)%N ->
  Gcbor_serialize_bytestring_loop0 (Z.of_N cc) dst len (Z.of_N bs) (Z.of_N k) (Z.of_N a) (Z.of_N c) =
  string_round_plan false cc k a bs c.
Proof. intros H1 H2 H3 H4 H5. ser_bridge. Qed.

Lemma bridge_plan_serialize_string_round cc dst len bs k a c :
  (cc < 2^64)%N -> (bs < 2^64)%N -> (k <= cc)%N -> (a < 2^64)%N -> (c < 2^64)%N ->
  Gcbor_serialize_string_loop0 (Z.of_N cc) dst len (Z.of_N bs) (Z.of_N k) (Z.of_N a) (Z.of_N c) =
  string_round_plan true cc k a bs c.
Proof. intros H1 H2 H3 H4 H5. ser_bridge. Qed.

(* ---- arrays and maps: the head (from the size), one round, the closing break ---- *)
Lemma bridge_plan_serialize_array al definite e bs k a c :
  (e < 2^64)%N -> (bs < 2^64)%N -> (c < 2^64)%N ->
  Gcbor_serialize_array al (dst_z definite) (Z.of_N e) (Z.of_N bs) k a (Z.of_N c) = array_plan definite e bs c.
Proof. intros H1 H2 H3. destruct definite; ser_bridge. Qed.

Lemma bridge_plan_serialize_array_round al definite e bs k a c :
  (e < 2^64)%N -> (bs < 2^64)%N -> (k <= e)%N -> (a < 2^64)%N -> (c < 2^64)%N ->
  Gcbor_serialize_array_loop0 al (dst_z definite) (Z.of_N e) (Z.of_N bs) (Z.of_N k) (Z.of_N a) (Z.of_N c) =
  array_round_plan definite e k a bs c.
Proof. intros H1 H2 H3 H4 H5. destruct definite; ser_bridge. Qed.

Lemma bridge_plan_serialize_map al definite e bs k a c0 c1 :
  (e < 2^64)%N -> (bs < 2^64)%N -> (c0 < 2^64)%N ->
  Gcbor_serialize_map al (dst_z definite) (Z.of_N e) (Z.of_N bs) k a (Z.of_N c0) c1 = map_plan definite e bs c0.
Proof. intros H1 H2 H3. destruct definite; ser_bridge. Qed.

Lemma bridge_plan_serialize_map_round al definite e bs k a c0 c1 :
  (e < 2^64)%N -> (bs < 2^64)%N -> (k <= e)%N -> (a < 2^64)%N -> (c0 < 2^64)%N -> (c1 < 2^64)%N ->
  Gcbor_serialize_map_loop0 al (dst_z definite) (Z.of_N e) (Z.of_N bs) (Z.of_N k) (Z.of_N a) (Z.of_N c0) (Z.of_N c1) =
  map_round_plan definite e k a bs c0 c1.
Proof. intros H1 H2 H3 H4 H5 H6. destruct definite; ser_bridge. Qed.

Lemma bridge_plan_serialize_tag v bs c0 c1 : (v < 2^64)%N -> (bs < 2^64)%N -> (c0 < 2^64)%N -> (c1 < 2^64)%N ->
  Gcbor_serialize_tag (Z.of_N v) (Z.of_N bs) (Z.of_N c0) (Z.of_N c1) = tag_plan v bs c0 c1.
Proof. intros H1 H2 H3 H4. ser_bridge. Qed.

Lemma bridge_plan_serialize_float_ctrl ctrl w bs c : (ctrl < 2^64)%N -> (bs < 2^64)%N -> (c < 2^64)%N -> 0 <= w < 2^32 ->
  Gcbor_serialize_float_ctrl (Z.of_N ctrl) w (Z.of_N bs) (Z.of_N c) = float_plan w ctrl bs c.
Proof. intros H1 H2 H3 H4. ser_bridge. Qed.

(* ---- cbor_serialized_size: entry and the four loops ---- *)
Lemma bridge_plan_serialized_size al cc ctrl definite e len ty v w g8 k a c0 c1 :
  (ctrl < 2^64)%N -> (e < 2^64)%N -> (len < 2^64)%N -> (v < 2^64)%N -> (c0 < 2^64)%N ->
  0 <= ty < 2^32 -> 0 <= w < 2^32 -> 0 <= g8 < 2^64 ->
  Gcbor_serialized_size al cc (Z.of_N ctrl) (dst_z definite) (Z.of_N e) (Z.of_N len) ty (Z.of_N v) w g8 k a (Z.of_N c0) c1 =
  ssize_plan ty w definite len e v ctrl g8 c0.
Proof. intros H1 H2 H3 H4 H5 H6 H7 H8. destruct definite; ser_bridge. Qed.

Lemma bridge_plan_serialized_size_rounds al cc ctrl dst e len ty v w g8 k a c0 c1 :
  (cc < 2^64)%N -> (e < 2^64)%N -> (k <= cc)%N -> (k <= e)%N -> (a < 2^64)%N -> (c0 < 2^64)%N -> (c1 < 2^64)%N ->
  Gcbor_serialized_size_loop0 al (Z.of_N cc) ctrl dst (Z.of_N e) len ty v w g8 (Z.of_N k) (Z.of_N a) (Z.of_N c0) (Z.of_N c1) =
    ssize_chunks_round_plan 0 cc k a c0 /\
  Gcbor_serialized_size_loop1 al (Z.of_N cc) ctrl dst (Z.of_N e) len ty v w g8 (Z.of_N k) (Z.of_N a) (Z.of_N c0) (Z.of_N c1) =
    ssize_chunks_round_plan 1 cc k a c0 /\
  Gcbor_serialized_size_loop2 al (Z.of_N cc) ctrl dst (Z.of_N e) len ty v w g8 (Z.of_N k) (Z.of_N a) (Z.of_N c0) (Z.of_N c1) =
    ssize_array_round_plan e k a c0 /\
  Gcbor_serialized_size_loop3 al (Z.of_N cc) ctrl dst (Z.of_N e) len ty v w g8 (Z.of_N k) (Z.of_N a) (Z.of_N c0) (Z.of_N c1) =
    ssize_map_round_plan e k a c0 c1.
Proof. intros H1 H2 H3 H3' H4 H5 H6. repeat split; ser_bridge. Qed.

(* ---- cbor_serialize_alloc ---- *)
Lemma bridge_plan_serialize_alloc out nn ok c0 c1 : (c0 < 2^64)%N -> (c1 < 2^64)%N ->
  Gcbor_serialize_alloc out nn ok (Z.of_N c0) (Z.of_N c1) = alloc_plan nn c0 ok c1.
Proof. intros H1 H2. destruct nn, ok; ser_bridge. Qed.

Local Open Scope string_scope.
Local Open Scope list_scope.
(* ---- composition: the models follow the plans GENERATED from the C source of this run ---- *)
Local Open Scope N_scope.

(* one round of cbor_serialize_array: window arithmetic and 0-propagation *)
Theorem code_array_round_followed al definite total k x r size written out w1 o1 :
  written <= size -> size < 2 ^ 64 -> k < total -> total < 2 ^ 64 ->
  serialize_into x (size - written) = Some (w1, o1) -> w1 <= size - written ->
  let p := Gcbor_serialize_array_loop0 al (dst_z definite) (Z.of_N total) (Z.of_N size) (Z.of_N k) (Z.of_N written) (Z.of_N w1) in
  p_reqs p = [ReqCall "cbor_serialize" [AP (PSlot slots0 (Z.of_N k) ""); APO (PArg 1) (Z.of_N written); AZ (Z.of_N (size - written))]] /\
  (w1 = 0 -> returns p = true /\ ret_N p = 0 /\ ser_seq serialize_into (x :: r) size written out = Some (0, out ++ o1)) /\
  (w1 <> 0 -> to_head 0 p = true /\ fieldN "round" p = k + 1 /\ fieldN "acc0" p = written + w1 /\
              ser_seq serialize_into (x :: r) size written out = ser_seq serialize_into r size (fieldN "acc0" p) (out ++ o1)).
Proof.
  intros Hw Hs Hk Ht Hf Hw1. cbv zeta. rewrite bridge_plan_serialize_array_round by lia.
  apply array_round_follows_plan; assumption.
Qed.

(* the head of an array is computed from its size; then the loop, then the closing break *)
Theorem code_array_entry_followed al (indef : bool) (xs : list item) size k a :
  size < 2 ^ 64 -> len xs < 2 ^ 64 ->
  fst (if indef then enc_byte 0x9F size else enc_uint (len xs) size 0x80) < 2 ^ 64 ->
  let hd := if indef then enc_byte 0x9F size else enc_uint (len xs) size 0x80 in
  let p := Gcbor_serialize_array al (dst_z (negb indef)) (Z.of_N (len xs)) (Z.of_N size) k a (Z.of_N (fst hd)) in
  p_reqs p = [if indef then ReqCall "cbor_encode_indef_array_start" (whole size)
              else ReqCall "cbor_encode_array_start" (AZ (Z.of_N (len xs)) :: whole size)] /\
  serialize_into (IArray indef xs) size =
    if returns p then Some (0, snd hd)
    else ser_close indef size (ser_seq serialize_into xs size (fieldN "acc0" p) (snd hd)).
Proof.
  intros Hs Hl Hh. cbv zeta. rewrite bridge_plan_serialize_array by assumption.
  apply array_entry_follows_plan.
Qed.

(* the space check of a definite string *)
Theorem code_defstr_followed cc (text : bool) mt (d : list N) size k a :
  size < 2 ^ 64 -> len d < 2 ^ 64 -> fst (enc_uint (len d) size mt) <= size ->
  let hd := enc_uint (len d) size mt in
  let p := (if text then Gcbor_serialize_string else Gcbor_serialize_bytestring)
             cc (dst_z true) (Z.of_N (len d)) (Z.of_N size) k a (Z.of_N (fst hd)) in
  ser_defstr mt d size = (ret_N p, if negb (ret_N p =? 0) then snd hd ++ d else snd hd) /\
  (ret_N p <> 0 -> ret_N p = fst hd + len d /\ fst hd + len d <= size /\
                   p_effs p = if 0 <? len d then [CopyAt (PArg 1) (Z.of_N (fst hd)) (PField item0 "data") (Z.of_N (len d))] else []).
Proof.
  intros Hs Hl Hh. cbv zeta.
  destruct text; [rewrite bridge_plan_serialize_string by lia | rewrite bridge_plan_serialize_bytestring by lia];
    apply defstr_follows_plan; assumption.
Qed.

(* integers: the fixed-width encoder of the item's width *)
Theorem code_int_followed (neg : bool) w g8 g16 g32 g64 size c :
  size < 2 ^ 64 -> c < 2 ^ 64 ->
  let p := (if neg then Gcbor_serialize_negint else Gcbor_serialize_uint) (iw_z w) (Z.of_N size) g16 g32 g64 g8 (Z.of_N c) in
  let payload := match w with I8 => g8 | I16 => g16 | I32 => g32 | I64 => g64 end in
  p_reqs p = [ReqCall (int_encoder neg w) (AZ payload :: whole size)] /\ ret_N p = c /\
  encoder_model (int_encoder neg w) = Some (fun v s => ser_int (if neg then 0x20 else 0x00) w v s).
Proof.
  intros Hs Hc. cbv zeta.
  assert (Hw : (0 <= iw_z w < 2 ^ 32)%Z) by (destruct w; vm_compute; split; congruence).
  destruct neg; [rewrite bridge_plan_serialize_negint by assumption | rewrite bridge_plan_serialize_uint by assumption];
    apply int_follows_plan.
Qed.

(* the size of an array: head from the size, then one guarded sum per element *)
Theorem code_ssize_array_round_followed al cc ctrl dst len_ ty v w g8 total k acc x r c1 :
  k < total -> total < 2 ^ 64 -> acc < 2 ^ 64 -> ssize x < 2 ^ 64 -> cc < 2 ^ 64 -> k <= cc -> c1 < 2 ^ 64 ->
  let p := Gcbor_serialized_size_loop2 al (Z.of_N cc) ctrl dst (Z.of_N total) len_ ty v w g8 (Z.of_N k) (Z.of_N acc) (Z.of_N (ssize x)) (Z.of_N c1) in
  to_head 2 p = true /\ fieldN "round" p = k + 1 /\
  p_reqs p = [size_call (PSlot slots0 (Z.of_N k) "")] /\
  fold_left (fun acc x => ssadd acc (ssize x)) (x :: r) acc =
  fold_left (fun acc x => ssadd acc (ssize x)) r (fieldN "acc0" p).
Proof.
  intros Hk Ht Ha Hx Hcc Hkc Hc1. cbv zeta.
  destruct (bridge_plan_serialized_size_rounds al cc ctrl dst total len_ ty v w g8 k acc (ssize x) c1) as (_ & _ & E & _); try assumption; try lia.
  rewrite E. apply ssize_array_round_follows_plan. exact Hk.
Qed.

Section CodeAlloc.
Variable refuse : N -> N -> bool.
Theorem code_serialize_alloc_followed a w t w1 wr out (nn : bool) osz :
  abs_of a w = Ret t w1 ->
  serialize_into t (ssize t) = Some (wr, out) -> ssize t < 2 ^ 64 -> wr < 2 ^ 64 ->
  let ok := malloc_ok refuse (nreq w1) (ssize t) in
  let p := Gcbor_serialize_alloc osz nn ok (Z.of_N (ssize t)) (Z.of_N wr) in
  exists bytes w',
    serialize_alloc_h refuse a w = Ret (ret_N p, out_buffer p (next w1), bytes) w' /\
    trace w' = (if ssize t =? 0 then [] else [EvMalloc (ssize t) (if ok then Some (next w1) else None)]) ++ trace w1 /\
    (nn = true -> fieldN "out_size" p = if (ssize t =? 0) || negb ok then 0 else ssize t) /\
    (nn = false -> p_fields p = []) /\
    ((ssize t =? 0) || negb ok = true -> ret_N p = 0 /\ out_buffer p (next w1) = None /\ heap w' = heap w1) /\
    ((ssize t =? 0) || negb ok = false -> ret_N p = wr /\ bytes = out /\ heap w' (next w1) = Some (CData (ssize t))).
Proof.
  intros Habs Hser Hs Hw. cbv zeta. rewrite bridge_plan_serialize_alloc by assumption.
  exact (serialize_alloc_follows_plan refuse a w t w1 wr out nn Habs Hser).
Qed.
End CodeAlloc.

(* C18: no plan of the serializer stores to the item — every p_fields is empty and the only effect
   is the payload copy INTO THE BUFFER (parameter 1) *)
Theorem code_serializer_writes_nothing_to_the_item :
  (forall ty bs c, p_fields (serialize_plan ty bs c) = [] /\ p_effs (serialize_plan ty bs c) = []) /\
  (forall definite size k written bs c, p_effs (array_round_plan definite size k written bs c) = [] /\
     forall nm v, In (nm, v) (p_fields (array_round_plan definite size k written bs c)) -> nm = "acc0" \/ nm = "round") /\
  (forall text definite length bs c e, In e (p_effs (string_plan text definite length bs c)) ->
     exists off n, e = CopyAt (PArg 1) off (PField item0 "data") n).
Proof.
  split; [|split].
  - intros ty bs c. unfold serialize_plan. destruct (serializer_of ty); split; reflexivity.
  - intros definite size k written bs c. unfold array_round_plan, part_round, after_parts, close_plan.
    destruct (k <? size), (c =? 0), definite; cbn; (split; [reflexivity|]); intros nm v H; cbn in H; intuition congruence.
  - intros text definite length bs c e. unfold string_plan.
    destruct text, definite; cbn [str_names];
      repeat match goal with |- context [if ?b then _ else _] => destruct b end; cbn; intros H; try contradiction;
      destruct H as [<-|[]]; eauto.
Qed.
