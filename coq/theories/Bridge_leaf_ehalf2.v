(* cbor_encode_half, exponent classes e = 106 .. 110 (tactics and statement in Bridge_leaf_float.v) *)
From Coq Require Import ZArith NArith List Bool Lia ZifyBool ZifyN ZifyNat.
Import ListNotations.
From CB Require Import Word PStream PEnc PMem GenLeafTypes BridgeTac Bridge_leaf_enc Bridge_leaf_float.
From CBGen Require Import Gen_leaf.
Ltac Zify.zify_post_hook ::= Z.div_mod_to_equations.
Local Open Scope Z_scope.
Lemma bridge_half_e106 val s m size : (s < 2)%N -> (m < 2^23)%N -> val = (s * 2^31 + 106 * 2^23 + m)%N -> half_stmt val size.
Proof. unfold half_stmt. intros Hs Hm Hval. half_go val s 106%N m 106. Qed.
Lemma bridge_half_e107 val s m size : (s < 2)%N -> (m < 2^23)%N -> val = (s * 2^31 + 107 * 2^23 + m)%N -> half_stmt val size.
Proof. unfold half_stmt. intros Hs Hm Hval. half_go val s 107%N m 107. Qed.
Lemma bridge_half_e108 val s m size : (s < 2)%N -> (m < 2^23)%N -> val = (s * 2^31 + 108 * 2^23 + m)%N -> half_stmt val size.
Proof. unfold half_stmt. intros Hs Hm Hval. half_go val s 108%N m 108. Qed.
Lemma bridge_half_e109 val s m size : (s < 2)%N -> (m < 2^23)%N -> val = (s * 2^31 + 109 * 2^23 + m)%N -> half_stmt val size.
Proof. unfold half_stmt. intros Hs Hm Hval. half_go val s 109%N m 109. Qed.
Lemma bridge_half_e110 val s m size : (s < 2)%N -> (m < 2^23)%N -> val = (s * 2^31 + 110 * 2^23 + m)%N -> half_stmt val size.
Proof. unfold half_stmt. intros Hs Hm Hval. half_go val s 110%N m 110. Qed.
