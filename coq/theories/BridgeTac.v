(* tactics for the bridge lemmas of the generated leaf functions (translator/leaf.py, this run's clang AST) = the model's definitions.
   Proofs are by normalisation + case split + lia only (plus one induction for the loop), so that a
   meaning-preserving rewrite of the C code regenerates different Gallina and still checks, while a
   changed constant, operator or width makes a lemma fail. *)
From Coq Require Import ZArith NArith List Bool Lia ZifyBool ZifyN ZifyNat.
Import ListNotations.
From CB Require Import Word PStream PEnc PMem GenLeafTypes.
Ltac Zify.zify_post_hook ::= Z.div_mod_to_equations.
Local Open Scope Z_scope.

Ltac pows :=
  repeat match goal with
  | |- context [Z.pow 2 ?k] => let v := eval vm_compute in (Z.pow 2 k) in change (Z.pow 2 k) with v
  | |- context [N.pow 2 ?k] => let v := eval vm_compute in (N.pow 2 k) in change (N.pow 2 k) with v
  | H : context [Z.pow 2 ?k] |- _ => let v := eval vm_compute in (Z.pow 2 k) in change (Z.pow 2 k) with v in H
  | H : context [N.pow 2 ?k] |- _ => let v := eval vm_compute in (N.pow 2 k) in change (N.pow 2 k) with v in H
  end.
Ltac shifts :=
  repeat (rewrite Z.shiftr_div_pow2 by lia); repeat (rewrite Z.shiftl_mul_pow2 by lia).

Lemma nz_b2z c : nz (b2z c) = c. Proof. destruct c; reflexivity. Qed.
Ltac norm :=
  repeat rewrite nz_b2z in *; change (nz 1) with true in *; change (nz 0) with false in *;
  unfold nz, b2z, wrapz, wrap, wrap64, W64, SIZE_MAX in *; shifts; pows.
Ltac splits :=
  repeat match goal with
  | |- context [if ?c then _ else _] =>
      lazymatch c with
      | context [if _ then _ else _] => fail
      | _ => destruct c eqn:?
      end
  end.
Ltac bridge := norm; splits; pows; try reflexivity; try lia.


