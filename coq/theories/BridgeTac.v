(* tactics for the bridge lemmas of the generated leaf functions (translator/leaf.py, this run's clang AST) = the model's definitions.
   Proofs are by normalisation + case split + lia only (plus one induction for the loop), so that a
   meaning-preserving rewrite of the C code regenerates different Gallina and still checks, while a
   changed constant, operator or width makes a lemma fail. *)
From Coq Require Import ZArith NArith List Bool Lia ZifyBool ZifyN ZifyNat.
Import ListNotations.
From CB Require Import Word PStream PEnc PMem GenLeafTypes.
Ltac Zify.zify_post_hook ::= Z.div_mod_to_equations.
Local Open Scope Z_scope.

Ltac pos_lit p := lazymatch p with xH => idtac | xO ?q => pos_lit q | xI ?q => pos_lit q end.
Ltac z_lit c := lazymatch c with Z0 => idtac | Zpos ?p => pos_lit p | Zneg ?p => pos_lit p end.
Ltac n_lit c := lazymatch c with N0 => idtac | Npos ?p => pos_lit p end.
Ltac z_lit_c c := let dummy := match c with _ => z_lit c end in constr:(c).
(* closed arithmetic expressions: literals combined by + - * *)
Ltac z_closed k :=
  lazymatch k with
  | Z.add ?a ?b => z_closed a; z_closed b
  | Z.sub ?a ?b => z_closed a; z_closed b
  | Z.mul ?a ?b => z_closed a; z_closed b
  | _ => z_lit k
  end.
Ltac n_closed k :=
  lazymatch k with
  | N.add ?a ?b => n_closed a; n_closed b
  | N.sub ?a ?b => n_closed a; n_closed b
  | N.mul ?a ?b => n_closed a; n_closed b
  | _ => n_lit k
  end.
(* 2^k for a closed exponent k -> its numeral (an exponent that mentions a variable is left alone) *)
Ltac pows :=
  repeat match goal with
  | |- context [Z.pow 2 ?k] => z_closed k; let v := eval vm_compute in (Z.pow 2 k) in change (Z.pow 2 k) with v
  | |- context [N.pow 2 ?k] => n_closed k; let v := eval vm_compute in (N.pow 2 k) in change (N.pow 2 k) with v
  | H : context [Z.pow 2 ?k] |- _ => z_closed k; let v := eval vm_compute in (Z.pow 2 k) in change (Z.pow 2 k) with v in H
  | H : context [N.pow 2 ?k] |- _ => n_closed k; let v := eval vm_compute in (N.pow 2 k) in change (N.pow 2 k) with v in H
  end.
Ltac shifts :=
  repeat (rewrite Z.shiftr_div_pow2 by lia); repeat (rewrite Z.shiftl_mul_pow2 by lia).

(* ---- bit operations as arithmetic ---- *)
Lemma land_ones_lit x k : 0 <= k -> Z.land x (2 ^ k - 1) = x mod 2 ^ k.
Proof. intros Hk. rewrite <- Z.land_ones by exact Hk. rewrite Z.ones_equiv. reflexivity. Qed.

Lemma land_mask x lo hi : 0 <= lo <= hi -> Z.land x (2 ^ hi - 2 ^ lo) = x mod 2 ^ hi - x mod 2 ^ lo.
Proof.
  intros [Hlo Hhi].
  assert (Hp : 0 < 2 ^ lo) by (apply Z.pow_pos_nonneg; lia).
  assert (E1 : 2 ^ hi - 2 ^ lo = Z.shiftl (Z.ones (hi - lo)) lo).
  { rewrite Z.shiftl_mul_pow2, Z.ones_equiv by lia. unfold Z.pred.
    rewrite Z.mul_add_distr_r, <- Z.pow_add_r by lia. replace (hi - lo + lo) with hi by lia. lia. }
  assert (E2 : x mod 2 ^ hi - x mod 2 ^ lo = Z.shiftl (Z.shiftr (x mod 2 ^ hi) lo) lo).
  { rewrite Z.shiftl_mul_pow2, Z.shiftr_div_pow2 by lia.
    assert (Hm : (x mod 2 ^ hi) mod 2 ^ lo = x mod 2 ^ lo).
    { replace hi with (lo + (hi - lo)) by lia. rewrite Z.pow_add_r by lia.
      rewrite Z.rem_mul_r by lia. rewrite Z.mul_comm, Z.mod_add by lia. apply Z.mod_mod. lia. }
    pose proof (Z.div_mod (x mod 2 ^ hi) (2 ^ lo) ltac:(lia)) as D. rewrite Hm in D. lia. }
  rewrite E1, E2. apply Z.bits_inj'. intros n Hn.
  rewrite Z.land_spec. destruct (Z.ltb_spec n lo) as [L|L].
  - rewrite !Z.shiftl_spec_low by lia. apply andb_false_r.
  - rewrite !Z.shiftl_spec by lia. rewrite Z.shiftr_spec by lia. replace (n - lo + lo) with n by lia.
    destruct (Z.ltb_spec n hi) as [H|H].
    + rewrite Z.ones_spec_low by lia. rewrite Z.mod_pow2_bits_low by lia. apply andb_true_r.
    + rewrite Z.ones_spec_high by lia. rewrite Z.mod_pow2_bits_high by lia. apply andb_false_r.
Qed.

Lemma lor_disjoint a b k : 0 <= k -> a mod 2 ^ k = 0 -> 0 <= b < 2 ^ k -> Z.lor a b = a + b.
Proof.
  intros Hk Ha Hb.
  assert (L : Z.land a b = 0).
  { apply Z.bits_inj'. intros n Hn. rewrite Z.land_spec, Z.bits_0.
    destruct (Z.ltb_spec n k) as [H|H].
    - assert (Ea : a = a / 2 ^ k * 2 ^ k).
      { pose proof (Z.div_mod a (2 ^ k) ltac:(apply Z.pow_nonzero; lia)). lia. }
      rewrite Ea, Z.mul_pow2_bits_low by lia. reflexivity.
    - rewrite <- (Z.mod_small b (2 ^ k)) by lia. rewrite Z.mod_pow2_bits_high by lia. apply andb_false_r. }
  rewrite Z.add_nocarry_lxor by exact L. symmetry. apply Z.lxor_lor. exact L.
Qed.

(* lor with a value that is either 0 or the single bit 2^k (no conditional: lia knows Z.min) *)
Lemma lor_bit a b k : 0 <= k -> a = 0 \/ a = 2 ^ k ->
  Z.lor a b = a + b - Z.min a (2 ^ k * ((b / 2 ^ k) mod 2)).
Proof.
  intros Hk [->| ->].
  - assert (0 <= 2 ^ k * ((b / 2 ^ k) mod 2)).
    { apply Z.mul_nonneg_nonneg; [apply Z.pow_nonneg; lia|]. apply Z.mod_pos_bound. lia. }
    rewrite Z.min_l by assumption. rewrite Z.lor_0_l. lia.
  - assert (Hp : 0 < 2 ^ k) by (apply Z.pow_pos_nonneg; lia).
    rewrite Z.lor_comm.
    destruct (Z.testbit b k) eqn:T.
    + assert (Eb : (b / 2 ^ k) mod 2 = 1).
      { rewrite <- Z.shiftr_div_pow2 by lia. rewrite <- Z.bit0_mod, Z.shiftr_spec by lia. rewrite Z.add_0_l, T. reflexivity. }
      rewrite Eb. rewrite Z.mul_1_r, Z.min_id. replace (2 ^ k + b - 2 ^ k) with b by lia.
      apply Z.bits_inj'. intros n Hn. rewrite Z.lor_spec, Z.pow2_bits_eqb by lia.
      destruct (Z.eqb_spec k n) as [<-|N]; [rewrite T; reflexivity|apply orb_false_r].
    + assert (Eb : (b / 2 ^ k) mod 2 = 0).
      { rewrite <- Z.shiftr_div_pow2 by lia. rewrite <- Z.bit0_mod, Z.shiftr_spec by lia. rewrite Z.add_0_l, T. reflexivity. }
      rewrite Eb. rewrite Z.mul_0_r, Z.min_r by lia. replace (2 ^ k + b - 0) with (b + 2 ^ k) by lia.
      assert (L : Z.land b (2 ^ k) = 0).
      { apply Z.bits_inj'. intros n Hn. rewrite Z.land_spec, Z.bits_0, Z.pow2_bits_eqb by lia.
        destruct (Z.eqb_spec k n) as [<-|N]; [rewrite T; reflexivity|apply andb_false_r]. }
      rewrite Z.add_nocarry_lxor by exact L. symmetry. apply Z.lxor_lor. exact L.
Qed.

(* literal masks: c = 2^hi - 2^lo (a contiguous run of ones) *)
Definition tzc (c : Z) : Z :=
  match c with
  | Zpos p => (fix f (p : positive) : Z := match p with xO q => 1 + f q | _ => 0 end) p
  | _ => 0
  end.
Definition mask_ok (c lo hi : Z) : bool := (0 <=? lo) && (lo <=? hi) && (c =? 2 ^ hi - 2 ^ lo).
Lemma land_mask_lit x c lo hi : mask_ok c lo hi = true -> Z.land x c = x mod 2 ^ hi - x mod 2 ^ lo.
Proof.
  unfold mask_ok. intros H. apply andb_prop in H. destruct H as [H H3]. apply andb_prop in H. destruct H as [H1 H2].
  apply Z.eqb_eq in H3. subst c. apply land_mask. split; [apply Z.leb_le, H1|apply Z.leb_le, H2].
Qed.
Lemma land_mask_lit_l x c lo hi : mask_ok c lo hi = true -> Z.land c x = x mod 2 ^ hi - x mod 2 ^ lo.
Proof. intros H. rewrite Z.land_comm. apply land_mask_lit, H. Qed.

(* Z.land with a literal contiguous mask -> differences of remainders (x & 0xFF -> x mod 256 - x mod 1) *)
Ltac land_step :=
  match goal with
  | |- context [Z.land ?x ?c] =>
      z_lit c;
      let lo := eval vm_compute in (tzc c) in
      let hi := eval vm_compute in (Z.log2 c + 1) in
      rewrite (land_mask_lit x c lo hi (eq_refl true))
  | |- context [Z.land ?c ?x] =>
      z_lit c;
      let lo := eval vm_compute in (tzc c) in
      let hi := eval vm_compute in (Z.log2 c + 1) in
      rewrite (land_mask_lit_l x c lo hi (eq_refl true))
  end.

(* syntactic interval of an arithmetic term (a guess: every use is re-proved by lia) *)
Ltac nbound v :=
  match goal with
  | H : (v < ?n)%N |- _ => let r := eval vm_compute in (Z.of_N n - 1) in z_lit r; r
  | H : (_ <= v < ?n)%N |- _ => let r := eval vm_compute in (Z.of_N n - 1) in z_lit r; r
  end.
Ltac ubound t :=
  lazymatch t with
  | Z.of_N ?v => nbound v
  | ?a + ?b => let x := ubound a in let y := ubound b in eval vm_compute in (x + y)
  | ?a - ?b => let x := ubound a in let y := lbound b in eval vm_compute in (x - y)
  | ?a * ?b => let x := ubound a in let y := ubound b in let x' := lbound a in let y' := lbound b in
               eval vm_compute in (Z.max (Z.max (x * y) (x' * y')) (Z.max (x * y') (x' * y)))
  | ?a / ?c => let x := ubound a in let d := lbound c in
               lazymatch eval vm_compute in (0 <? d) with true => eval vm_compute in (Z.max (x / d) 0) end
  | ?a mod ?c => let d := ubound c in eval vm_compute in (d - 1)
  | Z.min ?a ?b => let x := ubound a in let y := ubound b in eval vm_compute in (Z.min x y)
  | _ => let dummy := z_lit_c t in t
  end
with lbound t :=
  lazymatch t with
  | Z.of_N ?v => constr:(0)
  | ?a + ?b => let x := lbound a in let y := lbound b in eval vm_compute in (x + y)
  | ?a - ?b => let x := lbound a in let y := ubound b in eval vm_compute in (x - y)
  | ?a * ?b => let x := ubound a in let y := ubound b in let x' := lbound a in let y' := lbound b in
               eval vm_compute in (Z.min (Z.min (x * y) (x' * y')) (Z.min (x * y') (x' * y)))
  | ?a / ?c => let x := lbound a in let d := lbound c in
               lazymatch eval vm_compute in (0 <? d) with true => eval vm_compute in (Z.min (x / d) 0) end
  | ?a mod ?c => constr:(0)
  | Z.min ?a ?b => let x := lbound a in let y := lbound b in eval vm_compute in (Z.min x y)
  | _ => let dummy := z_lit_c t in t
  end.
(* number of bits of the syntactic upper bound of b *)
Ltac bits_est b cont :=
  let u := ubound b in
  let k := eval vm_compute in (Z.log2_up (u + 1)) in
  z_lit k; cont k.

(* the least k in 0..64 for which lia proves 0 <= b < 2^k (binary search: provability is monotone in k) *)
Ltac bits_of b cont :=
  let rec go lo hi :=
    let d := eval vm_compute in (hi - lo) in
    lazymatch d with
    | 1 => cont hi
    | _ => let mid := eval vm_compute in ((lo + hi) / 2) in
           let p := eval vm_compute in (2 ^ mid) in
           tryif assert_succeeds (assert (0 <= b < p) by lia) then go lo mid else go mid hi
    end in
  let p64 := eval vm_compute in (2 ^ 64) in
  assert_succeeds (assert (0 <= b < p64) by lia); go (-1) 64.

(* Z.lor -> arithmetic: disjoint operands (a multiple of 2^k, b below 2^k; either order) become a sum,
   an operand that is 0 or a single bit becomes a sum corrected by Z.min.  Side conditions by lia.
   The width k is first guessed from the syntactic bound, then searched. *)
Ltac lor_with bits a b :=
  first
  [ bits b ltac:(fun k => rewrite (lor_disjoint a b k) by (pows; lia))
  | bits a ltac:(fun k => rewrite (Z.lor_comm a b), (lor_disjoint b a k) by (pows; lia))
  | bits a ltac:(fun k1 => let k := eval vm_compute in (k1 - 1) in rewrite (lor_bit a b k) by (pows; lia))
  | bits b ltac:(fun k1 => let k := eval vm_compute in (k1 - 1) in rewrite (Z.lor_comm a b), (lor_bit b a k) by (pows; lia)) ].
Ltac lor_step :=
  match goal with
  | |- context [Z.lor ?a ?b] => first [ lor_with bits_est a b | lor_with bits_of a b ]
  end.
Ltac bitnorm := repeat land_step; pows; repeat lor_step; pows.
(* C division / remainder of operands the context shows to be non-negative *)
Ltac quots :=
  repeat (rewrite Z.quot_div_nonneg by lia); repeat (rewrite Z.rem_mod_nonneg by lia).

Lemma nz_b2z c : nz (b2z c) = c. Proof. destruct c; reflexivity. Qed.
Ltac norm :=
  repeat rewrite nz_b2z in *; change (nz 1) with true in *; change (nz 0) with false in *;
  unfold nz, b2z, wrapz, swrapz, wrap, wrap64, W64, SIZE_MAX in *; shifts; pows; quots; bitnorm.
Ltac splits :=
  repeat match goal with
  | |- context [if ?c then _ else _] =>
      lazymatch c with
      | context [if _ then _ else _] => fail
      | _ => destruct c eqn:?
      end
  end.
Ltac bridge := norm; splits; pows; try reflexivity; try lia.

(* ---- tuples of loop states: projections by position, so that loop lemmas are stated for any state type ---- *)
Ltac fsts k s := lazymatch k with O => s | S ?k' => let t := constr:(fst s) in fsts k' t end.
Ltac tuple_arity T := lazymatch T with (?A * _)%type => let k := tuple_arity A in constr:(S k) | _ => constr:(1%nat) end.
(* component i (0-based) of the left-nested tuple type T with n components, as a function *)
Ltac tuple_proj T n i :=
  let d := eval compute in (n - 1 - i)%nat in
  constr:(fun s : T => ltac:(let t := fsts d s in lazymatch i with O => exact t | _ => exact (snd t) end)).
Ltac destruct_pairs := repeat match goal with x : (_ * _)%type |- _ => destruct x end.
(* tac k for k = n-1, .., 0 until one succeeds *)
Ltac upto n tac := lazymatch n with O => fail | S ?k => first [ tac k | upto k tac ] end.
Ltac neq_nat a b := lazymatch eval compute in (Nat.eqb a b) with false => idtac end.

(* closed constant sub-terms the translator may leave unevaluated when the C code writes a constant as an expression
   (`(uint8_t)0x80 | 0x1F`, an enum arithmetic, a cast of a literal): fold them to numerals before matching *)
Ltac z_is_lit x := lazymatch x with Z0 => idtac | Zpos _ => idtac | Zneg _ => idtac end.
Ltac fold_consts :=
  repeat match goal with
  | |- context [wrapz ?w ?x] => z_is_lit w; z_is_lit x; let v := eval vm_compute in (wrapz w x) in change (wrapz w x) with v
  | |- context [Z.lor ?a ?b] => z_is_lit a; z_is_lit b; let v := eval vm_compute in (Z.lor a b) in change (Z.lor a b) with v
  | |- context [Z.land ?a ?b] => z_is_lit a; z_is_lit b; let v := eval vm_compute in (Z.land a b) in change (Z.land a b) with v
  | |- context [Z.add ?a ?b] => z_is_lit a; z_is_lit b; let v := eval vm_compute in (Z.add a b) in change (Z.add a b) with v
  | |- context [Z.mul ?a ?b] => z_is_lit a; z_is_lit b; let v := eval vm_compute in (Z.mul a b) in change (Z.mul a b) with v
  | |- context [Z.shiftl ?a ?b] => z_is_lit a; z_is_lit b; let v := eval vm_compute in (Z.shiftl a b) in change (Z.shiftl a b) with v
  end.
