(* generated stack.c: _cbor_stack_push (outcome as a function of stack->size and of the allocator's
   answer) = the model's stack_push_outcome for this run's CBOR_MAX_STACK_SIZE and sizeof, and
   PBuild.push's depth guard (this run's AST and configuration) *)
From Coq Require Import ZArith NArith List Bool Lia ZifyBool ZifyN ZifyNat.
Import ListNotations.
From CB Require Import Word PStream PEnc PMem PBuild PStackGuard GenLeafTypes BridgeTac.
From CBGen Require Import Gen_config Gen_leaf.
Ltac Zify.zify_post_hook ::= Z.div_mod_to_equations.
Local Open Scope Z_scope.

(* for every reachable stack->size (0 .. CBOR_MAX_STACK_SIZE) and either answer of the allocator *)
Lemma bridge_stack_push n granted : (n < 2^64)%N -> (n <= gen_CBOR_MAX_STACK_SIZE)%N ->
  g_cbor_stack_push (Z.of_N n) granted = zoutcome (stack_push_outcome gen_CBOR_MAX_STACK_SIZE gen_sizeof_rec n granted).
Proof.
  intros Hn HL. unfold gen_CBOR_MAX_STACK_SIZE in HL.
  lazymatch eval compute in g_cbor_stack_push_supported with
  | false => unfold g_cbor_stack_push, fb_cbor_stack_push; rewrite !N2Z.id; reflexivity
  | true =>
      unfold g_cbor_stack_push, stack_push_outcome, zoutcome, gen_CBOR_MAX_STACK_SIZE, gen_sizeof_rec; cbv zeta;
      destruct granted; cbn [negb]; norm; splits; cbn [fst snd option_map negb];
      repeat f_equal; try reflexivity; try lia
  end.
Qed.

(* the depth guard of the model's builder is the "no request" case: push refuses exactly when
   _cbor_stack_push returns NULL without asking the allocator *)
Lemma bridge_stack_push_guard f stk : (len stk < 2^64)%N -> (len stk <= gen_CBOR_MAX_STACK_SIZE)%N ->
  (fst (fst (g_cbor_stack_push (Z.of_N (len stk)) true)) = None <-> push gen_CBOR_MAX_STACK_SIZE f stk = fail_mem stk) /\
  (snd (fst (g_cbor_stack_push (Z.of_N (len stk)) true)) = false <-> push gen_CBOR_MAX_STACK_SIZE f stk = ok_stack (f :: stk)).
Proof.
  intros Hn HL. rewrite bridge_stack_push by assumption. unfold stack_push_outcome, zoutcome, push.
  destruct (len stk =? gen_CBOR_MAX_STACK_SIZE)%N; cbn [fst snd option_map negb]; split; split; intros H;
    try reflexivity; try discriminate.
Qed.
Print Assumptions bridge_stack_push.
Print Assumptions bridge_stack_push_guard.
