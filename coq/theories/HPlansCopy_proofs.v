(* The heap model's [copy] (HOps.v) follows the hand-written plans of HPlansCopy.v: the constructor
   chosen per type (widths, definite containers sized by the SIZE of the source), one round of the
   array / chunk / map loop on each of its outcomes — the child copy fails, the attach is refused,
   the attach succeeds — with the exact order of the releases, and the tag branch.
   Hand proofs inside the model world; no generated text. *)
From CB Require Import Word Word_proofs PMem PItem HHeap HItems HOps HCont_proofs GenLeafTypes HPlans HPlansSer HPlansCopy HPlans_proofs.
From Coq Require Import Lia ZArith NArith List Bool String ZifyBool ZifyN ZifyNat.
Import ListNotations.
Local Open Scope string_scope.
Local Open Scope list_scope.
Local Open Scope N_scope.


(* the releases a plan lists, run in the plan's order, then [k]; [val]: what the tokens stand for *)
Fixpoint run_drops {A} (val : ptr -> option addr) (evs : list req) (k : M A) : M A :=
  match evs with
  | [] => k
  | ReqCall f [AP q] :: r =>
      if String.eqb f "cbor_decref"
      then match val q with Some a => decref a ;;; run_drops val r k | None => fail FNull end
      else run_drops val r k
  | _ :: r => run_drops val r k
  end.

(* the container under construction, the first and the second copy made in this round *)
Definition round_val (res : addr) (new0 new1 : option addr) (q : ptr) : option addr :=
  match q with
  | PCarry 0 => Some res
  | PNew 0 => new0
  | PNew 1 => new1
  | _ => None
  end.

Definition returns_null (p : plan) : bool := match p_ret p with RP PNull => true | _ => false end.
Definition goes_on (i : nat) (p : plan) : bool := match p_ret p with RLoop j => Nat.eqb i j | _ => false end.

Section Copy.
Variable refuse : N -> N -> bool.
Variable cp : addr -> M (option addr).      (* the recursive call: [copy refuse f] *)

(* ------------------------------------------------------------------ *)
(* 1. the loops of [copy], named                                         *)

Definition arr_loop (res : addr) (data : option addr) : list addr -> M (option addr) :=
  fix loop (es : list addr) : M (option addr) :=
    match es with
    | [] => ret (Some res)
    | e :: rest =>
        touch_data false data ;;;
        incref e ;;; move e ;;;
        ec <- cp e ;;
        match ec with
        | None => decref res ;;; ret None
        | Some entry_copy =>
            ok <- array_push refuse res entry_copy ;;
            if ok then decref entry_copy ;;; loop rest
            else decref entry_copy ;;; decref res ;;; ret None
        end
    end.

Definition chunk_loop (res : addr) : list addr -> M (option addr) :=
  fix loop (cs : list addr) : M (option addr) :=
    match cs with
    | [] => ret (Some res)
    | ch :: rest =>
        cc <- cp ch ;;
        match cc with
        | None => decref res ;;; ret None
        | Some chunk_copy =>
            ok <- add_chunk refuse res chunk_copy ;;
            if ok then decref chunk_copy ;;; loop rest
            else decref chunk_copy ;;; decref res ;;; ret None
        end
    end.

Definition map_loop (res : addr) (data : option addr) : list (addr * option addr) -> M (option addr) :=
  fix loop (ps : list (addr * option addr)) : M (option addr) :=
    match ps with
    | [] => ret (Some res)
    | (k, ov) :: rest =>
        touch_data false data ;;;
        kc <- cp k ;;
        match kc with
        | None => decref res ;;; ret None
        | Some key_copy =>
            match ov with
            | None => fail FNull
            | Some v =>
                vc <- cp v ;;
                match vc with
                | None => decref res ;;; decref key_copy ;;; ret None
                | Some value_copy =>
                    ok <- map_add refuse res key_copy value_copy ;;
                    if ok then decref key_copy ;;; decref value_copy ;;; loop rest
                    else decref res ;;; decref key_copy ;;; decref value_copy ;;; ret None
                end
            end
        end
    end.

(* ------------------------------------------------------------------ *)
(* 2. one round of the array loop                                       *)

Section ArrayRound.
Variables (res : addr) (data : option addr) (e : addr) (rest : list addr) (size k : N).
Variables (w wa wb w1 : world) (e1 e2 : addr).
Hypothesis Hk : k < size.
Hypothesis Htouch : touch_data false data w = Ret tt wa.
Hypothesis Hinc : incref e wa = Ret e1 wb.
Hypothesis Hmove : move e wb = Ret e2 w1.

(* the child copy fails: the container is released, NULL *)
Theorem array_round_child_failure w2 c :
  cp e w1 = Ret None w2 ->
  let p := copy_array_round_plan size k true false c in
  returns_null p = true /\
  p_reqs p = [ReqCall "cbor_array_get" [AP src; AZ (Z.of_N k)]; copy_of (PNew 0); drop the_copy] /\
  arr_loop res data (e :: rest) w = run_drops (round_val res (Some e) None) (p_reqs p) (ret None) w2.
Proof.
  intros Hc p. subst p. unfold copy_array_round_plan. destruct (N.ltb_spec k size) as [_|]; [|lia].
  cbn [negb]. split; [reflexivity|]. split; [reflexivity|].
  cbn [arr_loop]. mstep Htouch. mstep Hinc. mstep Hmove. mstep Hc. reflexivity.
Qed.

(* the push is refused: the COPY is released, then the container, NULL *)
Theorem array_round_attach_failure ec w2 w3 :
  cp e w1 = Ret (Some ec) w2 ->
  array_push refuse res ec w2 = Ret false w3 ->
  let p := copy_array_round_plan size k true true 0 in
  returns_null p = true /\
  p_reqs p = [ReqCall "cbor_array_get" [AP src; AZ (Z.of_N k)]; copy_of (PNew 0);
              ReqCall "cbor_array_push" [AP the_copy; AP (PNew 1)]; drop (PNew 1); drop the_copy] /\
  arr_loop res data (e :: rest) w = run_drops (round_val res (Some e) (Some ec)) (p_reqs p) (ret None) w3.
Proof.
  intros Hc Hp p. subst p. unfold copy_array_round_plan. destruct (N.ltb_spec k size) as [_|]; [|lia].
  cbn [negb Z.eqb]. split; [reflexivity|]. split; [reflexivity|].
  cbn [arr_loop]. mstep Htouch. mstep Hinc. mstep Hmove. mstep Hc. mstep Hp. reflexivity.
Qed.

(* the push succeeds: the copy (not the source element) was attached, our reference to the copy is
   released, and the loop goes on with the next element and the same container *)
Theorem array_round_success ec w2 w3 c :
  cp e w1 = Ret (Some ec) w2 ->
  array_push refuse res ec w2 = Ret true w3 ->
  (c <> 0)%Z ->
  let p := copy_array_round_plan size k true true c in
  goes_on 2 p = true /\ fieldN "round" p = k + 1 /\
  p_reqs p = [ReqCall "cbor_array_get" [AP src; AZ (Z.of_N k)]; copy_of (PNew 0);
              ReqCall "cbor_array_push" [AP the_copy; AP (PNew 1)]; drop (PNew 1)] /\
  p_effs p = [Move (PNew 0); Carry 0 the_copy] /\
  arr_loop res data (e :: rest) w =
  run_drops (round_val res (Some e) (Some ec)) (p_reqs p) (arr_loop res data rest) w3.
Proof.
  intros Hc Hp Hne p. subst p. unfold copy_array_round_plan. destruct (N.ltb_spec k size) as [_|]; [|lia].
  apply Z.eqb_neq in Hne. rewrite Hne. cbn [negb].
  split; [reflexivity|]. split; [unfold fieldN, copy_next_round, zN; cbn; apply N2Z.id|].
  split; [reflexivity|]. split; [reflexivity|].
  cbn [arr_loop]. mstep Htouch. mstep Hinc. mstep Hmove. mstep Hc. mstep Hp. reflexivity.
Qed.
End ArrayRound.

(* no element left: the container is the result *)
Theorem array_round_exit res data size k ok0 ok1 c :
  size <= k -> let p := copy_array_round_plan size k ok0 ok1 c in
  p_ret p = RP the_copy /\ p_reqs p = [] /\ arr_loop res data [] = ret (Some res).
Proof.
  intros Hk p. subst p. unfold copy_array_round_plan. destruct (N.ltb_spec k size); [lia|]. repeat split.
Qed.

(* ------------------------------------------------------------------ *)
(* 3. one round of the chunk loop                                       *)

Theorem chunk_round_follows_plan (text : bool) res ch rest count k w :
  k < count ->
  let name := if text then "cbor_string_add_chunk" else "cbor_bytestring_add_chunk" in
  (* the copy of the chunk fails *)
  (forall w2 c, cp ch w = Ret None w2 ->
     let p := copy_chunk_round_plan text count k false c in
     returns_null p = true /\ p_reqs p = [copy_of (PSlot chunks0 (Z.of_N k) ""); drop the_copy] /\
     chunk_loop res (ch :: rest) w = run_drops (round_val res None None) (p_reqs p) (ret None) w2) /\
  (* add_chunk is refused: the copy, then the container *)
  (forall cc w2 w3, cp ch w = Ret (Some cc) w2 -> add_chunk refuse res cc w2 = Ret false w3 ->
     let p := copy_chunk_round_plan text count k true 0 in
     returns_null p = true /\
     p_reqs p = [copy_of (PSlot chunks0 (Z.of_N k) ""); ReqCall name [AP the_copy; AP (PNew 0)]; drop (PNew 0); drop the_copy] /\
     chunk_loop res (ch :: rest) w = run_drops (round_val res (Some cc) None) (p_reqs p) (ret None) w3) /\
  (* accepted: the chunk that was added is the COPY; our reference to it is released; next round *)
  (forall cc w2 w3 c, cp ch w = Ret (Some cc) w2 -> add_chunk refuse res cc w2 = Ret true w3 -> (c <> 0)%Z ->
     let p := copy_chunk_round_plan text count k true c in
     goes_on (if text then 1 else 0) p = true /\
     p_reqs p = [copy_of (PSlot chunks0 (Z.of_N k) ""); ReqCall name [AP the_copy; AP (PNew 0)]; drop (PNew 0)] /\
     chunk_loop res (ch :: rest) w = run_drops (round_val res (Some cc) None) (p_reqs p) (chunk_loop res rest) w3).
Proof.
  intros Hk name. subst name. unfold copy_chunk_round_plan. destruct (N.ltb_spec k count) as [_|]; [|lia].
  split; [|split].
  - intros w2 c Hc. cbv zeta. cbn [negb]. split; [reflexivity|]. split; [reflexivity|].
    cbn [chunk_loop]. mstep Hc. reflexivity.
  - intros cc w2 w3 Hc Ha. cbv zeta. cbn [negb Z.eqb]. split; [reflexivity|].
    split; [destruct text; reflexivity|].
    cbn [chunk_loop]. mstep Hc. mstep Ha. destruct text; reflexivity.
  - intros cc w2 w3 c Hc Ha Hne. cbv zeta. apply Z.eqb_neq in Hne. rewrite Hne. cbn [negb].
    split; [destruct text; reflexivity|]. split; [destruct text; reflexivity|].
    cbn [chunk_loop]. mstep Hc. mstep Ha. destruct text; reflexivity.
Qed.

(* ------------------------------------------------------------------ *)
(* 4. one round of the map loop: key, then value                        *)

Theorem map_round_follows_plan res data key v rest size k w wa :
  k < size ->
  touch_data false data w = Ret tt wa ->
  let kcall := copy_of (PSlot slots0 (Z.of_N k) "key") in
  let vcall := copy_of (PSlot slots0 (Z.of_N k) "value") in
  let add := ReqCall "cbor_map_add" [AP the_copy; AStruct [AP (PNew 0); AP (PNew 1)]] in
  (* the key copy fails: the container is released *)
  (forall w2 c, cp key wa = Ret None w2 ->
     let p := copy_map_round_plan size k false false c in
     returns_null p = true /\ p_reqs p = [kcall; drop the_copy] /\
     map_loop res data ((key, Some v) :: rest) w = run_drops (round_val res None None) (p_reqs p) (ret None) w2) /\
  (* the value copy fails: the container AND the key copy are released *)
  (forall kc w2 w3 c, cp key wa = Ret (Some kc) w2 -> cp v w2 = Ret None w3 ->
     let p := copy_map_round_plan size k true false c in
     returns_null p = true /\ p_reqs p = [kcall; vcall; drop the_copy; drop (PNew 0)] /\
     map_loop res data ((key, Some v) :: rest) w = run_drops (round_val res (Some kc) None) (p_reqs p) (ret None) w3) /\
  (* the insertion is refused: the container and both copies are released *)
  (forall kc vc w2 w3 w4, cp key wa = Ret (Some kc) w2 -> cp v w2 = Ret (Some vc) w3 ->
     map_add refuse res kc vc w3 = Ret false w4 ->
     let p := copy_map_round_plan size k true true 0 in
     returns_null p = true /\ p_reqs p = [kcall; vcall; add; drop the_copy; drop (PNew 0); drop (PNew 1)] /\
     map_loop res data ((key, Some v) :: rest) w = run_drops (round_val res (Some kc) (Some vc)) (p_reqs p) (ret None) w4) /\
  (* accepted: both copies are released (the container holds them); next pair *)
  (forall kc vc w2 w3 w4 c, cp key wa = Ret (Some kc) w2 -> cp v w2 = Ret (Some vc) w3 ->
     map_add refuse res kc vc w3 = Ret true w4 -> (c <> 0)%Z ->
     let p := copy_map_round_plan size k true true c in
     goes_on 3 p = true /\ p_reqs p = [kcall; vcall; add; drop (PNew 0); drop (PNew 1)] /\
     map_loop res data ((key, Some v) :: rest) w =
     run_drops (round_val res (Some kc) (Some vc)) (p_reqs p) (map_loop res data rest) w4).
Proof.
  intros Hk Ht kcall vcall add. subst kcall vcall add. unfold copy_map_round_plan.
  destruct (N.ltb_spec k size) as [_|]; [|lia].
  split; [|split; [|split]].
  - intros w2 c Hc. cbv zeta. cbn [negb]. split; [reflexivity|]. split; [reflexivity|].
    cbn [map_loop]. mstep Ht. mstep Hc. reflexivity.
  - intros kc w2 w3 c Hc Hv. cbv zeta. cbn [negb]. split; [reflexivity|]. split; [reflexivity|].
    cbn [map_loop]. mstep Ht. mstep Hc. mstep Hv. reflexivity.
  - intros kc vc w2 w3 w4 Hc Hv Ha. cbv zeta. cbn [negb Z.eqb]. split; [reflexivity|]. split; [reflexivity|].
    cbn [map_loop]. mstep Ht. mstep Hc. mstep Hv. mstep Ha. reflexivity.
  - intros kc vc w2 w3 w4 c Hc Hv Ha Hne. cbv zeta. apply Z.eqb_neq in Hne. rewrite Hne. cbn [negb].
    split; [reflexivity|]. split; [reflexivity|].
    cbn [map_loop]. mstep Ht. mstep Hc. mstep Hv. mstep Ha. reflexivity.
Qed.

End Copy.

(* ------------------------------------------------------------------ *)
(* 5. [copy] itself: the constructor per type, then the named loops; the tag branch *)

Section CopyEntry.
Variable refuse : N -> N -> bool.

(* integers: the builder of the item's width on the item's payload; the mark only for a negative
   integer whose allocation succeeded (the model allocates the marked item in one step) *)
Theorem copy_int_follows_plan f a w rc neg iw v w1 g8 g16 g32 g64 ok :
  rd_item a w = Ret (rc, NInt neg iw v) w1 ->
  let p := copy_int_plan neg (iw_z iw) g8 g16 g32 g64 ok in
  let payload := match iw with I8 => g8 | I16 => g16 | I32 => g32 | I64 => g64 end in
  p_reqs p = ReqCall (int_builder iw) [AZ payload] :: (if neg && ok then [ReqCall "cbor_mark_negint" [AP (PNew 0)]] else []) /\
  p_ret p = RP (pnew ok 0) /\
  copy refuse (S f) a w = build_int refuse neg iw v w1.
Proof.
  intros Hrd p payload. subst p payload.
  split; [destruct iw; reflexivity|]. split; [destruct iw; reflexivity|].
  cbn [copy]. mstep Hrd. reflexivity.
Qed.

(* arrays: a definite copy is sized by the SIZE of the source (its element count), then the loop *)
Theorem copy_array_follows_plan f a w rc (indef : bool) data al elems w1 ty_w length value ctrl g8 g16 g32 g64 ok0 ok1 ok2 :
  rd_item a w = Ret (rc, NArr indef data al elems) w1 ->
  let p := copy_plan TY_ARRAY ty_w (negb indef) length (len elems) value ctrl g8 g16 g32 g64 ok0 ok1 ok2 in
  p_reqs p = [if indef then ReqCall "cbor_new_indefinite_array" [] else ReqCall "cbor_new_definite_array" [AZ (Z.of_N (len elems))]] /\
  (ok0 = true -> goes_on 2 p = true /\ p_effs p = [Carry 0 (PNew 0)]) /\
  (ok0 = false -> returns_null p = true) /\
  copy refuse (S f) a w =
    (r <- (if indef then new_indefinite_array refuse else new_definite_array refuse (len elems)) ;;
     match r with None => ret None | Some res => arr_loop refuse (copy refuse f) res data elems end) w1.
Proof.
  intros Hrd p. subst p. unfold copy_plan.
  change (TY_ARRAY =? TY_UINT)%Z with false. change (TY_ARRAY =? TY_NEGINT)%Z with false.
  change (TY_ARRAY =? TY_BYTES)%Z with false. change (TY_ARRAY =? TY_TEXT)%Z with false.
  change (TY_ARRAY =? TY_ARRAY)%Z with true. cbv iota. unfold into_loop.
  split; [destruct indef, ok0; reflexivity|].
  split; [intros ->; split; reflexivity|]. split; [intros ->; reflexivity|].
  cbn [copy]. mstep Hrd. reflexivity.
Qed.

Theorem copy_map_follows_plan f a w rc (indef : bool) data al pairs w1 ty_w length value ctrl g8 g16 g32 g64 ok0 ok1 ok2 :
  rd_item a w = Ret (rc, NMap indef data al pairs) w1 ->
  let p := copy_plan TY_MAP ty_w (negb indef) length (len pairs) value ctrl g8 g16 g32 g64 ok0 ok1 ok2 in
  p_reqs p = [if indef then ReqCall "cbor_new_indefinite_map" [] else ReqCall "cbor_new_definite_map" [AZ (Z.of_N (len pairs))]] /\
  copy refuse (S f) a w =
    (r <- (if indef then new_indefinite_map refuse else new_definite_map refuse (len pairs)) ;;
     match r with None => ret None | Some res => map_loop refuse (copy refuse f) res data pairs end) w1.
Proof.
  intros Hrd p. subst p. unfold copy_plan.
  change (TY_MAP =? TY_UINT)%Z with false. change (TY_MAP =? TY_NEGINT)%Z with false.
  change (TY_MAP =? TY_BYTES)%Z with false. change (TY_MAP =? TY_TEXT)%Z with false.
  change (TY_MAP =? TY_ARRAY)%Z with false. change (TY_MAP =? TY_MAP)%Z with true. cbv iota. unfold into_loop.
  split; [destruct indef, ok0; reflexivity|].
  cbn [copy]. mstep Hrd. reflexivity.
Qed.

Theorem copy_chunked_follows_plan f a w rc (text : bool) hdr arr cap chunks w1 ty_w length size value ctrl g8 g16 g32 g64 ok0 ok1 ok2 :
  rd_item a w = Ret (rc, NChunked text hdr arr cap chunks) w1 ->
  let p := copy_plan (if text then TY_TEXT else TY_BYTES) ty_w false length size value ctrl g8 g16 g32 g64 ok0 ok1 ok2 in
  p_reqs p = [ReqCall (if text then "cbor_new_indefinite_string" else "cbor_new_indefinite_bytestring") []] /\
  copy refuse (S f) a w =
    (r <- new_indefinite_string refuse text ;;
     match r with None => ret None | Some res => chunk_loop refuse (copy refuse f) res chunks end) w1.
Proof.
  intros Hrd p. subst p. unfold copy_plan, into_loop.
  split; [destruct text, ok0; reflexivity|].
  cbn [copy]. mstep Hrd. reflexivity.
Qed.

(* the tag branch: the child is copied (its fetch takes and gives back one reference); NULL -> NULL;
   otherwise the tag is built around the copy and our reference to the copy is released *)
Theorem copy_tag_follows_plan f a w rc v x w1 w2 w3 x1 x2 ty_w length size ctrl g8 g16 g32 g64 :
  rd_item a w = Ret (rc, NTag v (Some x)) w1 ->
  incref x w1 = Ret x1 w2 -> move x w2 = Ret x2 w3 ->
  (forall w4 ok2, copy refuse f x w3 = Ret None w4 ->
     let p := copy_plan TY_TAG ty_w true length size v ctrl g8 g16 g32 g64 true false ok2 in
     returns_null p = true /\ p_reqs p = [ReqCall "cbor_tag_item" [AP src]; copy_of (PNew 0)] /\
     p_effs p = [Move (PNew 0)] /\
     copy refuse (S f) a w = Ret None w4) /\
  (forall ic t w4 w5, copy refuse f x w3 = Ret (Some ic) w4 -> build_tag refuse v ic w4 = Ret t w5 ->
     let ok2 := match t with Some _ => true | None => false end in
     let p := copy_plan TY_TAG ty_w true length size v ctrl g8 g16 g32 g64 true true ok2 in
     p_ret p = RP (pnew ok2 2) /\
     p_reqs p = [ReqCall "cbor_tag_item" [AP src]; copy_of (PNew 0);
                 ReqCall "cbor_build_tag" [AZ (Z.of_N v); AP (PNew 1)]; drop (PNew 1)] /\
     copy refuse (S f) a w = run_drops (round_val 0 (Some x) (Some ic)) (p_reqs p) (ret t) w5).
Proof.
  intros Hrd Hi Hm. split.
  - intros w4 ok2 Hc p. subst p. split; [reflexivity|]. split; [reflexivity|]. split; [reflexivity|].
    cbn [copy]. mstep Hrd. mstep Hi. mstep Hm. mstep Hc. reflexivity.
  - intros ic t w4 w5 Hc Hb ok2 p. subst p ok2. split; [reflexivity|]. split; [reflexivity|].
    cbn [copy]. mstep Hrd. mstep Hi. mstep Hm. mstep Hc. mstep Hb. reflexivity.
Qed.

End CopyEntry.
