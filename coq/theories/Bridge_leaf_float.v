(* generated encoding.c float encoders (cbor_encode_single / cbor_encode_double; tactics for cbor_encode_half,
   the float parameter rendered as its IEEE-754 bit pattern) = the model's encoders of PEnc.v
   (this run's AST) *)
From Coq Require Import ZArith NArith List Bool Lia ZifyBool ZifyN ZifyNat.
Import ListNotations.
From CB Require Import Word PStream PEnc PMem GenLeafTypes BridgeTac Bridge_leaf_enc.
From CBGen Require Import Gen_leaf.
Ltac Zify.zify_post_hook ::= Z.div_mod_to_equations.
Local Open Scope Z_scope.

(* the integer encoders the float encoders end in, stated on Z arguments (from Bridge_leaf_enc) *)
Lemma enc16Z x s o : 0 <= x < 2^16 -> 0 <= s -> 0 <= o < 2^8 ->
  g_cbor_encode_uint16 x s o = zres (enc_uint16 (Z.to_N x) (Z.to_N s) (Z.to_N o)).
Proof.
  intros Hx Hs Ho. rewrite <- (Z2N.id x), <- (Z2N.id s), <- (Z2N.id o) at 1 by lia.
  apply bridge_encode_uint16; pows; lia.
Qed.
Lemma enc32Z x s o : 0 <= x < 2^32 -> 0 <= s -> 0 <= o < 2^8 ->
  g_cbor_encode_uint32 x s o = zres (enc_uint32 (Z.to_N x) (Z.to_N s) (Z.to_N o)).
Proof.
  intros Hx Hs Ho. rewrite <- (Z2N.id x), <- (Z2N.id s), <- (Z2N.id o) at 1 by lia.
  apply bridge_encode_uint32; pows; lia.
Qed.
Lemma enc64Z x s o : 0 <= x < 2^64 -> 0 <= s -> 0 <= o < 2^8 ->
  g_cbor_encode_uint64 x s o = zres (enc_uint64 (Z.to_N x) (Z.to_N s) (Z.to_N o)).
Proof.
  intros Hx Hs Ho. rewrite <- (Z2N.id x), <- (Z2N.id s), <- (Z2N.id o) at 1 by lia.
  apply bridge_encode_uint64; pows; lia.
Qed.

(* ---- cbor_encode_single / cbor_encode_double: NaN canonicalisation, then the uint32/64 encoder ----
   fast path: every call of the integer encoder is replaced by the model's encoder (its bridge),
   what remains is the NaN test and the value handed on; slow path (the calls were inlined or
   restructured): unfold everything and sweep the stores *)
(* `size_t n = _cbor_encode_..(..); return n;` instead of a tail call *)
Lemma let_pair_eta {A B} (p : A * B) : (let '(a, b) := p in (a, b)) = p.
Proof. destruct p; reflexivity. Qed.
Lemma let_pair_eta_some {A B} (p : A * B) : (let '(a, b) := p in Some (a, b)) = Some p.
Proof. destruct p; reflexivity. Qed.
Ltac untail := cbn [app]; rewrite ?let_pair_eta, ?let_pair_eta_some.

Ltac enc_fast :=
  cbv zeta; untail; rewrite ?enc16Z, ?enc32Z, ?enc64Z by (norm; lia);
  unfold isnan32, isnan64, f32_is_nan, f64_is_nan; norm; splits;
  try (exfalso; lia); repeat f_equal; lia.
Ltac enc_sweep :=
  cbv zeta; untail; unfold zres, efail, indexed, isnan32, isnan64, f32_is_nan, f64_is_nan; norm;
  splits; try (exfalso; lia); cbn [idx map fst snd app]; repeat f_equal; pows; try lia.

Lemma bridge_encode_single v size : (v < 2^32)%N ->
  gcbor_encode_single (Z.of_N v) (Z.of_N size) = zres (encode_single v size).
Proof.
  intros Hv.
  lazymatch eval compute in gcbor_encode_single_supported with
  | true => first [ unfold gcbor_encode_single, encode_single; enc_fast
                  | unfold gcbor_encode_single, g_cbor_encode_uint32, encode_single, enc_uint32; enc_sweep ]
  | false => unfold gcbor_encode_single, fbcbor_encode_single; rewrite !N2Z.id; reflexivity
  end.
Qed.

Lemma bridge_encode_double v size : (v < 2^64)%N ->
  gcbor_encode_double (Z.of_N v) (Z.of_N size) = zres (encode_double v size).
Proof.
  intros Hv.
  lazymatch eval compute in gcbor_encode_double_supported with
  | true => first [ unfold gcbor_encode_double, encode_double; enc_fast
                  | unfold gcbor_encode_double, g_cbor_encode_uint64, encode_double, enc_uint64; enc_sweep ]
  | false => unfold gcbor_encode_double, fbcbor_encode_double; rewrite !N2Z.id; reflexivity
  end.
Qed.

(* ---- cbor_encode_half: the bit-level body ----
   The binary32 pattern is split into its fields, val = s * 2^31 + e * 2^23 + m, and the equation is
   proved class by class of the exponent field (the classes are the model's: e = 255, e = 0,
   1 <= e < 103, each of e = 103 .. 112 because the shift amounts depend on e, 113 <= e < 127,
   127 <= e < 255).  Within a class every step is search + lia:
     - masks become differences of remainders (land_step), shifts by literals quotients / products;
     - every `if` whose condition lia decides on the class is reduced (decide_ifs), the others split;
     - the tail call is replaced by the model's uint16 encoder (bridge_encode_uint16);
     - the model side is moved from N to Z (push_of_N);
     - innermost quotients / remainders that are affine in (s, e, m) on the class are replaced by
       their affine form - coefficients from four evaluations, the equation by lia (fields);
     - shift amounts that lia proves constant on the class become literals (amounts);
     - remainders lia proves redundant are dropped (modelim); Z.lor becomes arithmetic (lor_step);
     - lia closes the equation.
   Nothing refers to the shape of the generated text beyond "ends in a call of _cbor_encode_uint16". *)
Lemma N_land_Z a b : N.land a b = Z.to_N (Z.land (Z.of_N a) (Z.of_N b)).
Proof. destruct a, b; try reflexivity. cbn [Z.of_N Z.land]. rewrite N2Z.id. reflexivity. Qed.
Lemma N_lor_Z a b : N.lor a b = Z.to_N (Z.lor (Z.of_N a) (Z.of_N b)).
Proof. destruct a, b; reflexivity. Qed.
Lemma of_N_land a b : Z.of_N (N.land a b) = Z.land (Z.of_N a) (Z.of_N b).
Proof. rewrite N_land_Z, Z2N.id; [reflexivity|]. apply Z.land_nonneg. left. apply N2Z.is_nonneg. Qed.
Lemma of_N_lor a b : Z.of_N (N.lor a b) = Z.lor (Z.of_N a) (Z.of_N b).
Proof. rewrite N_lor_Z, Z2N.id; [reflexivity|]. apply Z.lor_nonneg. split; apply N2Z.is_nonneg. Qed.
Lemma of_N_if (c : bool) a b : Z.of_N (if c then a else b) = if c then Z.of_N a else Z.of_N b.
Proof. destruct c; reflexivity. Qed.

Ltac shifts_lit :=
  repeat match goal with
  | |- context [Z.shiftr ?a ?n] => z_closed n; rewrite (Z.shiftr_div_pow2 a n) by lia
  | |- context [Z.shiftl ?a ?n] => z_closed n; rewrite (Z.shiftl_mul_pow2 a n) by lia
  end.
Ltac decide_ifs :=
  repeat (cbv beta iota; match goal with
  | |- context [if ?c then _ else _] =>
      lazymatch c with context [if _ then _ else _] => fail | _ => idtac end;
      first [ replace c with true by (symmetry; lia) | replace c with false by (symmetry; lia) ]
  end); cbv beta iota.
Ltac value_of n cont :=
  let rec go lo hi :=
    let d := eval vm_compute in (hi - lo) in
    lazymatch d with
    | 1 => cont hi
    | _ => let mid := eval vm_compute in ((lo + hi) / 2) in
           tryif assert_succeeds (assert (n <= mid) by lia) then go lo mid else go mid hi
    end in
  assert_succeeds (assert (0 <= n <= 64) by lia); go (-1) 64.
Ltac amounts :=
  repeat match goal with
  | |- context [Z.shiftr ?a ?n] => assert_fails (z_closed n); value_of n ltac:(fun k => replace n with k by lia)
  | |- context [Z.shiftl ?a ?n] => assert_fails (z_closed n); value_of n ltac:(fun k => replace n with k by lia)
  | |- context [Z.pow 2 ?n] => assert_fails (z_closed n); value_of n ltac:(fun k => replace n with k by lia)
  end.

(* mod elimination: a mod c = a when lia shows 0 <= a < c; the others are marked so that they are tried once *)
Definition keepmod (a c : Z) : Z := a mod c.
Ltac modelim :=
  repeat match goal with
  | |- context [?a mod ?c] => z_lit c;
      first [ replace (a mod c) with a by (symmetry; apply Z.mod_small; lia)
            | change (a mod c) with (keepmod a c) ]
  end; unfold keepmod.

Ltac no_divmod a :=
  lazymatch a with
  | context [Z.modulo _ _] => fail
  | context [Z.div _ _] => fail
  | _ => idtac
  end.
(* innermost quotients / remainders that are affine in (s, e, m) on the class: coefficients from four
   evaluations, the equation by lia *)
Definition keepdiv (a c : Z) : Z := a / c.
Ltac addc acc c x := lazymatch c with 0 => acc | 1 => constr:(acc + x) | _ => constr:(acc + c * x) end.
Ltac linearize val s e m e0 t :=
  let p := eval pattern (Z.of_N val), (Z.of_N s), (Z.of_N e), (Z.of_N m) in t in
  lazymatch p with
  | ?f _ _ _ _ =>
      let v0 := eval vm_compute in (e0 * 2 ^ 23) in
      let c0 := eval vm_compute in (f v0 0 e0 0) in
      let cs := eval vm_compute in (f (v0 + 2 ^ 31) 1 e0 0 - f v0 0 e0 0) in
      let ce := lazymatch e with
                | Npos _ => constr:(0)
                | N0 => constr:(0)
                | _ => eval vm_compute in (f (v0 + 2 ^ 23) 0 (e0 + 1) 0 - f v0 0 e0 0)
                end in
      let cm := eval vm_compute in (f (v0 + 1) 0 e0 1 - f v0 0 e0 0) in
      z_lit c0; z_lit cs; z_lit ce; z_lit cm;
      let t1 := addc constr:(c0) cs constr:(Z.of_N s) in
      let t2 := addc t1 ce constr:(Z.of_N e - e0) in
      let t3 := addc t2 cm constr:(Z.of_N m) in
      replace t with t3 by lia
  end.
Ltac fields val s e m e0 :=
  repeat match goal with
  | |- context [?a mod ?c] => z_lit c; no_divmod a; 
        first [ linearize val s e m e0 (a mod c) | change (a mod c) with (keepmod a c) ]
  | |- context [?a / ?c] => z_lit c; no_divmod a; 
        first [ linearize val s e m e0 (a / c) | change (a / c) with (keepdiv a c) ]
  end; unfold keepdiv, keepmod.

Ltac half_unfold :=
  unfold gcbor_encode_half, encode_half, encode_half_bits, shl32, shr32, obind; cbv zeta;
  unfold isnan32, f32_is_nan;
  rewrite ?N_land_Z; cbn [Z.of_N];
  repeat rewrite nz_b2z; change (nz 1) with true; change (nz 0) with false;
  unfold nz, b2z, wrapz, swrapz, wrap; pows;
  repeat land_step; pows; shifts_lit; pows; quots.


Ltac push_of_N :=
  repeat first
  [ rewrite of_N_lor | rewrite of_N_land | rewrite of_N_if
  | rewrite N2Z.inj_mod | rewrite N2Z.inj_div | rewrite N2Z.inj_mul | rewrite N2Z.inj_add
  | rewrite N2Z.inj_pow | rewrite N2Z.inj_sub by lia | rewrite Z2N.id by lia ]; cbn [Z.of_N].

Ltac half_class val s e m e0 :=
  half_unfold; decide_ifs; splits; untail; cbn [option_map]; f_equal;
  lazymatch goal with |- g_cbor_encode_uint16 ?R ?sz ?o = zres (enc_uint16 ?R' ?size ?o') =>
    replace R with (Z.of_N R'); [ change o with (Z.of_N o'); apply bridge_encode_uint16; [ lia | pows; lia ] | ] end;
  push_of_N; fields val s e m e0; amounts; shifts; pows; quots; fields val s e m e0; modelim; repeat lor_step; pows; lia.


Ltac half_fallback :=
  unfold gcbor_encode_half, fbcbor_encode_half; rewrite !N2Z.id; reflexivity.
Ltac half_go val s e m e0 :=
  lazymatch eval compute in gcbor_encode_half_supported with
  | true => pows; half_class val s e m e0
  | false => half_fallback
  end.

Definition half_stmt (val size : N) : Prop :=
  gcbor_encode_half (Z.of_N val) (Z.of_N size) = option_map zres (encode_half val size).
Print Assumptions bridge_encode_single.
Print Assumptions bridge_encode_double.
