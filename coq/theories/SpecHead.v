(* Specification: the item head at the start of a buffer, written from RFC 8949 section 3
   (major type = initial byte / 32, additional information = initial byte mod 32) within
   libcbor's profile (simple values: only 20..23; no one-byte simple values). *)
From CB Require Export PStream.
Local Open Scope N_scope.

(* HTok t n: a complete head (plus payload for definite strings) of n bytes denoting event t
   HNeed full: incomplete; [full] = length of the head, plus the payload when the head itself
               is complete and declares one
   HBad: reserved or unsupported initial byte *)
Inductive hres := HTok (t : tok) (n : N) | HNeed (full : N) | HBad.

Definition arg_bytes (ai : N) : N :=
  if ai <? 24 then 0 else if ai =? 24 then 1 else if ai =? 25 then 2
  else if ai =? 26 then 4 else if ai =? 27 then 8 else 0.

Definition iwidth_of (ai : N) : iwidth :=
  if ai <=? 24 then I8 else if ai =? 25 then I16 else if ai =? 26 then I32 else I64.

Definition head_spec (buf : list N) : hres :=
  match buf with
  | [] => HNeed 1
  | b :: rest =>
    let mt := b / 32 in
    let ai := b mod 32 in
    (* unsupported / reserved initial bytes, decided on the initial byte alone *)
    if (28 <=? ai) && (ai <=? 30) then HBad
    else if (ai =? 31) && ((mt =? 0) || (mt =? 1) || (mt =? 6)) then HBad
    else if (mt =? 7) && ((ai <? 20) || (ai =? 24)) then HBad
    else
    let k := arg_bytes ai in
    if len rest <? k then HNeed (1 + k) else
    let arg := if ai <? 24 then ai else be_val (firstnN k rest) in
    let hl := 1 + k in
    if mt =? 0 then HTok (TUint (iwidth_of ai) arg) hl
    else if mt =? 1 then HTok (TNegint (iwidth_of ai) arg) hl
    else if (mt =? 2) || (mt =? 3) then
      if ai =? 31 then HTok (if mt =? 2 then TBytesStart else TTextStart) 1
      else if len rest - k <? arg then HNeed (hl + arg)
      else let data := firstnN arg (skipnN k rest) in
           HTok (if mt =? 2 then TBytes hl data else TText hl data) (hl + arg)
    else if mt =? 4 then (if ai =? 31 then HTok TArrayStart 1 else HTok (TArray arg) hl)
    else if mt =? 5 then (if ai =? 31 then HTok TMapStart 1 else HTok (TMap arg) hl)
    else if mt =? 6 then HTok (TTag arg) hl
    else (* mt = 7 *)
      if ai =? 20 then HTok (TBool false) 1
      else if ai =? 21 then HTok (TBool true) 1
      else if ai =? 22 then HTok TNull 1
      else if ai =? 23 then HTok TUndef 1
      else if ai =? 25 then HTok (TFloat F16 (decode_half arg)) hl
      else if ai =? 26 then HTok (TFloat F32 (canon32 arg)) hl
      else if ai =? 27 then HTok (TFloat F64 (canon64 arg)) hl
      else HTok TBreak 1
  end.

(* the RFC 8949 tokenisation of a stream: the events of its complete heads, in order *)
Fixpoint tokens_spec (fuel : nat) (s : list N) : list tok :=
  match fuel with
  | O => []
  | S f =>
      match head_spec s with
      | HTok t n => t :: tokens_spec f (skipnN n s)
      | _ => []
      end
  end.
Definition tokens_of (s : list N) : list tok := tokens_spec (S (length s)) s.
