(* Model H, property C17 (whole schedules), part 1: renamings of addresses.

   A renaming is a partial function [f : addr -> option addr].  It induces relations on everything that
   embeds addresses (nodes, cells, tasks, handle tables ...), all monotone in [f], and a relation on
   worlds [Sim f w1 w2]:
     - on its domain, [heap w2 (f a)] is the renamed [heap w1 a] (a released cell of the domain is
       released in [w2] too);
     - every live cell of [w1] is in the domain; the domain is below [next w1], the image below [next w2];
     - [f] is injective;
     - nothing is required of the cells of [w2] outside the image (other threads' cells), of the request
       counters, the traces or the access logs.
   The binary judgment [kpe f R m1 m2] says: whenever [m1] returns in a world [w1], [m2] returns in every
   [w2] with [Sim f w1 w2], with a result related by an extension [f'] of [f], [Sim f' w1' w2'], the new
   pairs of [f'] are fresh on both sides, every cell of [w2] outside the image of [f] is untouched,
   every address allocated in [w2] is in the image of [f'], and every access logged / every block named
   by an allocator event in [w2] meanwhile is in the image of [f'] ([Stp]).
   It holds of the six primitives for an allocator oracle that does not depend on the request index
   ([refuse_ii]); [malloc] / [realloc] extend [f] by [next w1 |-> next w2]. *)
From CB Require Import Word Word_proofs PMem PItem HHeap HItems HOps HHist HHist2 HHist3.
From CB Require Import HRef_proofs HCont_proofs HCopy_proofs HFrame_proofs HInterleave.
From Coq Require Import Lia ZArith List.
Import ListNotations.
Local Open Scope N_scope.

Definition ren := addr -> option addr.
Definition ext (f f' : ren) : Prop := forall a b, f a = Some b -> f' a = Some b.
Definition inj (f : ren) : Prop := forall a a' b, f a = Some b -> f a' = Some b -> a = a'.

Lemma ext_refl f : ext f f.
Proof. intros a b H. exact H. Qed.
Lemma ext_trans f g h : ext f g -> ext g h -> ext f h.
Proof. intros H1 H2 a b H. apply H2, H1, H. Qed.

(* relations indexed by a renaming, monotone in it *)
Class Mono {A : Type} (R : ren -> A -> A -> Prop) : Prop :=
  mono : forall f f' x y, ext f f' -> R f x y -> R f' x y.

Definition Req {A : Type} : ren -> A -> A -> Prop := fun _ x y => x = y.
Definition Ra : ren -> addr -> addr -> Prop := fun f a b => f a = Some b.
Definition Roption {A : Type} (R : ren -> A -> A -> Prop) : ren -> option A -> option A -> Prop :=
  fun f o1 o2 => match o1, o2 with Some x, Some y => R f x y | None, None => True | _, _ => False end.
Definition Rlist {A : Type} (R : ren -> A -> A -> Prop) : ren -> list A -> list A -> Prop :=
  fun f => Forall2 (R f).
Definition Rprod {A B : Type} (RA : ren -> A -> A -> Prop) (RB : ren -> B -> B -> Prop) :
  ren -> A * B -> A * B -> Prop :=
  fun f p q => RA f (fst p) (fst q) /\ RB f (snd p) (snd q).

Global Instance Mono_eq {A} : Mono (@Req A).
Proof. intros f f' x y _ H. exact H. Qed.
Global Instance Mono_a : Mono Ra.
Proof. intros f f' x y E H. apply E, H. Qed.
Global Instance Mono_option {A} (R : ren -> A -> A -> Prop) : Mono R -> Mono (Roption R).
Proof. intros M f f' [x|] [y|] E H; cbn in *; try exact H. eapply M; eassumption. Qed.
Global Instance Mono_list {A} (R : ren -> A -> A -> Prop) : Mono R -> Mono (Rlist R).
Proof.
  intros M f f' x y E H. unfold Rlist in *. induction H; constructor; [eapply M; eassumption|assumption].
Qed.
Global Instance Mono_prod {A B} (RA : ren -> A -> A -> Prop) (RB : ren -> B -> B -> Prop) :
  Mono RA -> Mono RB -> Mono (Rprod RA RB).
Proof. intros MA MB f f' x y E [H1 H2]. split; [eapply MA|eapply MB]; eassumption. Qed.

Notation Ro := (Roption Ra).
Notation Rl := (Rlist Ra).
Notation Rp := (Rlist (Rprod Ra (Roption Ra))).
Notation Ru := (@Req unit).

Definition Rn (f : ren) (n1 n2 : node) : Prop :=
  match n1, n2 with
  | NInt a b c, NInt a' b' c' => a = a' /\ b = b' /\ c = c'
  | NFloat a b, NFloat a' b' => a = a' /\ b = b'
  | NCtrl v, NCtrl v' => v = v'
  | NStr t d b, NStr t' d' b' => t = t' /\ Ro f d d' /\ b = b'
  | NChunked t h a c cs, NChunked t' h' a' c' cs' => t = t' /\ Ra f h h' /\ Ro f a a' /\ c = c' /\ Rl f cs cs'
  | NArr i d al es, NArr i' d' al' es' => i = i' /\ Ro f d d' /\ al = al' /\ Rl f es es'
  | NMap i d al ps, NMap i' d' al' ps' => i = i' /\ Ro f d d' /\ al = al' /\ Rp f ps ps'
  | NTag v c, NTag v' c' => v = v' /\ Ro f c c'
  | _, _ => False
  end.
Definition Rcl (f : ren) (c1 c2 : cell) : Prop :=
  match c1, c2 with
  | CItem rc1 n1, CItem rc2 n2 => rc1 = rc2 /\ Rn f n1 n2
  | CData s1, CData s2 => s1 = s2
  | _, _ => False
  end.

Global Instance Mono_n : Mono Rn.
Proof.
  intros f f' n1 n2 E H. destruct n1, n2; cbn [Rn] in *; try exact H.
  - destruct H as (A & B & C). split; [exact A|]. split; [eapply (mono (R:=Ro)); eassumption|exact C].
  - destruct H as (A & B & C & D & F). split; [exact A|]. split; [eapply (mono (R:=Ra)); eassumption|].
    split; [eapply (mono (R:=Ro)); eassumption|]. split; [exact D|eapply (mono (R:=Rl)); eassumption].
  - destruct H as (A & B & C & D). split; [exact A|]. split; [eapply (mono (R:=Ro)); eassumption|].
    split; [exact C|eapply (mono (R:=Rl)); eassumption].
  - destruct H as (A & B & C & D). split; [exact A|]. split; [eapply (mono (R:=Ro)); eassumption|].
    split; [exact C|eapply (mono (R:=Rp)); eassumption].
  - destruct H as (A & B). split; [exact A|eapply (mono (R:=Ro)); eassumption].
Qed.
Global Instance Mono_cl : Mono Rcl.
Proof.
  intros f f' c1 c2 E H. destruct c1, c2; cbn [Rcl] in *; try exact H.
  destruct H as [A B]. split; [exact A|eapply (mono (R:=Rn)); eassumption].
Qed.

(* ---------------- lists ---------------- *)
Lemma Rlist_len {A} (R : ren -> A -> A -> Prop) f l1 l2 : Rlist R f l1 l2 -> len l2 = len l1.
Proof. intros H. unfold len. f_equal. induction H; cbn [length]; [reflexivity|f_equal; assumption]. Qed.
Lemma Rlist_app {A} (R : ren -> A -> A -> Prop) f l1 l2 k1 k2 :
  Rlist R f l1 l2 -> Rlist R f k1 k2 -> Rlist R f (l1 ++ k1) (l2 ++ k2).
Proof. apply Forall2_app. Qed.
Lemma Rlist_one {A} (R : ren -> A -> A -> Prop) f x y : R f x y -> Rlist R f [x] [y].
Proof. intros H. constructor; [exact H|constructor]. Qed.
Lemma Rlist_nil {A} (R : ren -> A -> A -> Prop) f : Rlist R f [] [].
Proof. constructor. Qed.
Lemma Rlist_rev {A} (R : ren -> A -> A -> Prop) f l1 l2 : Rlist R f l1 l2 -> Rlist R f (rev l1) (rev l2).
Proof.
  intros H. induction H; cbn [rev]; [constructor|]. apply Rlist_app; [assumption|apply Rlist_one; assumption].
Qed.
Lemma Rlist_nth {A} (R : ren -> A -> A -> Prop) f l1 l2 : Rlist R f l1 l2 ->
  forall i, Roption R f (nth_error l1 i) (nth_error l2 i).
Proof.
  intros H. induction H; intros [|i]; cbn [nth_error Roption]; try exact I; [assumption|apply IHForall2].
Qed.
Lemma Rlist_set_nth {A} (R : ren -> A -> A -> Prop) f l1 l2 x y : Rlist R f l1 l2 -> R f x y ->
  forall i, Rlist R f (set_nth l1 i x) (set_nth l2 i y).
Proof.
  intros H Hx. induction H; intros [|i]; cbn [set_nth]; try constructor; try assumption. apply IHForall2.
Qed.
Lemma Rlist_map {A B} (R : ren -> A -> A -> Prop) (S : ren -> B -> B -> Prop) f (g1 g2 : A -> B) l1 l2 :
  (forall x y, R f x y -> S f (g1 x) (g2 y)) -> Rlist R f l1 l2 -> Rlist S f (map g1 l1) (map g2 l2).
Proof. intros Hg H. induction H; cbn [map]; constructor; auto. Qed.

(* ---------------- worlds ---------------- *)
Record Sim (f : ren) (w1 w2 : world) : Prop := mkSim {
  S_wf1 : wf w1;
  S_wf2 : wf w2;
  S_le : next w1 <= next w2;
  S_dom : forall a b, f a = Some b -> a < next w1 /\ b < next w2;
  S_inj : inj f;
  S_heap : forall a b, f a = Some b -> Roption Rcl f (heap w1 a) (heap w2 b);
  S_live : forall a c, heap w1 a = Some c -> exists b, f a = Some b
}.

(* the accesses / allocator events of a stretch of the run in [w2] concern cells of the image only *)
Definition acc_in (f : ren) (acc : list access) : Prop :=
  forall x, In x acc -> exists a, f a = Some (access_addr x).
Definition evs_in (f : ren) (evs : list event) : Prop :=
  forall e p, In e evs -> In p (event_addrs e) -> exists a, f a = Some p.
Lemma acc_in_nil f : acc_in f [].
Proof. intros x []. Qed.
Lemma evs_in_nil f : evs_in f [].
Proof. intros e p []. Qed.
Lemma acc_in_ext f f' acc : ext f f' -> acc_in f acc -> acc_in f' acc.
Proof. intros E H x Hx. destruct (H x Hx) as [a Ha]. exists a. apply E, Ha. Qed.
Lemma evs_in_ext f f' evs : ext f f' -> evs_in f evs -> evs_in f' evs.
Proof. intros E H e p He Hp. destruct (H e p He Hp) as [a Ha]. exists a. apply E, Ha. Qed.
Lemma acc_in_app f l1 l2 : acc_in f l1 -> acc_in f l2 -> acc_in f (l1 ++ l2).
Proof. intros H1 H2 x Hx. apply in_app_or in Hx. destruct Hx; auto. Qed.
Lemma evs_in_app f l1 l2 : evs_in f l1 -> evs_in f l2 -> evs_in f (l1 ++ l2).
Proof. intros H1 H2 e p He. apply in_app_or in He. destruct He; eauto. Qed.
Lemma acc_in_one f x a : f a = Some (access_addr x) -> acc_in f [x].
Proof. intros H y [<-|[]]. exists a. exact H. Qed.

(* how one computation moves (f, w1, w2) *)
Record Stp (f : ren) (w1 w2 : world) (f' : ren) (w1' w2' : world) : Prop := mkStp {
  T_ext : ext f f';
  T_new : forall a b, f' a = Some b -> f a = Some b \/ (next w1 <= a /\ next w2 <= b);
  T_n1 : next w1 <= next w1';
  T_n2 : next w2 <= next w2';
  T_frame : forall b, b < next w2 -> (forall a, f a <> Some b) -> heap w2' b = heap w2 b;
  T_cover : forall b, next w2 <= b -> b < next w2' -> exists a, f' a = Some b;
  T_acc : exists acc, alog w2' = acc ++ alog w2 /\ acc_in f' acc;
  T_evs : exists evs, trace w2' = evs ++ trace w2 /\ evs_in f' evs
}.

Lemma Stp_refl f w1 w2 : Stp f w1 w2 f w1 w2.
Proof.
  constructor.
  - apply ext_refl.
  - intros a b H. left. exact H.
  - lia.
  - lia.
  - intros; reflexivity.
  - intros b H1 H2. lia.
  - exists []. split; [reflexivity|apply acc_in_nil].
  - exists []. split; [reflexivity|apply evs_in_nil].
Qed.
Lemma Stp_trans f w1 w2 f' w1' w2' f'' w1'' w2'' :
  Stp f w1 w2 f' w1' w2' -> Stp f' w1' w2' f'' w1'' w2'' -> Stp f w1 w2 f'' w1'' w2''.
Proof.
  intros [A1 B1 C1 D1 E1 F1 (acc1 & G1 & G1') (evs1 & H1 & H1')] [A2 B2 C2 D2 E2 F2 (acc2 & G2 & G2') (evs2 & H2 & H2')].
  constructor.
  - eapply ext_trans; eassumption.
  - intros a b H. destruct (B2 a b H) as [H'|[K1 K2]]; [|right; lia].
    destruct (B1 a b H') as [H''|[K1 K2]]; [left; exact H''|right; lia].
  - lia.
  - lia.
  - intros b Hb Hn. rewrite E2; [apply E1; assumption|lia|].
    intros a Ha. destruct (B1 a b Ha) as [H|[_ H]]; [exact (Hn a H)|lia].
  - intros b K1 K2. destruct (N.lt_ge_cases b (next w2')) as [Lt|Ge].
    + destruct (F1 b K1 Lt) as [a Ha]. exists a. apply A2, Ha.
    + apply F2; assumption.
  - exists (acc2 ++ acc1). split; [rewrite G2, G1, app_assoc; reflexivity|].
    apply acc_in_app; [exact G2'|eapply acc_in_ext; eassumption].
  - exists (evs2 ++ evs1). split; [rewrite H2, H1, app_assoc; reflexivity|].
    apply evs_in_app; [exact H2'|eapply evs_in_ext; eassumption].
Qed.
(* a step that changes only the logs (rd_item, touch_data, a refused request) or nothing *)
Lemma Stp_same f w1 w2 w1' w2' acc evs : next w1' = next w1 -> next w2' = next w2 -> heap w2' = heap w2 ->
  alog w2' = acc ++ alog w2 -> acc_in f acc -> trace w2' = evs ++ trace w2 -> evs_in f evs ->
  Stp f w1 w2 f w1' w2'.
Proof.
  intros N1 N2 H G G' K K'. constructor.
  - apply ext_refl.
  - intros a b Ha. left. exact Ha.
  - lia.
  - lia.
  - intros b _ _. rewrite H. reflexivity.
  - intros b H1 H2. lia.
  - exists acc. split; assumption.
  - exists evs. split; assumption.
Qed.

Lemma Sim_log f w1 w2 t1 l1 t2 l2 q1 q2 : Sim f w1 w2 ->
  Sim f (mkworld (heap w1) (next w1) q1 t1 l1) (mkworld (heap w2) (next w2) q2 t2 l2).
Proof. intros [A B C D E F G]. constructor; assumption. Qed.

(* other threads' steps: the cells of the image are untouched, the bump pointer only advances *)
Lemma Sim_frame f w1 w2 w2' : Sim f w1 w2 -> wf w2' -> next w2 <= next w2' ->
  (forall a b, f a = Some b -> heap w2' b = heap w2 b) -> Sim f w1 w2'.
Proof.
  intros [A B C D E F G] B' Hn Hh. constructor; try assumption.
  - lia.
  - intros a b H. destruct (D a b H). split; lia.
  - intros a b H. rewrite (Hh a b H). apply F, H.
Qed.

(* ---------------- the judgment ---------------- *)
Definition kpe {A : Type} (f : ren) (R : ren -> A -> A -> Prop) (m1 m2 : M A) : Prop :=
  forall w1 w2 r1 w1', Sim f w1 w2 -> m1 w1 = Ret r1 w1' ->
    exists f' r2 w2', m2 w2 = Ret r2 w2' /\ Stp f w1 w2 f' w1' w2' /\ Sim f' w1' w2' /\ R f' r1 r2.

Lemma kpe_ret_inj {A} f (R : ren -> A -> A -> Prop) a1 a2 : (inj f -> R f a1 a2) -> kpe f R (ret a1) (ret a2).
Proof.
  intros H w1 w2 r1 w1' S E. unfold ret in E. injection E as <- <-.
  exists f, a2, w2. split; [reflexivity|]. split; [apply Stp_refl|]. split; [exact S|]. apply H. apply (S_inj _ _ _ S).
Qed.
Lemma kpe_ret {A} f (R : ren -> A -> A -> Prop) a1 a2 : R f a1 a2 -> kpe f R (ret a1) (ret a2).
Proof. intros H. apply kpe_ret_inj. intros _. exact H. Qed.
Lemma kpe_fail {A} f (R : ren -> A -> A -> Prop) k (m2 : M A) : kpe f R (fail k) m2.
Proof. intros w1 w2 r1 w1' S E. discriminate E. Qed.
Lemma kpe_bind {A B} f (RA : ren -> A -> A -> Prop) (RB : ren -> B -> B -> Prop)
      (m1 m2 : M A) (g1 g2 : A -> M B) :
  kpe f RA m1 m2 ->
  (forall f' a1 a2, ext f f' -> RA f' a1 a2 -> kpe f' RB (g1 a1) (g2 a2)) ->
  kpe f RB (bind m1 g1) (bind m2 g2).
Proof.
  intros Hm Hg w1 w2 r1 w1' S E. apply bind_inv in E. destruct E as (a1 & wa & E1 & E2).
  destruct (Hm _ _ _ _ S E1) as (fa & a2 & wb & Ea & Ta & Sa & Ra1).
  destruct (Hg fa a1 a2 (T_ext _ _ _ _ _ _ Ta) Ra1 _ _ _ _ Sa E2) as (f' & r2 & w2' & Eb & Tb & Sb & Rb).
  exists f', r2, w2'. split; [unfold bind; rewrite Ea; exact Eb|]. split; [eapply Stp_trans; eassumption|].
  split; assumption.
Qed.
Lemma kpe_conseq {A} f (R R' : ren -> A -> A -> Prop) m1 m2 :
  (forall f' x y, ext f f' -> R f' x y -> R' f' x y) -> kpe f R m1 m2 -> kpe f R' m1 m2.
Proof.
  intros H Hm w1 w2 r1 w1' S E. destruct (Hm _ _ _ _ S E) as (f' & r2 & w2' & E2 & T & S' & Rr).
  exists f', r2, w2'. split; [exact E2|]. split; [exact T|]. split; [exact S'|]. apply H; [apply (T_ext _ _ _ _ _ _ T)|exact Rr].
Qed.
Lemma kpe_assert f id b : kpe f Ru (assert_ id b) (assert_ id b).
Proof. destruct b; cbn [assert_]; [apply kpe_ret; reflexivity|apply kpe_fail]. Qed.

(* the same with an unchanged renaming: computations that do not allocate *)
Definition kpe0 {A : Type} (f : ren) (R : ren -> A -> A -> Prop) (m1 m2 : M A) : Prop :=
  forall w1 w2 r1 w1', Sim f w1 w2 -> m1 w1 = Ret r1 w1' ->
    exists r2 w2', m2 w2 = Ret r2 w2' /\ Stp f w1 w2 f w1' w2' /\ Sim f w1' w2' /\ R f r1 r2.

Lemma kpe0_kpe {A} f (R : ren -> A -> A -> Prop) m1 m2 : kpe0 f R m1 m2 -> kpe f R m1 m2.
Proof.
  intros H w1 w2 r1 w1' S E. destruct (H _ _ _ _ S E) as (r2 & w2' & E2 & T & S' & Rr).
  exists f, r2, w2'. split; [exact E2|]. split; [exact T|]. split; assumption.
Qed.
Lemma kpe0_ret_inj {A} f (R : ren -> A -> A -> Prop) a1 a2 : (inj f -> R f a1 a2) -> kpe0 f R (ret a1) (ret a2).
Proof.
  intros H w1 w2 r1 w1' S E. unfold ret in E. injection E as <- <-.
  exists a2, w2. split; [reflexivity|]. split; [apply Stp_refl|]. split; [exact S|]. apply H. apply (S_inj _ _ _ S).
Qed.
Lemma kpe0_ret {A} f (R : ren -> A -> A -> Prop) a1 a2 : R f a1 a2 -> kpe0 f R (ret a1) (ret a2).
Proof. intros H. apply kpe0_ret_inj. intros _. exact H. Qed.
Lemma kpe0_fail {A} f (R : ren -> A -> A -> Prop) k (m2 : M A) : kpe0 f R (fail k) m2.
Proof. intros w1 w2 r1 w1' S E. discriminate E. Qed.
Lemma kpe0_bind {A B} f (RA : ren -> A -> A -> Prop) (RB : ren -> B -> B -> Prop)
      (m1 m2 : M A) (g1 g2 : A -> M B) :
  kpe0 f RA m1 m2 -> (forall a1 a2, RA f a1 a2 -> kpe0 f RB (g1 a1) (g2 a2)) ->
  kpe0 f RB (bind m1 g1) (bind m2 g2).
Proof.
  intros Hm Hg w1 w2 r1 w1' S E. apply bind_inv in E. destruct E as (a1 & wa & E1 & E2).
  destruct (Hm _ _ _ _ S E1) as (a2 & wb & Ea & Ta & Sa & Ra1).
  destruct (Hg a1 a2 Ra1 _ _ _ _ Sa E2) as (r2 & w2' & Eb & Tb & Sb & Rb).
  exists r2, w2'. split; [unfold bind; rewrite Ea; exact Eb|]. split; [eapply Stp_trans; eassumption|].
  split; assumption.
Qed.
(* a non-allocating computation followed by an arbitrary one *)
Lemma kpe_bind0 {A B} f (RA : ren -> A -> A -> Prop) (RB : ren -> B -> B -> Prop)
      (m1 m2 : M A) (g1 g2 : A -> M B) :
  kpe0 f RA m1 m2 -> (forall a1 a2, RA f a1 a2 -> kpe f RB (g1 a1) (g2 a2)) ->
  kpe f RB (bind m1 g1) (bind m2 g2).
Proof.
  intros Hm Hg w1 w2 r1 w1' S E. apply bind_inv in E. destruct E as (a1 & wa & E1 & E2).
  destruct (Hm _ _ _ _ S E1) as (a2 & wb & Ea & Ta & Sa & Ra1).
  destruct (Hg a1 a2 Ra1 _ _ _ _ Sa E2) as (f' & r2 & w2' & Eb & Tb & Sb & Rb).
  exists f', r2, w2'. split; [unfold bind; rewrite Ea; exact Eb|]. split; [eapply Stp_trans; eassumption|].
  split; assumption.
Qed.
Lemma kpe0_conseq {A} f (R R' : ren -> A -> A -> Prop) m1 m2 :
  (forall x y, R f x y -> R' f x y) -> kpe0 f R m1 m2 -> kpe0 f R' m1 m2.
Proof.
  intros H Hm w1 w2 r1 w1' S E. destruct (Hm _ _ _ _ S E) as (r2 & w2' & E2 & T & S' & Rr).
  exists r2, w2'. split; [exact E2|]. split; [exact T|]. split; [exact S'|]. apply H. exact Rr.
Qed.
Lemma kpe0_assert f id b : kpe0 f Ru (assert_ id b) (assert_ id b).
Proof. destruct b; cbn [assert_]; [apply kpe0_ret; reflexivity|apply kpe0_fail]. Qed.

(* the two places where the code takes its fuel from the world *)
Lemma kpe_next_fuel {A} f (R : ren -> A -> A -> Prop) (m1 m2 : nat -> M A) :
  (forall F1 F2, (F1 <= F2)%nat -> kpe f R (m1 F1) (m2 F2)) ->
  kpe f R (fun w => m1 (abs_fuel w) w) (fun w => m2 (abs_fuel w) w).
Proof.
  intros H w1 w2 r1 w1' S E. apply (H (abs_fuel w1) (abs_fuel w2)); [|exact S|exact E].
  unfold abs_fuel. pose proof (S_le _ _ _ S). lia.
Qed.
Lemma kpe_decref_fuel f a1 a2 :
  (forall fuel, kpe f Ru (drain fuel [TDecref a1]) (drain fuel [TDecref a2])) ->
  kpe f Ru (decref a1) (decref a2).
Proof.
  intros H w1 w2 r1 w1' S E. unfold decref in E |- *.
  destruct (H (drain_fuel w1) w1 w2 r1 w1' S E) as (f' & r2 & w2' & E2 & T & S' & Rr).
  exists f', r2, w2'. split; [|split; [exact T|split; [exact S'|exact Rr]]].
  eapply drain_enough; [apply (S_wf2 _ _ _ S)|exact E2|apply decref_fuel_enough].
Qed.

Lemma kpe0_next_fuel {A} f (R : ren -> A -> A -> Prop) (m1 m2 : nat -> M A) :
  (forall F1 F2, (F1 <= F2)%nat -> kpe0 f R (m1 F1) (m2 F2)) ->
  kpe0 f R (fun w => m1 (abs_fuel w) w) (fun w => m2 (abs_fuel w) w).
Proof.
  intros H w1 w2 r1 w1' S E. apply (H (abs_fuel w1) (abs_fuel w2)); [|exact S|exact E].
  unfold abs_fuel. pose proof (S_le _ _ _ S). lia.
Qed.
Lemma kpe0_decref_fuel f a1 a2 :
  (forall fuel, kpe0 f Ru (drain fuel [TDecref a1]) (drain fuel [TDecref a2])) ->
  kpe0 f Ru (decref a1) (decref a2).
Proof.
  intros H w1 w2 r1 w1' S E. unfold decref in E |- *.
  destruct (H (drain_fuel w1) w1 w2 r1 w1' S E) as (r2 & w2' & E2 & T & S' & Rr).
  exists r2, w2'. split; [|split; [exact T|split; [exact S'|exact Rr]]].
  eapply drain_enough; [apply (S_wf2 _ _ _ S)|exact E2|apply decref_fuel_enough].
Qed.

(* ---------------- the primitives ---------------- *)
Lemma Sim_cell f w1 w2 a1 a2 c1 : Sim f w1 w2 -> Ra f a1 a2 -> heap w1 a1 = Some c1 ->
  exists c2, heap w2 a2 = Some c2 /\ Rcl f c1 c2.
Proof.
  intros S Ha E. pose proof (S_heap _ _ _ S a1 a2 Ha) as H. rewrite E in H.
  destruct (heap w2 a2) as [c2|]; [|destruct H]. exists c2. split; [reflexivity|exact H].
Qed.

Lemma kpe0_rd f a1 a2 : Ra f a1 a2 -> kpe0 f (Rprod Req Rn) (rd_item a1) (rd_item a2).
Proof.
  intros Ha w1 w2 r1 w1' S E. unfold rd_item in E |- *.
  destruct (heap w1 a1) as [[rc n|sz]|] eqn:E1; try discriminate E. injection E as <- <-.
  destruct (Sim_cell _ _ _ _ _ _ S Ha E1) as (c2 & E2 & Rc). rewrite E2.
  destruct c2 as [rc2 n2|sz2]; [|destruct Rc]. destruct Rc as [<- Hn].
  eexists _, _. split; [reflexivity|].
  split; [apply (Stp_same _ _ _ _ _ [AccR a2] []); try reflexivity; [eapply acc_in_one; exact Ha|apply evs_in_nil]|].
  split; [apply Sim_log; exact S|]. split; [reflexivity|exact Hn].
Qed.

(* update of one related pair of cells *)
Lemma Sim_upd f w1 w2 a1 a2 oc1 oc2 q1 t1 l1 q2 t2 l2 : Sim f w1 w2 -> Ra f a1 a2 ->
  heap w1 a1 <> None -> Roption Rcl f oc1 oc2 ->
  Sim f (mkworld (upd (heap w1) a1 oc1) (next w1) q1 t1 l1) (mkworld (upd (heap w2) a2 oc2) (next w2) q2 t2 l2).
Proof.
  intros S Ha Hl Hc. pose proof S as [A B C D E F G]. destruct (D a1 a2 Ha) as [L1 L2].
  constructor; cbn [heap next].
  - intros b Hb. cbn [heap next] in *. rewrite upd_other by lia. apply A, Hb.
  - intros b Hb. cbn [heap next] in *. rewrite upd_other by lia. apply B, Hb.
  - exact C.
  - exact D.
  - exact E.
  - intros a b Hab. unfold upd. destruct (N.eqb_spec a a1) as [->|Hne].
    + rewrite Ha in Hab. injection Hab as <-. rewrite N.eqb_refl. exact Hc.
    + destruct (N.eqb_spec b a2) as [->|_]; [|apply F, Hab]. exfalso. apply Hne. eapply E; eassumption.
  - intros a c Hc1. unfold upd in Hc1. destruct (N.eqb_spec a a1) as [->|_]; [exists a2; exact Ha|]. eapply G, Hc1.
Qed.
Lemma Stp_upd f w1 w2 a1 a2 oc1 oc2 q1 t1 l1 q2 acc evs : Ra f a1 a2 -> acc_in f acc -> evs_in f evs ->
  Stp f w1 w2 f (mkworld (upd (heap w1) a1 oc1) (next w1) q1 t1 l1)
                (mkworld (upd (heap w2) a2 oc2) (next w2) q2 (evs ++ trace w2) (acc ++ alog w2)).
Proof.
  intros Ha Hacc Hevs. constructor; cbn [heap next alog trace].
  - apply ext_refl.
  - intros a b H. left. exact H.
  - lia.
  - lia.
  - intros b _ Hn. apply upd_other. intros ->. exact (Hn a1 Ha).
  - intros b H1 H2. lia.
  - exists acc. split; [reflexivity|exact Hacc].
  - exists evs. split; [reflexivity|exact Hevs].
Qed.

Lemma kpe0_wr f a1 a2 rc n1 n2 : Ra f a1 a2 -> Rn f n1 n2 -> kpe0 f Ru (wr_item a1 rc n1) (wr_item a2 rc n2).
Proof.
  intros Ha Hn w1 w2 r1 w1' S E. unfold wr_item in E |- *.
  destruct (heap w1 a1) as [[rc0 n0|sz]|] eqn:E1; try discriminate E. injection E as <- <-.
  destruct (Sim_cell _ _ _ _ _ _ S Ha E1) as (c2 & E2 & Rc). rewrite E2.
  destruct c2 as [rc2 n2'|sz2]; [|destruct Rc].
  eexists _, _. split; [reflexivity|].
  split; [apply (Stp_upd f w1 w2 a1 a2 _ _ _ _ _ _ [AccW a2] []); [exact Ha|eapply acc_in_one; exact Ha|apply evs_in_nil]|].
  split; [|reflexivity].
  apply Sim_upd; [exact S|exact Ha|rewrite E1; discriminate|]. cbn [Roption Rcl]. split; [reflexivity|exact Hn].
Qed.

Lemma kpe0_touch f wr p1 p2 : Ro f p1 p2 -> kpe0 f Ru (touch_data wr p1) (touch_data wr p2).
Proof.
  intros Hp w1 w2 r1 w1' S E. unfold touch_data in E |- *.
  destruct p1 as [d1|]; [|discriminate E]. destruct p2 as [d2|]; [|destruct Hp]. cbn [Roption] in Hp.
  destruct (heap w1 d1) as [[rc n|sz]|] eqn:E1; try discriminate E. injection E as <- <-.
  destruct (Sim_cell _ _ _ _ _ _ S Hp E1) as (c2 & E2 & Rc). rewrite E2.
  destruct c2 as [rc2 n2'|sz2]; [destruct Rc|].
  eexists _, _. split; [reflexivity|].
  split; [apply (Stp_same _ _ _ _ _ [if wr then AccW d2 else AccR d2] []); try reflexivity;
          [eapply acc_in_one; destruct wr; exact Hp|apply evs_in_nil]|].
  split; [apply Sim_log; exact S|reflexivity].
Qed.

Lemma kpe0_free f p1 p2 : Ro f p1 p2 -> kpe0 f Ru (free p1) (free p2).
Proof.
  intros Hp w1 w2 r1 w1' S E. unfold free in E |- *.
  destruct p1 as [a1|]; destruct p2 as [a2|]; try (destruct Hp; fail); cbn [Roption] in Hp.
  - destruct (heap w1 a1) as [c1|] eqn:E1; [|discriminate E]. injection E as <- <-.
    destruct (Sim_cell _ _ _ _ _ _ S Hp E1) as (c2 & E2 & Rc). rewrite E2.
    eexists _, _. split; [reflexivity|].
    split; [apply (Stp_upd f w1 w2 a1 a2 _ _ _ _ _ _ [] [EvFree (Some a2)]); [exact Hp|apply acc_in_nil|]|].
    { intros e p [<-|[]] [<-|[]]. exists a1. exact Hp. }
    split; [|reflexivity].
    apply Sim_upd; [exact S|exact Hp|rewrite E1; discriminate|exact I].
  - injection E as <- <-. eexists _, _. split; [reflexivity|].
    split; [apply (Stp_same _ _ _ _ _ [] [EvFree None]); try reflexivity; [apply acc_in_nil|intros e p [<-|[]] []]|].
    split; [apply Sim_log; exact S|reflexivity].
Qed.

(* extension of a renaming by one fresh pair *)
Definition ext1 (f : ren) (a b : addr) : ren := fun x => if x =? a then Some b else f x.

Lemma ext1_ext f w1 w2 : Sim f w1 w2 -> ext f (ext1 f (next w1) (next w2)).
Proof.
  intros S a b H. unfold ext1. destruct (N.eqb_spec a (next w1)) as [->|_]; [|exact H].
  destruct (S_dom _ _ _ S _ _ H). lia.
Qed.
Lemma ext1_new f a b : Ra (ext1 f a b) a b.
Proof. unfold Ra, ext1. rewrite N.eqb_refl. reflexivity. Qed.

(* allocation of a related pair of cells at the two bump pointers; [h1] / [h2] are the heaps just before
   (possibly with the old block of a realloc already released) *)
Lemma Sim_alloc f w1 w2 h1 h2 c1 c2 q1 t1 l1 q2 t2 l2 :
  Sim f w1 w2 ->
  Sim f (mkworld h1 (next w1) (nreq w1) (trace w1) (alog w1)) (mkworld h2 (next w2) (nreq w2) (trace w2) (alog w2)) ->
  Rcl f c1 c2 ->
  Sim (ext1 f (next w1) (next w2))
      (mkworld (upd h1 (next w1) (Some c1)) (next w1 + 1) q1 t1 l1)
      (mkworld (upd h2 (next w2) (Some c2)) (next w2 + 1) q2 t2 l2).
Proof.
  intros S0 S Hc. pose proof (ext1_ext _ _ _ S0) as X. destruct S as [A B C D E F G]. cbn [heap next] in *.
  constructor; cbn [heap next].
  - intros b Hb. cbn [heap next] in *. rewrite upd_other by lia. apply A. cbn [next]. lia.
  - intros b Hb. cbn [heap next] in *. rewrite upd_other by lia. apply B. cbn [next]. lia.
  - lia.
  - intros a b H. unfold ext1 in H. destruct (N.eqb_spec a (next w1)) as [->|_].
    + injection H as <-. lia.
    + destruct (D a b H). lia.
  - intros a a' b H H'. unfold ext1 in H, H'.
    destruct (N.eqb_spec a (next w1)) as [->|Na]; destruct (N.eqb_spec a' (next w1)) as [->|Na']; try reflexivity.
    + injection H as <-. destruct (D _ _ H'). lia.
    + injection H' as <-. destruct (D _ _ H). lia.
    + eapply E; eassumption.
  - intros a b H. unfold ext1 in H. destruct (N.eqb_spec a (next w1)) as [->|Na].
    + injection H as <-. rewrite !upd_same. cbn [Roption]. eapply (mono (R:=Rcl)); eassumption.
    + destruct (D a b H). rewrite !upd_other by lia. eapply (mono (R:=Roption Rcl)); [exact X|]. apply F, H.
  - intros a c H. unfold upd in H. unfold ext1. destruct (a =? next w1); [eexists; reflexivity|]. eapply G, H.
Qed.
Lemma Stp_alloc' f w1 w2 (h1 h2 : addr -> option cell) c2 q1 t1 l1 q2 ev : Sim f w1 w2 ->
  (forall b, (forall a, f a <> Some b) -> h2 b = heap w2 b) ->
  evs_in (ext1 f (next w1) (next w2)) [ev] ->
  Stp f w1 w2 (ext1 f (next w1) (next w2))
      (mkworld h1 (next w1 + 1) q1 t1 l1) (mkworld (upd h2 (next w2) c2) (next w2 + 1) q2 (ev :: trace w2) (alog w2)).
Proof.
  intros S Hh Hev. constructor; cbn [heap next alog trace].
  - apply ext1_ext, S.
  - intros a b H. unfold ext1 in H. destruct (N.eqb_spec a (next w1)) as [->|_]; [|left; exact H].
    injection H as <-. right. lia.
  - lia.
  - lia.
  - intros b Hb Hn. rewrite upd_other by lia. apply Hh, Hn.
  - intros b H1 H2. assert (b = next w2) as -> by lia. exists (next w1). apply ext1_new.
  - exists []. split; [reflexivity|apply acc_in_nil].
  - exists [ev]. split; [reflexivity|exact Hev].
Qed.

Section Alloc.
Variable refuse : N -> N -> bool.
Hypothesis refuse_ii : forall i j sz, refuse i sz = refuse j sz.

Lemma kpe_malloc f sz c1 c2 : Rcl f c1 c2 -> kpe f Ro (malloc refuse sz c1) (malloc refuse sz c2).
Proof.
  intros Hc w1 w2 r1 w1' S E. unfold malloc in E |- *. rewrite (refuse_ii (nreq w2) (nreq w1)).
  destruct (refuse (nreq w1) sz); injection E as <- <-.
  - eexists f, _, _. split; [reflexivity|].
    split; [apply (Stp_same _ _ _ _ _ [] [EvMalloc sz None]); try reflexivity; [apply acc_in_nil|intros e p [<-|[]] []]|].
    split; [apply Sim_log; exact S|exact I].
  - eexists (ext1 f (next w1) (next w2)), _, _. split; [reflexivity|].
    split; [apply Stp_alloc'; [exact S|intros; reflexivity|]|].
    { intros e p [<-|[]] [<-|[]]. exists (next w1). apply ext1_new. }
    split; [|apply ext1_new]. apply Sim_alloc; [exact S|apply Sim_log; exact S|exact Hc].
Qed.

Lemma kpe_realloc f old1 old2 sz : Ro f old1 old2 -> kpe f Ro (realloc refuse old1 sz) (realloc refuse old2 sz).
Proof.
  intros Ho w1 w2 r1 w1' S E. unfold realloc in E |- *.
  destruct (realloc_bad old1 w1) eqn:B1; [discriminate E|].
  assert (B2 : realloc_bad old2 w2 = None).
  { unfold realloc_bad in *. destruct old1 as [o1|]; destruct old2 as [o2|]; try (destruct Ho; fail); [|reflexivity].
    cbn [Roption] in Ho. destruct (heap w1 o1) as [[rc n|sz1]|] eqn:E1; try discriminate B1.
    destruct (Sim_cell _ _ _ _ _ _ S Ho E1) as (c2 & E2 & Rc). rewrite E2. destruct c2; [destruct Rc|reflexivity]. }
  rewrite B2. rewrite (refuse_ii (nreq w2) (nreq w1)).
  destruct (refuse (nreq w1) sz); injection E as <- <-.
  - eexists f, _, _. split; [reflexivity|].
    split; [apply (Stp_same _ _ _ _ _ [] [EvRealloc old2 sz None]); try reflexivity; [apply acc_in_nil|]|].
    { intros e p [<-|[]] Hp. cbn [event_addrs opt_list] in Hp. rewrite app_nil_r in Hp.
      destruct old1 as [o1|]; destruct old2 as [o2|]; try (destruct Ho; fail); [|destruct Hp].
      destruct Hp as [<-|[]]. exists o1. exact Ho. }
    split; [apply Sim_log; exact S|exact I].
  - eexists (ext1 f (next w1) (next w2)), _, _. split; [reflexivity|].
    destruct old1 as [o1|]; destruct old2 as [o2|]; try (destruct Ho; fail); cbn [Roption] in Ho.
    + split; [apply Stp_alloc'; [exact S| |]|].
      { intros b Hn. apply upd_other. intros ->. exact (Hn o1 Ho). }
      { intros e p [<-|[]] [<-|[<-|[]]]; [exists o1; apply (ext1_ext _ _ _ S), Ho|exists (next w1); apply ext1_new]. }
      split; [|apply ext1_new]. apply Sim_alloc; [exact S| |reflexivity].
      unfold realloc_bad in B1. destruct (heap w1 o1) eqn:E1; [|discriminate B1].
      apply Sim_upd; [exact S|exact Ho|rewrite E1; discriminate|exact I].
    + split; [apply Stp_alloc'; [exact S|intros; reflexivity|]|].
      { intros e p [<-|[]] [<-|[]]. exists (next w1). apply ext1_new. }
      split; [|apply ext1_new]. apply Sim_alloc; [exact S|apply Sim_log; exact S|reflexivity].
Qed.

End Alloc.
