(* Machine words, bytes and big-endian arguments.  Definitions only (model layer);
   lemmas are in Word_proofs.v.  Values are [N]; every C operation whose result type is
   narrower than the mathematical result is written with an explicit [wrap]. *)
From Coq Require Export List NArith Bool.
Export ListNotations.
Local Open Scope N_scope.

Definition W64 : N := 18446744073709551616.      (* 2^64 *)
Definition SIZE_MAX : N := 18446744073709551615. (* 2^64 - 1 *)

Definition wrap (w : N) (x : N) : N := x mod (2 ^ w).
Definition wrap64 (x : N) : N := x mod W64.

(* size_t subtraction (wraps modulo 2^64) *)
Definition sub64 (a b : N) : N := if b <=? a then a - b else (a + W64) - b.

Definition byte_ok (b : N) : bool := b <? 256.
Definition bytes_ok (bs : list N) : Prop := Forall (fun b => b < 256) bs.
Definition bytes_okb (bs : list N) : bool := forallb byte_ok bs.

Definition len {A} (bs : list A) : N := N.of_nat (length bs).

(* big-endian value of a byte list *)
Fixpoint be_val (bs : list N) : N :=
  match bs with
  | [] => 0
  | b :: r => b * 256 ^ (N.of_nat (length r)) + be_val r
  end.

(* big-endian encoding of v on k bytes (most significant first) *)
Fixpoint be_bytes (k : nat) (v : N) : list N :=
  match k with
  | O => []
  | S j => (v / 256 ^ (N.of_nat j)) mod 256 :: be_bytes j v
  end.

(* finite sweeps: never a large nat literal; the bound is part of every theorem obtained *)
Fixpoint allb (k : nat) (f : N -> bool) (x : N) : bool :=
  match k with
  | O => f x
  | S j => allb j f (2 * x) && allb j f (2 * x + 1)
  end.

Definition firstnN (n : N) (l : list N) : list N := firstn (N.to_nat n) l.
Definition skipnN (n : N) (l : list N) : list N := skipn (N.to_nat n) l.
