(* Model H, the client calls of HHist2.v (outside the [op] type of HHist.v):

     cbor_new_definite_bytestring / cbor_new_definite_string     [new_definite_string_op]
     cbor_bytestring_set_handle / cbor_string_set_handle          [set_handle_new], [set_handle_shorten]

   For an ARBITRARY allocator oracle [refuse] each call preserves the invariants of C04_step
   (the reference-count accounting [Inv], [wf], [caps]) under its natural legality condition, never
   faults, and is atomic under refusal.  A string built by new + set_handle and then released gives
   back exactly the heap it started from ([set_handle_then_release], [string_lifecycle]).

   Part 2: the traversal [HOps.abs] shared by every read-only operation (and by cbor_describe) needs a
   recursion depth equal to the height of the tree ([abs_fuel_depth]); for decoded trees that is at
   most L + 1 ([C19_traversal_depth]). *)
From CB Require Import Word Word_proofs PMem PItem SpecItem HHeap HItems HOps HHist HHist2 HRef_proofs HCont_proofs HRead_proofs HHist_proofs.
From CB Require Import PBuild PLoad_proofs HLoad_proofs.
From CB Require Import HCopy_proofs PItem_proofs.
From Coq Require Import Lia ZArith ZifyBool ZifyN ZifyNat List.
Import ListNotations.
Local Open Scope N_scope.
Ltac Zify.zify_post_hook ::= Z.div_mod_to_equations.

(* ------------------------------------------------------------------------------------------ *)
(* 1. data-ownership bookkeeping                                                               *)
(* ------------------------------------------------------------------------------------------ *)

(* The buffer passes through two owners.
   (i)  After the client's malloc the block [d] is a client-owned data block: [ownd d] goes from 0 to 1
        (HRef_proofs.Inv_alloc_data, pointwise form HCopy_proofs.Inv_alloc_data_pw).
   (ii) set_handle stores [d] in the item: [d] enters [dblocks] of the item's node, so [dindeg d]
        goes from 0 to 1, and the client gives the block up: [ownd d] goes back to 0.  The sum
        ownd d + dindeg d + tofree d = 1 of [okcell] is kept.  This is [Inv_relink] with no item
        reference changing hands ([xs = []]), nothing dropped and [takes = [d]]. *)
Lemma Inv_install_block own ownd w w' a rc text b0 bytes d :
  Inv own (fun x => ownd x + (if x =? d then 1 else 0)) [] w ->
  heap w a = Some (CItem rc (NStr text None b0)) ->
  (forall b, heap w' b = upd (heap w) a (Some (CItem rc (NStr text (Some d) bytes))) b) ->
  next w' = next w ->
  Inv own ownd [] w'.
Proof.
  intros I E Hh Hn.
  eapply (Inv_relink own _ own ownd w w' a rc _ _ [] [] [d] I E Hh Hn).
  - intros x. cbn [kids cnt]. lia.
  - intros x. cbn [HRef_proofs.dblocks HRef_proofs.opt_list cnt]. lia.
  - intros x. cbn [cnt]. lia.
  - intros x. cbn [cnt]. destruct (N.eqb_spec d x), (N.eqb_spec x d); subst; try congruence; lia.
Qed.

(* a block the client hands over is necessarily a live data block that nobody else holds *)
Lemma client_block_live own ownd ts w d :
  Inv own ownd ts w -> 0 < ownd d ->
  (exists sz, heap w d = Some (CData sz)) /\ ownd d = 1 /\ dindeg w d = 0 /\ tofree d ts = 0.
Proof.
  intros [_ H2] O. specialize (H2 d). unfold okcell in H2.
  destruct (heap w d) as [[rc n|sz]|]; [lia| |lia]. split; [eauto|lia].
Qed.

(* shortening in place: the node keeps its (absent) kids and its data block *)
Lemma Inv_restring own ownd w w' a rc text data bytes bytes' :
  Inv own ownd [] w -> heap w a = Some (CItem rc (NStr text data bytes)) ->
  (forall b, heap w' b = upd (heap w) a (Some (CItem rc (NStr text data bytes'))) b) ->
  next w' = next w ->
  Inv own ownd [] w'.
Proof.
  intros I E Hh Hn.
  eapply (Inv_relink2 own ownd own w w' a rc _ _ [] [] I E Hh Hn).
  - intros x. reflexivity.
  - intros x. reflexivity.
  - intros x. reflexivity.
Qed.

Lemma wf_upd_live w w' a c c0 :
  wf w -> heap w a = Some c0 -> heap w' = upd (heap w) a (Some c) -> next w' = next w -> wf w'.
Proof.
  intros W E Hh Hn b Hb. rewrite Hh. rewrite Hn in Hb. unfold upd.
  destruct (N.eqb_spec b a) as [->|_]; [|apply W, Hb]. rewrite (W a Hb) in E. discriminate.
Qed.

(* the fuel cbor_decref is given covers the release of one leaf-like item with one data block *)
Lemma drain_fuel_ge3 w a rc n :
  heap w a = Some (CItem rc n) -> a < next w -> exists f, drain_fuel w = S (S (S f)).
Proof.
  intros E La. pose proof (drain_fuel_eq w) as Q.
  pose proof (sumN_ge (next w)
    (fun i => match heap w i with Some (CItem _ n) => 4 + node_links n | _ => 0 end) a La) as G.
  cbn beta in G. rewrite E in G.
  destruct (drain_fuel w) as [|[|[|f]]]; [lia|lia|lia|]. exists f. reflexivity.
Qed.

(* ------------------------------------------------------------------------------------------ *)
(* 2. the three calls                                                                          *)
(* ------------------------------------------------------------------------------------------ *)

Section Calls.
Variable refuse : N -> N -> bool.

(* ---- cbor_new_definite_bytestring / cbor_new_definite_string ---- *)

(* like the constructors of HHist_proofs.C04_step: always returns; refused -> NULL handle and the heap
   (and the client's references) unchanged; granted -> a fresh item at the bump pointer with count 1,
   owned once by the client *)
Theorem new_definite_string_step s own ownd w text :
  Inv own ownd [] w -> caps w ->
  exists s' out w', new_definite_string_op refuse s text w = Ret (s', out) w' /\
    Inv (match new_handle s' with Some a => own1 own a | None => own end) ownd [] w' /\ wf w' /\ caps w' /\
    ((refuse (nreq w) SZ_ITEM = true /\ s' = hpush s None /\ out = OutHandle false /\
      heap w' = heap w /\ next w' = next w /\ alog w' = alog w /\
      trace w' = EvMalloc SZ_ITEM None :: trace w)
     \/
     (refuse (nreq w) SZ_ITEM = false /\ s' = hpush s (Some (next w)) /\ out = OutHandle true /\
      heap w (next w) = None /\ own (next w) = 0 /\
      heap w' = upd (heap w) (next w) (Some (CItem 1 (NStr text None []))) /\ next w' = next w + 1 /\
      alog w' = alog w /\ trace w' = EvMalloc SZ_ITEM (Some (next w)) :: trace w)).
Proof.
  intros I Cw. pose proof (Inv_wf _ _ _ _ I) as W.
  unfold new_definite_string_op, newh, new_definite_string.
  destruct (refuse (nreq w) SZ_ITEM) eqn:R.
  - rewrite (bind_Ret _ _ _ _ _ (malloc_refused refuse SZ_ITEM _ w R)). rewrite ret_eq.
    eexists _, _, _. split; [reflexivity|]. rewrite new_handle_hpush.
    split; [eapply Inv_same; [exact I|reflexivity|cbn; lia]|].
    split; [exact W|]. split; [eapply caps_same; [exact Cw|reflexivity]|].
    left. repeat split; reflexivity.
  - rewrite (bind_Ret _ _ _ _ _ (malloc_granted refuse SZ_ITEM _ w R)). rewrite ret_eq.
    eexists _, _, _. split; [reflexivity|]. rewrite new_handle_hpush.
    assert (I' : Inv (own1 own (next w)) ownd [] (w_malloc SZ_ITEM (CItem 1 (NStr text None [])) w)).
    { unfold own1.
      eapply (Inv_alloc_item_pw own ownd w _ (NStr text None []) I); reflexivity. }
    split; [exact I'|]. split; [eapply Inv_wf; exact I'|].
    split; [eapply caps_upd; [exact Cw|reflexivity|]; intros rc n H; injection H as _ <-; exact Logic.I|].
    right. split; [reflexivity|]. split; [reflexivity|]. split; [reflexivity|].
    split; [apply W; lia|].
    split; [apply (Inv_dead_own _ _ _ _ (next w) I); apply W; lia|].
    repeat split; reflexivity.
Qed.

(* ---- cbor_bytestring_set_handle / cbor_string_set_handle on a string without a buffer ---- *)

(* Legality: the handle denotes a live definite string that has no buffer yet and to which the client
   holds a reference.  The call returns (never faults).  Refused buffer request: OutBool false, the heap
   is what it was.  Granted: the block [d = next w] first belongs to the client
   ([Inv own (ownd + [d]) [] w1], w1 the world after the client's malloc), then to the item:
   [Inv own ownd [] w'] with the SAME [own] and [ownd]. *)
Theorem set_handle_new_step s own ownd w h a rc text b0 bytes :
  Inv own ownd [] w -> caps w ->
  hget s h = Some a -> 0 < own a -> heap w a = Some (CItem rc (NStr text None b0)) ->
  exists out w', set_handle_new refuse s h bytes w = Ret (s, out) w' /\
    Inv own ownd [] w' /\ wf w' /\ caps w' /\
    ((refuse (nreq w) (len bytes) = true /\ out = OutBool false /\
      heap w' = heap w /\ next w' = next w /\ alog w' = alog w /\
      trace w' = EvMalloc (len bytes) None :: trace w)
     \/
     (refuse (nreq w) (len bytes) = false /\ out = OutBool true /\
      heap w (next w) = None /\ a <> next w /\
      Inv own (fun x => ownd x + (if x =? next w then 1 else 0)) []
          (w_malloc (len bytes) (CData (len bytes)) w) /\
      heap w' = upd (upd (heap w) (next w) (Some (CData (len bytes)))) a
                    (Some (CItem rc (NStr text (Some (next w)) bytes))) /\
      next w' = next w + 1 /\
      trace w' = EvMalloc (len bytes) (Some (next w)) :: trace w)).
Proof.
  intros I Cw Hh Oa E. pose proof (Inv_wf _ _ _ _ I) as W.
  unfold set_handle_new. rewrite Hh.
  destruct (refuse (nreq w) (len bytes)) eqn:R.
  - rewrite (bind_Ret _ _ _ _ _ (malloc_refused refuse (len bytes) _ w R)). rewrite ret_eq.
    eexists _, _. split; [reflexivity|].
    split; [eapply Inv_same; [exact I|reflexivity|cbn; lia]|].
    split; [exact W|]. split; [eapply caps_same; [exact Cw|reflexivity]|].
    left. repeat split; reflexivity.
  - rewrite (bind_Ret _ _ _ _ _ (malloc_granted refuse (len bytes) _ w R)).
    set (d := next w). set (w1 := w_malloc (len bytes) (CData (len bytes)) w).
    assert (Had : a <> d) by (eapply wf_item_neq_next; eassumption).
    assert (E1 : heap w1 a = Some (CItem rc (NStr text None b0))).
    { subst w1. wsimpl. rewrite upd_other by exact Had. exact E. }
    rewrite (bind_Ret _ _ _ _ _ (rd_item_spec a w1 _ _ E1)). cbn [fst snd].
    set (w2 := w_log (AccR a) w1).
    assert (E2 : heap w2 a = Some (CItem rc (NStr text None b0))) by exact E1.
    rewrite (bind_Ret _ _ _ _ _ (wr_item_spec a rc (NStr text (Some d) bytes) w2 _ _ E2)). rewrite ret_eq.
    set (w3 := w_set a (CItem rc (NStr text (Some d) bytes)) w2).
    (* (i) the fresh block is the client's *)
    assert (I1 : Inv own (fun x => ownd x + (if x =? d then 1 else 0)) [] w1).
    { eapply (Inv_alloc_data_pw own ownd w w1 (len bytes) I); reflexivity. }
    (* (ii) ... and is handed to the item *)
    assert (I3 : Inv own ownd [] w3).
    { eapply (Inv_install_block own ownd w1 w3 a rc text b0 bytes d I1 E1); reflexivity. }
    eexists _, _. split; [reflexivity|].
    split; [exact I3|]. split; [eapply Inv_wf; exact I3|].
    split.
    { eapply (caps_upd w1 w3 a); [|reflexivity|intros rc' n' H; injection H as _ <-; exact Logic.I].
      eapply (caps_upd w w1 d); [exact Cw|reflexivity|intros rc' n' H; discriminate H]. }
    right. split; [reflexivity|]. split; [reflexivity|]. split; [apply W; lia|].
    split; [exact Had|]. split; [exact I1|]. repeat split; reflexivity.
Qed.

(* ---- set_handle again with the item's own buffer and a shorter length ---- *)

(* no allocator event at all (no request, no block freed), the same data block, the prefix *)
Theorem set_handle_shorten_step s own ownd w h a rc text data bytes n :
  Inv own ownd [] w -> caps w ->
  hget s h = Some a -> 0 < own a -> heap w a = Some (CItem rc (NStr text data bytes)) -> n <= len bytes ->
  exists w', set_handle_shorten s h n w = Ret (s, OutBool true) w' /\
    Inv own ownd [] w' /\ wf w' /\ caps w' /\
    heap w' = upd (heap w) a (Some (CItem rc (NStr text data (firstnN n bytes)))) /\
    len (firstnN n bytes) = n /\
    next w' = next w /\ nreq w' = nreq w /\ trace w' = trace w.
Proof.
  intros I Cw Hh Oa E Hn. pose proof (Inv_wf _ _ _ _ I) as W.
  unfold set_handle_shorten. rewrite Hh.
  rewrite (bind_Ret _ _ _ _ _ (rd_item_spec a w _ _ E)). cbn [fst snd].
  destruct (N.leb_spec n (len bytes)) as [_|]; [|lia].
  set (w1 := w_log (AccR a) w).
  assert (E1 : heap w1 a = Some (CItem rc (NStr text data bytes))) by exact E.
  rewrite (bind_Ret _ _ _ _ _ (wr_item_spec a rc (NStr text data (firstnN n bytes)) w1 _ _ E1)). rewrite ret_eq.
  set (w2 := w_set a (CItem rc (NStr text data (firstnN n bytes))) w1).
  assert (I2 : Inv own ownd [] w2).
  { eapply (Inv_restring own ownd w w2 a rc text data bytes (firstnN n bytes) I E); reflexivity. }
  eexists. split; [reflexivity|].
  split; [exact I2|]. split; [eapply Inv_wf; exact I2|].
  split; [eapply (caps_upd w w2 a); [exact Cw|reflexivity|intros rc' n' H; injection H as _ <-; exact Logic.I]|].
  split; [reflexivity|]. split; [apply len_firstnN; exact Hn|]. repeat split; reflexivity.
Qed.

(* the two skipped forms: a NULL handle means the client does not make the call *)
Lemma set_handle_new_skip s w h bytes :
  hget s h = None -> set_handle_new refuse s h bytes w = Ret (s, OutSkip) w.
Proof. intros H. unfold set_handle_new. rewrite H. reflexivity. Qed.
Lemma set_handle_shorten_skip s w h n :
  hget s h = None -> set_handle_shorten s h n w = Ret (s, OutSkip) w.
Proof. intros H. unfold set_handle_shorten. rewrite H. reflexivity. Qed.

(* ---- the three calls in the format of HHist_proofs.C04_step ---- *)

Inductive op2 :=
| ONewDefString (text : bool)
| OSetHandleNew (h : nat) (bytes : list N)
| OSetHandleShorten (h : nat) (n : N).

Definition step2 (s : cstate) (o : op2) : M (cstate * out) :=
  match o with
  | ONewDefString text => new_definite_string_op refuse s text
  | OSetHandleNew h bytes => set_handle_new refuse s h bytes
  | OSetHandleShorten h n => set_handle_shorten s h n
  end.

(* the rules: the client holds a reference to the string; set_handle (new buffer) only on a string that
   has no buffer (the library does not release the old one); the new length is within the buffer *)
Definition legal2 (s : cstate) (own : addr -> N) (w : world) (o : op2) : Prop :=
  match o with
  | ONewDefString _ => True
  | OSetHandleNew h _ => forall a, hget s h = Some a ->
      0 < own a /\ exists rc text b0, heap w a = Some (CItem rc (NStr text None b0))
  | OSetHandleShorten h n => forall a, hget s h = Some a ->
      0 < own a /\ exists rc text data bytes, heap w a = Some (CItem rc (NStr text data bytes)) /\ n <= len bytes
  end.

Definition own_after2 (o : op2) (own : addr -> N) (s' : cstate) : addr -> N :=
  match o with
  | ONewDefString _ => match new_handle s' with Some a => own1 own a | None => own end
  | _ => own
  end.

Theorem C04_step2 s own ownd w o :
  Inv own ownd [] w -> wf w -> caps w -> legal2 s own w o ->
  exists s' out w', step2 s o w = Ret (s', out) w' /\
    Inv (own_after2 o own s') ownd [] w' /\ wf w' /\ caps w'.
Proof.
  intros I W Cw Lg. destruct o as [text|h bytes|h n]; cbn [step2 legal2 own_after2] in *.
  - destruct (new_definite_string_step s own ownd w text I Cw) as (s' & out & w' & E & I' & W' & C' & _).
    eauto 8.
  - destruct (hget s h) as [a|] eqn:Hh.
    + destruct (Lg a eq_refl) as (Oa & rc & text & b0 & E).
      destruct (set_handle_new_step s own ownd w h a rc text b0 bytes I Cw Hh Oa E)
        as (out & w' & R & I' & W' & C' & _). eauto 8.
    + rewrite (set_handle_new_skip s w h bytes Hh). eauto 8.
  - destruct (hget s h) as [a|] eqn:Hh.
    + destruct (Lg a eq_refl) as (Oa & rc & text & data & bytes & E & Hn).
      destruct (set_handle_shorten_step s own ownd w h a rc text data bytes n I Cw Hh Oa E Hn)
        as (w' & R & I' & W' & C' & _). eauto 8.
    + rewrite (set_handle_shorten_skip s w h n Hh). eauto 8.
Qed.

Corollary C04_step2_no_fault s own ownd w o k :
  Inv own ownd [] w -> caps w -> legal2 s own w o -> step2 s o w <> Fault k.
Proof.
  intros I Cw Lg. destruct (C04_step2 s own ownd w o I (Inv_wf _ _ _ _ I) Cw Lg) as (s' & out & w' & E & _).
  rewrite E. discriminate.
Qed.

(* ---- release after set_handle ---- *)

(* A string whose only reference is the client's (count 1) gets its buffer by set_handle and is then
   released: cbor_decref frees the installed block, then the item, each exactly once and nothing else;
   every other cell is what it was before set_handle, and the block's address [next w] is dead again. *)
Theorem set_handle_then_release s own ownd w h a text b0 bytes :
  Inv own ownd [] w -> caps w -> hget s h = Some a -> 0 < own a ->
  heap w a = Some (CItem 1 (NStr text None b0)) ->
  refuse (nreq w) (len bytes) = false ->
  exists w1 w2,
    set_handle_new refuse s h bytes w = Ret (s, OutBool true) w1 /\
    heap w1 a = Some (CItem 1 (NStr text (Some (next w)) bytes)) /\
    heap w1 (next w) = Some (CData (len bytes)) /\
    decref a w1 = Ret tt w2 /\
    trace w2 = EvFree (Some a) :: EvFree (Some (next w)) :: trace w1 /\
    trace w1 = EvMalloc (len bytes) (Some (next w)) :: trace w /\
    (forall b, heap w2 b = if b =? a then None else heap w b) /\
    next w2 = next w + 1 /\
    Inv (own_dec own a) ownd [] w2 /\ wf w2 /\ caps w2.
Proof.
  intros I Cw Hh Oa E R.
  destruct (set_handle_new_step s own ownd w h a 1 text b0 bytes I Cw Hh Oa E)
    as (out & w1 & R1 & I1 & W1 & C1 & [(R' & _)|(_ & -> & Dn & Had & _ & Hh1 & Hn1 & T1)]); [congruence|].
  set (d := next w) in *.
  assert (Ea : heap w1 a = Some (CItem 1 (NStr text (Some d) bytes))) by (rewrite Hh1; apply upd_same).
  assert (Ed : heap w1 d = Some (CData (len bytes))).
  { rewrite Hh1. rewrite upd_other by congruence. apply upd_same. }
  (* the accounting theorem: the call returns and keeps the invariant *)
  destruct (decref_ok (own_dec own a) own ownd a w1) as (w2 & D & I2 & _).
  { intros x. unfold own_dec. destruct (N.eqb_spec x a) as [->|]; lia. }
  { exact I1. }
  (* the run itself: three steps *)
  pose proof (live_lt _ _ _ _ _ _ I1 Ea) as La.
  destruct (drain_fuel_ge3 w1 a _ _ Ea La) as [f Hf].
  pose proof D as D'. unfold decref in D'. rewrite Hf in D'.
  rewrite (drain_decref_eq _ a [] w1 1 _ Ea ltac:(lia)) in D'.
  change (1 =? 1) with true in D'. cbn iota in D'. cbn [release_tasks app] in D'.
  set (wa := w_wr a (CItem 0 (NStr text (Some d) bytes)) (w_rd a w1)) in D'.
  assert (Eda : heap wa d = Some (CData (len bytes))).
  { subst wa. unfold w_wr, w_rd. cbn [heap]. rewrite upd_other by congruence. exact Ed. }
  rewrite (drain_free_data_eq _ d _ wa _ Eda) in D'.
  set (wb := HRef_proofs.w_free (Some d) wa) in D'.
  assert (Eab : heap wb a = Some (CItem 0 (NStr text (Some d) bytes))).
  { subst wb wa. unfold HRef_proofs.w_free, w_wr, w_rd. cbn [heap]. rewrite upd_other by exact Had. apply upd_same. }
  rewrite (drain_free_item_eq _ a _ wb _ Eab) in D'.
  rewrite HRef_proofs.drain_nil in D'. injection D' as D'.
  exists w1, w2. split; [exact R1|]. split; [exact Ea|]. split; [exact Ed|]. split; [exact D|].
  split; [rewrite <- D'; reflexivity|]. split; [exact T1|].
  split.
  { intros b. rewrite <- D'. subst wb wa. unfold HRef_proofs.w_free, w_wr, w_rd. cbn [heap]. unfold upd.
    destruct (N.eqb_spec b a) as [->|Hba]; [reflexivity|].
    destruct (N.eqb_spec b d) as [->|Hbd]; [symmetry; exact Dn|].
    rewrite Hh1. unfold upd. destruct (N.eqb_spec b a); [contradiction|].
    destruct (N.eqb_spec b d); [contradiction|reflexivity]. }
  split; [rewrite <- D'; cbn [next HRef_proofs.w_free wb wa w_wr w_rd]; exact Hn1|].
  split; [exact I2|]. split; [eapply Inv_wf; exact I2|].
  eapply (kq_decref a w1 tt w2 C1 D).
Qed.

(* The whole life of a definite string built by the client: new, set_handle, decref.  Two requests are
   granted, two blocks are freed (the buffer, then the item), and the heap is pointwise the heap
   before the string was created, with the accounting invariant for the client's original references:
   nothing leaks, nothing is freed twice. *)
Corollary string_lifecycle s own ownd w text bytes :
  Inv own ownd [] w -> caps w ->
  refuse (nreq w) SZ_ITEM = false -> refuse (nreq w + 1) (len bytes) = false ->
  let a := next w in let d := next w + 1 in let h := length (handles s) in
  exists s1 w1 w2 w3,
    new_definite_string_op refuse s text w = Ret (s1, OutHandle true) w1 /\ hget s1 h = Some a /\
    set_handle_new refuse s1 h bytes w1 = Ret (s1, OutBool true) w2 /\
    decref a w2 = Ret tt w3 /\
    trace w3 = [EvFree (Some a); EvFree (Some d); EvMalloc (len bytes) (Some d); EvMalloc SZ_ITEM (Some a)]
               ++ trace w /\
    (forall b, heap w3 b = heap w b) /\ next w3 = next w + 2 /\
    Inv own ownd [] w3 /\ wf w3 /\ caps w3.
Proof.
  intros I Cw R1 R2 a d h.
  destruct (new_definite_string_step s own ownd w text I Cw)
    as (s1 & out & w1 & E1 & I1 & W1 & C1 & [(R' & _)|(_ & -> & -> & Dn & Oa & Hh1 & Hn1 & _ & T1)]); [congruence|].
  rewrite new_handle_hpush in I1. fold a in I1, Hh1, Dn, Oa, T1 |- *.
  assert (Hg : hget (hpush s (Some a)) h = Some a).
  { unfold hget, hpush, h. cbn [handles]. rewrite nth_error_app2 by lia. rewrite Nat.sub_diag. reflexivity. }
  assert (Q1 : nreq w1 = nreq w + 1).
  { unfold new_definite_string_op, newh, new_definite_string in E1.
    rewrite (bind_Ret _ _ _ _ _ (malloc_granted refuse SZ_ITEM _ w R1)) in E1. rewrite ret_eq in E1.
    injection E1 as <-. reflexivity. }
  assert (Ea : heap w1 a = Some (CItem 1 (NStr text None []))) by (rewrite Hh1; apply upd_same).
  assert (O1 : 0 < own1 own a a) by (unfold own1; rewrite N.eqb_refl; lia).
  destruct (set_handle_then_release (hpush s (Some a)) (own1 own a) ownd w1 h a text [] bytes I1 C1 Hg O1 Ea)
    as (w2 & w3 & E2 & _ & _ & D & T3 & T2 & Hh3 & Hn3 & I3 & W3 & C3).
  { rewrite Q1. exact R2. }
  exists (hpush s (Some a)), w1, w2, w3.
  split; [exact E1|]. split; [exact Hg|]. split; [exact E2|]. split; [exact D|].
  split; [rewrite T3, T2, T1, Hn1; reflexivity|].
  assert (HH : forall b, heap w3 b = heap w b).
  { intros b. rewrite Hh3, Hh1. unfold upd. destruct (N.eqb_spec b a) as [->|]; [symmetry; exact Dn|reflexivity]. }
  split; [exact HH|]. split; [rewrite Hn3, Hn1; lia|].
  assert (I3' : Inv own ownd [] w3).
  { eapply Inv_own_ext; [exact I3| |reflexivity].
    intros x. unfold own_dec, own1. destruct (N.eqb_spec x a); lia. }
  split; [exact I3'|]. split; [exact W3|exact C3].
Qed.

End Calls.

(* ------------------------------------------------------------------------------------------ *)
(* 3. sanity checks by computation                                                             *)
(* ------------------------------------------------------------------------------------------ *)

(* new, set_handle, shorten, decref with the allocator that grants everything: the string reads
   [1; 2] after shortening, and the final heap is empty *)
Example ex_lifecycle :
  match (r1 <- new_definite_string_op never s0 true ;;
         r2 <- set_handle_new never (fst r1) 0 [1; 2; 3] ;;
         r3 <- set_handle_shorten (fst r2) 0 2 ;;
         t <- abs 1 1 ;;
         decref 1 ;;; ret (snd r1, snd r2, snd r3, t)) world0 with
  | Ret r w => r = (OutHandle true, OutBool true, OutBool true, IText [1; 2]) /\
               map (heap w) [0; 1; 2; 3] = [None; None; None; None] /\
               trace w = [EvFree (Some 1); EvFree (Some 2); EvMalloc 3 (Some 2); EvMalloc 48 (Some 1)]
  | Fault _ => False
  end.
Proof. vm_compute. repeat split. Qed.

(* the legality conditions are needed: a second set_handle with a new buffer would leak the first
   (the model flags it), and a length beyond the buffer is out of bounds *)
Example ex_set_handle_twice :
  (r1 <- new_definite_string_op never s0 false ;;
   r2 <- set_handle_new never (fst r1) 0 [1; 2; 3] ;;
   set_handle_new never (fst r2) 0 [4]) world0 = Fault (FAssert 50).
Proof. vm_compute. reflexivity. Qed.
Example ex_shorten_too_long :
  (r1 <- new_definite_string_op never s0 false ;;
   r2 <- set_handle_new never (fst r1) 0 [1; 2; 3] ;;
   set_handle_shorten (fst r2) 0 4) world0 = Fault FOutOfBounds.
Proof. vm_compute. reflexivity. Qed.
(* a refused buffer request: OutBool false, the string is still without buffer *)
Example ex_set_handle_refused :
  match (r1 <- new_definite_string_op (fun i _ => i =? 1) s0 false ;;
         r2 <- set_handle_new (fun i _ => i =? 1) (fst r1) 0 [1; 2; 3] ;; ret (snd r2)) world0 with
  | Ret r w => r = OutBool false /\ heap w 1 = Some (CItem 1 (NStr false None [])) /\ heap w 2 = None /\ next w = 2
  | Fault _ => False
  end.
Proof. vm_compute. repeat split. Qed.

(* ------------------------------------------------------------------------------------------ *)
(* 4. the traversal: cbor_describe, and the recursion depth of every read-only walk            *)
(* ------------------------------------------------------------------------------------------ *)

(* cbor_describe visits the item exactly as [abs] does (and prints) *)
Definition describe_walk (fuel : nat) (a : addr) : M unit := t <- abs fuel a ;; ret tt.

(* no store, no allocator request, no block freed: only reads are logged *)
Theorem describe_walk_readonly fuel a w u w' :
  describe_walk fuel a w = Ret u w' ->
  heap w' = heap w /\ next w' = next w /\ nreq w' = nreq w /\ trace w' = trace w /\
  (exists reads, alog w' = reads ++ alog w /\ Forall (fun x => exists b, x = AccR b) reads).
Proof.
  intros H. unfold describe_walk in H. apply bind_inv in H. destruct H as (t & w1 & H1 & H2).
  unfold ret in H2. injection H2 as _ <-. exact (abs_readonly fuel a w t w1 H1).
Qed.

(* height of a tree counting every node level: the recursion depth of the C traversals
   (cbor_decref, cbor_copy, cbor_serialize, cbor_describe); a chunked string recurses into its chunks *)
Fixpoint depth_nodes (t : item) : nat :=
  match t with
  | IArray _ xs => S (fold_right (fun x m => Nat.max (depth_nodes x) m) O xs)
  | IMap _ kvs => S (fold_right (fun kv m => Nat.max (Nat.max (depth_nodes (fst kv)) (depth_nodes (snd kv))) m) O kvs)
  | ITag _ x => S (depth_nodes x)
  | IBytesI _ | ITextI _ => 2%nat
  | _ => 1%nat
  end.
(* the recursion depth of the model's [abs]: it reads the chunks of a chunked string without recursing *)
Fixpoint depth_walk (t : item) : nat :=
  match t with
  | IArray _ xs => S (fold_right (fun x m => Nat.max (depth_walk x) m) O xs)
  | IMap _ kvs => S (fold_right (fun kv m => Nat.max (Nat.max (depth_walk (fst kv)) (depth_walk (snd kv))) m) O kvs)
  | ITag _ x => S (depth_walk x)
  | _ => 1%nat
  end.

Lemma depth_nodes_array i xs :
  depth_nodes (IArray i xs) = S (fold_right (fun x m => Nat.max (depth_nodes x) m) O xs).
Proof. reflexivity. Qed.
Lemma depth_nodes_map i kvs :
  depth_nodes (IMap i kvs) =
  S (fold_right (fun kv m => Nat.max (Nat.max (depth_nodes (fst kv)) (depth_nodes (snd kv))) m) O kvs).
Proof. reflexivity. Qed.
Lemma depth_walk_array i xs :
  depth_walk (IArray i xs) = S (fold_right (fun x m => Nat.max (depth_walk x) m) O xs).
Proof. reflexivity. Qed.
Lemma depth_walk_map i kvs :
  depth_walk (IMap i kvs) =
  S (fold_right (fun kv m => Nat.max (Nat.max (depth_walk (fst kv)) (depth_walk (snd kv))) m) O kvs).
Proof. reflexivity. Qed.

Lemma depth_nodes_pos t : (1 <= depth_nodes t)%nat.
Proof. destruct t; cbn [depth_nodes]; lia. Qed.

Lemma fold_max_le {X} (g : X -> nat) l n :
  (fold_right (fun x m => Nat.max (g x) m) O l <= n)%nat <-> Forall (fun x => (g x <= n)%nat) l.
Proof.
  induction l as [|x r IH]; cbn [fold_right].
  - split; [constructor|lia].
  - split.
    + intros H. constructor; [lia|]. apply IH. lia.
    + intros H. inversion H; subst. apply IH in H3. lia.
Qed.

(* results of mapM, element by element *)
Lemma mapM_transfer {X Y} (g g' : X -> M Y) (P : Y -> Prop) : forall l w ys w',
  (forall x w y w', In x l -> g x w = Ret y w' -> P y -> g' x w = Ret y w') ->
  mapM g l w = Ret ys w' -> Forall P ys -> mapM g' l w = Ret ys w'.
Proof.
  induction l as [|x r IH]; intros w ys w' T H F; cbn [mapM] in *.
  - exact H.
  - apply bind_inv in H. destruct H as (y & w1 & H1 & H). apply bind_inv in H. destruct H as (ys1 & w2 & H2 & H).
    unfold ret in H. injection H as <- <-. inversion F; subst.
    rewrite (bind_Ret _ _ _ _ _ (T x w y w1 (or_introl eq_refl) H1 H3)).
    rewrite (bind_Ret _ _ _ _ _ (IH w1 ys1 w2 (fun x0 w0 y0 w0' Hin => T x0 w0 y0 w0' (or_intror Hin)) H2 H4)).
    reflexivity.
Qed.

Lemma mapM_all {X Y} (g : X -> M Y) (P : Y -> Prop) : forall l w ys w',
  (forall x w y w', g x w = Ret y w' -> P y) -> mapM g l w = Ret ys w' -> Forall P ys.
Proof.
  induction l as [|x r IH]; intros w ys w' T H; cbn [mapM] in *.
  - unfold ret in H. injection H as <- _. constructor.
  - apply bind_inv in H. destruct H as (y & w1 & H1 & H). apply bind_inv in H. destruct H as (ys1 & w2 & H2 & H).
    unfold ret in H. injection H as <- _. constructor; [eapply T; exact H1|eapply IH; eassumption].
Qed.

(* The result of a successful traversal does not depend on the fuel, and any fuel that covers the
   height of the tree succeeds (with the same final world: the same cells are read in the same order) *)
Theorem abs_fuel_indep : forall fuel a w t w', abs fuel a w = Ret t w' ->
  forall fuel', (depth_nodes t <= fuel')%nat -> abs fuel' a w = Ret t w'.
Proof.
  induction fuel as [|f IH]; intros a w t w' H fuel' Hd; [discriminate H|].
  destruct fuel' as [|f']; [pose proof (depth_nodes_pos t); lia|].
  cbn [abs] in H |- *. apply bind_inv in H. destruct H as ([rc n] & w1 & H1 & H).
  rewrite (bind_Ret _ _ _ _ _ H1). cbn [fst snd] in H |- *.
  destruct n as [neg iw v|fw bits|v|text data bytes|text hdr arr cap chunks|indef data al elems|indef data al pairs|v [x|]];
    try exact H.
  - (* array *)
    apply bind_inv in H. destruct H as (u & w2 & H2 & H). apply bind_inv in H. destruct H as (xs & w3 & H3 & H).
    unfold ret in H. injection H as <- <-.
    rewrite depth_nodes_array in Hd. apply le_S_n in Hd. apply fold_max_le in Hd.
    rewrite (bind_Ret _ _ _ _ _ H2).
    rewrite (bind_Ret _ _ _ _ _ (mapM_transfer (abs f) (abs f') _ elems w2 xs w3
               (fun x w0 y w0' _ E P => IH x w0 y w0' E f' P) H3 Hd)).
    reflexivity.
  - (* map *)
    apply bind_inv in H. destruct H as (u & w2 & H2 & H). apply bind_inv in H. destruct H as (kvs & w3 & H3 & H).
    unfold ret in H. injection H as <- <-.
    rewrite depth_nodes_map in Hd. apply le_S_n in Hd.
    apply (fold_max_le (fun kv => Nat.max (depth_nodes (fst kv)) (depth_nodes (snd kv)))) in Hd.
    rewrite (bind_Ret _ _ _ _ _ H2).
    set (g := fun fl (kv : addr * option addr) =>
                k <- abs fl (fst kv) ;;
                match snd kv with
                | Some v => v' <- abs fl v ;; ret (k, v')
                | None => fail FNull
                end).
    change (mapM (g f) pairs w2 = Ret kvs w3) in H3.
    assert (T : mapM (g f') pairs w2 = Ret kvs w3).
    { eapply (mapM_transfer (g f) (g f') _ pairs w2 kvs w3); [|exact H3|exact Hd].
      intros [k ov] w0 [k' v'] w0' _ E P. unfold g in *. cbn [fst snd] in *.
      apply bind_inv in E. destruct E as (k1 & w4 & E1 & E). destruct ov as [v0|]; [|discriminate E].
      apply bind_inv in E. destruct E as (v1 & w5 & E2 & E). unfold ret in E. injection E as <- <- <-.
      rewrite (bind_Ret _ _ _ _ _ (IH _ _ _ _ E1 f' ltac:(lia))).
      rewrite (bind_Ret _ _ _ _ _ (IH _ _ _ _ E2 f' ltac:(lia))). reflexivity. }
    change (bind (mapM (g f') pairs) (fun kvs0 => ret (IMap indef kvs0)) w2 = Ret (IMap indef kvs) w3).
    rewrite (bind_Ret _ _ _ _ _ T). reflexivity.
  - (* tag *)
    apply bind_inv in H. destruct H as (x' & w2 & H2 & H). unfold ret in H. injection H as <- <-.
    cbn [depth_nodes] in Hd.
    rewrite (bind_Ret _ _ _ _ _ (IH _ _ _ _ H2 f' ltac:(lia))). reflexivity.
Qed.

(* the statement asked for *)
Corollary abs_fuel_depth : forall fuel a w t w', abs fuel a w = Ret t w' ->
  forall fuel', (depth_nodes t < fuel')%nat -> exists w'', abs fuel' a w = Ret t w''.
Proof. intros fuel a w t w' H fuel' Hd. exists w'. eapply abs_fuel_indep; [exact H|lia]. Qed.

(* conversely the walk really uses that many levels (a chunked string costs the model one level only) *)
Theorem abs_fuel_needed : forall fuel a w t w', abs fuel a w = Ret t w' -> (depth_walk t <= fuel)%nat.
Proof.
  induction fuel as [|f IH]; intros a w t w' H; [discriminate H|].
  cbn [abs] in H. apply bind_inv in H. destruct H as ([rc n] & w1 & H1 & H). cbn [fst snd] in H.
  destruct n as [neg iw v|fw bits|v|text data bytes|text hdr arr cap chunks|indef data al elems|indef data al pairs|v [x|]].
  - unfold ret in H. injection H as <- _. destruct neg; cbn [depth_walk]; lia.
  - unfold ret in H. injection H as <- _. cbn [depth_walk]; lia.
  - unfold ret in H. injection H as <- _. cbn [depth_walk]; lia.
  - apply bind_inv in H. destruct H as (u & w2 & _ & H). unfold ret in H. injection H as <- _.
    destruct text; cbn [depth_walk]; lia.
  - apply bind_inv in H. destruct H as (u & w2 & _ & H). apply bind_inv in H. destruct H as (u2 & w3 & _ & H).
    apply bind_inv in H. destruct H as (cs & w4 & _ & H). unfold ret in H. injection H as <- _.
    destruct text; cbn [depth_walk]; lia.
  - apply bind_inv in H. destruct H as (u & w2 & _ & H). apply bind_inv in H. destruct H as (xs & w3 & H3 & H).
    unfold ret in H. injection H as <- _. rewrite depth_walk_array. apply le_n_S. apply fold_max_le.
    eapply mapM_all; [|exact H3]. intros x w0 y w0' E. eapply IH. exact E.
  - apply bind_inv in H. destruct H as (u & w2 & _ & H). apply bind_inv in H. destruct H as (kvs & w3 & H3 & H).
    unfold ret in H. injection H as <- _. rewrite depth_walk_map. apply le_n_S.
    apply (fold_max_le (fun kv => Nat.max (depth_walk (fst kv)) (depth_walk (snd kv)))).
    eapply mapM_all; [|exact H3]. intros [k ov] w0 [k' v'] w0' E. cbn [fst snd] in *.
    apply bind_inv in E. destruct E as (k1 & w4 & E1 & E). destruct ov as [v0|]; [|discriminate E].
    apply bind_inv in E. destruct E as (v1 & w5 & E2 & E). unfold ret in E. injection E as <- <- _.
    pose proof (IH _ _ _ _ E1). pose proof (IH _ _ _ _ E2). lia.
  - apply bind_inv in H. destruct H as (x' & w2 & H2 & H). unfold ret in H. injection H as <- _.
    cbn [depth_walk]. pose proof (IH _ _ _ _ H2). lia.
  - discriminate H.
Qed.

Lemma depth_walk_le_nodes t : (depth_walk t <= depth_nodes t)%nat.
Proof.
  induction t as [w v|w v|d|cs|d|cs|i xs IH|i kvs IH|v x IH|v|w b] using item_ind';
    try (cbn [depth_walk depth_nodes]; lia).
  - rewrite depth_walk_array, depth_nodes_array. apply le_n_S.
    induction IH as [|x r Hx _ IHr]; cbn [fold_right]; lia.
  - rewrite depth_walk_map, depth_nodes_map. apply le_n_S.
    induction IH as [|x r [Hk Hv] _ IHr]; cbn [fold_right]; lia.
Qed.

(* the relation with the decoder's nesting depth (SpecItem.depth): one more, no more *)
Lemma depth_array_cons i x xs :
  depth (IArray i (x :: xs)) = 1 + fold_right (fun x m => N.max (depth x) m) 0 (x :: xs).
Proof. destruct i; reflexivity. Qed.
Lemma depth_map_cons i kv kvs :
  depth (IMap i (kv :: kvs)) =
  1 + fold_right (fun kv m => N.max (N.max (depth (fst kv)) (depth (snd kv))) m) 0 (kv :: kvs).
Proof. destruct i; reflexivity. Qed.

Theorem depth_nodes_le_depth t : (depth_nodes t <= N.to_nat (depth t) + 1)%nat.
Proof.
  induction t as [w v|w v|d|cs|d|cs|i xs IH|i kvs IH|v x IH|v|w b] using item_ind';
    try (cbn [depth depth_nodes]; lia).
  - destruct xs as [|x0 r]; [cbn [depth_nodes fold_right]; lia|].
    rewrite depth_nodes_array, depth_array_cons.
    assert (G : (fold_right (fun x m => Nat.max (depth_nodes x) m) O (x0 :: r) <=
                 N.to_nat (fold_right (fun x m => N.max (depth x) m) 0%N (x0 :: r)) + 1)%nat).
    { induction IH as [|x r' Hx _ IHr]; cbn [fold_right]; lia. }
    lia.
  - destruct kvs as [|kv0 r]; [cbn [depth_nodes fold_right]; lia|].
    rewrite depth_nodes_map, depth_map_cons.
    assert (G : (fold_right (fun kv m => Nat.max (Nat.max (depth_nodes (fst kv)) (depth_nodes (snd kv))) m) O (kv0 :: r) <=
                 N.to_nat (fold_right (fun kv m => N.max (N.max (depth (fst kv)) (depth (snd kv))) m) 0%N (kv0 :: r)) + 1)%nat).
    { induction IH as [|x r' [Hk Hv] _ IHr]; cbn [fold_right]; lia. }
    lia.
Qed.

(* any heap tree whose abstraction has nesting depth at most L is traversed with L + 1 levels *)
Theorem traversal_depth_bound L fuel a w t w' :
  abs fuel a w = Ret t w' -> depth t <= L -> abs (S (N.to_nat L)) a w = Ret t w'.
Proof.
  intros H Hd. eapply abs_fuel_indep; [exact H|]. pose proof (depth_nodes_le_depth t). lia.
Qed.

(* C19, "release / copy / serialize / describe complete within recursion depth proportional to L":
   a tree accepted by cbor_load under the stack bound L (allocator granting everything) has
   [depth t <= L], and its traversal succeeds with recursion depth L + 1 *)
Theorem C19_traversal_depth L cap own ownd buf w a c p r w' :
  SIZE_MAX <= cap -> bytes_ok buf -> len buf < 2 ^ 57 -> wf w -> Inv own ownd [] w ->
  load_h grant L buf w = Ret (Some a, c, p, r) w' ->
  exists t w'', load L cap buf = LOk t r /\ depth t <= L /\ (depth_nodes t <= N.to_nat L + 1)%nat /\
    abs (S (N.to_nat L)) a w' = Ret t w'' /\
    describe_walk (S (N.to_nat L)) a w' = Ret tt w''.
Proof.
  intros Hcap Hb Hlen W I E.
  destruct (load_h_ok_is_load L cap own ownd buf w a c p r w' Hcap Hb Hlen W I E) as (t & w'' & Ld & A & _ & _).
  assert (Hd : depth t <= L).
  { eapply (C19_load_depth L cap buf t r Hb); [|exact Ld]. unfold SIZE_MAX. change (2 ^ 57) with 144115188075855872 in Hlen. lia. }
  assert (A' : abs (S (N.to_nat L)) a w' = Ret t w'') by (eapply traversal_depth_bound; [exact A|exact Hd]).
  exists t, w''. split; [exact Ld|]. split; [exact Hd|].
  split; [pose proof (depth_nodes_le_depth t); lia|]. split; [exact A'|].
  unfold describe_walk. rewrite (bind_Ret _ _ _ _ _ A'). reflexivity.
Qed.

(* the bound L + 1 is reached: two nested tags around an integer have depth 2 and need 3 levels *)
Example ex_depth_tight :
  match (i <- (build_int never false I8 7 >>= must) ;;
         t1 <- (build_tag never 1 i >>= must) ;;
         t2 <- (build_tag never 2 t1 >>= must) ;; ret t2) world0 with
  | Ret a w =>
      match abs 3 a w with
      | Ret t _ => t = ITag 2 (ITag 1 (IUint I8 7)) /\ depth t = 2 /\ depth_nodes t = 3%nat
      | Fault _ => False
      end /\ abs 2 a w = Fault FFuel
  | Fault _ => False
  end.
Proof. vm_compute. repeat split. Qed.
(* depth_nodes t = depth t + 1 is not an identity: an empty definite array inside a tag *)
Example ex_depth_relation :
  (depth_nodes (ITag 1 (IArray false [])) = 2%nat /\ depth (ITag 1 (IArray false [])) = 1) /\
  (depth_nodes (IArray true []) = 1%nat /\ depth (IArray true []) = 1) /\
  (depth_nodes (IBytesI [[1]]) = 2%nat /\ depth (IBytesI [[1]]) = 1).
Proof. vm_compute. repeat split. Qed.

Print Assumptions Inv_install_block.
Print Assumptions new_definite_string_step.
Print Assumptions set_handle_new_step.
Print Assumptions set_handle_shorten_step.
Print Assumptions C04_step2.
Print Assumptions C04_step2_no_fault.
Print Assumptions set_handle_then_release.
Print Assumptions string_lifecycle.
Print Assumptions describe_walk_readonly.
Print Assumptions abs_fuel_indep.
Print Assumptions abs_fuel_depth.
Print Assumptions abs_fuel_needed.
Print Assumptions depth_nodes_le_depth.
Print Assumptions traversal_depth_bound.
Print Assumptions C19_traversal_depth.
